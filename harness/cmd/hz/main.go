// hz: harness entry point.
//
//	hz gen <generator> <seed> <n>     write n case lines to stdout
//	hz impl                           answer case lines from stdin, one JSON line each
//	hz extract <repo> <outdir>        regenerate Lean facts from the Go sources
package main

import (
	"bufio"
	"fmt"
	"math/rand"
	"os"
	"strconv"

	"verif/harness/internal/extract"
	"verif/harness/internal/gen"
	"verif/harness/internal/impl"
	"verif/harness/internal/proto"
)

func main() {
	if len(os.Args) < 2 {
		fmt.Fprintln(os.Stderr, "usage: hz gen|impl|extract ...")
		os.Exit(2)
	}
	switch os.Args[1] {
	case "gen":
		if len(os.Args) != 5 {
			fmt.Fprintln(os.Stderr, "usage: hz gen <generator> <seed> <n>; generators:", gen.Names())
			os.Exit(2)
		}
		g, ok := gen.Get(os.Args[2])
		if !ok {
			fmt.Fprintln(os.Stderr, "unknown generator; have", gen.Names())
			os.Exit(2)
		}
		seed, _ := strconv.ParseInt(os.Args[3], 10, 64)
		n, _ := strconv.Atoi(os.Args[4])
		w := bufio.NewWriterSize(os.Stdout, 1<<20)
		g(rand.New(rand.NewSource(seed)), n, func(line string) { w.WriteString(line); w.WriteByte('\n') })
		w.Flush()
	case "impl":
		w := bufio.NewWriter(os.Stdout)
		err := proto.Read(os.Stdin, func(c *proto.Case) {
			out := impl.Run(c)
			w.Write(proto.Marshal(out))
			w.WriteByte('\n')
			w.Flush() // flush per line: an unrecoverable death is attributed to the next case
		})
		if err != nil {
			fmt.Fprintln(os.Stderr, err)
			os.Exit(2)
		}
	case "extract":
		if len(os.Args) != 4 {
			fmt.Fprintln(os.Stderr, "usage: hz extract <repo> <outdir>")
			os.Exit(2)
		}
		if err := extract.Run(os.Args[2], os.Args[3]); err != nil {
			fmt.Fprintln(os.Stderr, err)
			os.Exit(2)
		}
	default:
		fmt.Fprintln(os.Stderr, "unknown subcommand")
		os.Exit(2)
	}
}
