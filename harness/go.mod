module verif/harness

go 1.22

require (
	github.com/btcsuite/btcd/btcec/v2 v2.1.3
	github.com/trustbloc/sidetree-go v0.0.0
)

require (
	github.com/btcsuite/btcutil v1.0.3-0.20201208143702-a53e38424cce // indirect
	github.com/decred/dcrd/dcrec/secp256k1/v4 v4.0.1 // indirect
	github.com/evanphx/json-patch v4.1.0+incompatible // indirect
	github.com/go-jose/go-jose/v3 v3.0.1 // indirect
	github.com/minio/blake2b-simd v0.0.0-20160723061019-3f5f724cb5b1 // indirect
	github.com/minio/sha256-simd v0.1.1 // indirect
	github.com/mr-tron/base58 v1.2.0 // indirect
	github.com/multiformats/go-base32 v0.1.0 // indirect
	github.com/multiformats/go-base36 v0.1.0 // indirect
	github.com/multiformats/go-multibase v0.1.1 // indirect
	github.com/multiformats/go-multihash v0.0.14 // indirect
	github.com/multiformats/go-varint v0.0.6 // indirect
	github.com/pkg/errors v0.9.1 // indirect
	github.com/spaolacci/murmur3 v1.1.0 // indirect
	golang.org/x/crypto v0.17.0 // indirect
	golang.org/x/sys v0.15.0 // indirect
)

replace github.com/trustbloc/sidetree-go => /repo
