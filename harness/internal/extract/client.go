package extract

import (
	"go/ast"
	"strings"
)

const (
	clientDir   = "pkg/versions/1_0/client/"
	stClientGo  = "pkg/vdr/sidetreelongform/sidetree/client.go"
	stDocGo     = "pkg/vdr/sidetreelongform/sidetree/doc/doc.go"
	modelUtilGo = "pkg/versions/1_0/model/util.go"
	requestGo   = "pkg/versions/1_0/model/request.go"
)

func init() { extraExtractors = append(extraExtractors, (*ctx).clientFacts) }

// clientFacts: C08 — control skeletons of the request builders, of the Sidetree client's
// request assembly and of the document marshalling, plus the json tags of the request structs.
func (c *ctx) clientFacts() {
	const lt = "List String"
	type pf struct{ rel, fn string }
	for _, p := range []pf{
		{clientDir + "create.go", "NewCreateRequest"}, {clientDir + "create.go", "getPatches"}, {clientDir + "create.go", "validateCreateRequest"},
		{clientDir + "update.go", "NewUpdateRequest"}, {clientDir + "update.go", "validateUpdateRequest"}, {clientDir + "update.go", "validateUpdateKey"},
		{clientDir + "recover.go", "NewRecoverRequest"}, {clientDir + "recover.go", "validateRecoverRequest"}, {clientDir + "recover.go", "validateRecoveryKey"},
		{clientDir + "recover.go", "validateCommitment"},
		{clientDir + "deactivate.go", "NewDeactivateRequest"}, {clientDir + "deactivate.go", "validateDeactivateRequest"}, {clientDir + "deactivate.go", "validateSigner"},
		{stClientGo, "buildCreateRequest"}, {stClientGo, "buildUpdateRequest"}, {stClientGo, "buildRecoverRequest"}, {stClientGo, "buildDeactivateRequest"},
		{stClientGo, "createUpdatePatches"}, {stClientGo, "getUniqueSuffix"}, {stClientGo, "getCommitment"},
		{stClientGo, "createRemovePublicKeysPatch"}, {stClientGo, "createRemoveServicesPatch"}, {stClientGo, "createRemoveAlsoKnownAsPatch"},
		{stClientGo, "createAddAlsoKnownAsPatch"}, {stClientGo, "createAddServicesPatch"}, {stClientGo, "createAddPublicKeysPatch"},
		{stClientGo, "validateCreateReq"}, {stClientGo, "validateUpdateReq"}, {stClientGo, "validateRecoverReq"}, {stClientGo, "validateDeactivateReq"},
		{stDocGo, "JSONBytes"}, {stDocGo, "PopulateRawPublicKeys"}, {stDocGo, "populateRawPublicKey"}, {stDocGo, "PopulateRawServices"}, {stDocGo, "PopulateRawAlsoKnownAs"},
	} {
		base := strings.TrimSuffix(p.rel[strings.LastIndex(p.rel, "/")+1:], ".go")
		c.add("Client", "skel_"+base+"_"+p.fn, lt, c.skel(p.rel, p.fn), p.rel+":"+p.fn, "control skeleton")
	}
	// what the builders copy into the models they marshal and sign
	const lit = "List (List (String × String))"
	for _, l := range []struct{ rel, fn, typ string }{
		{clientDir + "create.go", "NewCreateRequest", "model.DeltaModel"}, {clientDir + "create.go", "NewCreateRequest", "model.SuffixDataModel"},
		{clientDir + "create.go", "NewCreateRequest", "model.CreateRequest"},
		{clientDir + "update.go", "NewUpdateRequest", "model.DeltaModel"}, {clientDir + "update.go", "NewUpdateRequest", "model.UpdateSignedDataModel"},
		{clientDir + "update.go", "NewUpdateRequest", "model.UpdateRequest"},
		{clientDir + "recover.go", "NewRecoverRequest", "model.DeltaModel"}, {clientDir + "recover.go", "NewRecoverRequest", "model.RecoverSignedDataModel"},
		{clientDir + "recover.go", "NewRecoverRequest", "model.RecoverRequest"},
		{clientDir + "deactivate.go", "NewDeactivateRequest", "model.DeactivateSignedDataModel"}, {clientDir + "deactivate.go", "NewDeactivateRequest", "model.DeactivateRequest"},
		{modelUtilGo, "GetAnchoredOperation", "CreateRequest"}, {modelUtilGo, "GetAnchoredOperation", "UpdateRequest"},
		{modelUtilGo, "GetAnchoredOperation", "DeactivateRequest"}, {modelUtilGo, "GetAnchoredOperation", "RecoverRequest"},
		{modelUtilGo, "GetAnchoredOperation", "operation.AnchoredOperation"},
		{stClientGo, "buildCreateRequest", "client.CreateRequestInfo"}, {stClientGo, "buildCreateRequest", "doc.Doc"},
		{stClientGo, "buildUpdateRequest", "client.UpdateRequestInfo"},
		{stClientGo, "buildRecoverRequest", "client.RecoverRequestInfo"}, {stClientGo, "buildRecoverRequest", "doc.Doc"},
		{stClientGo, "buildDeactivateRequest", "client.DeactivateRequestInfo"},
		{stDocGo, "JSONBytes", "rawDoc"},
	} {
		c.add("Client", "lit_"+l.fn+"_"+strings.ReplaceAll(l.typ, ".", "_"), lit, c.literalFields(l.rel, l.fn, l.typ), l.rel+":"+l.fn, l.typ+" literal")
	}
	// struct tags decide which members a request carries
	for _, st := range []string{"CreateRequest", "SuffixDataModel", "DeltaModel", "UpdateRequest", "DeactivateRequest", "RecoverRequest",
		"UpdateSignedDataModel", "RecoverSignedDataModel", "DeactivateSignedDataModel"} {
		c.add("Client", "lit_tags_"+st, lt, c.structTags(requestGo, st), requestGo+":"+st, "json tags")
	}
	c.add("Client", "lit_tags_JWK", lt, c.structTags("pkg/jws/jwk.go", "JWK"), "pkg/jws/jwk.go:JWK", "json tags")
	// the canonicalizer: the transformer is one function made of closures; its whole text is the fact
	c.add("Jcs", "skel_jcs_Transform", lt, c.skel("pkg/internal/jsoncanonicalizer/jsoncanonicalizer.go", "Transform"), "pkg/internal/jsoncanonicalizer/jsoncanonicalizer.go:Transform", "statements (closures verbatim)")
	c.add("Jcs", "skel_jcs_NumberToJSON", lt, c.skel("pkg/internal/jsoncanonicalizer/es6numfmt.go", "NumberToJSON"), "pkg/internal/jsoncanonicalizer/es6numfmt.go:NumberToJSON", "control skeleton")
	c.add("Jcs", "skel_jcs_MarshalCanonical", lt, c.skel("pkg/canonicalizer/canonicalizer.go", "MarshalCanonical"), "pkg/canonicalizer/canonicalizer.go:MarshalCanonical", "control skeleton")
	for _, f := range []string{"ComputeMultihash", "GetMultihash", "GetMultihashCode", "IsSupportedMultihash", "IsComputedUsingMultihashAlgorithms", "CalculateModelMultihash", "IsValidModelMultihash", "GetHashFromMultihash", "GetHash"} {
		c.add("Jcs", "skel_hashing_"+f, lt, c.skel("pkg/hashing/hash.go", f), "pkg/hashing/hash.go:"+f, "control skeleton")
	}
	for _, f := range []string{"GetRevealValue", "GetCommitment", "GetCommitmentFromRevealValue"} {
		c.add("Jcs", "skel_commitment_"+f, lt, c.skel("pkg/commitment/hash.go", f), "pkg/commitment/hash.go:"+f, "control skeleton")
	}
	for _, f := range []string{"PatchesFromDocument", "NewReplacePatch", "NewJSONPatch", "NewAddPublicKeysPatch", "NewRemovePublicKeysPatch", "NewAddServiceEndpointsPatch",
		"NewRemoveServiceEndpointsPatch", "NewAddAlsoKnownAs", "NewRemoveAlsoKnownAs", "GetValue", "GetAction", "Bytes", "JSONLdObject", "FromBytes", "stringEntry",
		"validateReplaceDocument", "contains", "validateDocument", "getPublicKeys", "getServices", "getStringArray", "getGenericArray", "sortedKeys"} {
		c.add("PatchPkg", "skel_patch_"+f, lt, c.skel("pkg/patch/patch.go", f), "pkg/patch/patch.go:"+f, "control skeleton")
	}
	c.add("Client", "lit_tags_rawDoc", lt, c.structTags(stDocGo, "rawDoc"), stDocGo+":rawDoc", "json tags")
}

// structTags lists "Field type `json tag`" of a struct declaration, in source order.
func (c *ctx) structTags(rel, name string) string {
	f := c.file(rel)
	if f == nil {
		return ""
	}
	var out []string
	found := false
	ast.Inspect(f, func(n ast.Node) bool {
		ts, ok := n.(*ast.TypeSpec)
		if !ok || ts.Name.Name != name {
			return true
		}
		st, ok := ts.Type.(*ast.StructType)
		if !ok {
			return false
		}
		found = true
		for _, fld := range st.Fields.List {
			tag := ""
			if fld.Tag != nil {
				tag = strings.Trim(fld.Tag.Value, "`")
			}
			names := []string{}
			for _, n := range fld.Names {
				names = append(names, n.Name)
			}
			out = append(out, strings.Join(names, ",")+" "+c.src(fld.Type)+" "+tag)
		}
		return false
	})
	if !found {
		return ""
	}
	return LeanStrList(out)
}
