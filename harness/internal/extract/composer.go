package extract

import (
	"go/ast"
	"strings"
)

const composerGo = "pkg/versions/1_0/doccomposer/composer.go"

func init() { extraExtractors = append(extraExtractors, (*ctx).composerFacts) }

// switchDispatch lists (resolved case value, first call in the case body) of the first switch in fd.
func (c *ctx) switchDispatch(fd *ast.FuncDecl, r *resolver) ([]string, bool) {
	var out []string
	ok := false
	if fd == nil {
		return nil, false
	}
	ast.Inspect(fd.Body, func(n ast.Node) bool {
		sw, isSw := n.(*ast.SwitchStmt)
		if !isSw || ok {
			return true
		}
		ok = true
		for _, st := range sw.Body.List {
			cc := st.(*ast.CaseClause)
			call := ""
			for _, b := range cc.Body {
				ast.Inspect(b, func(m ast.Node) bool {
					if ce, isCall := m.(*ast.CallExpr); isCall && call == "" {
						call = c.src(ce.Fun)
					}
					return true
				})
			}
			if cc.List == nil {
				continue
			}
			for _, e := range cc.List {
				v, res := r.str(e)
				if !res {
					v = c.src(e)
				}
				out = append(out, "("+LeanStr(v)+", "+LeanStr(call)+")")
			}
		}
		return false
	})
	return out, ok
}

func (c *ctx) composerFacts() {
	docC := c.consts("pkg/document")
	patchC := c.consts("pkg/patch")
	r := &resolver{local: map[string]string{}, pkgs: map[string]map[string]string{"document": docC, "patch": patchC}}
	if d, ok := c.switchDispatch(c.fn(composerGo, "applyPatch"), r); ok {
		c.add("Composer", "composerDispatch", "List (String × String)", rawList(d), composerGo+":applyPatch", "")
	} else {
		c.add("Composer", "composerDispatch", "List (String × String)", "", composerGo+":applyPatch", "")
	}
	calls := c.assignCalls(c.fn(composerGo, "applyJSON"))
	c.add("Composer", "applyJSONShape", "List String", listOrEmpty(calls), composerGo+":applyJSON", "call chain; the last call applies one operation at a time")
	// ApplyPatches: first statement must take a deep copy of the input document (C12)
	first := ""
	if fd := c.fn(composerGo, "ApplyPatches"); fd != nil && len(fd.Body.List) > 0 {
		first = c.src(fd.Body.List[0])
	}
	c.add("Composer", "applyPatchesFirst", "String", optStr(first), composerGo+":ApplyPatches", "")
	c.add("Composer", "deepCopyCalls", "List String", listOrEmpty(c.assignCalls(c.fn(composerGo, "deepCopy"))), composerGo+":deepCopy", "")
	// recover() must be called directly by the deferred closure of applyJSONPatchOperation
	rec := ""
	if fd := c.fn(composerGo, "applyJSONPatchOperation"); fd != nil {
		ast.Inspect(fd.Body, func(n ast.Node) bool {
			ds, ok := n.(*ast.DeferStmt)
			if !ok {
				return true
			}
			if fl, ok := ds.Call.Fun.(*ast.FuncLit); ok {
				for _, st := range fl.Body.List {
					if ifs, ok := st.(*ast.IfStmt); ok && ifs.Init != nil && strings.Contains(c.src(ifs.Init), "recover()") {
						rec = c.src(ifs.Init) + "; " + c.src(ifs.Cond)
					}
				}
			}
			return true
		})
	}
	c.add("Composer", "recoverGuard", "String", optStr(rec), composerGo+":applyJSONPatchOperation", "")
	// control skeletons of everything an ietf-json-patch operation passes on its way to the library
	for _, f := range []string{"ApplyPatches", "applyPatch", "applyJSON", "applyJSONPatchOperation", "targetsOwnSource", "stringMember", "isBelow", "applyRecover",
		"applyAddPublicKeys", "updateKey", "applyRemovePublicKeys", "applyAddServiceEndpoints", "applyRemoveServiceEndpoints", "applyAddAlsoKnownAs", "applyRemoveAlsoKnownAs"} {
		c.add("Composer", "skel_composer_"+f, "List String", c.skel(composerGo, f), composerGo+":"+f, "control skeleton")
	}
	c.add("Composer", "skel_composer_pointerTokenDecoder", "List String", listOrEmpty(c.varSource(composerGo, "pointerTokenDecoder")), composerGo+":pointerTokenDecoder", "replacer")

	// patch.go: PatchesFromDocument
	pr := &resolver{local: patchC, pkgs: map[string]map[string]string{"document": docC}}
	if d, ok := c.switchDispatch(c.fn(patchGo, "PatchesFromDocument"), pr); ok {
		c.add("Patch", "fromDocumentCases", "List (String × String)", rawList(d), patchGo+":PatchesFromDocument", "")
	} else {
		c.add("Patch", "fromDocumentCases", "List (String × String)", "", patchGo+":PatchesFromDocument", "")
	}
	c.add("Patch", "jsonPatchAddTemplate", "String", optStr(patchC["jsonPatchAddTemplate"]), patchGo, "")
}
