package extract

import (
	"go/ast"
	"go/token"
	"os"
	"path/filepath"
	"sort"
	"strings"
)

func init() { extraExtractors = append(extraExtractors, (*ctx).concFacts) }

// goFiles lists the non-test Go files of a package directory (relative paths).
func (c *ctx) goFiles(dir string) []string {
	ents, err := os.ReadDir(filepath.Join(c.repo, dir))
	if err != nil {
		return nil
	}
	var out []string
	for _, e := range ents {
		n := e.Name()
		if !e.IsDir() && strings.HasSuffix(n, ".go") && !strings.HasSuffix(n, "_test.go") {
			out = append(out, filepath.Join(dir, n))
		}
	}
	sort.Strings(out)
	return out
}

func rootIdent(e ast.Expr) *ast.Ident {
	for {
		switch t := e.(type) {
		case *ast.Ident:
			return t
		case *ast.SelectorExpr:
			e = t.X
		case *ast.IndexExpr:
			e = t.X
		case *ast.StarExpr:
			e = t.X
		case *ast.ParenExpr:
			e = t.X
		default:
			return nil
		}
	}
}

// concFacts: C20.
//   - lock discipline of the three registries: per method, the lock calls and the uses of the
//     guarded map in source order;
//   - statelessness of the shared components: methods never assign through their receiver, and
//     functions never assign to package-level variables.
func (c *ctx) concFacts() {
	const lt = "List String"
	type reg struct {
		rel, typ, field string
	}
	base := "pkg/vdr/sidetreelongform/dochandler/"
	for _, r := range []reg{{base + "protocol/nsprovider/namespaceprovider.go", "Provider", "clients"},
		{base + "protocolversion/clientregistry/clientregistry.go", "Registry", "factories"}} {
		f := c.file(r.rel)
		if f == nil {
			c.add("Conc", "lit_conc_lock_"+r.typ, lt, "", r.rel, "")
			continue
		}
		var out []string
		for _, d := range f.Decls {
			fd, ok := d.(*ast.FuncDecl)
			if !ok || fd.Body == nil {
				continue
			}
			recv := ""
			if fd.Recv != nil && len(fd.Recv.List) == 1 && len(fd.Recv.List[0].Names) == 1 {
				recv = fd.Recv.List[0].Names[0].Name
			}
			var evs []string
			ast.Inspect(fd.Body, func(n ast.Node) bool {
				switch t := n.(type) {
				case *ast.DeferStmt:
					if s := c.src(t.Call.Fun); strings.HasSuffix(s, ".mutex.Unlock") || strings.HasSuffix(s, ".mutex.RUnlock") {
						evs = append(evs, "defer "+s[strings.LastIndex(s, ".")+1:])
						return false
					}
				case *ast.CallExpr:
					if s := c.src(t.Fun); strings.Contains(s, ".mutex.") {
						evs = append(evs, s[strings.LastIndex(s, ".")+1:])
						return false
					}
				case *ast.SelectorExpr:
					if id, ok := t.X.(*ast.Ident); ok && (id.Name == recv || recv == "") && t.Sel.Name == r.field {
						if len(evs) == 0 || evs[len(evs)-1] != "use "+r.field {
							evs = append(evs, "use "+r.field)
						}
					}
				}
				return true
			})
			if len(evs) > 0 {
				out = append(out, fd.Name.Name+": "+strings.Join(evs, ", "))
			}
		}
		c.add("Conc", "lit_conc_lock_"+r.typ, lt, listOrEmpty(out), r.rel, "lock calls and uses of the guarded map, per function")
	}

	// stateless components
	for _, dir := range []string{"pkg/versions/1_0/operationparser", "pkg/versions/1_0/operationparser/patchvalidator", "pkg/versions/1_0/operationapplier",
		"pkg/versions/1_0/doccomposer", "pkg/versions/1_0/doctransformer/didtransformer", "pkg/versions/1_0/doctransformer/doctransformer",
		"pkg/versions/1_0/doctransformer/metadata", "pkg/vdr/sidetreelongform/dochandler", "pkg/vdr/sidetreelongform",
		base + "protocol/verprovider", base + "protocol/nsprovider", base + "protocolversion/clientregistry",
		"pkg/jwsutil", "pkg/hashing", "pkg/canonicalizer", "pkg/internal/jsoncanonicalizer", "pkg/docutil", "pkg/patch", "pkg/document", "pkg/commitment"} {
		files := c.goFiles(dir)
		name := strings.NewReplacer("/", "_", "-", "_").Replace(strings.TrimPrefix(dir, "pkg/"))
		if files == nil {
			c.add("Conc", "lit_conc_state_"+name, lt, "", dir, "")
			continue
		}
		globals := map[string]bool{}
		var globalList []string
		for _, rel := range files {
			f := c.file(rel)
			if f == nil {
				continue
			}
			for _, d := range f.Decls {
				if gd, ok := d.(*ast.GenDecl); ok && gd.Tok == token.VAR {
					for _, sp := range gd.Specs {
						for _, n := range sp.(*ast.ValueSpec).Names {
							if n.Name != "_" {
								globals[n.Name] = true
								globalList = append(globalList, "var "+n.Name)
							}
						}
					}
				}
			}
		}
		var writes []string
		for _, rel := range files {
			f := c.file(rel)
			if f == nil {
				continue
			}
			for _, d := range f.Decls {
				fd, ok := d.(*ast.FuncDecl)
				if !ok || fd.Body == nil {
					continue
				}
				recv := ""
				if fd.Recv != nil && len(fd.Recv.List) == 1 && len(fd.Recv.List[0].Names) == 1 {
					recv = fd.Recv.List[0].Names[0].Name
				}
				locals := map[string]bool{}
				note := func(lhs ast.Expr, tok token.Token) {
					id := rootIdent(lhs)
					if id == nil {
						return
					}
					if tok == token.DEFINE {
						if _, plain := lhs.(*ast.Ident); plain {
							locals[id.Name] = true
						}
						return
					}
					_, plain := lhs.(*ast.Ident)
					switch {
					case recv != "" && id.Name == recv && !plain:
						writes = append(writes, fd.Name.Name+": "+c.src(lhs)+" (through the receiver)")
					case globals[id.Name] && !locals[id.Name]:
						writes = append(writes, fd.Name.Name+": "+c.src(lhs)+" (package-level variable)")
					}
				}
				ast.Inspect(fd.Body, func(n ast.Node) bool {
					switch t := n.(type) {
					case *ast.AssignStmt:
						for _, l := range t.Lhs {
							note(l, t.Tok)
						}
					case *ast.IncDecStmt:
						note(t.X, token.ASSIGN)
					case *ast.FuncLit:
						// option closures assign to their own parameter
						return true
					}
					return true
				})
			}
		}
		sort.Strings(globalList)
		c.add("Conc", "lit_conc_state_"+name, lt, LeanStrList(append(globalList, writes...)), dir, "package-level variables, then every assignment through a receiver or to a package-level variable")
	}
}
