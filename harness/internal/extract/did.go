package extract

import (
	"go/ast"
	"sort"
	"strings"
)

const (
	didTransGo = "pkg/versions/1_0/doctransformer/didtransformer/transformer.go"
	metadataGo = "pkg/versions/1_0/doctransformer/metadata/metadata.go"
	methodGo   = "pkg/versions/1_0/operationparser/method.go"
	dochGo     = "pkg/vdr/sidetreelongform/dochandler/dochandler.go"
	docutilGo  = "pkg/docutil/docutil.go"
	pcfgGo     = "pkg/vdr/sidetreelongform/dochandler/protocolversion/versions/v1_0/config/protocol.go"
	v1clientGo = "pkg/vdr/sidetreelongform/dochandler/protocolversion/versions/v1_0/client/client.go"
	vdrGo      = "pkg/vdr/sidetreelongform/vdr.go"
)

func init() { extraExtractors = append(extraExtractors, (*ctx).didFacts) }

func (c *ctx) didFacts() {
	const lt = "List String"
	type pf struct{ rel, fn string }
	for _, p := range []pf{{didTransGo, "TransformDocument"}, {didTransGo, "processKeys"}, {didTransGo, "processServices"}, {didTransGo, "getObjectID"},
		{didTransGo, "getBase"}, {didTransGo, "getED2519PublicKey"}, {didTransGo, "New"},
		{metadataGo, "CreateDocumentMetadata"}, {metadataGo, "getPublishedOperations"}, {metadataGo, "getUnpublishedOperations"}, {metadataGo, "sortOperations"}} {
		c.add("Transformer", "skel_"+p.fn, lt, c.skel(p.rel, p.fn), p.rel+":"+p.fn, "control skeleton")
	}
	c.add("Transformer", "skel_generic_TransformDocument", lt, c.skel("pkg/versions/1_0/doctransformer/doctransformer/transformer.go", "TransformDocument"),
		"pkg/versions/1_0/doctransformer/doctransformer/transformer.go:TransformDocument", "control skeleton")
	c.add("Transformer", "lit_tags_ResolutionResult", lt, c.structTags("pkg/document/resolution.go", "ResolutionResult"), "pkg/document/resolution.go:ResolutionResult", "json tags")
	for _, p := range []pf{{methodGo, "ParseDID"}, {methodGo, "parseInitialState"}, {dochGo, "ResolveDocument"}, {dochGo, "getNamespace"},
		{dochGo, "resolveRequestWithInitialState"}, {dochGo, "getSuffix"}, {dochGo, "ProcessOperation"}, {dochGo, "getCreateResponse"},
		{dochGo, "createProtocolClient"}, {docutilGo, "GetTransformationInfoForUnpublished"}, {docutilGo, "GetCreateResult"}, {v1clientGo, "Create"},
		{vdrGo, "Create"}, {vdrGo, "Read"}, {vdrGo, "getSidetreePublicKeys"}, {vdrGo, "sendRequest"}} {
		c.add("Did", "skel_"+strings.ReplaceAll(strings.TrimSuffix(p.rel[strings.LastIndex(p.rel, "/")+1:], ".go"), "-", "_")+"_"+p.fn, lt, c.skel(p.rel, p.fn), p.rel+":"+p.fn, "control skeleton")
	}

	// the comparator of sortOperations (body of the func literal handed to sort.Slice)
	cmp := ""
	if fd := c.fn(metadataGo, "sortOperations"); fd != nil {
		ast.Inspect(fd.Body, func(n ast.Node) bool {
			if fl, ok := n.(*ast.FuncLit); ok && cmp == "" {
				var out []string
				c.skeleton(fl.Body, 0, &out)
				cmp = LeanStrList(out)
			}
			return true
		})
	}
	c.add("Transformer", "sortCmp", lt, cmp, metadataGo+":sortOperations", "comparator")

	// key type -> context
	tc := c.consts("pkg/versions/1_0/doctransformer/didtransformer")
	r := &resolver{local: tc, pkgs: map[string]map[string]string{"document": c.consts("pkg/document")}}
	if k, v, ok := c.mapLit(didTransGo, "defaultKeyContextMap", r); ok {
		c.add("Transformer", "keyContexts", "List (String × String)", pairs(k, v), didTransGo, "")
	} else {
		c.add("Transformer", "keyContexts", "List (String × String)", "", didTransGo, "")
	}
	// purpose switch: case constant -> index constant of the `purposes[...]` it appends to
	sw := ""
	if fd := c.fn(didTransGo, "processKeys"); fd != nil {
		var items []string
		ok := true
		ast.Inspect(fd.Body, func(n ast.Node) bool {
			s, isSw := n.(*ast.SwitchStmt)
			if !isSw || s.Tag == nil || c.src(s.Tag) != "p" {
				return true
			}
			for _, cs := range s.Body.List {
				cc := cs.(*ast.CaseClause)
				if cc.List == nil {
					continue
				}
				if len(cc.Body) != 1 {
					ok = false
					continue
				}
				as, isAs := cc.Body[0].(*ast.AssignStmt)
				if !isAs {
					ok = false
					continue
				}
				ix, isIx := as.Lhs[0].(*ast.IndexExpr)
				if !isIx {
					ok = false
					continue
				}
				from, ok1 := r.str(cc.List[0])
				to, ok2 := r.str(ix.Index)
				if !ok1 || !ok2 {
					ok = false
					continue
				}
				items = append(items, "("+LeanStr(from)+", "+LeanStr(to)+")")
			}
			return false
		})
		if ok && len(items) > 0 {
			sw = "[" + strings.Join(items, ", ") + "]"
		}
	}
	c.add("Transformer", "purposeSwitch", "List (String × String)", sw, didTransGo+":processKeys", "")

	// the handler's protocol: fields of the literal in GetProtocolConfig
	proto := ""
	if fd := c.fn(pcfgGo, "GetProtocolConfig"); fd != nil {
		ast.Inspect(fd.Body, func(n ast.Node) bool {
			cl, ok := n.(*ast.CompositeLit)
			if !ok || c.src(cl.Type) != "protocol.Protocol" {
				return true
			}
			var kvs []string
			for _, e := range cl.Elts {
				if kv, ok := e.(*ast.KeyValueExpr); ok {
					kvs = append(kvs, "("+LeanStr(c.src(kv.Key))+", "+LeanStr(c.src(kv.Value))+")")
				}
			}
			sort.Strings(kvs)
			proto = "[" + strings.Join(kvs, ", ") + "]"
			return false
		})
	}
	c.add("Did", "defaultProtocol", "List (String × String)", proto, pcfgGo+":GetProtocolConfig", "")
}
