package extract

import (
	"go/ast"
	"go/token"
	"strings"
)

func init() { extraExtractors = append(extraExtractors, (*ctx).effectFacts) }

// irGen summarises Go functions of one file as programs of the Effects IR
// (alloc / copy / alias / write). Branches are flattened in source order; calls to functions of
// the same file are inlined; other calls return fresh values unless listed as views.
type irGen struct {
	c     *ctx
	funcs map[string]*ast.FuncDecl
	out   []string
	depth int
	ok    bool
}

// functions returning a view of (something reachable from) their first argument
var viewFuncs = map[string]bool{
	"document.ParsePublicKeys": true, "document.ParseServices": true, "document.StringArray": true,
	"document.DidDocumentFromJSONLDObject": true, "document.FromJSONLDObject": true, "document.ReplaceDocumentFromJSONLDObject": true,
	"document.NewPublicKey": true, "document.NewService": true, "document.NewJWK": true,
}

// library procedures that write their first argument in place
var writerFuncs = map[string]bool{"sort.Slice": true, "sort.SliceStable": true, "sort.Strings": true, "sort.Sort": true, "delete": true, "copy": true}

func (g *irGen) emit(s string) { g.out = append(g.out, s) }

func root(e ast.Expr) string {
	for {
		switch t := e.(type) {
		case *ast.Ident:
			return t.Name
		case *ast.IndexExpr:
			e = t.X
		case *ast.SelectorExpr:
			e = t.X
		case *ast.SliceExpr:
			e = t.X
		case *ast.StarExpr:
			e = t.X
		case *ast.ParenExpr:
			e = t.X
		case *ast.TypeAssertExpr:
			e = t.X
		case *ast.UnaryExpr:
			e = t.X
		case *ast.CallExpr:
			// method call on a local value: a view of the receiver
			if sel, ok := t.Fun.(*ast.SelectorExpr); ok {
				e = sel.X
			} else {
				return ""
			}
		default:
			return ""
		}
	}
}

func q(prefix, name string) string { return prefix + "/" + name }

// assign generates IR for `x = e` where x is a plain identifier.
func (g *irGen) assign(prefix, x string, e ast.Expr) {
	if x == "_" || x == "" {
		// still evaluate calls for their effects
		if call, ok := e.(*ast.CallExpr); ok {
			g.call(prefix, "", call)
		}
		return
	}
	switch t := e.(type) {
	case *ast.CallExpr:
		g.call(prefix, x, t)
	case *ast.Ident:
		if t.Name == "nil" || t.Name == "true" || t.Name == "false" {
			// fresh value: a plain re-assignment keeps whatever x may already refer to (branches are flattened)
		} else {
			g.emit("Instr.alias " + LeanStr(q(prefix, x)) + " " + LeanStr(q(prefix, t.Name)))
		}
	case *ast.IndexExpr, *ast.SelectorExpr, *ast.SliceExpr, *ast.StarExpr, *ast.TypeAssertExpr, *ast.ParenExpr:
		if r := root(e); r != "" {
			g.emit("Instr.alias " + LeanStr(q(prefix, x)) + " " + LeanStr(q(prefix, r)))
		}
	case *ast.UnaryExpr:
		if t.Op == token.AND {
			if _, lit := t.X.(*ast.CompositeLit); lit {
				return
			}
			if r := root(t.X); r != "" {
				g.emit("Instr.alias " + LeanStr(q(prefix, x)) + " " + LeanStr(q(prefix, r)))
				return
			}
		}
	case *ast.CompositeLit:
	default:
	}
}

// a struct/map literal holding references: the fresh object stays fresh (writing a field of it is
// not a write to what the field refers to), nothing to emit.
func (g *irGen) literalAliases(prefix, x string, cl *ast.CompositeLit) {}

func (g *irGen) call(prefix, x string, call *ast.CallExpr) {
	fun := g.c.src(call.Fun)
	dst := func() string { return LeanStr(q(prefix, x)) }
	// builtins
	switch fun {
	case "append":
		if x != "" && len(call.Args) > 0 {
			if r := root(call.Args[0]); r != "" {
				g.emit("Instr.alias " + dst() + " " + LeanStr(q(prefix, r)))
			}
		}
		return
	case "make", "new", "len", "cap", "string":
		return
	}
	if writerFuncs[fun] && len(call.Args) > 0 {
		if r := root(call.Args[0]); r != "" {
			g.emit("Instr.write " + LeanStr(q(prefix, r)))
		}
		return
	}
	// local function or method of the same file: inline
	name := fun
	if sel, ok := call.Fun.(*ast.SelectorExpr); ok {
		name = sel.Sel.Name
		if _, isLocal := g.funcs[name]; !isLocal || !g.isReceiverCall(sel) {
			name = ""
		}
	}
	if fd, ok := g.funcs[name]; ok && name != "" && g.depth < 6 {
		g.depth++
		cp := prefix + "." + name
		i := 0
		for _, fld := range fd.Type.Params.List {
			for _, pn := range fld.Names {
				if i < len(call.Args) {
					g.assign2(cp, pn.Name, prefix, call.Args[i])
				}
				i++
			}
		}
		g.emit("Instr.alloc " + LeanStr(q(cp, "$ret")))
		g.block(cp, fd.Body)
		g.depth--
		if x != "" {
			g.emit("Instr.alias " + dst() + " " + LeanStr(q(cp, "$ret")))
		}
		return
	}
	if viewFuncs[fun] && len(call.Args) > 0 && x != "" {
		if r := root(call.Args[0]); r != "" {
			g.emit("Instr.alias " + dst() + " " + LeanStr(q(prefix, r)))
			return
		}
	}
	// method call on a local value: conservatively a view of the receiver
	if sel, ok := call.Fun.(*ast.SelectorExpr); ok && x != "" {
		if id, isId := sel.X.(*ast.Ident); isId && id.Obj == nil && !isPackageName(id.Name) {
			g.emit("Instr.alias " + dst() + " " + LeanStr(q(prefix, id.Name)))
			return
		}
	}
}

var knownPackages = map[string]bool{"json": true, "fmt": true, "errors": true, "document": true, "patch": true, "jsonpatch": true, "hashing": true,
	"internal": true, "logfields": true, "logger": true, "strings": true, "sort": true, "protocol": true, "operation": true, "model": true, "canonicalizer": true}

func isPackageName(n string) bool { return knownPackages[n] }

func (g *irGen) isReceiverCall(sel *ast.SelectorExpr) bool {
	id, ok := sel.X.(*ast.Ident)
	return ok && !isPackageName(id.Name)
}

// assign2: callee parameter := caller argument (names live in different prefixes)
func (g *irGen) assign2(calleePrefix, param, callerPrefix string, arg ast.Expr) {
	if r := root(arg); r != "" && !isPackageName(r) {
		if _, isCall := arg.(*ast.CallExpr); isCall {
			// evaluate the argument expression into a temporary of the caller
			tmp := "$arg" + param
			g.assign(callerPrefix, tmp, arg)
			g.emit("Instr.alloc " + LeanStr(q(calleePrefix, param)))
			g.emit("Instr.alias " + LeanStr(q(calleePrefix, param)) + " " + LeanStr(q(callerPrefix, tmp)))
			return
		}
		g.emit("Instr.alloc " + LeanStr(q(calleePrefix, param)))
		g.emit("Instr.alias " + LeanStr(q(calleePrefix, param)) + " " + LeanStr(q(callerPrefix, r)))
		return
	}
	g.emit("Instr.alloc " + LeanStr(q(calleePrefix, param)))
}

func (g *irGen) block(prefix string, b *ast.BlockStmt) {
	if b == nil {
		return
	}
	for _, st := range b.List {
		g.stmt(prefix, st)
	}
}

func (g *irGen) stmt(prefix string, st ast.Stmt) {
	switch t := st.(type) {
	case *ast.AssignStmt:
		if len(t.Rhs) == 1 && len(t.Lhs) >= 1 {
			// x, err := f(...)  /  x := e  /  x[i] = e  /  x.f = e
			for i, l := range t.Lhs {
				if id, ok := l.(*ast.Ident); ok {
					if i == 0 {
						if t.Tok == token.DEFINE {
							g.emit("Instr.alloc " + LeanStr(q(prefix, id.Name)))
						}
						g.assign(prefix, id.Name, t.Rhs[0])
					} else if id.Name != "_" {
						g.emit("Instr.alloc " + LeanStr(q(prefix, id.Name)))
					}
				} else if r := root(l); r != "" {
					g.emit("Instr.write " + LeanStr(q(prefix, r)))
					if call, ok := t.Rhs[0].(*ast.CallExpr); ok {
						g.call(prefix, "", call)
					}
				}
			}
			return
		}
		for i, l := range t.Lhs {
			if i >= len(t.Rhs) {
				break
			}
			if id, ok := l.(*ast.Ident); ok {
				if t.Tok == token.DEFINE {
					g.emit("Instr.alloc " + LeanStr(q(prefix, id.Name)))
				}
				g.assign(prefix, id.Name, t.Rhs[i])
			} else if r := root(l); r != "" {
				g.emit("Instr.write " + LeanStr(q(prefix, r)))
			}
		}
	case *ast.DeclStmt:
		if gd, ok := t.Decl.(*ast.GenDecl); ok {
			for _, sp := range gd.Specs {
				if vs, ok := sp.(*ast.ValueSpec); ok {
					for i, n := range vs.Names {
						g.emit("Instr.alloc " + LeanStr(q(prefix, n.Name)))
						if i < len(vs.Values) {
							g.assign(prefix, n.Name, vs.Values[i])
						}
					}
				}
			}
		}
	case *ast.ExprStmt:
		if call, ok := t.X.(*ast.CallExpr); ok {
			if strings.HasPrefix(g.c.src(call.Fun), "logger.") {
				return
			}
			g.call(prefix, "", call)
		}
	case *ast.IfStmt:
		if t.Init != nil {
			g.stmt(prefix, t.Init)
		}
		g.block(prefix, t.Body)
		if t.Else != nil {
			if eb, ok := t.Else.(*ast.BlockStmt); ok {
				g.block(prefix, eb)
			} else {
				g.stmt(prefix, t.Else)
			}
		}
	case *ast.SwitchStmt:
		if t.Init != nil {
			g.stmt(prefix, t.Init)
		}
		for _, cs := range t.Body.List {
			g.block(prefix, &ast.BlockStmt{List: cs.(*ast.CaseClause).Body})
		}
	case *ast.RangeStmt:
		r := root(t.X)
		for _, kv := range []ast.Expr{t.Key, t.Value} {
			if id, ok := kv.(*ast.Ident); ok && id.Name != "_" {
				g.emit("Instr.alloc " + LeanStr(q(prefix, id.Name)))
				if r != "" {
					g.emit("Instr.alias " + LeanStr(q(prefix, id.Name)) + " " + LeanStr(q(prefix, r)))
				}
			}
		}
		g.block(prefix, t.Body)
	case *ast.ForStmt:
		g.block(prefix, t.Body)
	case *ast.BlockStmt:
		g.block(prefix, t)
	case *ast.ReturnStmt:
		if len(t.Results) > 0 {
			g.assign(prefix, "$ret", t.Results[0])
		}
	case *ast.DeferStmt, *ast.IncDecStmt, *ast.BranchStmt, *ast.EmptyStmt, *ast.LabeledStmt, *ast.GoStmt:
	}
}

func (c *ctx) program(rel, entry string, inputs []string) (prog, ins string) {
	f := c.file(rel)
	if f == nil {
		return "", ""
	}
	g := &irGen{c: c, funcs: map[string]*ast.FuncDecl{}}
	for _, d := range f.Decls {
		if fd, ok := d.(*ast.FuncDecl); ok && fd.Body != nil {
			g.funcs[fd.Name.Name] = fd
		}
	}
	fd, ok := g.funcs[entry]
	if !ok {
		return "", ""
	}
	g.emit("Instr.alloc " + LeanStr(q(entry, "$ret")))
	g.block(entry, fd.Body)
	var qi []string
	for _, n := range inputs {
		qi = append(qi, q(entry, n))
	}
	return "[" + strings.Join(g.out, ", ") + "]", LeanStrList(qi)
}

func (c *ctx) effectFacts() {
	type e struct {
		rel, fn string
		ins     []string
	}
	for _, x := range []e{
		{composerGo, "ApplyPatches", []string{"doc", "patches", "c"}},
		{applierGo, "Apply", []string{"op", "rm", "s"}},
	} {
		prog, ins := c.program(x.rel, x.fn, x.ins)
		c.add("Effects", "prog_"+x.fn, "List Sidetree.Effects.Instr", prog, x.rel+":"+x.fn, "effect summary (callees of the same file inlined)")
		c.add("Effects", "inputs_"+x.fn, "List String", ins, x.rel+":"+x.fn, "parameters and receiver")
	}
}
