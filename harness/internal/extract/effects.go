package extract

import (
	"go/ast"
	"go/token"
	"strconv"
	"strings"
)

func init() { extraExtractors = append(extraExtractors, (*ctx).effectFacts) }

// irGen summarises Go functions of one file as programs of the Effects IR
// (alloc / copy / alias / write). Branches are flattened in source order; calls to functions of
// the same file are inlined; other calls return fresh values unless listed as views.
type irGen struct {
	c     *ctx
	funcs map[string]*ast.FuncDecl
	out   []string
	depth int
	ok    bool
	// names are written as their index in this table (the kernel compares numbers fast)
	names []string
	index map[string]int
}

func (g *irGen) id(name string) string {
	if g.index == nil {
		g.index = map[string]int{}
	}
	i, ok := g.index[name]
	if !ok {
		i = len(g.names)
		g.index[name] = i
		g.names = append(g.names, name)
	}
	return strconv.Itoa(i)
}

// functions returning a view of (something reachable from) their first argument
var viewFuncs = map[string]bool{
	"document.ParsePublicKeys": true, "document.ParseServices": true, "document.StringArray": true,
	"document.DidDocumentFromJSONLDObject": true, "document.FromJSONLDObject": true, "document.ReplaceDocumentFromJSONLDObject": true,
	"document.NewPublicKey": true, "document.NewService": true, "document.NewJWK": true,
}

// library procedures that write their first argument in place
var writerFuncs = map[string]bool{"sort.Slice": true, "sort.SliceStable": true, "sort.Strings": true, "sort.Sort": true, "delete": true, "copy": true}

func (g *irGen) emit(s string) { g.out = append(g.out, s) }

func root(e ast.Expr) string {
	for {
		switch t := e.(type) {
		case *ast.Ident:
			return t.Name
		case *ast.IndexExpr:
			e = t.X
		case *ast.SelectorExpr:
			e = t.X
		case *ast.SliceExpr:
			e = t.X
		case *ast.StarExpr:
			e = t.X
		case *ast.ParenExpr:
			e = t.X
		case *ast.TypeAssertExpr:
			e = t.X
		case *ast.UnaryExpr:
			e = t.X
		case *ast.CallExpr:
			// method call on a local value: a view of the receiver
			if sel, ok := t.Fun.(*ast.SelectorExpr); ok {
				e = sel.X
			} else {
				return ""
			}
		default:
			return ""
		}
	}
}

func q(prefix, name string) string { return prefix + "/" + name }

// Every Go variable x has two IR names: x (the object it refers to: the struct, the map, the
// backing array of the slice) and x# (anything reachable from that object). A slice built with
// append([]T(nil), ops...) is a fresh x whose x# are the caller's elements: sorting it writes x,
// assigning through one of its elements writes x#.
func (g *irGen) al(dst, src string) { g.emit("Instr.alias " + g.id(dst) + " " + g.id(src)) }

// fresh binds x and x# to new objects
func (g *irGen) fresh(x string) {
	g.emit("Instr.alloc " + g.id(x))
	g.emit("Instr.alloc " + g.id(x+"#"))
}

// same: dst = src (the same object, the same contents)
func (g *irGen) same(dst, src string) {
	g.al(dst, src)
	g.al(dst+"#", src+"#")
}

// flow: dst is src or something reachable from it
func (g *irGen) flow(dst, src string) {
	g.al(dst, src)
	g.al(dst, src+"#")
	g.al(dst+"#", src)
	g.al(dst+"#", src+"#")
}

// into: src (and what it reaches) is stored somewhere inside dst
func (g *irGen) into(dst, src string) {
	g.al(dst+"#", src)
	g.al(dst+"#", src+"#")
}

// write: an assignment through a path of `depth` steps from x
func (g *irGen) wr(x string, depth int) {
	g.emit("Instr.write " + g.id(x))
	if depth >= 2 {
		g.emit("Instr.write " + g.id(x+"#"))
	}
}

// depth counts the index / field / dereference steps of a path expression
func depth(e ast.Expr) int {
	n := 0
	for {
		switch t := e.(type) {
		case *ast.IndexExpr:
			n++
			e = t.X
		case *ast.SelectorExpr:
			n++
			e = t.X
		case *ast.StarExpr:
			n++
			e = t.X
		case *ast.SliceExpr:
			e = t.X
		case *ast.ParenExpr:
			e = t.X
		case *ast.TypeAssertExpr:
			e = t.X
		default:
			return n
		}
	}
}

// stored: every variable mentioned in the elements of a composite literal (or in e itself) ends
// up inside dst
func (g *irGen) stored(prefix, dst string, e ast.Expr) {
	switch t := e.(type) {
	case *ast.CompositeLit:
		for _, el := range t.Elts {
			if kv, ok := el.(*ast.KeyValueExpr); ok {
				g.stored(prefix, dst, kv.Value)
			} else {
				g.stored(prefix, dst, el)
			}
		}
	case *ast.UnaryExpr:
		g.stored(prefix, dst, t.X)
	case *ast.CallExpr:
		// the result of a call stored directly: conservatively whatever its arguments reach
		for _, a := range t.Args {
			g.stored(prefix, dst, a)
		}
	case *ast.BasicLit, *ast.FuncLit:
	default:
		if r := root(e); r != "" && !isPackageName(r) && r != "nil" && r != "true" && r != "false" {
			g.into(q(prefix, dst), q(prefix, r))
		}
	}
}

// assign generates IR for `x = e` where x is a plain identifier.
func (g *irGen) assign(prefix, x string, e ast.Expr) {
	if x == "_" || x == "" {
		// still evaluate calls for their effects
		if call, ok := e.(*ast.CallExpr); ok {
			g.call(prefix, "", call)
		}
		return
	}
	switch t := e.(type) {
	case *ast.CallExpr:
		g.call(prefix, x, t)
	case *ast.Ident:
		if t.Name == "nil" || t.Name == "true" || t.Name == "false" {
			// fresh value: a plain re-assignment keeps whatever x may already refer to (branches are flattened)
		} else {
			g.same(q(prefix, x), q(prefix, t.Name))
		}
	case *ast.IndexExpr, *ast.SelectorExpr, *ast.SliceExpr, *ast.StarExpr, *ast.TypeAssertExpr, *ast.ParenExpr:
		if r := root(e); r != "" && !isPackageName(r) {
			g.flow(q(prefix, x), q(prefix, r))
		}
	case *ast.UnaryExpr:
		if t.Op == token.AND {
			if cl, lit := t.X.(*ast.CompositeLit); lit {
				g.stored(prefix, x, cl)
				return
			}
			if r := root(t.X); r != "" && !isPackageName(r) {
				g.flow(q(prefix, x), q(prefix, r))
				return
			}
		}
	case *ast.CompositeLit:
		g.stored(prefix, x, t)
	default:
	}
}

// a struct/map literal holding references: the fresh object stays fresh (writing a field of it is
// not a write to what the field refers to), nothing to emit.
func (g *irGen) literalAliases(prefix, x string, cl *ast.CompositeLit) {}

func (g *irGen) call(prefix, x string, call *ast.CallExpr) {
	fun := g.c.src(call.Fun)
	// builtins
	switch fun {
	case "append":
		if x != "" && len(call.Args) > 0 {
			// the result is the first argument (or a grown copy of it) holding the further ones
			if r := root(call.Args[0]); r != "" && !isPackageName(r) {
				if _, conv := call.Args[0].(*ast.CallExpr); !conv {
					g.same(q(prefix, x), q(prefix, r))
				}
			}
			for _, a := range call.Args[1:] {
				g.stored(prefix, x, a)
			}
		}
		return
	case "make", "new", "len", "cap", "string":
		return
	}
	if writerFuncs[fun] && len(call.Args) > 0 {
		if r := root(call.Args[0]); r != "" {
			g.wr(q(prefix, r), depth(call.Args[0])+1)
			if fun == "copy" && len(call.Args) > 1 {
				g.stored(prefix, r, call.Args[1])
			}
		}
		return
	}
	// local function or method of the same file: inline
	name := fun
	if sel, ok := call.Fun.(*ast.SelectorExpr); ok {
		name = sel.Sel.Name
		if _, isLocal := g.funcs[name]; !isLocal || !g.isReceiverCall(sel) {
			name = ""
		}
	}
	if fd, ok := g.funcs[name]; ok && name != "" && g.depth < 6 {
		g.depth++
		cp := prefix + "." + name
		i := 0
		for _, fld := range fd.Type.Params.List {
			for _, pn := range fld.Names {
				if i < len(call.Args) {
					g.assign2(cp, pn.Name, prefix, call.Args[i])
				}
				i++
			}
		}
		g.fresh(q(cp, "$ret"))
		g.block(cp, fd.Body)
		g.depth--
		if x != "" {
			g.same(q(prefix, x), q(cp, "$ret"))
		}
		return
	}
	if viewFuncs[fun] && len(call.Args) > 0 && x != "" {
		if r := root(call.Args[0]); r != "" {
			g.flow(q(prefix, x), q(prefix, r))
			return
		}
	}
	// method call on a local value: conservatively a view of the receiver
	if sel, ok := call.Fun.(*ast.SelectorExpr); ok && x != "" {
		if id, isId := sel.X.(*ast.Ident); isId && id.Obj == nil && !isPackageName(id.Name) {
			g.flow(q(prefix, x), q(prefix, id.Name))
			return
		}
	}
}

var knownPackages = map[string]bool{"json": true, "fmt": true, "errors": true, "document": true, "patch": true, "jsonpatch": true, "hashing": true,
	"internal": true, "logfields": true, "logger": true, "strings": true, "sort": true, "protocol": true, "operation": true, "model": true, "canonicalizer": true}

func isPackageName(n string) bool { return knownPackages[n] }

func (g *irGen) isReceiverCall(sel *ast.SelectorExpr) bool {
	id, ok := sel.X.(*ast.Ident)
	return ok && !isPackageName(id.Name)
}

// assign2: callee parameter := caller argument (names live in different prefixes)
func (g *irGen) assign2(calleePrefix, param, callerPrefix string, arg ast.Expr) {
	g.fresh(q(calleePrefix, param))
	if r := root(arg); r != "" && !isPackageName(r) {
		if _, isCall := arg.(*ast.CallExpr); isCall {
			// evaluate the argument expression into a temporary of the caller
			tmp := "$arg" + param
			g.assign(callerPrefix, tmp, arg)
			g.same(q(calleePrefix, param), q(callerPrefix, tmp))
			return
		}
		if _, plain := arg.(*ast.Ident); plain {
			g.same(q(calleePrefix, param), q(callerPrefix, r))
		} else {
			g.flow(q(calleePrefix, param), q(callerPrefix, r))
		}
	}
}

func (g *irGen) block(prefix string, b *ast.BlockStmt) {
	if b == nil {
		return
	}
	for _, st := range b.List {
		g.stmt(prefix, st)
	}
}

func (g *irGen) stmt(prefix string, st ast.Stmt) {
	switch t := st.(type) {
	case *ast.AssignStmt:
		if len(t.Rhs) == 1 && len(t.Lhs) >= 1 {
			// x, err := f(...)  /  x := e  /  x[i] = e  /  x.f = e
			for i, l := range t.Lhs {
				if id, ok := l.(*ast.Ident); ok {
					if i == 0 {
						if t.Tok == token.DEFINE {
							g.fresh(q(prefix, id.Name))
						}
						g.assign(prefix, id.Name, t.Rhs[0])
					} else if id.Name != "_" {
						g.fresh(q(prefix, id.Name))
					}
				} else if r := root(l); r != "" {
					g.wr(q(prefix, r), depth(l))
					g.stored(prefix, r, t.Rhs[0])
					if call, ok := t.Rhs[0].(*ast.CallExpr); ok {
						g.call(prefix, "", call)
					}
				}
			}
			return
		}
		for i, l := range t.Lhs {
			if i >= len(t.Rhs) {
				break
			}
			if id, ok := l.(*ast.Ident); ok {
				if t.Tok == token.DEFINE {
					g.fresh(q(prefix, id.Name))
				}
				g.assign(prefix, id.Name, t.Rhs[i])
			} else if r := root(l); r != "" {
				g.wr(q(prefix, r), depth(l))
				g.stored(prefix, r, t.Rhs[i])
			}
		}
	case *ast.DeclStmt:
		if gd, ok := t.Decl.(*ast.GenDecl); ok {
			for _, sp := range gd.Specs {
				if vs, ok := sp.(*ast.ValueSpec); ok {
					for i, n := range vs.Names {
						g.fresh(q(prefix, n.Name))
						if i < len(vs.Values) {
							g.assign(prefix, n.Name, vs.Values[i])
						}
					}
				}
			}
		}
	case *ast.ExprStmt:
		if call, ok := t.X.(*ast.CallExpr); ok {
			if strings.HasPrefix(g.c.src(call.Fun), "logger.") {
				return
			}
			g.call(prefix, "", call)
		}
	case *ast.IfStmt:
		if t.Init != nil {
			g.stmt(prefix, t.Init)
		}
		g.block(prefix, t.Body)
		if t.Else != nil {
			if eb, ok := t.Else.(*ast.BlockStmt); ok {
				g.block(prefix, eb)
			} else {
				g.stmt(prefix, t.Else)
			}
		}
	case *ast.SwitchStmt:
		if t.Init != nil {
			g.stmt(prefix, t.Init)
		}
		for _, cs := range t.Body.List {
			g.block(prefix, &ast.BlockStmt{List: cs.(*ast.CaseClause).Body})
		}
	case *ast.RangeStmt:
		r := root(t.X)
		for _, kv := range []ast.Expr{t.Key, t.Value} {
			if id, ok := kv.(*ast.Ident); ok && id.Name != "_" {
				g.fresh(q(prefix, id.Name))
				if r != "" && !isPackageName(r) {
					g.flow(q(prefix, id.Name), q(prefix, r))
				}
			}
		}
		g.block(prefix, t.Body)
	case *ast.ForStmt:
		g.block(prefix, t.Body)
	case *ast.BlockStmt:
		g.block(prefix, t)
	case *ast.ReturnStmt:
		if len(t.Results) > 0 {
			g.assign(prefix, "$ret", t.Results[0])
		}
	case *ast.DeferStmt, *ast.IncDecStmt, *ast.BranchStmt, *ast.EmptyStmt, *ast.LabeledStmt, *ast.GoStmt:
	}
}

func (c *ctx) program(rel, entry string, inputs []string) (prog, ins, names string) {
	f := c.file(rel)
	if f == nil {
		return "", "", ""
	}
	g := &irGen{c: c, funcs: map[string]*ast.FuncDecl{}}
	for _, d := range f.Decls {
		if fd, ok := d.(*ast.FuncDecl); ok && fd.Body != nil {
			g.funcs[fd.Name.Name] = fd
		}
	}
	fd, ok := g.funcs[entry]
	if !ok {
		return "", "", ""
	}
	g.fresh(q(entry, "$ret"))
	g.block(entry, fd.Body)
	var qi []string
	for _, n := range inputs {
		qi = append(qi, g.id(q(entry, n)), g.id(q(entry, n)+"#"))
	}
	return "[" + strings.Join(g.out, ", ") + "]", "[" + strings.Join(qi, ", ") + "]", LeanStrList(g.names)
}

func (c *ctx) effectFacts() {
	type e struct {
		rel, fn string
		ins     []string
	}
	for _, x := range []e{
		{composerGo, "ApplyPatches", []string{"doc", "patches", "c"}},
		{applierGo, "Apply", []string{"op", "rm", "s"}},
	} {
		prog, ins, names := c.program(x.rel, x.fn, x.ins)
		c.add("Effects", "prog_"+x.fn, "List (Sidetree.Effects.Instr Nat)", prog, x.rel+":"+x.fn, "effect summary (callees of the same file inlined); names are indices into names_"+x.fn)
		c.add("Effects", "inputs_"+x.fn, "List Nat", ins, x.rel+":"+x.fn, "parameters and receiver, and what they reach (#)")
		c.add("Effects", "names_"+x.fn, "List String", names, x.rel+":"+x.fn, "the variables the numbers stand for (x: the object, x#: anything reachable from it)")
	}
	// C20: the transformers get resolution models that share their operation lists and (after an
	// update that did not take) their document with the state they were derived from
	for _, x := range []struct {
		rel, fn, name string
		ins           []string
	}{
		{"pkg/versions/1_0/doctransformer/metadata/metadata.go", "CreateDocumentMetadata", "Metadata", []string{"rm", "info", "t"}},
		{"pkg/versions/1_0/doctransformer/doctransformer/transformer.go", "TransformDocument", "DocTransform", []string{"rm", "info", "v"}},
		{"pkg/versions/1_0/doctransformer/didtransformer/transformer.go", "TransformDocument", "DidTransform", []string{"rm", "info", "t"}},
	} {
		prog, ins, names := c.program(x.rel, x.fn, x.ins)
		c.add("Effects", "prog_"+x.name, "List (Sidetree.Effects.Instr Nat)", prog, x.rel+":"+x.fn, "effect summary (callees of the same file inlined); names are indices into names_"+x.name)
		c.add("Effects", "inputs_"+x.name, "List Nat", ins, x.rel+":"+x.fn, "parameters and receiver, and what they reach (#)")
		c.add("Effects", "names_"+x.name, "List String", names, x.rel+":"+x.fn, "the variables the numbers stand for (x: the object, x#: anything reachable from it)")
	}
}
