// Package extract regenerates Lean constants ("facts") from /repo's Go sources with
// go/parser. It is deliberately shallow: each fact is a pattern on the shape the code has
// today; a shape that is not recognised is reported as such (the fact is emitted as
// `none`) and never guessed.
package extract

import (
	"bytes"
	"encoding/json"
	"fmt"
	"go/ast"
	"go/parser"
	"go/printer"
	"go/token"
	"os"
	"path/filepath"
	"sort"
	"strings"
)

// Fact is one generated constant.
type Fact struct {
	Module string `json:"module"` // Generated/<Module>.lean
	Name   string `json:"name"`
	Type   string `json:"type"`  // Lean type T (the constant has type Option T)
	Value  string `json:"value"` // Lean term of type T, "" when not recognised
	Source string `json:"source"`
	Note   string `json:"note,omitempty"`
}

type ctx struct {
	outDir string
	repo   string
	fset   *token.FileSet
	files  map[string]*ast.File
	facts  []Fact
}

func (c *ctx) file(rel string) *ast.File {
	if f, ok := c.files[rel]; ok {
		return f
	}
	f, err := parser.ParseFile(c.fset, filepath.Join(c.repo, rel), nil, parser.SkipObjectResolution)
	if err != nil {
		c.files[rel] = nil
		return nil
	}
	c.files[rel] = f
	return f
}

func (c *ctx) fn(rel, name string) *ast.FuncDecl {
	f := c.file(rel)
	if f == nil {
		return nil
	}
	for _, d := range f.Decls {
		if fd, ok := d.(*ast.FuncDecl); ok && fd.Name.Name == name && fd.Body != nil {
			return fd
		}
	}
	return nil
}

func (c *ctx) src(n ast.Node) string {
	var b bytes.Buffer
	_ = printer.Fprint(&b, c.fset, n)
	return strings.Join(strings.Fields(b.String()), " ")
}

func (c *ctx) add(module, name, typ, value, source, note string) {
	c.facts = append(c.facts, Fact{Module: module, Name: name, Type: typ, Value: value, Source: source, Note: note})
}

// LeanStr renders a Lean string literal.
func LeanStr(s string) string {
	var b strings.Builder
	b.WriteByte('"')
	for _, r := range s {
		switch {
		case r == '"':
			b.WriteString("\\\"")
		case r == '\\':
			b.WriteString("\\\\")
		case r == '\n':
			b.WriteString("\\n")
		case r == '\t':
			b.WriteString("\\t")
		case r < 0x20 || (r > 0x7e && r <= 0xffff):
			fmt.Fprintf(&b, "\\u%04x", r)
		default:
			b.WriteRune(r)
		}
	}
	b.WriteByte('"')
	return b.String()
}

func LeanStrList(xs []string) string {
	parts := make([]string, len(xs))
	for i, x := range xs {
		parts[i] = LeanStr(x)
	}
	return "[" + strings.Join(parts, ", ") + "]"
}

// errReturn reports whether the block's last statement returns a non-nil last result.
func lastReturn(b *ast.BlockStmt) *ast.ReturnStmt {
	if b == nil || len(b.List) == 0 {
		return nil
	}
	r, _ := b.List[len(b.List)-1].(*ast.ReturnStmt)
	return r
}

func isNilIdent(e ast.Expr) bool {
	id, ok := e.(*ast.Ident)
	return ok && id.Name == "nil"
}

// Run extracts every fact and writes Generated/*.lean plus facts.json into outDir.
func Run(repo, outDir string) error {
	c := &ctx{repo: repo, outDir: outDir, fset: token.NewFileSet(), files: map[string]*ast.File{}}
	c.window()
	for _, fn := range extraExtractors {
		fn(c)
	}
	return c.write(outDir)
}

var extraExtractors []func(*ctx)

func (c *ctx) write(outDir string) error {
	if err := os.MkdirAll(outDir, 0o755); err != nil {
		return err
	}
	byMod := map[string][]Fact{}
	for _, f := range c.facts {
		byMod[f.Module] = append(byMod[f.Module], f)
	}
	mods := make([]string, 0, len(byMod))
	for m := range byMod {
		mods = append(mods, m)
	}
	sort.Strings(mods)
	want := map[string]bool{"facts.json": true}
	for _, m := range mods {
		var b strings.Builder
		b.WriteString("-- GENERATED from /repo by harness/internal/extract on every run. Do not edit.\n")
		if m == "Effects" {
			b.WriteString("import Sidetree.Effects\nopen Sidetree.Effects\n")
		}
		b.WriteString("namespace Sidetree.Generated\n\n")
		for _, f := range byMod[m] {
			fmt.Fprintf(&b, "/-- %s%s -/\n", f.Source, func() string {
				if f.Note != "" {
					return " — " + f.Note
				}
				return ""
			}())
			if f.Value == "" {
				fmt.Fprintf(&b, "def %s : Option (%s) := none\n\n", f.Name, f.Type)
			} else {
				fmt.Fprintf(&b, "def %s : Option (%s) := some (%s)\n\n", f.Name, f.Type, f.Value)
			}
		}
		b.WriteString("end Sidetree.Generated\n")
		if err := writeIfChanged(filepath.Join(outDir, m+".lean"), []byte(b.String())); err != nil {
			return err
		}
		want[m+".lean"] = true
	}
	js, _ := json.MarshalIndent(c.facts, "", " ")
	if err := writeIfChanged(filepath.Join(outDir, "facts.json"), js); err != nil {
		return err
	}
	// remove stale generated files
	ents, _ := os.ReadDir(outDir)
	for _, e := range ents {
		if !want[e.Name()] {
			_ = os.Remove(filepath.Join(outDir, e.Name()))
		}
	}
	return nil
}

func writeIfChanged(path string, data []byte) error {
	old, err := os.ReadFile(path)
	if err == nil && bytes.Equal(old, data) {
		return nil
	}
	return os.WriteFile(path, data, 0o644)
}
