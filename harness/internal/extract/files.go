package extract

import (
	"bufio"
	"encoding/json"
	"go/ast"
	"go/token"
	"os"
	"path/filepath"
	"sort"
	"strings"
)

// Whole-file facts: every declaration of every source file a property is anchored in (constants,
// variables, types with their tags, and the control skeleton of every function and method), grouped
// per property. A change anywhere in an anchored file then breaks an obligation of that property,
// also in helpers that no hand-picked skeleton names.

func init() { extraExtractors = append(extraExtractors, (*ctx).anchoredFileFacts) }

func sanitize(rel string) string {
	s := strings.TrimSuffix(strings.TrimPrefix(rel, "pkg/"), ".go")
	var b strings.Builder
	for _, r := range s {
		if (r >= 'a' && r <= 'z') || (r >= 'A' && r <= 'Z') || (r >= '0' && r <= '9') {
			b.WriteRune(r)
		} else {
			b.WriteByte('_')
		}
	}
	return b.String()
}

// fileOutline renders every declaration of a file except its imports.
func (c *ctx) fileOutline(rel string) string {
	f := c.file(rel)
	if f == nil {
		return ""
	}
	var out []string
	for _, d := range f.Decls {
		switch t := d.(type) {
		case *ast.GenDecl:
			if t.Tok == token.IMPORT {
				continue
			}
			out = append(out, c.src(t))
		case *ast.FuncDecl:
			head := "func "
			if t.Recv != nil && len(t.Recv.List) > 0 {
				head += "(" + c.src(t.Recv.List[0].Type) + ") "
			}
			head += t.Name.Name + strings.TrimPrefix(c.src(t.Type), "func")
			if t.Body == nil {
				out = append(out, head)
				continue
			}
			out = append(out, head+" {")
			c.skeleton(t.Body, 1, &out)
			out = append(out, "}")
		}
	}
	return LeanStrList(out)
}

func (c *ctx) anchoredFileFacts() {
	// properties.jsonl lives next to the lean/ directory the facts are written into
	path := os.Getenv("VERIF_PROPERTIES")
	if path == "" {
		path = filepath.Join(c.outDir, "..", "..", "..", "properties.jsonl")
		if _, err := os.Stat(path); err != nil {
			path = "/verif/properties.jsonl"
		}
	}
	fh, err := os.Open(path)
	if err != nil {
		return
	}
	defer fh.Close()
	sc := bufio.NewScanner(fh)
	sc.Buffer(make([]byte, 1<<20), 1<<24)
	for sc.Scan() {
		var p struct {
			ID      string `json:"id"`
			Anchors struct {
				Files []string `json:"files"`
			} `json:"anchors"`
		}
		if json.Unmarshal(sc.Bytes(), &p) != nil || p.ID == "" {
			continue
		}
		files := append([]string{}, p.Anchors.Files...)
		sort.Strings(files)
		for _, rel := range files {
			if filepath.Ext(rel) != ".go" {
				continue
			}
			c.add("Anchors"+p.ID, "skel_"+p.ID+"_file_"+sanitize(rel), "List String", c.fileOutline(rel), rel, "every declaration of the file")
		}
	}
}
