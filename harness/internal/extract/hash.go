package extract

import (
	"go/ast"
	"go/token"
)

const (
	es6Go  = "pkg/internal/jsoncanonicalizer/es6numfmt.go"
	jcsGo  = "pkg/internal/jsoncanonicalizer/jsoncanonicalizer.go"
	hashGo = "pkg/hashing/hash.go"
	commGo = "pkg/commitment/hash.go"
)

func init() { extraExtractors = append(extraExtractors, (*ctx).hashFacts) }

func (c *ctx) hashFacts() {
	// es6FixedRange: the condition under which NumberToJSON selects format 'f'
	rng := ""
	if fd := c.fn(es6Go, "NumberToJSON"); fd != nil {
		ast.Inspect(fd.Body, func(n ast.Node) bool {
			ifs, ok := n.(*ast.IfStmt)
			if !ok || len(ifs.Body.List) != 1 {
				return true
			}
			as, ok := ifs.Body.List[0].(*ast.AssignStmt)
			if !ok || len(as.Lhs) != 1 || c.src(as.Lhs[0]) != "format" || c.src(as.Rhs[0]) != "'f'" {
				return true
			}
			rng = rawList(c.conjuncts(ifs.Cond))
			return false
		})
	}
	c.add("Jcs", "es6FixedRange", "List (String × String × String)", rng, es6Go+":NumberToJSON", "condition selecting fixed notation")

	// jcsSortKey: how the member sort key is derived from the name
	key := ""
	if f := c.file(jcsGo); f != nil {
		ast.Inspect(f, func(n ast.Node) bool {
			as, ok := n.(*ast.AssignStmt)
			if ok && as.Tok == token.DEFINE && len(as.Lhs) == 1 && c.src(as.Lhs[0]) == "sortKey" {
				key = c.src(as.Rhs[0])
			}
			return true
		})
	}
	c.add("Jcs", "jcsSortKey", "String", optStr(key), jcsGo+":parseObject", "")
	c.add("Jcs", "jcsAsciiEscapes", "List String", listOrEmpty(c.varElems(jcsGo, "asciiEscapes")), jcsGo, "")
	c.add("Jcs", "jcsBinaryEscapes", "List String", listOrEmpty(c.varElems(jcsGo, "binaryEscapes")), jcsGo, "")
	// control-character rule inside decorateString: `if c < 0x20 { ... Sprintf("\\u%04x", c) }`
	ctl := ""
	if f := c.file(jcsGo); f != nil {
		ast.Inspect(f, func(n ast.Node) bool {
			ifs, ok := n.(*ast.IfStmt)
			if !ok {
				return true
			}
			ast.Inspect(ifs.Body, func(m ast.Node) bool {
				call, ok := m.(*ast.CallExpr)
				if ok && c.src(call.Fun) == "fmt.Sprintf" && len(call.Args) == 2 {
					if lit, ok := call.Args[0].(*ast.BasicLit); ok && lit.Kind == token.STRING {
						ctl = c.src(ifs.Cond) + " => " + lit.Value
					}
				}
				return true
			})
			return true
		})
	}
	c.add("Jcs", "jcsControlFormat", "String", optStr(ctl), jcsGo+":decorateString", "")

	// supported multihash codes
	var cases []string
	ok := false
	if fd := c.fn(hashGo, "GetHashFromMultihash"); fd != nil {
		ast.Inspect(fd.Body, func(n ast.Node) bool {
			sw, isSw := n.(*ast.SwitchStmt)
			if !isSw {
				return true
			}
			ok = true
			for _, st := range sw.Body.List {
				cc := st.(*ast.CaseClause)
				if cc.List == nil {
					continue // default
				}
				if len(cc.Body) != 1 {
					ok = false
					continue
				}
				as, isAs := cc.Body[0].(*ast.AssignStmt)
				if !isAs {
					ok = false
					continue
				}
				for _, e := range cc.List {
					cases = append(cases, "("+LeanStr(c.src(e))+", "+LeanStr(c.src(as.Rhs[0]))+")")
				}
			}
			return false
		})
	}
	v := ""
	if ok {
		v = rawList(cases)
	}
	c.add("Hashing", "hashSupportedCodes", "List (String × String)", v, hashGo+":GetHashFromMultihash", "")

	// the comparison IsValidModelMultihash ends with
	cmp := ""
	if fd := c.fn(hashGo, "IsValidModelMultihash"); fd != nil {
		conds := c.ifConds(fd)
		if len(conds) > 0 {
			cmp = conds[len(conds)-1]
		}
	}
	c.add("Hashing", "isValidCompare", "String", optStr(cmp), hashGo+":IsValidModelMultihash", "last refusal")
	c.add("Hashing", "isValidCalls", "List String", listOrEmpty(c.assignCalls(c.fn(hashGo, "IsValidModelMultihash"))), hashGo+":IsValidModelMultihash", "")
	c.add("Hashing", "commitmentInnerHash", "List String", listOrEmpty(c.assignCalls(c.fn(commGo, "GetCommitment"))), commGo+":GetCommitment", "call chain")
	c.add("Hashing", "commitmentFromRevealCalls", "List String", listOrEmpty(c.assignCalls(c.fn(commGo, "GetCommitmentFromRevealValue"))), commGo+":GetCommitmentFromRevealValue", "call chain")
}
