package extract

import (
	"go/ast"
	"go/token"
	"sort"
	"strings"
)

// assignCalls lists, in source order, the call expressions on the right-hand side of
// assignments / short variable declarations anywhere in the function body.
func (c *ctx) assignCalls(fd *ast.FuncDecl) []string {
	var out []string
	if fd == nil {
		return nil
	}
	ast.Inspect(fd.Body, func(n ast.Node) bool {
		if as, ok := n.(*ast.AssignStmt); ok && len(as.Rhs) == 1 {
			if call, ok := as.Rhs[0].(*ast.CallExpr); ok {
				out = append(out, c.src(call))
			}
		}
		return true
	})
	return out
}

// ifConds lists the conditions of all if statements in source order.
func (c *ctx) ifConds(fd *ast.FuncDecl) []string {
	var out []string
	if fd == nil {
		return nil
	}
	ast.Inspect(fd.Body, func(n ast.Node) bool {
		if ifs, ok := n.(*ast.IfStmt); ok {
			out = append(out, c.src(ifs.Cond))
		}
		return true
	})
	return out
}

// conjuncts splits a && b && c into its comparison triples, sorted.
func (c *ctx) conjuncts(e ast.Expr) []string {
	var parts []ast.Expr
	var walk func(e ast.Expr)
	walk = func(e ast.Expr) {
		if p, ok := e.(*ast.ParenExpr); ok {
			walk(p.X)
			return
		}
		if be, ok := e.(*ast.BinaryExpr); ok && be.Op == token.LAND {
			walk(be.X)
			walk(be.Y)
			return
		}
		parts = append(parts, e)
	}
	walk(e)
	var out []string
	for _, p := range parts {
		if be, ok := p.(*ast.BinaryExpr); ok {
			out = append(out, "("+LeanStr(c.src(be.X))+", "+LeanStr(be.Op.String())+", "+LeanStr(c.src(be.Y))+")")
		} else {
			out = append(out, "("+LeanStr(c.src(p))+", \"\", \"\")")
		}
	}
	sort.Strings(out)
	return out
}

// varElems returns the element sources of a package-level `var name = T{...}` literal.
func (c *ctx) varElems(rel, name string) []string {
	f := c.file(rel)
	if f == nil {
		return nil
	}
	for _, d := range f.Decls {
		gd, ok := d.(*ast.GenDecl)
		if !ok {
			continue
		}
		for _, sp := range gd.Specs {
			vs, ok := sp.(*ast.ValueSpec)
			if !ok {
				continue
			}
			for i, n := range vs.Names {
				if n.Name != name || i >= len(vs.Values) {
					continue
				}
				cl, ok := vs.Values[i].(*ast.CompositeLit)
				if !ok {
					return nil
				}
				var out []string
				for _, e := range cl.Elts {
					out = append(out, c.src(e))
				}
				return out
			}
		}
	}
	return nil
}

// varSource returns the source of a package-level variable's initialiser (as a one-element list).
func (c *ctx) varSource(rel, name string) []string {
	f := c.file(rel)
	if f == nil {
		return nil
	}
	for _, d := range f.Decls {
		gd, ok := d.(*ast.GenDecl)
		if !ok {
			continue
		}
		for _, sp := range gd.Specs {
			vs, ok := sp.(*ast.ValueSpec)
			if !ok {
				continue
			}
			for i, n := range vs.Names {
				if n.Name == name && i < len(vs.Values) {
					return []string{c.src(vs.Values[i])}
				}
			}
		}
	}
	return nil
}

// constValue returns the source of a package-level constant's value.
func (c *ctx) constValue(rel, name string) string {
	f := c.file(rel)
	if f == nil {
		return ""
	}
	for _, d := range f.Decls {
		gd, ok := d.(*ast.GenDecl)
		if !ok {
			continue
		}
		for _, sp := range gd.Specs {
			vs, ok := sp.(*ast.ValueSpec)
			if !ok {
				continue
			}
			for i, n := range vs.Names {
				if n.Name == name && i < len(vs.Values) {
					return c.src(vs.Values[i])
				}
			}
		}
	}
	return ""
}

func listOrEmpty(xs []string) string {
	if xs == nil {
		return ""
	}
	return LeanStrList(xs)
}

func rawList(xs []string) string {
	if xs == nil {
		return ""
	}
	return "[" + strings.Join(xs, ", ") + "]"
}
