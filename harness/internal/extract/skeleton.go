package extract

import (
	"go/ast"
	"path/filepath"
	"sort"
	"strings"
)

const (
	updateGo     = "pkg/versions/1_0/operationparser/update.go"
	deactivateGo = "pkg/versions/1_0/operationparser/deactivate.go"
	commitmentGo = "pkg/versions/1_0/operationparser/commitment.go"
	jwsGo        = "pkg/jwsutil/jws.go"
)

func init() { extraExtractors = append(extraExtractors, (*ctx).skeletonFacts) }

// exprSrc prints an expression with composite literals collapsed to their type name.
func (c *ctx) exprSrc(e ast.Expr) string {
	switch t := e.(type) {
	case *ast.CallExpr:
		switch c.src(t.Fun) {
		case "errors.New", "fmt.Errorf", "errors.Errorf", "errors.Wrap", "errors.Wrapf":
			return "error(...)"
		}
	case *ast.UnaryExpr:
		if cl, ok := t.X.(*ast.CompositeLit); ok {
			return t.Op.String() + c.src(cl.Type) + "{...}"
		}
	case *ast.CompositeLit:
		return c.src(t.Type) + "{...}"
	}
	return c.src(e)
}

func (c *ctx) exprsSrc(es []ast.Expr) string {
	parts := make([]string, len(es))
	for i, e := range es {
		parts[i] = c.exprSrc(e)
	}
	return strings.Join(parts, ", ")
}

// skeleton lists the control structure of a block: assignments, conditions, returns, in order;
// logging statements are skipped, composite literals collapsed.
func (c *ctx) skeleton(b *ast.BlockStmt, depth int, out *[]string) {
	ind := strings.Repeat("  ", depth)
	for _, st := range b.List {
		switch t := st.(type) {
		case *ast.ExprStmt:
			s := c.src(t.X)
			if strings.HasPrefix(s, "logger.") {
				continue
			}
			*out = append(*out, ind+s)
		case *ast.AssignStmt:
			*out = append(*out, ind+c.exprsSrc(t.Lhs)+" "+t.Tok.String()+" "+c.exprsSrc(t.Rhs))
		case *ast.IfStmt:
			head := "if "
			if t.Init != nil {
				head += c.src(t.Init) + "; "
			}
			*out = append(*out, ind+head+c.src(t.Cond)+" {")
			c.skeleton(t.Body, depth+1, out)
			if t.Else != nil {
				*out = append(*out, ind+"} else {")
				if eb, ok := t.Else.(*ast.BlockStmt); ok {
					c.skeleton(eb, depth+1, out)
				} else {
					*out = append(*out, ind+"  "+c.src(t.Else))
				}
			}
			*out = append(*out, ind+"}")
		case *ast.ReturnStmt:
			*out = append(*out, ind+"return "+c.exprsSrc(t.Results))
		case *ast.SwitchStmt:
			tag := ""
			if t.Tag != nil {
				tag = c.src(t.Tag)
			}
			*out = append(*out, ind+"switch "+tag+" {")
			for _, cs := range t.Body.List {
				cc := cs.(*ast.CaseClause)
				if cc.List == nil {
					*out = append(*out, ind+"default:")
				} else {
					*out = append(*out, ind+"case "+c.exprsSrc(cc.List)+":")
				}
				c.skeleton(&ast.BlockStmt{List: cc.Body}, depth+1, out)
			}
			*out = append(*out, ind+"}")
		case *ast.RangeStmt:
			val := ""
			if t.Value != nil {
				val = ", " + c.src(t.Value)
			}
			*out = append(*out, ind+"for "+c.src(t.Key)+val+" := range "+c.src(t.X)+" {")
			c.skeleton(t.Body, depth+1, out)
			*out = append(*out, ind+"}")
		case *ast.ForStmt:
			hdr := ""
			if t.Init != nil || t.Cond != nil || t.Post != nil {
				part := func(n ast.Node, present bool) string {
					if !present {
						return ""
					}
					return c.src(n)
				}
				hdr = part(t.Init, t.Init != nil) + "; " + part(t.Cond, t.Cond != nil) + "; " + part(t.Post, t.Post != nil) + " "
			}
			*out = append(*out, ind+"for "+hdr+"{")
			c.skeleton(t.Body, depth+1, out)
			*out = append(*out, ind+"}")
		case *ast.DeclStmt:
			*out = append(*out, ind+c.src(t))
		case *ast.DeferStmt:
			if fl, ok := t.Call.Fun.(*ast.FuncLit); ok {
				*out = append(*out, ind+"defer func() {")
				c.skeleton(fl.Body, depth+1, out)
				*out = append(*out, ind+"}()")
			} else {
				*out = append(*out, ind+"defer "+c.src(t.Call))
			}
		default:
			*out = append(*out, ind+c.src(st))
		}
	}
}

func (c *ctx) skel(rel, fn string) string {
	fd := c.fn(rel, fn)
	if fd == nil {
		return ""
	}
	var out []string
	c.skeleton(fd.Body, 0, &out)
	return LeanStrList(out)
}

// literalFields lists (field, expression) of every composite literal of the named type inside fn,
// in source order of literals, fields sorted.
func (c *ctx) literalFields(rel, fn, typeName string) string {
	fd := c.fn(rel, fn)
	if fd == nil {
		return ""
	}
	var lits []string
	ast.Inspect(fd.Body, func(n ast.Node) bool {
		cl, ok := n.(*ast.CompositeLit)
		if !ok || cl.Type == nil || c.src(cl.Type) != typeName {
			return true
		}
		var kvs []string
		for _, e := range cl.Elts {
			if kv, ok := e.(*ast.KeyValueExpr); ok {
				kvs = append(kvs, "("+LeanStr(c.src(kv.Key))+", "+LeanStr(c.exprSrc(kv.Value))+")")
			}
		}
		sort.Strings(kvs)
		lits = append(lits, "["+strings.Join(kvs, ", ")+"]")
		return true
	})
	if len(lits) == 0 {
		return ""
	}
	return "[" + strings.Join(lits, ", ") + "]"
}

func (c *ctx) skeletonFacts() {
	const lt = "List String"
	const lit = "List (List (String × String))"
	for _, f := range []string{"Apply", "applyCreateOperation", "applyUpdateOperation", "applyDeactivateOperation", "applyRecoverOperation"} {
		c.add("Applier", "skel_"+f, lt, c.skel(applierGo, f), applierGo+":"+f, "control skeleton")
	}
	for _, f := range []string{"applyCreateOperation", "applyUpdateOperation", "applyDeactivateOperation", "applyRecoverOperation"} {
		c.add("Applier", "lit_"+f, lit, c.literalFields(applierGo, f, "protocol.ResolutionModel"), applierGo+":"+f, "ResolutionModel literal")
	}
	type pf struct{ rel, fn string }
	for _, p := range []pf{{opGo, "Parse"}, {opGo, "ParseOperation"}, {createGo, "ParseCreateOperation"}, {createGo, "ValidateDelta"},
		{createGo, "validateMultihash"}, {createGo, "validateDeltaSize"}, {createGo, "ValidateSuffixData"},
		{updateGo, "ParseUpdateOperation"}, {updateGo, "ParseSignedDataForUpdate"}, {updateGo, "validateUpdateRequest"}, {updateGo, "validateSignedDataForUpdate"},
		{recoverGo, "ParseRecoverOperation"}, {recoverGo, "ParseSignedDataForRecover"}, {recoverGo, "validateSignedDataForRecovery"},
		{recoverGo, "parseSignedData"}, {recoverGo, "validateProtectedHeaders"}, {recoverGo, "validateSigningKey"}, {recoverGo, "validateCommitment"},
		{recoverGo, "validateNonce"}, {recoverGo, "validateRecoverRequest"},
		{deactivateGo, "ParseDeactivateOperation"}, {deactivateGo, "ParseSignedDataForDeactivate"}, {deactivateGo, "validateDeactivateRequest"},
		{commitmentGo, "GetRevealValue"}, {commitmentGo, "GetCommitment"}} {
		c.add("Parser", "skel_"+p.fn, lt, c.skel(p.rel, p.fn), p.rel+":"+p.fn, "control skeleton")
	}
	c.add("Parser", "uniqueSuffixCalls", lt, listOrEmpty(c.assignCalls(c.fn("pkg/versions/1_0/model/util.go", "GetUniqueSuffix"))), "pkg/versions/1_0/model/util.go:GetUniqueSuffix", "")
	c.add("Parser", "skel_GetAnchoredOperation", lt, c.skel("pkg/versions/1_0/model/util.go", "GetAnchoredOperation"), "pkg/versions/1_0/model/util.go:GetAnchoredOperation", "")
	c.add("Parser", "lit_Parse", lit, c.literalFields(opGo, "Parse", "operation.Operation"), opGo+":Parse", "")
	for _, p := range []pf{{createGo, "ParseCreateOperation"}, {updateGo, "ParseUpdateOperation"}, {recoverGo, "ParseRecoverOperation"}, {deactivateGo, "ParseDeactivateOperation"}} {
		c.add("Parser", "lit_"+p.fn, lit, c.literalFields(p.rel, p.fn, "model.Operation"), p.rel+":"+p.fn, "")
	}
	for _, f := range []string{"ParseJWS", "VerifyJWS", "parseCompacted", "parseCompactedPayload", "parseCompactedHeaders", "signingInput", "checkJWSHeaders"} {
		c.add("Jws", "skel_"+f, lt, c.skel(jwsGo, f), jwsGo+":"+f, "control skeleton")
	}
	c.add("Jws", "skel_VerifySignature", lt, c.skel("pkg/jwsutil/signature.go", "VerifySignature"), "pkg/jwsutil/signature.go:VerifySignature", "")
	c.add("Jws", "skel_verifyECSignature", lt, c.skel("pkg/jwsutil/signature.go", "verifyECSignature"), "pkg/jwsutil/signature.go:verifyECSignature", "")
	c.add("Jws", "skel_verifyEd25519Signature", lt, c.skel("pkg/jwsutil/signature.go", "verifyEd25519Signature"), "pkg/jwsutil/signature.go", "")
	c.add("Jws", "skel_GetED25519PublicKey", lt, c.skel("pkg/jwsutil/signature.go", "GetED25519PublicKey"), "pkg/jwsutil/signature.go", "")
	for _, p := range []pf{{"pkg/util/ecsigner/signer.go", "Sign"}, {"pkg/util/ecsigner/signer.go", "getHasher"}, {"pkg/util/ecsigner/signer.go", "copyPadded"},
		{"pkg/util/ecsigner/signer.go", "Headers"}, {"pkg/util/signutil/signature.go", "SignPayload"}, {"pkg/util/signutil/signature.go", "SignModel"},
		{"pkg/util/pubkey/jwk.go", "GetPublicKeyJWK"}, {"pkg/jwsutil/jwk.go", "UnmarshalJSON"}, {"pkg/jwsutil/jwk.go", "MarshalJSON"},
		{"pkg/jwsutil/jwk.go", "unmarshalSecp256k1"}, {"pkg/jwsutil/jwk.go", "marshalSecp256k1"}, {"pkg/jwsutil/jwk.go", "newFixedSizeBuffer"},
		{"pkg/jwsutil/jwk.go", "curveSize"}, {"pkg/jwsutil/jwk.go", "isSecp256k1"}, {"pkg/jwsutil/jws.go", "NewJWS"}, {"pkg/jwsutil/jws.go", "SerializeCompact"},
		{"pkg/jwsutil/jws.go", "sign"}, {"pkg/jwsutil/jws.go", "mergeHeaders"}, {"pkg/jws/jwk.go", "Validate"}} {
		name := "skel_" + strings.ReplaceAll(strings.TrimSuffix(filepath.Base(p.rel), ".go"), "-", "_") + "_" + p.fn
		c.add("Keys", name, lt, c.skel(p.rel, p.fn), p.rel+":"+p.fn, "control skeleton")
	}
	c.add("Jws", "skel_parseEllipticCurve", lt, c.skel("pkg/jwsutil/signature.go", "parseEllipticCurve"), "pkg/jwsutil/signature.go", "")
}
