package extract

import (
	"go/ast"
	"go/parser"
	"go/token"
	"os"
	"path/filepath"
	"sort"
	"strconv"
	"strings"
)

const (
	pvDocGo  = "pkg/versions/1_0/operationparser/patchvalidator/document.go"
	pvIetfGo = "pkg/versions/1_0/operationparser/patchvalidator/ietf.go"
	pvReplGo = "pkg/versions/1_0/operationparser/patchvalidator/replace.go"
	patchGo  = "pkg/patch/patch.go"
	opGo     = "pkg/versions/1_0/operationparser/operation.go"
	createGo = "pkg/versions/1_0/operationparser/create.go"
)

func init() { extraExtractors = append(extraExtractors, (*ctx).validatorFacts) }

// consts collects string/int constants of every non-test file in a package directory.
func (c *ctx) consts(dir string) map[string]string {
	out := map[string]string{}
	ents, err := os.ReadDir(filepath.Join(c.repo, dir))
	if err != nil {
		return out
	}
	for _, e := range ents {
		if !strings.HasSuffix(e.Name(), ".go") || strings.HasSuffix(e.Name(), "_test.go") {
			continue
		}
		f, err := parser.ParseFile(c.fset, filepath.Join(c.repo, dir, e.Name()), nil, parser.SkipObjectResolution)
		if err != nil {
			continue
		}
		for _, d := range f.Decls {
			gd, ok := d.(*ast.GenDecl)
			if !ok || gd.Tok != token.CONST {
				continue
			}
			for _, sp := range gd.Specs {
				vs := sp.(*ast.ValueSpec)
				for i, n := range vs.Names {
					if i < len(vs.Values) {
						if bl, ok := vs.Values[i].(*ast.BasicLit); ok {
							if bl.Kind == token.STRING {
								if s, err := strconv.Unquote(bl.Value); err == nil {
									out[n.Name] = s
								}
							} else {
								out[n.Name] = bl.Value
							}
						}
					}
				}
			}
		}
	}
	return out
}

type resolver struct {
	local map[string]string
	pkgs  map[string]map[string]string
}

func (r *resolver) str(e ast.Expr) (string, bool) {
	switch t := e.(type) {
	case *ast.BasicLit:
		if t.Kind == token.STRING {
			s, err := strconv.Unquote(t.Value)
			return s, err == nil
		}
		return t.Value, true
	case *ast.Ident:
		s, ok := r.local[t.Name]
		return s, ok
	case *ast.SelectorExpr:
		if x, ok := t.X.(*ast.Ident); ok {
			if p, ok := r.pkgs[x.Name]; ok {
				s, ok := p[t.Sel.Name]
				return s, ok
			}
		}
	case *ast.CallExpr: // conversions such as document.KeyPurpose(x) / Action("..")
		if len(t.Args) == 1 {
			return r.str(t.Args[0])
		}
	}
	return "", false
}

// mapKeys resolves the keys of a package-level map literal, sorted; vals likewise resolved
// (identifiers that do not resolve are kept as written).
func (c *ctx) mapLit(rel, name string, r *resolver) (keys, vals []string, ok bool) {
	f := c.file(rel)
	if f == nil {
		return nil, nil, false
	}
	for _, d := range f.Decls {
		gd, isG := d.(*ast.GenDecl)
		if !isG {
			continue
		}
		for _, sp := range gd.Specs {
			vs, isV := sp.(*ast.ValueSpec)
			if !isV {
				continue
			}
			for i, n := range vs.Names {
				if n.Name != name || i >= len(vs.Values) {
					continue
				}
				cl, isC := vs.Values[i].(*ast.CompositeLit)
				if !isC {
					return nil, nil, false
				}
				type kv struct{ k, v string }
				var kvs []kv
				for _, e := range cl.Elts {
					kve, isKV := e.(*ast.KeyValueExpr)
					if !isKV {
						return nil, nil, false
					}
					k, okk := r.str(kve.Key)
					if !okk {
						return nil, nil, false
					}
					v, okv := r.str(kve.Value)
					if !okv {
						v = c.src(kve.Value)
					}
					kvs = append(kvs, kv{k, v})
				}
				sort.Slice(kvs, func(i, j int) bool { return kvs[i].k < kvs[j].k })
				for _, x := range kvs {
					keys = append(keys, x.k)
					vals = append(vals, x.v)
				}
				return keys, vals, true
			}
		}
	}
	return nil, nil, false
}

// sliceAssign resolves `name := []string{...}` inside a function.
func (c *ctx) sliceAssign(fd *ast.FuncDecl, name string, r *resolver) ([]string, bool) {
	var out []string
	found, ok := false, true
	if fd == nil {
		return nil, false
	}
	ast.Inspect(fd.Body, func(n ast.Node) bool {
		as, isA := n.(*ast.AssignStmt)
		if !isA || len(as.Lhs) != 1 || c.src(as.Lhs[0]) != name || found {
			return true
		}
		cl, isC := as.Rhs[0].(*ast.CompositeLit)
		if !isC {
			return true
		}
		found = true
		for _, e := range cl.Elts {
			if inner, isInner := e.(*ast.CompositeLit); isInner { // [][]string{{a, b}}
				for _, ie := range inner.Elts {
					s, k := r.str(ie)
					ok = ok && k
					out = append(out, s)
				}
				continue
			}
			s, k := r.str(e)
			ok = ok && k
			out = append(out, s)
		}
		return true
	})
	return out, found && ok
}

func pairs(keys, vals []string) string {
	items := make([]string, len(keys))
	for i := range keys {
		items[i] = "(" + LeanStr(keys[i]) + ", " + LeanStr(vals[i]) + ")"
	}
	return "[" + strings.Join(items, ", ") + "]"
}

func (c *ctx) validatorFacts() {
	docC := c.consts("pkg/document")
	patchC := c.consts("pkg/patch")
	pvC := c.consts("pkg/versions/1_0/operationparser/patchvalidator")
	r := &resolver{local: pvC, pkgs: map[string]map[string]string{"document": docC, "patch": patchC}}

	c.add("Validator", "maxIDLength", "Nat", pvC["maxIDLength"], pvDocGo, "")
	c.add("Validator", "maxServiceTypeLength", "Nat", pvC["maxServiceTypeLength"], pvDocGo, "")

	// id regexp
	re := ""
	if f := c.file(pvDocGo); f != nil {
		ast.Inspect(f, func(n ast.Node) bool {
			vs, ok := n.(*ast.ValueSpec)
			if ok && len(vs.Names) == 1 && vs.Names[0].Name == "asciiRegex" && len(vs.Values) == 1 {
				if call, ok := vs.Values[0].(*ast.CallExpr); ok && len(call.Args) == 1 {
					re, _ = r.str(call.Args[0])
				}
			}
			return true
		})
	}
	c.add("Validator", "idRegexp", "String", optStr(re), pvDocGo+":asciiRegex", "")

	if k, _, ok := c.mapLit(pvDocGo, "allowedPurposes", r); ok {
		c.add("Validator", "allowedPurposes", "List String", LeanStrList(k), pvDocGo, "")
	} else {
		c.add("Validator", "allowedPurposes", "List String", "", pvDocGo, "")
	}
	tables := map[string]string{}
	for _, name := range []string{"allowedKeyTypesGeneral", "allowedKeyTypesVerification", "allowedKeyTypesAgreement"} {
		lean := map[string]string{"allowedKeyTypesGeneral": "keyTypesGeneral", "allowedKeyTypesVerification": "keyTypesVerification", "allowedKeyTypesAgreement": "keyTypesAgreement"}[name]
		if k, _, ok := c.mapLit(pvDocGo, name, r); ok {
			c.add("Validator", lean, "List String", LeanStrList(k), pvDocGo, "")
			tables[name] = LeanStrList(k)
		} else {
			c.add("Validator", lean, "List String", "", pvDocGo, "")
		}
	}
	// purpose -> table (the table identifier is replaced by its extracted content)
	val := ""
	if k, v, ok := c.mapLit(pvDocGo, "allowedKeyTypes", r); ok {
		items := []string{}
		good := true
		for i := range k {
			t, has := tables[v[i]]
			if !has {
				good = false
				break
			}
			items = append(items, "("+LeanStr(k[i])+", "+t+")")
		}
		if good {
			val = "[" + strings.Join(items, ", ") + "]"
		}
	}
	c.add("Validator", "keyTypePurpose", "List (String × List String)", val, pvDocGo+":allowedKeyTypes", "")

	fd := c.fn(pvDocGo, "validatePublicKeyProperties")
	for _, nm := range [][2]string{{"requiredKeys", "pkRequiredMembers"}, {"optionalKeys", "pkOptionalMembers"}, {"oneOfNKeys", "pkOneOfMembers"}} {
		if xs, ok := c.sliceAssign(fd, nm[0], r); ok {
			c.add("Validator", nm[1], "List String", LeanStrList(xs), pvDocGo+":validatePublicKeyProperties", "")
		} else {
			c.add("Validator", nm[1], "List String", "", pvDocGo+":validatePublicKeyProperties", "")
		}
	}
	if xs, ok := c.sliceAssign(c.fn(pvReplGo, "Validate"), "allowedKeys", r); ok {
		c.add("Validator", "replaceAllowedMembers", "List String", LeanStrList(xs), pvReplGo+":Validate", "")
	} else {
		c.add("Validator", "replaceAllowedMembers", "List String", "", pvReplGo+":Validate", "")
	}

	// the base58 exception at the end of validatePublicKeys
	exc := ""
	if fd := c.fn(pvDocGo, "validatePublicKeys"); fd != nil {
		for _, cond := range c.ifConds(fd) {
			if strings.Contains(cond, "PublicKeyBase58()") {
				exc = cond
			}
		}
	}
	c.add("Validator", "base58Exception", "String", optStr(exc), pvDocGo+":validatePublicKeys", "")
	// validateServiceEndpointObjects: every string entry is validated (no early return of a nil error)
	shape := ""
	if fd := c.fn(pvDocGo, "validateServiceEndpointObjects"); fd != nil {
		ast.Inspect(fd.Body, func(n ast.Node) bool {
			if rs, ok := n.(*ast.RangeStmt); ok {
				var parts []string
				ast.Inspect(rs.Body, func(m ast.Node) bool {
					switch t := m.(type) {
					case *ast.IfStmt:
						parts = append(parts, "if "+c.src(t.Cond))
					case *ast.ReturnStmt:
						parts = append(parts, "return "+c.src(t.Results[0]))
					}
					return true
				})
				shape = strings.Join(parts, "; ")
			}
			return true
		})
	}
	c.add("Validator", "endpointLoopShape", "String", optStr(shape), pvDocGo+":validateServiceEndpointObjects", "")

	// size gates: the condition guarding each refusal
	var lim []string
	okLim := true
	for _, site := range [][3]string{
		{pvDocGo, "validateID", "maxIDLength"}, {pvDocGo, "validateServiceType", "maxServiceTypeLength"},
		{pvDocGo, "validateKeyPurposes", "len(allowedPurposes)"}, {opGo, "ParseOperation", "MaxOperationSize"},
		{createGo, "validateMultihash", "MaxOperationHashLength"}, {createGo, "validateDeltaSize", "MaxDeltaSize"}} {
		found := ""
		for _, cond := range c.ifConds(c.fn(site[0], site[1])) {
			if strings.Contains(cond, site[2]) {
				found = cond
				break
			}
		}
		if found == "" {
			okLim = false
		}
		lim = append(lim, "("+LeanStr(site[1])+", "+LeanStr(found)+")")
	}
	if okLim {
		c.add("Validator", "limitOps", "List (String × String)", "["+strings.Join(lim, ", ")+"]", "size gates", "")
	} else {
		c.add("Validator", "limitOps", "List (String × String)", "", "size gates", "")
	}

	// ietf: protected prefixes and which operation members are inspected
	var prefixes, members []string
	if fd := c.fn(pvIetfGo, "validateJSONPointer"); fd != nil {
		ast.Inspect(fd.Body, func(n ast.Node) bool {
			call, ok := n.(*ast.CallExpr)
			if ok && c.src(call.Fun) == "strings.HasPrefix" && len(call.Args) == 2 {
				if be, ok := call.Args[1].(*ast.BinaryExpr); ok && be.Op == token.ADD {
					a, ok1 := r.str(be.X)
					b, ok2 := r.str(be.Y)
					if ok1 && ok2 {
						prefixes = append(prefixes, a+b)
					}
				} else if s, ok := r.str(call.Args[1]); ok && s != "/" {
					prefixes = append(prefixes, s)
				}
			}
			return true
		})
	}
	if fd := c.fn(pvIetfGo, "validateJSONPatches"); fd != nil {
		// members m for which p["m"] is read and the decoded string is handed to validateJSONPointer
		readVars := map[string]string{} // message var -> member
		strVars := map[string]string{}  // string var -> member
		ast.Inspect(fd.Body, func(n ast.Node) bool {
			switch t := n.(type) {
			case *ast.AssignStmt:
				if len(t.Rhs) == 1 {
					if ix, ok := t.Rhs[0].(*ast.IndexExpr); ok {
						if s, ok := r.str(ix.Index); ok && len(t.Lhs) >= 1 {
							readVars[c.src(t.Lhs[0])] = s
						}
					}
				}
			case *ast.CallExpr:
				if c.src(t.Fun) == "json.Unmarshal" && len(t.Args) == 2 {
					msg := strings.TrimPrefix(c.src(t.Args[0]), "*")
					dst := strings.TrimPrefix(c.src(t.Args[1]), "&")
					if m, ok := readVars[msg]; ok {
						strVars[dst] = m
					}
				}
				if c.src(t.Fun) == "validateJSONPointer" && len(t.Args) == 1 {
					if m, ok := strVars[c.src(t.Args[0])]; ok {
						members = append(members, m)
					}
				}
			}
			return true
		})
	}
	c.add("Validator", "protectedPrefixes", "List String", listOrEmpty(prefixes), pvIetfGo+":validateJSONPointer", "")
	c.add("Validator", "inspectedMembers", "List String", listOrEmpty(members), pvIetfGo+":validateJSONPatches", "members whose pointer is checked")
	c.add("Validator", "ietfConds", "List String", listOrEmpty(c.ifConds(c.fn(pvIetfGo, "validateJSONPatches"))), pvIetfGo+":validateJSONPatches", "all if conditions in order")
	c.add("Validator", "pointerConds", "List String", listOrEmpty(c.ifConds(c.fn(pvIetfGo, "validateJSONPointer"))), pvIetfGo+":validateJSONPointer", "")

	// patch.go actionConfig
	pr := &resolver{local: patchC, pkgs: map[string]map[string]string{"document": docC}}
	if k, v, ok := c.mapLit(patchGo, "actionConfig", pr); ok {
		c.add("Patch", "actionConfig", "List (String × String)", pairs(k, v), patchGo, "")
	} else {
		c.add("Patch", "actionConfig", "List (String × String)", "", patchGo, "")
	}
}
