package extract

import (
	"go/ast"
)

const (
	applierGo = "pkg/versions/1_0/operationapplier/operationapplier.go"
	recoverGo = "pkg/versions/1_0/operationparser/recover.go"
)

// anchorUntilParam finds `from + int64(<recv>.<Field>)` inside getAnchorUntil and the guard
// of the if statement that returns it.
func (c *ctx) anchorUntilParam(rel string) (field, guard string) {
	fd := c.fn(rel, "getAnchorUntil")
	if fd == nil {
		return "", ""
	}
	ast.Inspect(fd.Body, func(n ast.Node) bool {
		ifs, ok := n.(*ast.IfStmt)
		if !ok {
			return true
		}
		// the protocol field that enters the default expiry: `int64(<recv>.<Field>)` or `….SetUint64(<recv>.<Field>)`
		// somewhere in the branch taken when only `from` is set
		ast.Inspect(ifs.Body, func(m ast.Node) bool {
			call, ok := m.(*ast.CallExpr)
			if !ok || len(call.Args) != 1 {
				return true
			}
			isConv := false
			switch fn := call.Fun.(type) {
			case *ast.Ident:
				isConv = fn.Name == "int64"
			case *ast.SelectorExpr:
				isConv = fn.Sel.Name == "SetUint64"
			}
			if !isConv {
				return true
			}
			if sel, ok := call.Args[0].(*ast.SelectorExpr); ok {
				if field != "" && field != sel.Sel.Name {
					field = "<several>"
				} else {
					field = sel.Sel.Name
				}
				guard = c.src(ifs.Cond)
			}
			return true
		})
		return false
		return true
	})
	return field, guard
}

func (c *ctx) window() {
	f, g := c.anchorUntilParam(applierGo)
	c.add("Window", "anchorUntilParamApplier", "String", optStr(f), applierGo+":getAnchorUntil", "")
	c.add("Window", "anchorUntilGuardApplier", "String", optStr(g), applierGo+":getAnchorUntil", "")
	f, g = c.anchorUntilParam(recoverGo)
	c.add("Window", "anchorUntilParamParser", "String", optStr(f), recoverGo+":getAnchorUntil", "")
	c.add("Window", "anchorUntilGuardParser", "String", optStr(g), recoverGo+":getAnchorUntil", "")

	// verifyAnchoringTimeRange: the early `return nil` guard and the ordered refusals
	fd := c.fn(applierGo, "verifyAnchoringTimeRange")
	unset, refusals, ok := "", "", false
	if fd != nil {
		ok = true
		var items []string
		for _, st := range fd.Body.List {
			ifs, isIf := st.(*ast.IfStmt)
			if !isIf {
				if r, isRet := st.(*ast.ReturnStmt); isRet && len(r.Results) == 1 && isNilIdent(r.Results[0]) {
					continue
				}
				if as, isAs := st.(*ast.AssignStmt); isAs && len(as.Lhs) == 1 && len(as.Rhs) == 1 {
					// a value the comparisons below refer to
					items = append(items, "("+LeanStr(c.src(as.Lhs[0]))+", "+LeanStr(as.Tok.String())+", "+LeanStr(c.src(as.Rhs[0]))+")")
					continue
				}
				ok = false
				break
			}
			r := lastReturn(ifs.Body)
			if r == nil || len(r.Results) != 1 || ifs.Else != nil || ifs.Init != nil {
				ok = false
				break
			}
			if isNilIdent(r.Results[0]) {
				unset = c.src(ifs.Cond)
				continue
			}
			be, isBin := ifs.Cond.(*ast.BinaryExpr)
			if !isBin {
				ok = false
				break
			}
			items = append(items, "("+LeanStr(c.src(be.X))+", "+LeanStr(be.Op.String())+", "+LeanStr(c.src(be.Y))+")")
		}
		if ok {
			refusals = "[" + join(items, ", ") + "]"
		}
	}
	if !ok {
		unset, refusals = "", ""
	}
	c.add("Window", "windowUnsetGuard", "String", optStr(unset), applierGo+":verifyAnchoringTimeRange", "")
	c.add("Window", "windowRefusals", "List (String × String × String)", refusals, applierGo+":verifyAnchoringTimeRange", "")
}

func optStr(s string) string {
	if s == "" {
		return ""
	}
	return LeanStr(s)
}

func join(xs []string, sep string) string {
	out := ""
	for i, x := range xs {
		if i > 0 {
			out += sep
		}
		out += x
	}
	return out
}
