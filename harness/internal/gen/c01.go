package gen

import (
	"encoding/json"
	"math/rand"
	"strings"

	"verif/harness/internal/opb"
	"verif/harness/internal/proto"
)

func init() {
	register("C07", genC07)
	register("C01", genC01)
	register("C02", genC02)
	register("C03", genC03)
	register("C04chain", genC04chain)
}

func cfgCopy() M {
	c := BaseCfg()
	c["patches"] = append([]string{}, AllPatches...)
	c["signatureAlgorithms"] = append([]string{}, AllSigAlgs...)
	c["keyAlgorithms"] = append([]string{}, AllCurves...)
	return c
}

func randCode(r *rand.Rand, cfg M) uint64 {
	switch r.Intn(8) {
	case 0, 1:
		cfg["multihashAlgorithms"] = []int{19}
		cfg["maxOperationHashLength"] = 150
		return 19
	case 2:
		// both algorithms configured; the first one is the one suffixes are computed with
		cfg["multihashAlgorithms"] = []int{18, 19}
		cfg["maxOperationHashLength"] = 150
		return 18
	case 3:
		cfg["multihashAlgorithms"] = []int{19, 18}
		cfg["maxOperationHashLength"] = 150
		return 19
	}
	return 18
}

// oneOp builds a valid operation of the given type on a fresh DID (with its create).
func oneOp(r *rand.Rand, code uint64, typ string, w opb.Window) (*didState, *built, *built) {
	d, c := newCreate(r, code)
	switch typ {
	case "create":
		return d, c, c
	case "update":
		return d, c, d.nextUpdate(w)
	case "recover":
		return d, c, d.nextRecover(w)
	default:
		return d, c, d.nextDeactivate(w)
	}
}

// genC07: a valid request of each type, and one labelled mutation per rule; protocol
// configurations vary with the mutation (limits set to the exact size, lists with an entry
// removed, several algorithms). Both validators record what they receive; sometimes they refuse.
func genC07(r *rand.Rand, n int, emit func(string)) {
	types := []string{"create", "update", "recover", "deactivate"}
	for i := 0; i < n; i++ {
		cfg := cfgCopy()
		code := randCode(r, cfg)
		typ := types[i%4]
		_, _, b := oneOp(r, code, typ, randWindow(r, 1000))
		label := typ + "/valid"
		if r.Intn(4) != 0 {
			ms := mutsFor(typ)
			m := ms[r.Intn(len(ms))]
			m.f(r, b, cfg)
			label = typ + "/" + m.label
		}
		body := M{"cfg": cfg, "ns": pick(r, []string{"did:sidetree", "did:ex", "ns"}), "req": proto.Hex(b.bytes(r)), "label": label}
		switch r.Intn(10) {
		case 0:
			body["tv_fail"] = true
			body["label"] = label + "+time-validator-refuses"
		case 1:
			body["ov_fail"] = true
			body["label"] = label + "+origin-validator-refuses"
		}
		body["uri"] = uriTableOfRequest(b.bytes(r))
		emit(proto.Line("parse", body))
	}
}

func uriTableOfRequest(req []byte) M {
	var v interface{}
	if json.Unmarshal(req, &v) != nil {
		return M{}
	}
	return UriTable(v)
}

func mergeTab(dst M, src M) {
	for k, v := range src {
		dst[k] = v
	}
}

// genC01: histories. Every position holds a valid operation or one labelled invalid one; the
// history may start with a non-create, contain a second create, and ends at a deactivate.
func genC01(r *rand.Rand, n int, emit func(string)) {
	for i := 0; i < n; i++ {
		cfg := cfgCopy()
		code := randCode(r, cfg)
		cfg["maxOperationTimeDelta"] = 100 + r.Intn(200)
		length := 1 + r.Intn(7)
		var ops []interface{}
		var oracle []interface{}
		uri := M{}
		labels := []string{}
		d, c := newCreate(r, code)
		t := uint64(r.Intn(100))
		add := func(b *built, typ, label string) {
			req := b.bytes(r)
			t += uint64(r.Intn(60))
			var er []string
			switch r.Intn(3) {
			case 0:
				er = []string{}
			case 1:
				er = []string{"eq-" + ident(r, 3), "eq-" + ident(r, 2)}
			}
			anchoredType := typ
			if r.Intn(25) == 0 {
				anchoredType = pick(r, []string{"create", "update", "recover", "deactivate", "unknown"})
				label += "+anchored-as-" + anchoredType
			}
			ops = append(ops, AnchoredLine(anchoredType, d.Suffix, req, t, uint64(r.Intn(1000)), uint64(r.Intn(3)), pick(r, []string{"", "cr-" + ident(r, 4)}), er))
			oracle = append(oracle, OracleEntries(req)...)
			mergeTab(uri, uriTableOfRequest(req))
			labels = append(labels, label)
		}
		maybeMut := func(b *built, typ string) string {
			if r.Intn(3) != 0 {
				return typ + "/valid"
			}
			ms := mutsFor(typ)
			m := ms[r.Intn(len(ms))]
			m.f(r, b, cfg)
			return typ + "/" + m.label
		}
		if r.Intn(8) == 0 { // history that does not start with a create
			b := pick(r, []func(opb.Window) *built{d.nextUpdate, d.nextRecover, d.nextDeactivate})(opb.Window{})
			add(b, b.Typ, b.Typ+"/first-operation")
		}
		add(c, "create", maybeMut(c, "create"))
		for len(ops) < length {
			var b *built
			w := randWindow(r, int64(t)+30)
			switch r.Intn(8) {
			case 0, 1, 2, 3:
				b = d.nextUpdate(w)
			case 4, 5:
				b = d.nextRecover(w)
			case 6:
				_, b = newCreate(r, code) // a second create
			default:
				b = d.nextDeactivate(w)
			}
			add(b, b.Typ, maybeMut(b, b.Typ))
			if b.Typ == "deactivate" {
				break
			}
		}
		body := M{"cfg": cfg, "ops": ops, "oracle": oracle, "uri": uri, "labels": labels}
		if r.Intn(6) == 0 {
			body["init"] = M{"pub": []string{"p1", "p2"}, "unpub": pick(r, []interface{}{nil, []string{}, []string{"u1"}})}
		}
		emit(proto.Line("apply", body))
	}
}

// genC02: create, then one operation of every type with every tampering.
func genC02(r *rand.Rand, n int, emit func(string)) {
	types := []string{"update", "recover", "deactivate"}
	for i := 0; i < n; i++ {
		cfg := cfgCopy()
		code := randCode(r, cfg)
		typ := types[i%3]
		// the second operation is anchored at time 20: mostly no window, sometimes one that holds 20,
		// one not yet open, one already closed (a tampered operation outside its window is still tampered)
		w, wl := opb.Window{}, ""
		switch r.Intn(8) {
		case 0:
			w, wl = opb.Window{From: 10, Until: 30}, "+in-window"
		case 1:
			w, wl = opb.Window{From: 30, Until: 40}, "+window-not-open"
		case 2:
			w, wl = opb.Window{From: 1, Until: 5}, "+window-closed"
		}
		d, c, b := oneOp(r, code, typ, w)
		ms := mutsFor(typ)
		label := typ + "/valid" + wl
		if r.Intn(8) != 0 {
			m := ms[r.Intn(len(ms))]
			m.f(r, b, cfg)
			label = typ + "/" + m.label + wl
		}
		creq, req := c.bytes(r), b.bytes(r)
		uri := uriTableOfRequest(creq)
		mergeTab(uri, uriTableOfRequest(req))
		body := M{"cfg": cfg, "ops": []interface{}{
			AnchoredLine("create", d.Suffix, creq, 10, 1, 0, "cr0", nil),
			AnchoredLine(typ, d.Suffix, req, 20, 2, 0, "cr1", nil)},
			"oracle": OracleEntries(req), "uri": uri, "labels": []string{"create/valid", label}}
		emit(proto.Line("apply", body))
	}
}

// genC03: create requests in several re-serializations and with single-field modifications.
func genC03(r *rand.Rand, n int, emit func(string)) {
	for i := 0; i < n; {
		cfg := cfgCopy()
		code := randCode(r, cfg)
		if r.Intn(3) == 0 {
			cfg["multihashAlgorithms"] = pick(r, [][]int{{18, 19}, {19, 18}})
			cfg["maxOperationHashLength"] = 150
			code = uint64(cfg["multihashAlgorithms"].([]int)[0])
			if r.Intn(2) == 0 {
				code = 37 - code // hashed with the second configured algorithm
			}
		}
		_, c := newCreate(r, code)
		req := c.request(r)
		base := M{"cfg": cfg, "ns": "did:sidetree"}
		mk := func(text []byte, label string) {
			b := M{}
			for k, v := range base {
				b[k] = v
			}
			b["req"] = proto.Hex(text)
			b["label"] = label
			b["uri"] = uriTableOfRequest(text)
			emit(proto.Line("parse", b))
			i++
		}
		mk(opb.Canon(req), "create/canonical")
		jv := ToJV(deepCopy(req))
		for k := 0; k < 2; k++ {
			mk([]byte(jv.Render(r, true)), "create/respelled")
		}
		// single-field modifications
		mod := deepCopy(req).(map[string]interface{})
		sd := mod["suffixData"].(map[string]interface{})
		dl := mod["delta"].(map[string]interface{})
		switch r.Intn(8) {
		case 7:
			// a well-formed multihash whose digest is a proper prefix of the true one (length field
			// consistent; the empty digest included), alone or with another delta: "the delta must hash to
			// the delta hash" is about the whole hash
			h := sd["deltaHash"].(string)
			if raw, err := opb.B64.DecodeString(h); err == nil && len(raw) > 2 {
				n := pick(r, []int{0, 1, 16, len(raw) - 3})
				sd["deltaHash"] = opb.B64E(append([]byte{raw[0], byte(n)}, raw[2:2+n]...))
				if r.Intn(2) == 0 {
					dl["patches"] = docPatches(r)
				}
				mk(opb.Canon(mod), "create/delta-hash-truncated-digest")
			}
		case 6:
			const al = "ABCDEFGHIJKLMNOPQRSTUVWXYZabcdefghijklmnopqrstuvwxyz0123456789-_"
			h := sd["deltaHash"].(string)
			if r.Intn(2) == 0 {
				k := r.Intn(len(h))
				sd["deltaHash"] = h[:k] + "\n" + h[k:]
			} else {
				last := strings.IndexByte(al, h[len(h)-1])
				sd["deltaHash"] = h[:len(h)-1] + string(al[last^(1+r.Intn(3))])
			}
			mk(opb.Canon(mod), "create/delta-hash-lenient-sibling")
		case 0:
			sd["recoveryCommitment"] = opb.NewKey(r, opb.P256).Commitment(code)
			mk(opb.Canon(mod), "create/other-recovery-commitment")
		case 1:
			sd["anchorOrigin"] = "changed"
			mk(opb.Canon(mod), "create/other-anchor-origin")
		case 2:
			sd["type"] = "changed"
			mk(opb.Canon(mod), "create/other-type")
		case 3:
			dl["updateCommitment"] = opb.NewKey(r, opb.P256).Commitment(code)
			mk(opb.Canon(mod), "create/delta-changed-hash-not")
		case 4:
			dl["patches"] = docPatches(r)
			mk(opb.Canon(mod), "create/patches-changed-hash-not")
		case 5:
			dl["patches"] = docPatches(r)
			sd["deltaHash"] = opb.ModelMH(code, dl)
			mk(opb.Canon(mod), "create/delta-and-hash-changed")
		}
	}
}

// genC04chain: well-formed chains create -> (update | recover)* -> deactivate, plus single-member
// deletions of chain elements; the parser-level getters are asked for every element.
func genC04chain(r *rand.Rand, n int, emit func(string)) {
	for i := 0; i < n; i++ {
		cfg := cfgCopy()
		code := randCode(r, cfg)
		d, c := newCreate(r, code)
		reqs := []string{proto.Hex(c.bytes(r))}
		uri := uriTableOfRequest(c.bytes(r))
		k := 1 + r.Intn(10)
		for j := 0; j < k; j++ {
			var b *built
			if r.Intn(3) == 0 {
				b = d.nextRecover(opb.Window{})
			} else {
				b = d.nextUpdate(opb.Window{})
			}
			if r.Intn(12) == 0 { // delete one member
				req := b.request(r)
				delete(req, pick(r, []string{"delta", "revealValue", "signedData", "didSuffix", "type"}))
				x := opb.Canon(req)
				reqs = append(reqs, proto.Hex(x))
				continue
			}
			x := b.bytes(r)
			mergeTab(uri, uriTableOfRequest(x))
			reqs = append(reqs, proto.Hex(x))
		}
		db := d.nextDeactivate(opb.Window{})
		switch r.Intn(4) {
		case 0:
			// the signed data's own (optional, never validated) reveal value names another key: the reveal
			// value the parser reports is the request's, the one it checked against the recovery key
			db.Signed["revealValue"] = opb.NewKey(r, opb.P256).Reveal(code)
		case 1:
			delete(db.Signed, "revealValue")
		}
		x := db.bytes(r)
		reqs = append(reqs, proto.Hex(x))
		emit(proto.Line("getters", M{"cfg": cfg, "reqs": reqs, "uri": uri}))
	}
}
