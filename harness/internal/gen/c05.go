package gen

import (
	"math/rand"
	"strings"

	"verif/harness/internal/proto"
)

func init() {
	register("C05", genC05)
	register("C05num", genC05num)
}

// genC05: I-JSON texts. For every generated value: the compact spelling and several loose
// spellings (member order, whitespace, escape style, number spelling); plus a malformed
// stream restricted to inputs RFC 8259 and the library both refuse.
func genC05(r *rand.Rand, n int, emit func(string)) {
	for i := 0; i < n; {
		switch {
		case i%10 == 9:
			emit(proto.Line("jcs", M{"text": proto.Hex([]byte(malformedJSON(r))), "label": "malformed"}))
			i++
		case i%10 == 8:
			// deep nesting
			d := 20 + r.Intn(180)
			if r.Intn(12) == 0 {
				// around the transformer's bound on nesting
				d = pick(r, []int{9999, 10000, 10001, 10002})
			}
			open, cl := "[", "]"
			if r.Intn(2) == 0 {
				open, cl = "{\"a\":", "}"
			}
			txt := strings.Repeat(open, d) + "1" + strings.Repeat(cl, d)
			emit(proto.Line("jcs", M{"text": proto.Hex([]byte(txt)), "label": "deep"}))
			i++
		default:
			v := RandContainer(r, 1+r.Intn(5))
			emit(proto.Line("jcs", M{"text": proto.Hex([]byte(v.Render(r, false))), "label": "compact"}))
			i++
			k := 1 + r.Intn(3)
			for j := 0; j < k && i < n; j++ {
				emit(proto.Line("jcs", M{"text": proto.Hex([]byte(v.Render(r, true))), "label": "loose"}))
				i++
			}
		}
	}
}

func malformedJSON(r *rand.Rand) string {
	base := RandContainer(r, 2).Render(r, false)
	switch r.Intn(18) {
	case 16, 17:
		// the text ends inside a string, an escape, a literal or a number
		head := pick(r, []string{`[`, `{"k":`, `["a",`, `{"a":[1,`, `[[`, `{"k":{"n":`})
		tail := pick(r, []string{`"`, `"ab`, `"ab\`, `"\u`, `"\u0`, `"\u00`, `"\u00e`, `"x\ud83d`, `"x\ud83d\`, `"x\ud83d\u`, `"x\ud83d\ude0`,
			`t`, `tr`, `tru`, `fals`, `nul`, `n`, `-`, `1.`, `1e`, `1e+`, `0.`, `-0.`})
		return head + tail
	case 0:
		return base[:r.Intn(len(base))] // truncated (may be empty)
	case 1:
		return base + pick(r, []string{"x", "]", "}", ",", "[]", "1"})
	case 2:
		return `{"a":1,"a":2}`
	case 3:
		return `{"a":{"b":1,"c":2,"b":3}}`
	case 4:
		return pick(r, []string{"1", `"s"`, "true", "null", "", " "})
	case 5, 6:
		return `["a\qb"]`
	case 7:
		return `["\x"]`
	case 8:
		return "[\"a\nb\"]"
	case 9:
		return pick(r, []string{"[1e400]", "[-1e400]", "[NaN]", "[Infinity]", "[-Infinity]", "[0x10]", "[1e]", "[--1]", "[1.2.3]", "[tru]", "[nul]", "[True]"})
	case 10:
		return `{"a" 1}`
	case 11:
		return `{"a":1 "b":2}`
	case 12:
		return `[1 2]`
	case 13:
		return `{a:1}`
	case 14:
		return `["\u12"]`
	default:
		return `{"a":1,}`
	}
}

// genC05num: bit patterns of finite doubles (and a few non-finite ones).
func genC05num(r *rand.Rand, n int, emit func(string)) {
	for i := 0; i < n; i++ {
		f := InterestingFloat(r)
		emit(proto.Line("num", M{"bits": bitsHex(f)}))
	}
	emit(proto.Line("num", M{"bits": "7ff0000000000000"}))
	emit(proto.Line("num", M{"bits": "fff0000000000000"}))
	emit(proto.Line("num", M{"bits": "7ff8000000000001"}))
}
