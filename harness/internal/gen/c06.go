package gen

import (
	"math"
	"math/rand"
	"strings"

	"verif/harness/internal/opb"
	"verif/harness/internal/proto"
)

func init() {
	register("C06", genC06)
	register("C04", genC04)
}

var unsupportedCodes = []uint64{0, 0x11, 0x14, 0x16, 0xb220, 0x13, 0x20, 1 << 20}

func randContainerSimple(r *rand.Rand) interface{} {
	for {
		v := SimpleValue(r, 1+r.Intn(3))
		switch t := v.(type) {
		case map[string]interface{}:
			if r.Intn(4) == 0 {
				t["z"+ident(r, 2)] = math.Copysign(0, -1) // negative zero: the same JSON value as 0
			}
			return t
		case []interface{}:
			if r.Intn(4) == 0 {
				return append(t, math.Copysign(0, -1))
			}
			return t
		}
	}
}

// mutateSimple makes a single-point change to a simple value (guaranteed different value).
func mutateSimple(r *rand.Rand, v interface{}) interface{} {
	switch t := v.(type) {
	case nil:
		return false
	case bool:
		return !t
	case int64:
		return t + 1
	case float64:
		return int64(1)
	case string:
		return t + "x"
	case []interface{}:
		if len(t) > 0 && r.Intn(2) == 0 {
			out := append([]interface{}{}, t...)
			i := r.Intn(len(out))
			out[i] = mutateSimple(r, out[i])
			return out
		}
		return append(append([]interface{}{}, t...), int64(7))
	case map[string]interface{}:
		out := map[string]interface{}{}
		for k, e := range t {
			out[k] = e
		}
		if len(out) > 0 && r.Intn(2) == 0 {
			for k := range out {
				out[k] = mutateSimple(r, out[k])
				break
			}
			return out
		}
		out["zz"+ident(r, 3)] = int64(1)
		return out
	}
	return v
}

func genC06(r *rand.Rand, n int, emit func(string)) {
	for i := 0; i < n; i++ {
		v := randContainerSimple(r)
		jv := ToJV(v)
		code := uint64(18 + r.Intn(2))
		good := opb.MH(code, opb.Canon(v))
		rawGood := opb.MHRaw(code, opb.HashFor(code, opb.Canon(v)))
		text := jv.Render(r, r.Intn(3) != 0)
		hash := good
		label := "match"
		useCode := code
		switch r.Intn(14) {
		case 0, 1, 2: // correct hash, some spelling
		case 3: // single-point modification of the value, original hash
			text = ToJV(mutateSimple(r, v)).Render(r, r.Intn(2) == 0)
			label = "modified-value"
		case 4: // other supported algorithm in the prefix, digest of the first
			other := uint64(37) - code
			hash = opb.B64E(opb.MHRaw(other, opb.HashFor(code, opb.Canon(v))))
			label = "prefix-other-alg"
		case 5: // hash computed with the other algorithm (valid for that algorithm)
			other := uint64(37) - code
			hash = opb.MH(other, opb.Canon(v))
			label = "other-alg"
		case 6: // unsupported code
			c := pick(r, unsupportedCodes)
			hash = opb.B64E(opb.MHRaw(c, opb.RandBytes(r, pick(r, []int{0, 20, 32, 64}))))
			useCode = c
			label = "unsupported-code"
		case 7: // bad alphabet / padding
			hash = pick(r, []string{good + "=", good[:5] + "+" + good[6:], good[:5] + "/" + good[6:], good[:7] + " " + good[7:], good + "*", "=" + good})
			label = "bad-base64"
		case 8: // wrong length field
			raw := append([]byte{}, rawGood...)
			raw[1] = byte(int(raw[1]) + pick(r, []int{1, -1, 5}))
			hash = opb.B64E(raw)
			label = "wrong-length-field"
		case 9: // truncated or extended digest
			if r.Intn(2) == 0 {
				hash = opb.B64E(rawGood[:len(rawGood)-1-r.Intn(4)])
			} else {
				hash = opb.B64E(append(append([]byte{}, rawGood...), opb.RandBytes(r, 1+r.Intn(3))...))
			}
			label = "truncated-or-extended"
		case 10: // non-minimal varint / too short / empty
			hash = pick(r, []string{opb.B64E(append([]byte{byte(code) | 0x80, 0x00}, rawGood[1:]...)), opb.B64E([]byte{byte(code)}), "", opb.B64E([]byte{0x80}),
				opb.B64E([]byte{0xff, 0xff, 0xff, 0xff, 0xff, 0xff, 0xff, 0xff, 0xff, 0x01, 0x00})})
			label = "bad-varint"
		case 11: // CR/LF inside (Go's decoder skips them) and trailing-bit variants
			if r.Intn(2) == 0 {
				k := r.Intn(len(good))
				hash = good[:k] + pick(r, []string{"\n", "\r\n", "\r"}) + good[k:]
			} else {
				const al = "ABCDEFGHIJKLMNOPQRSTUVWXYZabcdefghijklmnopqrstuvwxyz0123456789-_"
				last := strings.IndexByte(al, good[len(good)-1])
				hash = good[:len(good)-1] + string(al[last^(1+r.Intn(3))])
			}
			label = "lenient-base64"
		case 12: // digest bit flip
			raw := append([]byte{}, rawGood...)
			raw[2+r.Intn(len(raw)-2)] ^= 1 << uint(r.Intn(8))
			hash = opb.B64E(raw)
			label = "digest-bitflip"
		case 13: // not canonicalizable value (scalar at top level / malformed text)
			text = pick(r, []string{"1", `"x"`, "null", "{", `{"a":1,"a":2}`, "true", "1.5", `"abc"`,
				// escaped surrogates that are not a pair: two texts encoding/json reads as different strings
				`{"k":"\ud800\u0061"}`, `{"k":"\ud800\u0062"}`, `{"k":"\udc00\ud800"}`, `{"\ud83d\u0041":1}`, `["\ud800x"]`, `["\udfff"]`})
			label = "bad-value"
			if text != "{" && text[0] != '{' {
				label = "scalar-value" // a JSON value all the same
			}
		}
		codes := [][]uint64{{18}, {19}, {18, 19}, {19, 18}, {}, {useCode}, {0x11, 18}}[r.Intn(7)]
		emit(proto.Line("mh", M{"value": proto.Hex([]byte(text)), "code": useCode, "hash": hash, "codes": codes, "ns": "did:" + ident(r, 4), "label": label}))
	}
}

// genC04: keys of the five types (with and without nonce, Ed25519 with empty y), both
// algorithms and unsupported codes; reveal values of the same key, another key, malformed.
func genC04(r *rand.Rand, n int, emit func(string)) {
	for i := 0; i < n; i++ {
		k := opb.NewKey(r, opb.KeyType(r.Intn(int(opb.NumKeyTypes))))
		if r.Intn(2) == 0 {
			k.Nonce = opb.B64E(opb.RandBytes(r, pick(r, []int{16, 8, 1, 32})))
		}
		jwk := k.JWK()
		label := k.Type.String()
		switch r.Intn(8) {
		case 0: // RSA-shaped
			jwk = M{"kty": "RSA", "n": opb.B64E(opb.RandBytes(r, 64)), "e": "AQAB"}
			if r.Intn(2) == 0 {
				jwk["nonce"] = opb.B64E(opb.RandBytes(r, 16))
			}
			label = "rsa"
		case 1: // extra unknown member is ignored by the struct
			jwk["kid"] = "k1"
			label += "+extra"
		case 2: // empty
			jwk = M{}
			label = "empty"
		}
		code := uint64(18 + r.Intn(2))
		if r.Intn(6) == 0 {
			code = pick(r, unsupportedCodes)
			label += "/unsupported"
		}
		rv := ""
		switch r.Intn(5) {
		case 0:
			rv = k.Reveal(18)
		case 1:
			rv = opb.NewKey(r, opb.P256).Reveal(19)
		case 2:
			rv = opb.B64E(opb.MHRaw(pick(r, unsupportedCodes), opb.RandBytes(r, 32)))
		case 3:
			rv = pick(r, []string{"", "abc", "!!!!", opb.B64E([]byte{18, 32, 1, 2})})
		case 4:
			rv = opb.B64E(opb.MHRaw(18, opb.RandBytes(r, pick(r, []int{32, 20, 0, 64}))))
		}
		emit(proto.Line("commit", M{"jwk": jwk, "code": code, "rv": rv, "label": label,
			"twin_nonce": pick(r, []string{"", opb.B64E(opb.RandBytes(r, 16)), opb.B64E(opb.RandBytes(r, 16)), "AA"})}))
	}
}
