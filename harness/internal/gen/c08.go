package gen

import (
	"crypto/ed25519"
	"math/rand"
	"sort"
	"strings"

	"verif/harness/internal/opb"
	"verif/harness/internal/proto"
)

func init() {
	register("C08", genC08)
}

// c08State is the generator's own account of what the caller has asked for so far.
type c08State struct {
	code     uint64
	suffix   string
	didns    string // what precedes the suffix in the DIDs handed to the Sidetree client
	upd, rec *opb.Key
	keys     map[string]M
	services map[string]M
	aka      []string
	deact    bool
	sigs     []interface{}
	oracle   []interface{}
	r        *rand.Rand
	n        int
	// the last signed step's ingredients (for inputs the builder must refuse)
	lastPatches []interface{}
	lastSigner  *opb.Key
	lastHeaders M
	lastWindow  opb.Window
	lastAO      interface{}
}

func pubCoords(k *opb.Key) M {
	if k.Type == opb.Ed25519 {
		return M{"curve": "Ed25519", "x": proto.Hex([]byte(k.Ed.Public().(ed25519.PublicKey))), "y": ""}
	}
	return M{"curve": k.Type.String(), "x": proto.Hex(k.X.Bytes()), "y": proto.Hex(k.Y.Bytes())}
}

// a document key as the Sidetree client takes it, and the entry it must become
func c08Key(r *rand.Rand, id string) (M, M) {
	kt := randKT(r)
	typ := "JsonWebKey2020"
	switch {
	case kt == opb.Secp256k1:
		typ = "EcdsaSecp256k1VerificationKey2019"
	case kt == opb.Ed25519 && r.Intn(2) == 0:
		typ = "Ed25519VerificationKey2018"
	}
	all := []string{"authentication", "assertionMethod", "capabilityDelegation", "capabilityInvocation"}
	if typ != "Ed25519VerificationKey2018" {
		all = append(all, "keyAgreement")
	}
	r.Shuffle(len(all), func(i, j int) { all[i], all[j] = all[j], all[i] })
	ps := all[:1+r.Intn(len(all))]
	jwk := jwkNoEmptyY(opb.NewKey(r, kt).JWK())
	if typ == "JsonWebKey2020" && r.Intn(6) == 0 {
		// the one supported key whose JWK is written with kty EC and has no y
		typ, jwk = "Bls12381G2Key2020", blsJWK(r)
	}
	psI := make([]interface{}, len(ps))
	for i, p := range ps {
		psI[i] = p
	}
	in := M{"id": id, "type": typ, "purposes": psI, "jwk": jwk}
	entry := M{"id": id, "type": typ, "purposes": psI, "publicKeyJwk": jwk}
	if typ == "Ed25519VerificationKey2018" && r.Intn(3) == 0 {
		// base58 key material instead of a JWK
		in = M{"id": id, "type": typ, "purposes": psI, "b58": "GY4GunSXBPBfhLCzDL7iGmP5dR3sBDCJZkkaGK8VgYQf"}
		entry = M{"id": id, "type": typ, "purposes": psI, "publicKeyBase58": "GY4GunSXBPBfhLCzDL7iGmP5dR3sBDCJZkkaGK8VgYQf"}
	}
	if r.Intn(7) == 0 {
		// a general key: no purposes at all (a nil or an empty list on the way in, no member in the document)
		if r.Intn(2) == 0 {
			delete(in, "purposes")
		} else {
			in["purposes"] = []interface{}{}
		}
		delete(entry, "purposes")
	}
	return in, entry
}

var c08SharedProps = []M{
	{"note": "common"},
	{"zone": "eu", "tier": 2},
	{"x-extra": []interface{}{"a", "b"}},
}

// a service as the Sidetree client takes it, and the entry it must become
func c08Service(r *rand.Rand, id string) (M, M) {
	in := M{"id": id, "type": "T" + ident(r, 1+r.Intn(8))}
	entry := M{"id": id, "type": in["type"]}
	switch r.Intn(4) {
	case 0:
		in["endpoint"] = "https://svc.example/" + ident(r, 4)
	case 1:
		in["endpoint"] = []interface{}{"https://a.example/" + ident(r, 3), "https://b.example"}
	case 2:
		in["endpoint"] = M{"uri": "https://x.example/" + ident(r, 2), "routingKeys": []interface{}{"k1"}}
	default:
		in["endpoint"] = "did:example:" + ident(r, 6)
	}
	entry["serviceEndpoint"] = in["endpoint"]
	if r.Intn(3) == 0 {
		in["priority"] = r.Intn(5)
		entry["priority"] = in["priority"]
	}
	if r.Intn(3) == 0 {
		in["recipientKeys"] = []interface{}{"rk-" + ident(r, 2)}
		entry["recipientKeys"] = in["recipientKeys"]
	}
	if r.Intn(4) == 0 {
		in["routingKeys"] = []interface{}{"ro-" + ident(r, 2), "ro2"}
		entry["routingKeys"] = in["routingKeys"]
	}
	if r.Intn(4) == 0 {
		in["accept"] = []interface{}{"didcomm/v2"}
		entry["accept"] = in["accept"]
	}
	if r.Intn(2) == 0 {
		p := pick(r, c08SharedProps)
		cp := M{}
		for k, v := range p {
			cp[k] = v
			entry[k] = v
		}
		in["properties"] = cp
	}
	return in, entry
}

func sortedEntries(m map[string]M) []interface{} {
	ids := make([]string, 0, len(m))
	for id := range m {
		ids = append(ids, id)
	}
	sort.Strings(ids)
	out := make([]interface{}, len(ids))
	for i, id := range ids {
		out[i] = m[id]
	}
	return out
}

func strsI(xs []string) []interface{} {
	out := make([]interface{}, len(xs))
	for i, x := range xs {
		out[i] = x
	}
	return out
}

func (s *c08State) expect(valid bool) M {
	keys, svcs := M{}, M{}
	for id, e := range s.keys {
		keys[id] = e
	}
	for id, e := range s.services {
		svcs[id] = e
	}
	uc, rc := "", ""
	if !s.deact && s.upd != nil {
		uc, rc = s.upd.Commitment(s.code), s.rec.Commitment(s.code)
	}
	return M{"valid": valid, "keys": keys, "services": svcs, "aka": strsI(s.aka), "uc": uc, "rc": rc, "deactivated": s.deact}
}

// sign records the signature the table signer must return for (headers, signed model) and
// the verdict the model needs for it; returns the compact JWS.
func (s *c08State) sign(k *opb.Key, headers M, signed M) string {
	hb := opb.HeaderBytes(headers)
	payload := opb.Canon(signed)
	in := opb.SigningInput(hb, payload)
	var sig []byte
	for _, e := range s.sigs {
		if p := e.([]interface{}); p[0].(string) == proto.Hex(in) {
			sig = proto.UnHex(p[1].(string))
		}
	}
	if sig == nil {
		sig = k.SignRaw(s.r, in)
		s.sigs = append(s.sigs, []interface{}{proto.Hex(in), proto.Hex(sig)})
		s.oracle = append(s.oracle, M{"jwk": k.JWK(), "in": proto.Hex(in), "sig": proto.Hex(sig), "ok": true})
	}
	return opb.B64E(hb) + "." + opb.B64E(payload) + "." + opb.B64E(sig)
}

// docIntent draws a document: keys, services, also-known-as (client inputs and expected entries)
type docIntent struct {
	keysIn, svcsIn   []interface{}
	keys, services   map[string]M
	keyIDs, svcIDs   []string
	aka              []string
	keyList, svcList []interface{}
	// an opaque document spells a member it has nothing for as an empty list
	emptyLists bool
	// further members of the document, under names that need escaping as JSON-pointer tokens
	extras M
}

// withExtras gives the document further members (builder level only: the Sidetree client takes keys,
// services and also-known-as)
func (d *docIntent) withExtras(r *rand.Rand) {
	if r.Intn(3) != 0 {
		return
	}
	d.extras = M{}
	for _, name := range []string{"a/b", "m~n", "~1", "plain"} {
		if r.Intn(2) == 0 {
			d.extras[name] = pick(r, []interface{}{"v", 1, M{"t": 1}, []interface{}{"x"}, nil})
		}
	}
}

var c08TokenEscaper = strings.NewReplacer("~", "~0", "/", "~1")

func drawDoc(r *rand.Rand) *docIntent {
	d := &docIntent{keys: map[string]M{}, services: map[string]M{}}
	for i, n := 0, r.Intn(4); i < n; i++ {
		id := "key" + ident(r, 2) + string(rune('a'+i))
		in, e := c08Key(r, id)
		d.keysIn = append(d.keysIn, in)
		d.keyList = append(d.keyList, e)
		d.keys[id] = e
		d.keyIDs = append(d.keyIDs, id)
	}
	for i, n := 0, r.Intn(3); i < n; i++ {
		id := "svc" + ident(r, 2) + string(rune('a'+i))
		in, e := c08Service(r, id)
		d.svcsIn = append(d.svcsIn, in)
		d.svcList = append(d.svcList, e)
		d.services[id] = e
		d.svcIDs = append(d.svcIDs, id)
	}
	for i, n := 0, r.Intn(3); i < n; i++ {
		d.aka = append(d.aka, "https://aka.example/"+ident(r, 3)+string(rune('a'+i)))
	}
	if len(d.keysIn)+len(d.svcsIn)+len(d.aka) == 0 {
		in, e := c08Key(r, "key0")
		d.keysIn, d.keyList, d.keyIDs = []interface{}{in}, []interface{}{e}, []string{"key0"}
		d.keys["key0"] = e
	}
	d.emptyLists = r.Intn(3) == 0
	return d
}

func (d *docIntent) docJSON() M {
	m := M{}
	if len(d.keyList) > 0 {
		m["publicKey"] = d.keyList
	} else if d.emptyLists {
		m["publicKey"] = []interface{}{}
	}
	if len(d.svcList) > 0 {
		m["service"] = d.svcList
	} else if d.emptyLists {
		m["service"] = []interface{}{}
	}
	if len(d.aka) > 0 {
		m["alsoKnownAs"] = strsI(d.aka)
	}
	for k, v := range d.extras {
		m[k] = v
	}
	return m
}

// patches the way PatchesFromDocument orders them: alsoKnownAs, publicKey, service
func (d *docIntent) patches() []interface{} {
	var ps []interface{}
	if len(d.aka) > 0 {
		ps = append(ps, M{"action": "add-also-known-as", "uris": strsI(d.aka)})
	}
	if len(d.keyList) > 0 {
		ps = append(ps, M{"action": "add-public-keys", "publicKeys": d.keyList})
	}
	if len(d.svcList) > 0 {
		ps = append(ps, M{"action": "add-services", "services": d.svcList})
	}
	if len(d.extras) > 0 {
		// every further member in one ietf-json-patch, by name
		names := make([]string, 0, len(d.extras))
		for k := range d.extras {
			names = append(names, k)
		}
		sort.Strings(names)
		var ops []interface{}
		for _, k := range names {
			ops = append(ops, M{"op": "add", "path": "/" + c08TokenEscaper.Replace(k), "value": d.extras[k]})
		}
		ps = append(ps, M{"action": "ietf-json-patch", "patches": ops})
	}
	return ps
}

func (s *c08State) adopt(d *docIntent) {
	s.keys, s.services, s.aka = d.keys, d.services, append([]string{}, d.aka...)
}

func signerCase(k *opb.Key, headers M) M {
	return M{"headers": headers, "jwk": k.JWK()}
}

func (s *c08State) tn() (int, int) {
	s.n++
	return 100 + s.n, s.n
}

func (s *c08State) stepCreate(via string) M {
	r := s.r
	d := drawDoc(r)
	if via == "builder" {
		d.withExtras(r)
	}
	s.upd, s.rec = opb.NewKey(r, randKT(r)), opb.NewKey(r, randKT(r))
	var ao interface{}
	if r.Intn(3) == 0 {
		ao = "origin.example/" + ident(r, 3)
	}
	delta := opb.Delta(s.upd.Commitment(s.code), d.patches())
	sd := opb.SuffixData(s.code, delta, s.rec.Commitment(s.code), ao, "")
	s.suffix = opb.Suffix(s.code, sd)
	s.adopt(d)
	t, n := s.tn()
	st := M{"via": via, "op": "create", "t": t, "n": n}
	if via == "client" {
		info := M{"keys": d.keysIn, "services": d.svcsIn, "aka": strsI(d.aka), "recoveryKey": pubCoords(s.rec), "updateKey": pubCoords(s.upd), "code": s.code}
		if ao != nil {
			info["anchorOrigin"] = ao
		}
		st["info"] = info
	} else {
		info := M{"rc": s.rec.Commitment(s.code), "uc": s.upd.Commitment(s.code), "code": s.code}
		if ao != nil {
			info["anchorOrigin"] = ao
		}
		if r.Intn(2) == 0 {
			info["opaque"] = d.docJSON()
		} else {
			info["patches"] = d.patches()
		}
		st["info"] = info
	}
	return st
}

// updIntent draws what one update removes and adds; with probability 1/3 something removed is
// added again under the same identifier (rotation in place)
func (s *c08State) stepUpdate(via string) M {
	r := s.r
	var remKeys, remSvcs, remAka, addAka []string
	var addKeysIn, addKeys, addSvcsIn, addSvcs []interface{}
	ids := func(m map[string]M) []string {
		var out []string
		for id := range m {
			out = append(out, id)
		}
		sort.Strings(out)
		return out
	}
	kids, sids := ids(s.keys), ids(s.services)
	newKeys, newSvcs := map[string]M{}, map[string]M{}
	if len(kids) > 0 && r.Intn(2) == 0 {
		id := pick(r, kids)
		remKeys = append(remKeys, id)
		if r.Intn(2) == 0 {
			in, e := c08Key(r, id)
			addKeysIn, addKeys = append(addKeysIn, in), append(addKeys, e)
			newKeys[id] = e
		}
	}
	if r.Intn(2) == 0 {
		id := "key" + ident(r, 3)
		if r.Intn(4) == 0 && len(kids) > 0 {
			id = pick(r, kids) // replace an existing key without removing it first
		}
		if _, dup := newKeys[id]; !dup {
			in, e := c08Key(r, id)
			addKeysIn, addKeys = append(addKeysIn, in), append(addKeys, e)
			newKeys[id] = e
		}
	}
	if len(sids) > 0 && r.Intn(2) == 0 {
		id := pick(r, sids)
		remSvcs = append(remSvcs, id)
		if r.Intn(2) == 0 {
			in, e := c08Service(r, id)
			addSvcsIn, addSvcs = append(addSvcsIn, in), append(addSvcs, e)
			newSvcs[id] = e
		}
	}
	if r.Intn(3) == 0 {
		for i, n := 0, 1+r.Intn(2); i < n; i++ {
			id := "svc" + ident(r, 3) + string(rune('a'+i))
			in, e := c08Service(r, id)
			addSvcsIn, addSvcs = append(addSvcsIn, in), append(addSvcs, e)
			newSvcs[id] = e
		}
	}
	if len(s.aka) > 0 && r.Intn(3) == 0 {
		u := pick(r, s.aka)
		remAka = append(remAka, u)
		if r.Intn(2) == 0 {
			addAka = append(addAka, u)
		}
	}
	if r.Intn(4) == 0 {
		addAka = append(addAka, "https://aka.example/new"+ident(r, 3))
	}
	if len(remKeys)+len(remSvcs)+len(remAka)+len(addAka)+len(addKeys)+len(addSvcs) == 0 {
		addAka = append(addAka, "https://aka.example/only"+ident(r, 3))
	}
	// what the caller asked for
	for _, id := range remKeys {
		delete(s.keys, id)
	}
	for _, id := range remSvcs {
		delete(s.services, id)
	}
	var aka []string
	for _, u := range s.aka {
		rm := false
		for _, x := range remAka {
			rm = rm || x == u
		}
		if !rm {
			aka = append(aka, u)
		}
	}
	for _, u := range addAka {
		have := false
		for _, x := range aka {
			have = have || x == u
		}
		if !have {
			aka = append(aka, u)
		}
	}
	s.aka = aka
	for id, e := range newKeys {
		s.keys[id] = e
	}
	for id, e := range newSvcs {
		s.services[id] = e
	}
	// removals first, additions afterwards
	var patches []interface{}
	if len(remAka) > 0 {
		patches = append(patches, M{"action": "remove-also-known-as", "uris": strsI(remAka)})
	}
	if len(remKeys) > 0 {
		patches = append(patches, M{"action": "remove-public-keys", "ids": strsI(remKeys)})
	}
	if len(remSvcs) > 0 {
		patches = append(patches, M{"action": "remove-services", "ids": strsI(remSvcs)})
	}
	if len(addAka) > 0 {
		patches = append(patches, M{"action": "add-also-known-as", "uris": strsI(addAka)})
	}
	if len(addSvcs) > 0 {
		patches = append(patches, M{"action": "add-services", "services": addSvcs})
	}
	if len(addKeys) > 0 {
		patches = append(patches, M{"action": "add-public-keys", "publicKeys": addKeys})
	}
	signer := s.upd
	next := opb.NewKey(r, randKT(r))
	headers := headersFor(r, signer)
	delta := opb.Delta(next.Commitment(s.code), patches)
	var w opb.Window
	if via == "builder" {
		w = randWindow(r, int64(100+s.n+1))
	}
	s.sign(signer, headers, opb.UpdateSigned(s.code, signer, delta, w))
	s.lastPatches, s.lastSigner, s.lastHeaders, s.lastWindow, s.lastAO = patches, signer, headers, w, nil
	commitment := signer.Commitment(s.code)
	s.upd = next
	t, n := s.tn()
	st := M{"via": via, "op": "update", "t": t, "n": n}
	if via == "client" {
		st["info"] = M{"did": s.didns + ":" + s.suffix, "signer": signerCase(signer, headers), "nextUpdateKey": pubCoords(next),
			"commitment": commitment, "code": s.code, "removeAka": strsI(remAka), "removeKeys": strsI(remKeys), "removeServices": strsI(remSvcs),
			"addAka": strsI(addAka), "addServices": addSvcsIn, "addKeys": addKeysIn}
	} else {
		st["info"] = M{"didSuffix": s.suffix, "patches": patches, "uc": next.Commitment(s.code), "key": signer.JWK(), "code": s.code,
			"signer": signerCase(signer, headers), "reveal": signer.Reveal(s.code), "anchorFrom": w.From, "anchorUntil": w.Until}
	}
	return st
}

func (s *c08State) stepRecover(via string) M {
	r := s.r
	d := drawDoc(r)
	if via == "builder" {
		d.withExtras(r)
	}
	signer := s.rec
	nextU, nextR := opb.NewKey(r, randKT(r)), opb.NewKey(r, randKT(r))
	headers := headersFor(r, signer)
	var ao interface{}
	if r.Intn(3) == 0 {
		ao = "origin.example/" + ident(r, 3)
	}
	delta := opb.Delta(nextU.Commitment(s.code), d.patches())
	var w opb.Window
	if via == "builder" {
		w = randWindow(r, int64(100+s.n+1))
	}
	s.sign(signer, headers, opb.RecoverSigned(s.code, signer, delta, nextR.Commitment(s.code), ao, w))
	s.lastPatches, s.lastSigner, s.lastHeaders, s.lastWindow, s.lastAO = d.patches(), signer, headers, w, ao
	commitment := signer.Commitment(s.code)
	s.upd, s.rec = nextU, nextR
	s.adopt(d)
	t, n := s.tn()
	st := M{"via": via, "op": "recover", "t": t, "n": n}
	if via == "client" {
		info := M{"did": s.didns + ":" + s.suffix, "signer": signerCase(signer, headers), "nextUpdateKey": pubCoords(nextU), "nextRecoveryKey": pubCoords(nextR),
			"commitment": commitment, "code": s.code, "keys": d.keysIn, "services": d.svcsIn, "aka": strsI(d.aka)}
		if ao != nil {
			info["anchorOrigin"] = ao
		}
		st["info"] = info
	} else {
		info := M{"didSuffix": s.suffix, "key": signer.JWK(), "rc": nextR.Commitment(s.code), "uc": nextU.Commitment(s.code), "code": s.code,
			"signer": signerCase(signer, headers), "reveal": signer.Reveal(s.code), "anchorFrom": w.From, "anchorUntil": w.Until}
		if ao != nil {
			info["anchorOrigin"] = ao
		}
		if r.Intn(2) == 0 {
			info["opaque"] = d.docJSON()
		} else {
			info["patches"] = d.patches()
		}
		st["info"] = info
	}
	return st
}

func (s *c08State) stepDeactivate(via string) M {
	r := s.r
	signer := s.rec
	headers := headersFor(r, signer)
	var w opb.Window
	if via == "builder" {
		w = randWindow(r, int64(100+s.n+1))
	}
	signed := M{"didSuffix": s.suffix, "revealValue": "", "recoveryKey": signer.JWK()}
	if w.From != 0 {
		signed["anchorFrom"] = w.From
	}
	if w.Until != 0 {
		signed["anchorUntil"] = w.Until
	}
	s.sign(signer, headers, signed)
	s.lastSigner, s.lastHeaders, s.lastWindow = signer, headers, w
	commitment := signer.Commitment(s.code)
	s.deact = true
	s.keys, s.services, s.aka = map[string]M{}, map[string]M{}, nil
	t, n := s.tn()
	st := M{"via": via, "op": "deactivate", "t": t, "n": n}
	if via == "client" {
		st["info"] = M{"did": s.didns + ":" + s.suffix, "signer": signerCase(signer, headers), "commitment": commitment}
	} else {
		st["info"] = M{"didSuffix": s.suffix, "key": signer.JWK(), "signer": signerCase(signer, headers), "reveal": signer.Reveal(s.code),
			"anchorFrom": w.From, "anchorUntil": w.Until}
	}
	return st
}

// refusals: inputs the builders must refuse because the request would be unacceptable
var c08Refusals = []string{"equal-commitments", "reused-key", "wrong-hash-algorithm", "empty-opaque-document", "window-beyond-exact", "no-recovery-key"}

// other malformed inputs (no expectation beyond model = implementation)
var c08Malformed = []string{"no-signer", "signer-without-alg", "extra-header", "no-key", "no-patches", "opaque-and-patches", "no-suffix", "no-reveal",
	"unknown-code", "empty-alg", "nil-headers", "invalid-key"}

func copyM(m M) M {
	out := M{}
	for k, v := range m {
		out[k] = v
	}
	return out
}

// spoil turns a valid builder-level step into one the builder should refuse; returns false when
// the mutation does not apply to the step
func (s *c08State) spoil(st M, how string) bool {
	info := copyM(st["info"].(M))
	op := st["op"].(string)
	other := uint64(19)
	if s.code == 19 {
		other = 18
	}
	switch how {
	case "equal-commitments":
		if op != "create" && op != "recover" {
			return false
		}
		info["uc"] = info["rc"]
		if op == "recover" {
			// everything else about the request is in order, the signer can sign it
			rc := info["rc"].(string)
			s.sign(s.lastSigner, s.lastHeaders, opb.RecoverSigned(s.code, s.lastSigner, opb.Delta(rc, s.lastPatches), rc, s.lastAO, s.lastWindow))
		}
	case "reused-key":
		// the next commitment is the commitment of the key that signs this request
		k, ok := info["signer"].(M)
		if !ok {
			return false
		}
		c := opb.MH(s.code, opb.HashFor(s.code, opb.Canon(k["jwk"])))
		if op == "update" {
			info["uc"] = c
		} else if op == "recover" {
			if s.r.Intn(2) == 0 {
				info["rc"] = c
			} else {
				info["uc"] = c // the recovery key as the next update key
				// everything else about the request is in order, the signer can sign it
				s.sign(s.lastSigner, s.lastHeaders, opb.RecoverSigned(s.code, s.lastSigner, opb.Delta(c, s.lastPatches), info["rc"].(string), s.lastAO, s.lastWindow))
			}
		} else {
			return false
		}
	case "wrong-hash-algorithm":
		k := opb.NewKey(s.r, opb.P256)
		switch op {
		case "create":
			if s.r.Intn(2) == 0 {
				info["rc"] = k.Commitment(other)
			} else {
				info["uc"] = k.Commitment(other)
			}
		case "update":
			// everything else about the request is in order, the signer can sign it
			info["uc"] = k.Commitment(other)
			s.sign(s.lastSigner, s.lastHeaders, opb.UpdateSigned(s.code, s.lastSigner, opb.Delta(info["uc"].(string), s.lastPatches), s.lastWindow))
		case "recover":
			if s.r.Intn(2) == 0 {
				info["rc"] = k.Commitment(other)
			} else {
				info["uc"] = k.Commitment(other)
			}
			s.sign(s.lastSigner, s.lastHeaders, opb.RecoverSigned(s.code, s.lastSigner, opb.Delta(info["uc"].(string), s.lastPatches),
				info["rc"].(string), s.lastAO, s.lastWindow))
		default:
			return false
		}
	case "window-beyond-exact":
		// a bound beyond 2^53 cannot be written by JCS: signed as it is, the request would carry
		// another window (the neighbouring double) than the one asked for
		if op == "create" {
			return false
		}
		const two53 = int64(1) << 53
		w := s.lastWindow
		switch s.r.Intn(3) {
		case 0:
			info["anchorUntil"], w.Until = two53+1, two53
		case 1:
			info["anchorFrom"], w.From = two53+1, two53
		default:
			info["anchorFrom"], w.From = -two53-1, -two53
		}
		// the signer can sign what a builder that does not look would hand it
		switch op {
		case "update":
			s.sign(s.lastSigner, s.lastHeaders, opb.UpdateSigned(s.code, s.lastSigner, opb.Delta(info["uc"].(string), s.lastPatches), w))
		case "recover":
			s.sign(s.lastSigner, s.lastHeaders, opb.RecoverSigned(s.code, s.lastSigner, opb.Delta(info["uc"].(string), s.lastPatches),
				info["rc"].(string), s.lastAO, w))
		case "deactivate":
			signed := M{"didSuffix": info["didSuffix"], "revealValue": "", "recoveryKey": s.lastSigner.JWK()}
			if w.From != 0 {
				signed["anchorFrom"] = w.From
			}
			if w.Until != 0 {
				signed["anchorUntil"] = w.Until
			}
			s.sign(s.lastSigner, s.lastHeaders, signed)
		}
	case "no-recovery-key":
		// a deactivate request without the recovery key in its signed data is refused by every parser
		if op != "deactivate" {
			return false
		}
		delete(info, "key")
		signed := M{"didSuffix": info["didSuffix"], "revealValue": "", "recoveryKey": nil}
		if s.lastWindow.From != 0 {
			signed["anchorFrom"] = s.lastWindow.From
		}
		if s.lastWindow.Until != 0 {
			signed["anchorUntil"] = s.lastWindow.Until
		}
		// the signer can sign what a builder that does not look hands it
		s.sign(s.lastSigner, s.lastHeaders, signed)
	case "no-signer":
		if op == "create" {
			return false
		}
		delete(info, "signer")
	case "signer-without-alg":
		sg, ok := info["signer"].(M)
		if !ok {
			return false
		}
		info["signer"] = M{"headers": M{"kid": "k1"}, "jwk": sg["jwk"]}
	case "empty-alg":
		sg, ok := info["signer"].(M)
		if !ok {
			return false
		}
		info["signer"] = M{"headers": M{"alg": ""}, "jwk": sg["jwk"]}
	case "nil-headers":
		sg, ok := info["signer"].(M)
		if !ok {
			return false
		}
		info["signer"] = M{"jwk": sg["jwk"]}
	case "extra-header":
		sg, ok := info["signer"].(M)
		if !ok {
			return false
		}
		h := copyM(sg["headers"].(M))
		h["typ"] = "JWT"
		info["signer"] = M{"headers": h, "jwk": sg["jwk"]}
	case "no-key":
		if op != "update" && op != "recover" {
			return false
		}
		delete(info, "key")
	case "invalid-key":
		if op != "update" && op != "recover" {
			return false
		}
		k := copyM(info["key"].(M))
		k[pick(s.r, []string{"kty", "crv", "x"})] = ""
		info["key"] = k
	case "no-patches":
		if op == "deactivate" {
			return false
		}
		delete(info, "patches")
		delete(info, "opaque")
	case "empty-opaque-document":
		// a document without content gives a request without patches, which the parser refuses
		if op != "create" && op != "recover" {
			return false
		}
		delete(info, "patches")
		info["opaque"] = M{}
		if op == "recover" {
			rc, uc := info["rc"].(string), info["uc"].(string)
			s.sign(s.lastSigner, s.lastHeaders, opb.RecoverSigned(s.code, s.lastSigner, M{"updateCommitment": uc}, rc, s.lastAO, s.lastWindow))
		}
	case "opaque-and-patches":
		if op != "create" && op != "recover" {
			return false
		}
		info["opaque"] = M{"alsoKnownAs": []interface{}{"https://x.example"}}
		info["patches"] = []interface{}{M{"action": "add-also-known-as", "uris": []interface{}{"https://y.example"}}}
	case "no-suffix":
		if op == "create" {
			return false
		}
		info["didSuffix"] = ""
	case "no-reveal":
		if op == "create" {
			return false
		}
		info["reveal"] = ""
	case "unknown-code":
		if op == "deactivate" {
			return false
		}
		info["code"] = pick(s.r, []int{0, 1, 17, 20, 99999})
	}
	st["info"] = info
	return true
}

func genC08(r *rand.Rand, n int, emit func(string)) {
	for i := 0; i < n; i++ {
		code := uint64(18)
		if r.Intn(5) == 0 {
			code = 19
		}
		cfg := BaseCfg()
		cfg["multihashAlgorithms"] = []int{int(code)}
		s := &c08State{code: code, r: r, keys: map[string]M{}, services: map[string]M{},
			didns: pick(r, []string{"did:sidetree", "did:sidetree", "did:sidetree:test", "did:bloc:trustbloc.dev"})}
		via := pick(r, []string{"builder", "client"})
		var steps []interface{}
		add := func(st M) {
			st["expect"] = s.expect(true)
			steps = append(steps, st)
		}
		// an input the builder must refuse is tried first; the valid step follows, so the
		// lifecycle goes on from the same state
		try := func(mk func(string) M) {
			if via == "builder" && r.Intn(4) == 0 {
				saved := *s
				savedKeys, savedSvcs := map[string]M{}, map[string]M{}
				for k, v := range s.keys {
					savedKeys[k] = v
				}
				for k, v := range s.services {
					savedSvcs[k] = v
				}
				bad := mk(via)
				how := pick(r, c08Refusals)
				refuse := true
				if r.Intn(2) == 0 {
					how, refuse = pick(r, c08Malformed), false
				}
				applies := s.spoil(bad, how)
				sigs, orc := s.sigs, s.oracle
				*s = saved
				s.keys, s.services = savedKeys, savedSvcs
				s.sigs, s.oracle = sigs, orc
				if applies {
					e := s.expect(false)
					e["spoiled"] = how
					e["refuse"] = refuse
					bad["expect"] = e
					steps = append(steps, bad)
				}
			}
			add(mk(via))
		}
		try(s.stepCreate)
		for k := r.Intn(3); k > 0; k-- {
			try(s.stepUpdate)
		}
		if r.Intn(5) < 3 {
			try(s.stepRecover)
			for k := r.Intn(3); k > 0; k-- {
				try(s.stepUpdate)
			}
		}
		if r.Intn(2) == 0 {
			try(s.stepDeactivate)
		}
		emit(proto.Line("lifecycle", M{"cfg": cfg, "ns": s.didns, "code": code, "steps": steps, "sigs": s.sigs, "oracle": s.oracle, "uri": UriTable(deepCopy(steps))}))
	}
}

func init() { register("C17vdr", genC17vdr) }

// genC17vdr: did-go documents for VDR.Create / VDR.Read. Keys are referenced from one to four
// relationships, each reference spelling the key id as "id", "#id" or "did:…#id".
func genC17vdr(r *rand.Rand, n int, emit func(string)) {
	for i := 0; i < n; i++ {
		doc := M{}
		rels := []string{"authentication", "assertionMethod", "capabilityDelegation", "capabilityInvocation", "keyAgreement"}
		for _, rel := range rels {
			doc[rel] = []interface{}{}
		}
		nk := 1 + r.Intn(3)
		for k := 0; k < nk; k++ {
			id := "k" + ident(r, 2) + string(rune('a'+k))
			e := M{}
			usable := rels
			switch r.Intn(3) {
			case 0:
				key := opb.NewKey(r, opb.Ed25519)
				e["type"] = "Ed25519VerificationKey2018"
				e["value"] = proto.Hex([]byte(key.Ed.Public().(ed25519.PublicKey)))
				usable = rels[:4]
			case 1:
				key := opb.NewKey(r, pick(r, []opb.KeyType{opb.P256, opb.P384, opb.Ed25519}))
				e["type"] = "JsonWebKey2020"
				e["jwk"] = jwkNoEmptyY(key.JWK())
			default:
				key := opb.NewKey(r, opb.Secp256k1)
				e["type"] = "EcdsaSecp256k1VerificationKey2019"
				e["jwk"] = jwkNoEmptyY(key.JWK())
			}
			perm := r.Perm(len(usable))
			for _, pi := range perm[:1+r.Intn(len(usable))] {
				ref := M{}
				for a, b := range e {
					ref[a] = b
				}
				ref["id"] = pick(r, []string{id, id, "#" + id, "did:example:123#" + id})
				doc[usable[pi]] = append(doc[usable[pi]].([]interface{}), ref)
			}
		}
		var svcs []interface{}
		for k, ns := 0, r.Intn(3); k < ns; k++ {
			in, _ := c08Service(r, "svc"+ident(r, 2)+string(rune('a'+k)))
			// did-go's own schema refuses endpoint arrays of strings when it reads the result back
			if _, isArr := in["endpoint"].([]interface{}); isArr {
				in["endpoint"] = []interface{}{M{"uri": "https://a.example/" + ident(r, 3), "accept": []interface{}{"didcomm/v2"}}}
			}
			svcs = append(svcs, in)
		}
		doc["services"] = svcs
		var aka []string
		for k, na := 0, r.Intn(3); k < na; k++ {
			aka = append(aka, "https://aka.example/"+ident(r, 3)+string(rune('a'+k)))
		}
		doc["aka"] = strsI(aka)
		body := M{"method": pick(r, []string{"sidetree", "foo", "ion"}), "doc": doc,
			"updateKey":   pubCoords(opb.NewKey(r, pick(r, []opb.KeyType{opb.Ed25519, opb.P256, opb.Secp256k1}))),
			"recoveryKey": pubCoords(opb.NewKey(r, pick(r, []opb.KeyType{opb.Ed25519, opb.P256})))}
		body["uri"] = UriTable(deepCopy(doc))
		emit(proto.Line("vdr", body))
	}
}
