package gen

import (
	"math"
	"math/rand"

	"verif/harness/internal/opb"
	"verif/harness/internal/proto"
)

func init() { register("C09", genC09) }

// genC09: otherwise valid update / recover / deactivate operations whose signed data carries
// (from, until), anchored at t on a grid around every boundary; the default expiry
// parameter and every other numeric protocol limit varied so that no two coincide.
func genC09(r *rand.Rand, n int, emit func(string)) {
	types := []string{"update", "recover", "deactivate"}
	for i := 0; i < n; i++ {
		cfg := BaseCfg()
		delta := int64(1 + r.Intn(5000))
		cfg["maxOperationTimeDelta"] = delta
		// the other numeric limits: all distinct from delta and from each other
		mds := int64(6000 + r.Intn(4000))
		cfg["maxDeltaSize"] = mds
		cfg["maxOperationSize"] = 20000 + r.Intn(5000)
		cfg["maxOperationHashLength"] = 100 + r.Intn(50)
		cfg["maxOperationCount"] = 11000 + r.Intn(100)
		cfg["maxCasUriLength"] = 12000 + r.Intn(100)
		cfg["genesisTime"] = r.Intn(3)
		code := uint64(18)
		if r.Intn(4) == 0 {
			code = 19
			cfg["multihashAlgorithms"] = []int{19}
			cfg["maxOperationHashLength"] = 150 + r.Intn(50)
		}
		typ := types[i%3]
		kt := opb.KeyType(r.Intn(int(opb.NumKeyTypes)))

		// window
		var from, until int64
		switch r.Intn(8) {
		case 6: // negative from (legal int64), until unset or set
			from = -int64(1 + r.Intn(3000))
			if r.Intn(2) == 0 {
				until = int64(r.Intn(4000)) - 2000
			}
		case 7: // negative until
			until = -int64(1 + r.Intn(3000))
			if r.Intn(2) == 0 {
				from = int64(r.Intn(100))
			}
		case 0: // neither
		case 1: // only until
			until = int64(1 + r.Intn(100000))
		case 2, 3: // only from
			from = int64(1 + r.Intn(100000))
		default:
			from = int64(1 + r.Intn(100000))
			switch r.Intn(5) {
			case 0:
				until = from
			case 1:
				until = from + 1
			case 2:
				if from > 1 {
					until = from - 1
				} else {
					until = from + 2
				}
			default:
				until = from + int64(r.Intn(20000))
				if until == 0 {
					until = 1
				}
			}
		}
		// anchoring time on the grid of every boundary a plausible implementation could use
		cands := []int64{0, 1, from - 1, from, from + 1, until - 1, until, until + 1,
			from + delta - 1, from + delta, from + delta + 1,
			from + mds - 1, from + mds, from + mds + 1,
			from + int64(r.Intn(int(delta)+1)), int64(r.Intn(200000))}
		var t int64 = -1
		for t < 0 {
			t = cands[r.Intn(len(cands))]
		}
		tu := uint64(t)
		if r.Intn(8) == 0 {
			// the ends of the ranges: signed bounds, an unsigned anchoring time, a sum that does not fit
			const maxI = int64(math.MaxInt64)
			k := int64(r.Intn(3))
			switch r.Intn(5) {
			case 0: // from at the top, default expiry beyond the int64 range
				from, until = maxI-k*delta/2, 0
			case 1: // negative from, anchoring time that would wrap to a negative int64
				from, until = -1-k, pick(r, []int64{0, 5})
			case 2: // both bounds at the top
				from, until = maxI-1-k, maxI
			case 3: // the lowest from there is
				from, until = math.MinInt64+k, 0
			default:
				until = maxI - k
			}
			tu = pick(r, []uint64{uint64(maxI), uint64(maxI) - 1, uint64(maxI) + 1, math.MaxUint64, math.MaxUint64 - 1, 1 << 63,
				uint64(maxI) - uint64(delta), uint64(maxI) - uint64(delta)/2, 0, 5, uint64(delta)})
			if from > 0 && r.Intn(2) == 0 {
				tu = uint64(from) + uint64(r.Int63n(2*delta+1)) // around from + delta, beyond 2^63 included
			}
		}

		updKey, recKey := opb.NewKey(r, kt), opb.NewKey(r, opb.KeyType(r.Intn(int(opb.NumKeyTypes))))
		nextUpd, nextRec := opb.NewKey(r, kt), opb.NewKey(r, kt)
		docKey := opb.NewKey(r, opb.P256)
		createDelta := opb.Delta(updKey.Commitment(code), []interface{}{AddKeysPatch(PubKeyEntry("key1", docKey, "authentication"))})
		sd := opb.SuffixData(code, createDelta, recKey.Commitment(code), nil, "")
		createReq := opb.Canon(opb.CreateRequest(sd, createDelta))
		suffix := opb.Suffix(code, sd)
		w := opb.Window{From: from, Until: until}

		var req []byte
		nextUC := nextUpd.Commitment(code)
		newDelta := opb.Delta(nextUC, []interface{}{AddServicesPatch(M{"id": "svc" + ident(r, 3), "type": "t", "serviceEndpoint": "https://example.com/" + ident(r, 4)})})
		switch typ {
		case "update":
			signed := opb.UpdateSigned(code, updKey, newDelta, w)
			jws := opb.CompactJWS(r, updKey, opb.DefaultHeaders(updKey), opb.Canon(signed))
			req = opb.Canon(opb.UpdateRequest(suffix, updKey.Reveal(code), jws, newDelta))
		case "recover":
			signed := opb.RecoverSigned(code, recKey, newDelta, nextRec.Commitment(code), nil, w)
			jws := opb.CompactJWS(r, recKey, opb.DefaultHeaders(recKey), opb.Canon(signed))
			req = opb.Canon(opb.RecoverRequest(suffix, recKey.Reveal(code), jws, newDelta))
		case "deactivate":
			signed := opb.DeactivateSigned(code, recKey, suffix, w)
			jws := opb.CompactJWS(r, recKey, opb.DefaultHeaders(recKey), opb.Canon(signed))
			req = opb.Canon(opb.DeactivateRequest(suffix, recKey.Reveal(code), jws))
		}
		body := M{
			"cfg": cfg, "type": typ, "from": from, "until": until, "t": tu, "next_uc": nextUC,
			"ops": []interface{}{
				AnchoredLine("create", suffix, createReq, 0, 0, 0, "cr0", nil),
				AnchoredLine(typ, suffix, req, tu, 1, 0, "cr1", nil),
			},
			"keytype": kt.String(),
		}
		emit(proto.Line("window", body))
	}
}
