package gen

import (
	"encoding/json"
	"fmt"
	"math/rand"
	"net/url"
	"strings"

	"verif/harness/internal/opb"
	"verif/harness/internal/proto"
)

func init() {
	register("C10", genC10)
	register("C11", genC11)
	register("C14", genC14)
}

// "both-1" and "s1" are ids of a key AND of a service: ids are unique per list only
var keyPool = []string{"k1", "k2", "k3", "k4", "key-5", "both-1", "s1"}
var svcPool = []string{"s1", "s2", "s3", "svc_4", "both-1"}
var uriPool = []string{"HTTPS://Example.com/alice", "did:example:123#", "https://example.com/a b", "https://a.example/1", "https://a.example/2", "did:example:abc", "urn:uuid:1", "https://b.example/",
	// other spellings of entries above: the list holds URIs as written, never as net/url writes them back
	"https://example.com/alice", "did:example:123", "https://example.com/a%20b", "HTTPS://b.example/"}

func poolKey(r *rand.Rand, id string) M {
	k := validKey(r, id)
	return k
}

func startDoc(r *rand.Rand) M {
	doc := M{}
	if r.Intn(4) == 0 {
		return doc
	}
	if r.Intn(4) != 0 {
		ks := []interface{}{}
		for _, id := range keyPool[:1+r.Intn(4)] {
			ks = append(ks, poolKey(r, id))
		}
		doc["publicKey"] = ks
	}
	if r.Intn(4) != 0 {
		ss := []interface{}{}
		for _, id := range svcPool[:1+r.Intn(3)] {
			ss = append(ss, validService(r, id))
		}
		doc["service"] = ss
	}
	if r.Intn(3) != 0 {
		us := []interface{}{}
		for _, u := range uriPool[:1+r.Intn(3)] {
			us = append(us, u)
			if r.Intn(8) == 0 {
				// an entry that is no string, as a validated ietf-json-patch can leave it: union and difference keep it
				us = append(us, pick(r, []interface{}{5, M{"a": 1}, nil, true, []interface{}{"x"}}))
			}
		}
		doc["alsoKnownAs"] = us
	}
	if r.Intn(2) == 0 {
		doc["x"] = 1
		doc["arr"] = []interface{}{1, "two", M{"three": 3}}
		doc["obj"] = M{"a": M{"c": 1}, "b": []interface{}{true, nil}}
		doc["n"] = nil
		doc["a/b"] = "slash"
		doc["m~n"] = "tilde"
		// members whose names are spellings of one number: different members of an object,
		// one element of a list
		doc["num"] = M{"1": "v", "01": M{}, "+1": M{"k": 1}, "0": []interface{}{M{"e": 1}}}
	}
	return doc
}

var ptrPool = []string{"/x", "/y", "/z", "/arr", "/arr/0", "/arr/1", "/arr/2", "/arr/3", "/arr/-", "/arr/5", "/obj", "/obj/a", "/obj/b", "/obj/a/c",
	"/obj/b/0", "/obj/b/1", "/obj/b/-", "/obj/q", "/n", "/n/x", "/m~0n", "/a~1b", "/alsoKnownAs/0", "/alsoKnownAs/-", "/new/deep", "/x/y", "/arr/2/three",
	// other spellings of the same locations (strconv.Atoi reads +2, 02 and 2 alike; a lone ~ stays a ~)
	"/arr/-1", "/arr/-2/x", "/obj/b/-1", "/arr/+2", "/arr/+2/x", "/arr/02/y", "/arr/+0", "/obj/a/new", "/obj/new", "/m~n", "/obj/b/+1", "/arr/002/three/deeper"}

func randJSONValue(r *rand.Rand) interface{} {
	return pick(r, []interface{}{1, "v", true, nil, []interface{}{1, 2}, M{"k": "v"}, 2.5, "", []interface{}{}, M{}})
}

func ietfOp(r *rand.Rand) M {
	switch r.Intn(10) {
	case 9: // from one number-like member into its sibling (no child of the source), or into a real child
		return M{"op": pick(r, []string{"copy", "move"}), "from": pick(r, []string{"/num/1", "/num/01", "/num/+1", "/num/0", "/num/0/0", "/num/0/+0"}),
			"path": pick(r, []string{"/num/01/x", "/num/+1/x", "/num/1/x", "/num/00/x", "/num/0/0/x", "/num/0/00/x", "/num/0/-", "/num/00"})}
	case 0, 1:
		return M{"op": "add", "path": pick(r, ptrPool), "value": randJSONValue(r)}
	case 2:
		return M{"op": "remove", "path": pick(r, ptrPool)}
	case 3:
		return M{"op": "replace", "path": pick(r, ptrPool), "value": randJSONValue(r)}
	case 4:
		return M{"op": "move", "from": pick(r, ptrPool), "path": pick(r, ptrPool)}
	case 5:
		return M{"op": "copy", "from": pick(r, ptrPool), "path": pick(r, ptrPool)}
	case 6:
		return M{"op": "test", "path": pick(r, ptrPool), "value": pick(r, []interface{}{1, "two", "slash", "tilde", M{"c": 1}, M{"three": 3}, []interface{}{true, nil}, nil, 1.0, M{"a": M{"c": 1}}})}
	case 7: // copy then edit below the destination (node sharing used to leak into the source)
		return M{"op": "copy", "from": pick(r, []string{"/obj", "/arr", "/obj/a"}), "path": pick(r, []string{"/cp", "/obj/cp"})}
	default:
		return M{"op": "add", "path": pick(r, []string{"/cp/z", "/cp/0", "/obj/cp/z", "/cp/-"}), "value": "edited"}
	}
}

// pickURIs: up to n URIs of the pool, no two of which net/url writes back alike (one patch must not
// hold two spellings of one URI: the validator refuses that; two patches may)
func pickURIs(r *rand.Rand, n int) []interface{} {
	us := []interface{}{}
	seen := map[string]bool{}
	for _, i := range r.Perm(len(uriPool)) {
		if len(us) == n {
			break
		}
		norm := uriPool[i]
		if u, err := url.Parse(uriPool[i]); err == nil {
			norm = u.String()
		}
		if seen[norm] {
			continue
		}
		seen[norm] = true
		us = append(us, uriPool[i])
	}
	return us
}

func validatedPatch(r *rand.Rand) M {
	switch r.Intn(10) {
	case 0, 1:
		n := 1 + r.Intn(3)
		ids := r.Perm(len(keyPool))[:n]
		ks := []interface{}{}
		for _, i := range ids {
			ks = append(ks, poolKey(r, keyPool[i]))
		}
		return M{"action": "add-public-keys", "publicKeys": ks}
	case 2:
		n := 1 + r.Intn(3)
		ids := []interface{}{}
		for _, i := range r.Perm(len(keyPool))[:n] {
			ids = append(ids, keyPool[i])
		}
		if r.Intn(3) == 0 {
			ids = append(ids, "unknown-id")
		}
		return M{"action": "remove-public-keys", "ids": ids}
	case 3:
		n := 1 + r.Intn(3)
		ss := []interface{}{}
		for _, i := range r.Perm(len(svcPool))[:n] {
			ss = append(ss, validService(r, svcPool[i]))
		}
		return M{"action": "add-services", "services": ss}
	case 4:
		n := 1 + r.Intn(3)
		ids := []interface{}{}
		for _, i := range r.Perm(len(svcPool))[:n] {
			ids = append(ids, svcPool[i])
		}
		if r.Intn(3) == 0 {
			ids = append(ids, "nope")
		}
		return M{"action": "remove-services", "ids": ids}
	case 5:
		return M{"action": "add-also-known-as", "uris": pickURIs(r, 1+r.Intn(3))}
	case 6:
		us := pickURIs(r, 1+r.Intn(3))
		if r.Intn(3) == 0 {
			us = append(us, "https://never.example/")
		}
		return M{"action": "remove-also-known-as", "uris": us}
	case 7:
		d := M{}
		if r.Intn(3) != 0 {
			ks := []interface{}{}
			for _, i := range r.Perm(len(keyPool))[:1+r.Intn(3)] {
				ks = append(ks, poolKey(r, keyPool[i]))
			}
			d["publicKeys"] = ks
		}
		if r.Intn(3) != 0 {
			ss := []interface{}{}
			for _, i := range r.Perm(len(svcPool))[:1+r.Intn(2)] {
				ss = append(ss, validService(r, svcPool[i]))
			}
			d["services"] = ss
		}
		return M{"action": "replace", "document": d}
	default:
		n := 1 + r.Intn(3)
		ops := []interface{}{}
		for len(ops) < n {
			op := ietfOp(r)
			// only patches that pass validation: 'from' must not be a proper prefix of 'path'
			if f, ok := op["from"].(string); ok && strings.HasPrefix(op["path"].(string), f+"/") {
				continue
			}
			ops = append(ops, op)
		}
		return M{"action": "ietf-json-patch", "patches": ops}
	}
}

func genC10(r *rand.Rand, n int, emit func(string)) {
	for i := 0; i < n; i++ {
		doc := startDoc(r)
		k := 1 + r.Intn(6)
		ps := []interface{}{}
		for j := 0; j < k; j++ {
			ps = append(ps, validatedPatch(r))
		}
		body := deepCopy(M{"doc": doc, "patches": ps}).(map[string]interface{})
		emit(proto.Line("compose", body))
	}
}

// ---------------------------------------------------------------- C11

var protectedPtrs = []string{"/publicKey", "/publicKey/0", "/publicKey/1", "/publicKey/-", "/publicKey/0/id", "/publicKey/0/publicKeyJwk/x", "/publicKey/0/purposes/0",
	"/service", "/service/0", "/service/0/serviceEndpoint", "/service/0/id", "/service/-",
	// siblings sharing a prefix (over-rejected, which is allowed)
	"/publicKeyX", "/publicKeys", "/services", "/serviceEndpoint", "/service2/0",
	// look-alikes that are NOT the protected members
	"/a/publicKey", "/a/service/0", "/publickey", "/Service", "/~0publicKey", "/a~1publicKey", "/publicKe", "/servic", "/ service",
	// unusual spellings
	"", "/", "//publicKey", "/publicKey/", "publicKey", "x/publicKey", "x/service/0", "/./publicKey", "/publicKey~0", "/~1publicKey", "~1publicKey",
	// URI-fragment spelling of a pointer (RFC 6901 §6): not a JSON-string pointer, the library ignores what precedes the first slash
	"#/publicKey/0/type", "#/publicKey/0", "#/service/0/id", "#/x", "#", "#/"}

var freePtrs = []string{"/pub", "/p", "/serv", "/", "/publicKe", "/s", "/x", "/a", "/a/b", "/a/publicKey", "/other", "/other/0", "/other/-", "/alsoKnownAs", "/alsoKnownAs/0", "/tmp", "/tmp/0", "/tmp/id"}

func genC11(r *rand.Rand, n int, emit func(string)) {
	for i := 0; i < n; i++ {
		doc := M{"publicKey": []interface{}{poolKey(r, "k1"), poolKey(r, "k2")},
			"service":     []interface{}{validService(r, "s1"), validService(r, "s2")},
			"alsoKnownAs": []interface{}{"https://a.example/1"},
			"a":           M{"b": 1, "publicKey": []interface{}{"inner"}, "service": []interface{}{M{"id": "inner"}}},
			"other":       []interface{}{1, 2}, "x": "y", "publickey": 1, "Service": 2, "~publicKey": 3, "/publicKey": 4, "": M{"publicKey": 5}}
		nops := 1 + r.Intn(3)
		ops := []interface{}{}
		for j := 0; j < nops; j++ {
			kind := pick(r, []string{"add", "remove", "replace", "move", "copy", "test"})
			op := M{"op": kind}
			pp := func() string {
				if r.Intn(3) != 0 {
					return pick(r, protectedPtrs)
				}
				return pick(r, freePtrs)
			}
			switch kind {
			case "add", "replace", "test":
				op["path"] = pp()
				op["value"] = pick(r, []interface{}{1, "v", []interface{}{}, M{"id": "evil"}, nil, M{"publicKey": []interface{}{}}})
			case "remove":
				op["path"] = pp()
			case "move", "copy":
				if r.Intn(2) == 0 {
					op["from"] = pp()
					op["path"] = pick(r, freePtrs)
				} else {
					op["from"] = pick(r, freePtrs)
					op["path"] = pp()
				}
			}
			// members the operation kind does not use (the validator looks at whatever is there)
			switch r.Intn(8) {
			case 0:
				if _, ok := op["value"]; !ok {
					op["value"] = pick(r, []interface{}{nil, 1, "v", M{"id": "evil"}})
				}
			case 1:
				if _, ok := op["from"]; !ok {
					op["from"] = pp()
				}
			}
			ops = append(ops, op)
		}
		// after a copy out of a protected member, edit the copy (used to alias the original)
		if r.Intn(6) == 0 {
			ops = []interface{}{M{"op": "copy", "from": pick(r, []string{"/publicKey", "/service", "/a"}), "path": "/tmp"},
				M{"op": pick(r, []string{"remove", "replace"}), "path": pick(r, []string{"/tmp/0", "/tmp/0/id", "/tmp/b"}), "value": "z"}}
		}
		p := M{"action": "ietf-json-patch", "patches": ops}
		emit(proto.Line("protect", deepCopy(M{"doc": doc, "patch": p, "uri": M{}}).(map[string]interface{})))
	}
}

// ---------------------------------------------------------------- C14

func ordinaryName(r *rand.Rand) string {
	for {
		s := RandString(r, 6)
		ok := s != "" && s != "id" && s != "publicKey" && s != "service" && s != "alsoKnownAs"
		for _, c := range s {
			if c == '"' || c == '\\' || c == '/' || c == '~' || c < 0x20 {
				ok = false
			}
		}
		if ok {
			return s
		}
	}
}

// boundaryID: mostly the short id, sometimes an id of the greatest permitted length or one below
func boundaryID(r *rand.Rand, short string) string {
	switch r.Intn(6) {
	case 0:
		return short + "-" + ident(r, 50-len(short)-1)
	case 1:
		return short + "-" + ident(r, 49-len(short)-1)
	}
	return short
}

func genC14(r *rand.Rand, n int, emit func(string)) {
	for i := 0; i < n; i++ {
		doc := M{}
		label := "doc/valid"
		if r.Intn(5) != 0 {
			ks := []interface{}{}
			for j := 0; j < 1+r.Intn(3); j++ {
				ks = append(ks, validKey(r, boundaryID(r, fmt.Sprintf("key%d", j))))
			}
			doc["publicKey"] = ks
		}
		if r.Intn(4) != 0 {
			ss := []interface{}{}
			for j := 0; j < 1+r.Intn(3); j++ {
				ss = append(ss, validService(r, boundaryID(r, fmt.Sprintf("svc%d", j))))
			}
			doc["service"] = ss
		}
		if r.Intn(3) != 0 {
			us := []interface{}{}
			for j := 0; j < 1+r.Intn(3); j++ {
				us = append(us, pick(r, []string{"https://aka.example/%d", "HTTPS://Example.com/%d", "did:example:%d#", "https://example.com/a b/%d", "urn:x:%d"}))
				us[j] = fmt.Sprintf(us[j].(string), j)
			}
			doc["alsoKnownAs"] = us
		}
		for j := 0; j < r.Intn(4); j++ {
			doc[ordinaryName(r)] = SimpleValue(r, 2)
		}
		if r.Intn(9) == 0 {
			// ordinary names that begin like a protected member
			doc[pick(r, []string{"services", "publicKeys", "serviceEndpoint", "publicKeyBase58", "service2", "publicKey_"})] = SimpleValue(r, 1)
			label = "doc/names-beginning-like-protected"
		}
		if r.Intn(6) == 0 {
			// names that need escaping: as a JSON-pointer token (/ and ~) or inside a JSON string (quote, backslash, control)
			for j := 0; j < 1+r.Intn(2); j++ {
				name := pick(r, []string{"a/b", "a~1b", "~", "/", "a\\b", "q\"uote", "tab\there", "~0", "x/", "m~n", "/first", "~~", "a/b/c", "new\nline", "<&>"})
				doc[name] = SimpleValue(r, 1)
			}
			label = "doc/names-needing-escapes"
		}
		switch r.Intn(12) {
		case 0:
			doc["id"] = "did:example:123"
			label = "doc/with-id"
		case 1:
			doc["alsoKnownAs"] = []interface{}{}
			label = "doc/aka-empty"
		case 2:
			doc["alsoKnownAs"] = pick(r, []interface{}{"str", []interface{}{1}, M{}})
			label = "doc/aka-shape"
		case 3:
			doc["publicKey"] = pick(r, []interface{}{M{}, "x", []interface{}{}, nil})
			label = "doc/publicKey-shape"
		case 4:
			doc["id"] = pick(r, []interface{}{"", 7, nil, []interface{}{"x"}, M{"a": 1}, false})
			label = "doc/with-id"
		}
		b, _ := json.Marshal(doc)
		emit(proto.Line("patchrt", M{"doc": proto.Hex(b), "uri": UriTable(deepCopy(doc)), "label": label}))
	}
	for _, t := range []string{"[]", "1", "null", "{", "", `"x"`} {
		emit(proto.Line("patchrt", M{"doc": proto.Hex([]byte(t)), "uri": M{}, "label": "doc/not-object"}))
	}
}

var _ = opb.B64E

func init() { register("C14ctor", genC14ctor) }

var ctorValueKey = map[string]string{"replace": "document", "ietf-json-patch": "patches", "add-public-keys": "publicKeys", "remove-public-keys": "ids",
	"add-services": "services", "remove-services": "ids", "add-also-known-as": "uris", "remove-also-known-as": "uris"}

// genC14ctor: the eight patch constructors. The argument is the value member of a patch that passes
// validation ("valid": the constructed patch must pass it too), or that value corrupted, of another
// JSON type, with null / empty entries, or no JSON at all.
func genC14ctor(r *rand.Rand, n int, emit func(string)) {
	for i := 0; i < n; i++ {
		p := validatedPatch(r)
		action := p["action"].(string)
		var v interface{} = deepCopy(p[ctorValueKey[action]])
		label := "valid"
		text := ""
		switch r.Intn(10) {
		case 0:
			v, label = corrupt(r, v), "corrupted"
		case 1:
			v, label = deepCopy(pick(r, wrongTyped)), "other-json-type"
		case 2:
			if l, ok := v.([]interface{}); ok {
				switch r.Intn(3) {
				case 0:
					v, label = append(append([]interface{}{}, l...), nil), "null-entry"
				case 1:
					v, label = []interface{}{}, "empty-list"
				default:
					v, label = append(append([]interface{}{}, l...), l[0]), "repeated-entry"
				}
			}
		case 3:
			text, label = pick(r, []string{"", "not json", "[", "{", "[1,]", "nul"}), "not-json"
		case 4:
			if d, ok := v.(map[string]interface{}); ok && action == "replace" {
				d[pick(r, []string{"service", "publicKey", "id", "x", "alsoKnownAs"})] = []interface{}{}
				label = "replace-foreign-member"
			}
		}
		if label != "not-json" {
			text = ToJV(v).Render(r, r.Intn(3) == 0)
		}
		emit(proto.Line("ctor", M{"ctor": action, "arg": proto.Hex([]byte(text)), "uri": UriTable([]interface{}{deepCopy(v), ""}), "label": label}))
	}
}
