package gen

import (
	"encoding/json"
	"math/rand"
	"net/url"
	"strings"

	"verif/harness/internal/opb"
	"verif/harness/internal/proto"
)

func init() { register("C13", genC13) }

var keyTypes = []string{"Bls12381G2Key2020", "JsonWebKey2020", "EcdsaSecp256k1VerificationKey2019", "X25519KeyAgreementKey2019",
	"Ed25519VerificationKey2018", "Ed25519VerificationKey2020"}
var purposesAll = []string{"authentication", "assertionMethod", "keyAgreement", "capabilityDelegation", "capabilityInvocation"}

func deepCopy(v interface{}) interface{} {
	b, _ := json.Marshal(v)
	var out interface{}
	_ = json.Unmarshal(b, &out)
	return out
}

// UriTable computes the net/url facts for every string occurring anywhere in v.
func UriTable(v interface{}) M {
	tab := M{}
	var walk func(x interface{})
	walk = func(x interface{}) {
		switch t := x.(type) {
		case string:
			e := M{}
			// validateURI: the string without its fragment is a request target, the whole string a URL
			before, _, _ := strings.Cut(t, "#")
			_, err := url.ParseRequestURI(before)
			_, err2 := url.Parse(t)
			e["req"] = err == nil && err2 == nil
			if u, err := url.Parse(t); err == nil {
				e["norm"] = u.String()
			} else {
				e["norm"] = nil
			}
			tab[t] = e
		case []interface{}:
			for _, e := range t {
				walk(e)
			}
		case map[string]interface{}:
			for _, e := range t {
				walk(e)
			}
		}
	}
	walk(v)
	return tab
}

// BLS12-381 G2 public keys (compressed points, 96 bytes): the JWK of a Bls12381G2Key2020 key is written with
// kty EC and has no y
var blsKeys = []string{
	"mKw6dmtdq2wwPzB-Ju6e8szAmIpyFCYfSUxU3v6DQIOAE8NBbIeMJ_gQBCfeVIYBCh5KRmNLcOYnyglZoSgFw_M0kfFObIx2uIQ8d3YkWuaUGiJVTBLcdP6A0w4kJRN6",
	"okIY1c9tGhm3ZSRk8O8cpCFsQxKttRYIaJoDdP37JoWlgAcpoVTJftRBK5YzLhOtDdtFs2tKttRzSAaeB21lnnUnWc58a7E4szQZ_iN5VihM39Rg_CTpbYNycpHHG362",
	"lOLmUdckbm1QrptvG6_G2q5BWALintyVfmd5F6hAixxXrm3zewmXZr0X5uT-uSY0BEbUvKY3Ozu_n--UIhosg-prIG6drrjE-OXDLmePEihv3M5zLg8BMPxGootrS_0s",
	"i0P2bQZ_U_sIRHo1t6chBPiYU1eIro2BAHbiJ3VKSsir0CCoEZGHgUYiSrh1zQvoEzTVdweeWNYcwUzI76bpnhtz_LnPzca_DrgIhk4y_udnHVBG1Ihsjms67jxc1eqX",
}

func blsJWK(r *rand.Rand) M { return M{"kty": "EC", "crv": "BLS12381_G2", "x": pick(r, blsKeys)} }

func validKey(r *rand.Rand, id string) M {
	typ := pick(r, keyTypes)
	k := M{"id": id, "type": typ}
	jwkOK := typ == "JsonWebKey2020" || typ == "EcdsaSecp256k1VerificationKey2019" || r.Intn(2) == 0
	if jwkOK && typ == "Bls12381G2Key2020" && r.Intn(2) == 0 {
		k["publicKeyJwk"] = blsJWK(r)
	} else if jwkOK {
		kt := opb.KeyType(r.Intn(int(opb.NumKeyTypes)))
		if typ == "EcdsaSecp256k1VerificationKey2019" {
			kt = opb.Secp256k1
		}
		k["publicKeyJwk"] = jwkNoEmptyY(opb.NewKey(r, kt).JWK())
	} else {
		k["publicKeyBase58"] = "GY4GunSXBPBfhLCzDL7iGmP5dR3sBDCJZkkaGK8VgYQf"
	}
	// purposes permitted for the type
	var allowed []string
	for _, p := range purposesAll {
		if p == "keyAgreement" {
			if typ != "Ed25519VerificationKey2018" && typ != "Ed25519VerificationKey2020" {
				allowed = append(allowed, p)
			}
		} else if typ != "X25519KeyAgreementKey2019" {
			allowed = append(allowed, p)
		}
	}
	if r.Intn(4) != 0 && len(allowed) > 0 {
		n := 1 + r.Intn(len(allowed))
		r.Shuffle(len(allowed), func(i, j int) { allowed[i], allowed[j] = allowed[j], allowed[i] })
		ps := make([]interface{}, n)
		for i := 0; i < n; i++ {
			ps[i] = allowed[i]
		}
		k["purposes"] = ps
	}
	return k
}

func validService(r *rand.Rand, id string) M {
	s := M{"id": id, "type": ident(r, 1+r.Intn(30))}
	switch r.Intn(5) {
	case 0:
		s["serviceEndpoint"] = "https://example.com/" + ident(r, 5)
	case 1:
		s["serviceEndpoint"] = []interface{}{"https://a.example/" + ident(r, 3), "did:example:123", "/relative/path"}
	case 2:
		s["serviceEndpoint"] = M{"uri": "https://x.example", "routingKeys": []interface{}{"k"}}
	case 3:
		s["serviceEndpoint"] = []interface{}{M{"uri": "https://x.example"}, "https://b.example"}
	default:
		s["serviceEndpoint"] = "did:example:" + ident(r, 6)
		s["priority"] = 1
		s["recipientKeys"] = []interface{}{"a", "b"}
	}
	// further members keep whatever value they have, also the ones Go calls zero
	if r.Intn(4) == 0 {
		s[pick(r, []string{"description", "note", "accept"})] = pick(r, []interface{}{nil, false, 0, "", []interface{}{}, M{}})
	}
	return s
}

func randID(r *rand.Rand) string {
	switch r.Intn(6) {
	case 0:
		return ident(r, 1)
	case 1:
		return ident(r, 50)
	default:
		return ident(r, 2+r.Intn(20))
	}
}

type mut struct {
	label string
	f     func(r *rand.Rand, p M)
}

func keysOf(p M) []interface{} {
	if a, ok := p["publicKeys"].([]interface{}); ok {
		return a
	}
	if d, ok := p["document"].(map[string]interface{}); ok {
		if a, ok := d["publicKeys"].([]interface{}); ok {
			return a
		}
	}
	return nil
}

func svcsOf(p M) []interface{} {
	if a, ok := p["services"].([]interface{}); ok {
		return a
	}
	if d, ok := p["document"].(map[string]interface{}); ok {
		if a, ok := d["services"].([]interface{}); ok {
			return a
		}
	}
	return nil
}

func setKeys(p M, ks []interface{}) {
	if _, ok := p["publicKeys"]; ok {
		p["publicKeys"] = ks
	} else if d, ok := p["document"].(map[string]interface{}); ok {
		d["publicKeys"] = ks
	}
}

func setSvcs(p M, ss []interface{}) {
	if _, ok := p["services"]; ok {
		p["services"] = ss
	} else if d, ok := p["document"].(map[string]interface{}); ok {
		d["services"] = ss
	}
}

func firstKey(p M) M     { return keysOf(p)[0].(map[string]interface{}) }
func firstService(p M) M { return svcsOf(p)[0].(map[string]interface{}) }

var badIDChars = []string{" ", ".", "#", "/", ":", "é", "~", "+", "=", "\n", " ", "😀", "\\", "\"", "@", "%"}

var keyMuts = []mut{
	{"key/entry-not-object", func(r *rand.Rand, p M) {
		junk := pick(r, []interface{}{5, "x", nil, []interface{}{}, true})
		setKeys(p, append([]interface{}{junk}, keysOf(p)...))
	}},
	{"key/only-entry-not-object", func(r *rand.Rand, p M) { setKeys(p, []interface{}{pick(r, []interface{}{5, "x", nil})}) }},
	{"key/purpose-not-string", func(r *rand.Rand, p M) {
		ps, _ := firstKey(p)["purposes"].([]interface{})
		firstKey(p)["purposes"] = append(append([]interface{}{}, ps...), pick(r, []interface{}{7, nil, M{}, []interface{}{"authentication"}}))
	}},
	{"key/sixth-purpose-not-string", func(r *rand.Rand, p M) {
		firstKey(p)["type"] = "JsonWebKey2020"
		firstKey(p)["purposes"] = []interface{}{"authentication", "assertionMethod", "keyAgreement", "capabilityDelegation", "capabilityInvocation", []interface{}{"sixth"}}
	}},
	{"key/id-empty", func(r *rand.Rand, p M) { firstKey(p)["id"] = "" }},
	{"key/id-51", func(r *rand.Rand, p M) { firstKey(p)["id"] = ident(r, 51) }},
	{"key/id-50-ok", func(r *rand.Rand, p M) { firstKey(p)["id"] = ident(r, 50) }},
	{"key/id-1-ok", func(r *rand.Rand, p M) { firstKey(p)["id"] = ident(r, 1) }},
	{"key/id-badchar", func(r *rand.Rand, p M) {
		id := ident(r, 1+r.Intn(8))
		k := r.Intn(len(id) + 1)
		firstKey(p)["id"] = id[:k] + pick(r, badIDChars) + id[k:]
	}},
	{"key/id-dup", func(r *rand.Rand, p M) {
		ks := keysOf(p)
		if len(ks) > 1 {
			ks[len(ks)-1].(map[string]interface{})["id"] = firstKey(p)["id"]
		} else {
			firstKey(p)["id"] = ""
		}
	}},
	{"key/no-type", func(r *rand.Rand, p M) { delete(firstKey(p), "type") }},
	{"key/no-id", func(r *rand.Rand, p M) { delete(firstKey(p), "id") }},
	{"key/type-unknown", func(r *rand.Rand, p M) {
		firstKey(p)["type"] = pick(r, []string{"", "JsonWebKey2021", "jsonwebkey2020", "RsaVerificationKey2018"})
	}},
	{"key/both-materials", func(r *rand.Rand, p M) {
		firstKey(p)["publicKeyJwk"] = jwkNoEmptyY(opb.NewKey(r, opb.P256).JWK())
		firstKey(p)["publicKeyBase58"] = "GY4GunSXBPBfhLCzDL7iGmP5dR3sBDCJZkkaGK8VgYQf"
	}},
	{"key/no-material", func(r *rand.Rand, p M) { delete(firstKey(p), "publicKeyJwk"); delete(firstKey(p), "publicKeyBase58") }},
	{"key/extra-member", func(r *rand.Rand, p M) {
		firstKey(p)[pick(r, []string{"controller", "publicKeyMultibase", "publicKeyHex", "foo", "Purposes", "ID", ""})] = "x"
	}},
	{"key/purposes-empty", func(r *rand.Rand, p M) { firstKey(p)["purposes"] = []interface{}{} }},
	{"key/purposes-6-known", func(r *rand.Rand, p M) {
		firstKey(p)["type"] = "JsonWebKey2020"
		firstKey(p)["publicKeyJwk"] = jwkNoEmptyY(opb.NewKey(r, opb.P256).JWK())
		delete(firstKey(p), "publicKeyBase58")
		firstKey(p)["purposes"] = []interface{}{"authentication", "assertionMethod", "keyAgreement", "capabilityDelegation", "capabilityInvocation", pick(r, purposesAll)}
	}},
	{"key/purposes-5-ok", func(r *rand.Rand, p M) {
		firstKey(p)["type"] = "JsonWebKey2020"
		firstKey(p)["publicKeyJwk"] = jwkNoEmptyY(opb.NewKey(r, opb.P256).JWK())
		delete(firstKey(p), "publicKeyBase58")
		firstKey(p)["purposes"] = []interface{}{"authentication", "assertionMethod", "keyAgreement", "capabilityDelegation", "capabilityInvocation"}
	}},
	{"key/purposes-unknown", func(r *rand.Rand, p M) {
		firstKey(p)["purposes"] = []interface{}{pick(r, []string{"other", "Authentication", "", "verificationMethod"})}
	}},
	{"key/matrix", func(r *rand.Rand, p M) { // every type x purpose pair, valid or not
		typ := pick(r, keyTypes)
		firstKey(p)["type"] = typ
		firstKey(p)["publicKeyJwk"] = jwkNoEmptyY(opb.NewKey(r, opb.P256).JWK())
		delete(firstKey(p), "publicKeyBase58")
		if r.Intn(6) == 0 {
			delete(firstKey(p), "purposes")
		} else {
			firstKey(p)["purposes"] = []interface{}{pick(r, purposesAll)}
		}
	}},
	{"key/jwk-invalid", func(r *rand.Rand, p M) {
		j := jwkNoEmptyY(opb.NewKey(r, opb.P256).JWK())
		switch r.Intn(5) {
		case 0:
			delete(j, "kty")
		case 1:
			delete(j, "crv")
		case 2:
			delete(j, "x")
		case 3:
			j = M{"kty": "RSA", "n": "abc"}
		case 4:
			j["kty"] = ""
		}
		firstKey(p)["publicKeyJwk"] = j
		delete(firstKey(p), "publicKeyBase58")
	}},
	{"key/ec-jwk-without-y", func(r *rand.Rand, p M) {
		j := M{"kty": "EC", "crv": "P-256", "x": "PUymIqdtF_qxaAqPABSw-C-owT1KYYQbsMKFM-L9fJA"}
		switch r.Intn(3) {
		case 0:
		case 1:
			j["y"] = ""
		case 2:
			j["y"] = 5
		}
		firstKey(p)["type"] = "JsonWebKey2020"
		firstKey(p)["publicKeyJwk"] = j
		delete(firstKey(p), "publicKeyBase58")
	}},
	{"key/jwk-rsa-ok", func(r *rand.Rand, p M) {
		firstKey(p)["publicKeyJwk"] = M{"kty": "RSA", "n": "abc", "e": "AQAB"}
		delete(firstKey(p), "publicKeyBase58")
	}},
	{"key/jwk-not-object", func(r *rand.Rand, p M) {
		firstKey(p)["publicKeyJwk"] = pick(r, []interface{}{"str", 1, nil, []interface{}{}})
		delete(firstKey(p), "publicKeyBase58")
	}},
	{"key/base58-jwk2020", func(r *rand.Rand, p M) {
		firstKey(p)["type"] = "JsonWebKey2020"
		delete(firstKey(p), "publicKeyJwk")
		firstKey(p)["publicKeyBase58"] = "GY4GunSXBPBfhLCzDL7iGmP5dR3sBDCJZkkaGK8VgYQf"
		delete(firstKey(p), "purposes")
	}},
	{"key/base58-ed2018-ok", func(r *rand.Rand, p M) {
		firstKey(p)["type"] = "Ed25519VerificationKey2018"
		delete(firstKey(p), "publicKeyJwk")
		firstKey(p)["publicKeyBase58"] = "GY4GunSXBPBfhLCzDL7iGmP5dR3sBDCJZkkaGK8VgYQf"
		firstKey(p)["purposes"] = []interface{}{"authentication"}
	}},
	{"key/base58-empty", func(r *rand.Rand, p M) {
		firstKey(p)["type"] = "Ed25519VerificationKey2018"
		delete(firstKey(p), "publicKeyJwk")
		firstKey(p)["publicKeyBase58"] = ""
		delete(firstKey(p), "purposes")
	}},
}

var svcMuts = []mut{
	{"service/entry-not-object", func(r *rand.Rand, p M) {
		junk := pick(r, []interface{}{nil, 5, "x", []interface{}{}})
		setSvcs(p, append(svcsOf(p), junk))
	}},
	{"service/only-entry-not-object", func(r *rand.Rand, p M) { setSvcs(p, []interface{}{pick(r, []interface{}{nil, 5})}) }},
	{"svc/id-empty", func(r *rand.Rand, p M) { firstService(p)["id"] = "" }},
	{"svc/id-missing", func(r *rand.Rand, p M) { delete(firstService(p), "id") }},
	{"svc/id-51", func(r *rand.Rand, p M) { firstService(p)["id"] = ident(r, 51) }},
	{"svc/id-50-ok", func(r *rand.Rand, p M) { firstService(p)["id"] = ident(r, 50) }},
	{"svc/id-badchar", func(r *rand.Rand, p M) { firstService(p)["id"] = ident(r, 3) + pick(r, badIDChars) }},
	{"svc/id-dup", func(r *rand.Rand, p M) {
		ss := svcsOf(p)
		if len(ss) > 1 {
			ss[len(ss)-1].(map[string]interface{})["id"] = firstService(p)["id"]
		} else {
			firstService(p)["id"] = ""
		}
	}},
	{"svc/type-empty", func(r *rand.Rand, p M) { firstService(p)["type"] = "" }},
	{"svc/type-missing", func(r *rand.Rand, p M) { delete(firstService(p), "type") }},
	{"svc/type-31", func(r *rand.Rand, p M) { firstService(p)["type"] = ident(r, 31) }},
	{"svc/type-30-ok", func(r *rand.Rand, p M) { firstService(p)["type"] = ident(r, 30) }},
	{"svc/type-multibyte", func(r *rand.Rand, p M) { firstService(p)["type"] = strings.Repeat("é", 14+r.Intn(3)) }},
	{"svc/type-30-two-byte-characters-ok", func(r *rand.Rand, p M) {
		firstService(p)["type"] = strings.Repeat(pick(r, []string{"é", "ü", "Ж"}), 30)
	}},
	{"svc/type-31-two-byte-characters", func(r *rand.Rand, p M) { firstService(p)["type"] = strings.Repeat("é", 31) }},
	{"svc/endpoint-with-fragment-ok", func(r *rand.Rand, p M) {
		u := pick(r, []string{"https://example.com#didcomm", "https://example.com/#f", "https://example.com/a?b=c#d", "did:example:123#svc", "https://example.com#"})
		if r.Intn(2) == 0 {
			firstService(p)["serviceEndpoint"] = u
		} else {
			firstService(p)["serviceEndpoint"] = []interface{}{u}
		}
	}},
	{"svc/endpoint-fragment-only", func(r *rand.Rand, p M) { firstService(p)["serviceEndpoint"] = pick(r, []string{"#f", "rel#f", "?q#f"}) }},
	{"svc/endpoint-missing", func(r *rand.Rand, p M) { delete(firstService(p), "serviceEndpoint") }},
	{"svc/endpoint-null", func(r *rand.Rand, p M) { firstService(p)["serviceEndpoint"] = nil }},
	{"svc/endpoint-empty", func(r *rand.Rand, p M) { firstService(p)["serviceEndpoint"] = "" }},
	{"svc/endpoint-bad-uri", func(r *rand.Rand, p M) {
		firstService(p)["serviceEndpoint"] = pick(r, []string{"not a uri", "foo", "://x", "http//x", "%zz", " https://x", "example.com"})
	}},
	{"svc/endpoint-list-bad-later", func(r *rand.Rand, p M) {
		firstService(p)["serviceEndpoint"] = []interface{}{"https://ok.example", pick(r, []string{"", "not a uri", "foo"})}
	}},
	{"svc/endpoint-list-bad-after-object", func(r *rand.Rand, p M) {
		firstService(p)["serviceEndpoint"] = []interface{}{M{"uri": "x"}, "https://ok.example", 7, ""}
	}},
	{"svc/endpoint-list-empty-ok", func(r *rand.Rand, p M) { firstService(p)["serviceEndpoint"] = []interface{}{} }},
	{"svc/endpoint-other-type-ok", func(r *rand.Rand, p M) { firstService(p)["serviceEndpoint"] = pick(r, []interface{}{7, true, M{}}) }},
}

func genC13(r *rand.Rand, n int, emit func(string)) {
	for i := 0; i < n; i++ {
		var p M
		label := ""
		kind := i % 9
		nk, ns := 1+r.Intn(3), 1+r.Intn(3)
		var keys, svcs []interface{}
		seen := map[string]bool{}
		fresh := func() string {
			for {
				id := randID(r)
				if !seen[id] {
					seen[id] = true
					return id
				}
			}
		}
		for j := 0; j < nk; j++ {
			keys = append(keys, validKey(r, fresh()))
		}
		for j := 0; j < ns; j++ {
			svcs = append(svcs, validService(r, fresh()))
		}
		mutate := r.Intn(3) != 0
		switch kind {
		case 0:
			p = M{"action": "add-public-keys", "publicKeys": keys}
			label = "add-public-keys/valid"
			if mutate {
				m := keyMuts[r.Intn(len(keyMuts))]
				m.f(r, p)
				label = "add-public-keys/" + m.label
			}
		case 1:
			p = M{"action": "add-services", "services": svcs}
			label = "add-services/valid"
			if mutate {
				m := svcMuts[r.Intn(len(svcMuts))]
				m.f(r, p)
				label = "add-services/" + m.label
			}
		case 2:
			doc := M{}
			switch r.Intn(4) {
			case 0:
				doc["publicKeys"] = keys
			case 1:
				doc["services"] = svcs
			default:
				doc["publicKeys"] = keys
				doc["services"] = svcs
			}
			p = M{"action": "replace", "document": doc}
			label = "replace/valid"
			if mutate {
				switch {
				case r.Intn(5) == 0:
					doc[pick(r, []string{"alsoKnownAs", "id", "publicKey", "service", "foo"})] = []interface{}{}
					label = "replace/extra-member"
				case doc["publicKeys"] != nil && r.Intn(2) == 0:
					m := keyMuts[r.Intn(len(keyMuts))]
					m.f(r, p)
					label = "replace/" + m.label
				case doc["services"] != nil:
					m := svcMuts[r.Intn(len(svcMuts))]
					m.f(r, p)
					label = "replace/" + m.label
				default:
					p["document"] = pick(r, []interface{}{[]interface{}{}, "x", nil, M{}})
					label = "replace/document-shape"
				}
				if r.Intn(8) == 0 {
					k := pick(r, []string{"publicKeys", "services"})
					doc = M{k: pick(r, []interface{}{"keys", M{"id": "s"}, 5, true})}
					p["document"] = doc
					label = "replace/member-not-list"
				}
			}
		case 3, 4:
			action := []string{"remove-public-keys", "remove-services"}[kind-3]
			ids := []interface{}{}
			for j := 0; j < 1+r.Intn(3); j++ {
				ids = append(ids, randID(r))
			}
			p = M{"action": action, "ids": ids}
			label = action + "/valid"
			if mutate {
				switch r.Intn(7) {
				case 6:
					// an entry that is no string: skipped by the accessor, so never validated
					junk := pick(r, []interface{}{123, nil, M{"id": "key2"}, true, []interface{}{"a"}, 1.5})
					if r.Intn(2) == 0 {
						p["ids"] = []interface{}{junk}
					} else {
						p["ids"] = append(ids, junk)
					}
					label = action + "/entry-not-string"
				case 0:
					p["ids"] = []interface{}{}
					label = action + "/empty-list"
				case 1:
					p["ids"] = append(ids, "")
					label = action + "/id-empty"
				case 2:
					p["ids"] = append(ids, ident(r, 51))
					label = action + "/id-51"
				case 3:
					p["ids"] = append(ids, ident(r, 2)+pick(r, badIDChars))
					label = action + "/id-badchar"
				case 4:
					p["ids"] = pick(r, []interface{}{"abc", nil, M{}})
					label = action + "/not-array"
				case 5:
					p["ids"] = append(ids, ident(r, 50))
					label = action + "/id-50-ok"
				}
			}
		case 5, 6:
			action := []string{"add-also-known-as", "remove-also-known-as"}[kind-5]
			uris := []interface{}{}
			for j := 0; j < 1+r.Intn(3); j++ {
				uris = append(uris, pick(r, []string{"https://example.com/", "did:example:", "urn:x:", "http://a.b/c?d=", "/rel/"})+ident(r, 4))
			}
			p = M{"action": action, "uris": uris}
			label = action + "/valid"
			if mutate {
				switch r.Intn(7) {
				case 6:
					junk := pick(r, []interface{}{1, nil, M{"uri": "x"}, false})
					if r.Intn(2) == 0 {
						p["uris"] = []interface{}{junk}
					} else {
						p["uris"] = append(uris, junk)
					}
					label = action + "/entry-not-string"
				case 0:
					p["uris"] = []interface{}{}
					label = action + "/empty-list"
				case 1:
					p["uris"] = append(uris, pick(r, []string{"%zz", ":foo", "http://[::1", "a b\x7f", "http://a b.com/"}))
					label = action + "/unparsable"
				case 2:
					switch r.Intn(3) {
					case 0:
						p["uris"] = append(uris, uris[0])
						label = action + "/duplicate"
					case 1:
						// the same URI twice in a spelling net/url does not write back verbatim
						u := pick(r, []string{"HTTPS://abc.com", "https://abc.com/some path", "https://abc.com/profile#", "did:example:123/path?a=b c#"})
						p["uris"] = append(uris, u, u)
						label = action + "/duplicate-non-canonical-spelling"
					default:
						// the written-back spelling first, another spelling of it second
						p["uris"] = append(uris, "http://Example.com/a", "HTTP://Example.com/a")
						label = action + "/duplicate-normal-form-first"
					}
				case 3:
					p["uris"] = []interface{}{"HTTP://Example.com/a", "http://Example.com/a"}
					label = action + "/duplicate-after-normalisation"
				case 4:
					p["uris"] = []interface{}{"https://example.com/a b", "https://example.com/a%20b"}
					label = action + "/duplicate-after-escaping"
				case 5:
					p["uris"] = pick(r, []interface{}{"abc", nil})
					label = action + "/not-array"
				}
			}
		case 7:
			ops := []interface{}{M{"op": "add", "path": "/" + ident(r, 4), "value": "v"}}
			p = M{"action": "ietf-json-patch", "patches": ops}
			label = "ietf/valid"
			if mutate {
				switch r.Intn(12) {
				case 0:
					p["patches"] = []interface{}{}
					label = "ietf/empty-list"
				case 1:
					p["patches"] = []interface{}{M{"op": "remove", "path": pick(r, []string{"/service", "/service/0", "/service/0/id", "/services", "/serviceX"})}}
					label = "ietf/path-service"
				case 2:
					p["patches"] = []interface{}{M{"op": "replace", "path": pick(r, []string{"/publicKey", "/publicKey/1", "/publicKey/0/publicKeyJwk/x", "/publicKeys", "/publicKeyX"}), "value": 1}}
					label = "ietf/path-publicKey"
				case 3:
					p["patches"] = []interface{}{M{"op": pick(r, []string{"move", "copy"}), "from": pick(r, []string{"/publicKey/0", "/service", "/publicKey", "/service/0/serviceEndpoint"}), "path": "/x"}}
					label = "ietf/from-protected"
				case 4:
					p["patches"] = []interface{}{M{"op": pick(r, []string{"move", "copy"}), "from": "/a", "path": pick(r, []string{"/a/b", "/a/b/c"})}}
					label = "ietf/from-prefix-of-path"
				case 5:
					p["patches"] = []interface{}{M{"op": "copy", "from": "/a", "path": pick(r, []string{"/ab", "/a", "/b/a"})}}
					label = "ietf/from-not-prefix-ok"
				case 6:
					p["patches"] = []interface{}{M{"op": "add", "value": 1}}
					label = "ietf/no-path"
				case 7:
					p["patches"] = []interface{}{M{"op": "add", "path": pick(r, []interface{}{1, true, []interface{}{}, M{}}), "value": 1}}
					label = "ietf/path-not-string"
				case 8:
					p["patches"] = []interface{}{pick(r, []interface{}{"x", 1, []interface{}{}})}
					label = "ietf/op-not-object"
				case 9:
					p["patches"] = []interface{}{M{"op": "remove", "path": pick(r, []string{"/a~1service", "/~0publicKey", "/a/publicKey", "/a/service/0", "/publickey", "/Service"})}}
					label = "ietf/lookalike-ok"
				case 10:
					p["patches"] = pick(r, []interface{}{"x", nil, M{}})
					label = "ietf/not-array"
				case 11:
					p["patches"] = []interface{}{M{"op": "move", "from": pick(r, []interface{}{1, true}), "path": "/x"}}
					label = "ietf/from-not-string"
				}
			}
		case 8:
			base := M{"action": "add-public-keys", "publicKeys": keys}
			switch r.Intn(6) {
			case 5:
				// an otherwise valid patch whose action is spelled differently is not that action
				base["action"] = pick(r, []string{"Add-Public-Keys", "ADD-PUBLIC-KEYS", " add-public-keys", "add-public-keys ", "add-public-keys\n", "add_public_keys", "add-public-key"})
				label = "envelope/action-other-spelling"
			case 0:
				delete(base, "action")
				label = "envelope/no-action"
			case 1:
				base["action"] = pick(r, []interface{}{"invalid", "", "Replace", 1, nil})
				label = "envelope/unknown-action"
			case 2:
				delete(base, "publicKeys")
				label = "envelope/no-value"
			case 3:
				base["publicKeys"] = nil
				label = "envelope/value-null"
			case 4:
				base["action"] = "remove-public-keys" // value member of another action
				label = "envelope/value-of-other-action"
			}
			p = base
		}
		p = deepCopy(p).(map[string]interface{})
		emit(proto.Line("validate", M{"patch": p, "uri": UriTable(p), "label": label}))
	}
	// original documents
	for i := 0; i < n/20+4; i++ {
		d := M{"publicKey": []interface{}{}, "other": 1}
		label := "origdoc/valid"
		switch r.Intn(7) {
		case 0:
			d["id"] = "did:x:abc"
			label = "origdoc/id"
		case 1:
			d["@context"] = []interface{}{"https://w3id.org/did/v1"}
			label = "origdoc/context"
		case 2:
			d["id"] = ""
			label = "origdoc/id-empty"
		case 3:
			d["@context"] = []interface{}{}
			label = "origdoc/context-empty"
		case 4:
			d["id"] = pick(r, []interface{}{7, true, nil, []interface{}{"did:x:abc"}, M{"a": 1}})
			label = "origdoc/id-not-string"
		case 5:
			d["@context"] = pick(r, []interface{}{"https://w3id.org/did/v1", M{"@base": "x"}, nil, 1})
			label = "origdoc/context-not-list"
		}
		b, _ := json.Marshal(d)
		emit(proto.Line("origdoc", M{"doc": proto.Hex(b), "label": label}))
	}
	for _, t := range []string{"[]", "1", "null", "", "{"} {
		emit(proto.Line("origdoc", M{"doc": proto.Hex([]byte(t)), "label": "origdoc/not-object"}))
	}
}
