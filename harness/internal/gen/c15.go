package gen

import (
	"crypto/ed25519"
	"crypto/elliptic"
	"math/big"
	"math/rand"
	"strings"

	"verif/harness/internal/opb"
	"verif/harness/internal/proto"
)

func init() {
	register("C15sign", genC15sign)
	register("C15", genC15)
	register("C16", genC16)
	register("C16parse", genC16parse)
}

func hexInt(v *big.Int) string { return proto.Hex(v.Bytes()) }

// keyWithLeadingZeros draws keys until a coordinate has `zeros` leading zero bytes (rejection sampling).
func keyWithLeadingZeros(r *rand.Rand, kt opb.KeyType, zeros int) *opb.Key {
	size := kt.CoordSize()
	for i := 0; i < 200000; i++ {
		k := opb.NewKey(r, kt)
		if len(k.X.Bytes()) <= size-zeros || len(k.Y.Bytes()) <= size-zeros {
			return k
		}
	}
	return opb.NewKey(r, kt)
}

// pointWithSmallX constructs a public point whose x has `zeros` leading zero bytes (all four
// field primes are 3 mod 4, so a square root is one exponentiation).
func pointWithSmallX(r *rand.Rand, kt opb.KeyType, zeros int) (*big.Int, *big.Int) {
	c := kt.Curve()
	p := c.Params().P
	size := kt.CoordSize()
	x := new(big.Int).SetBytes(opb.RandBytes(r, size-zeros))
	x.Mod(x, p)
	exp := new(big.Int).Add(p, big.NewInt(1))
	exp.Rsh(exp, 2)
	for {
		// y^2 = x^3 + ax + b ; a = -3 for the NIST curves, 0 for secp256k1
		rhs := new(big.Int).Mul(x, x)
		rhs.Mul(rhs, x)
		if kt != opb.Secp256k1 {
			rhs.Sub(rhs, new(big.Int).Mul(big.NewInt(3), x))
		}
		rhs.Add(rhs, c.Params().B)
		rhs.Mod(rhs, p)
		y := new(big.Int).Exp(rhs, exp, p)
		if new(big.Int).Mod(new(big.Int).Mul(y, y), p).Cmp(rhs) == 0 && c.IsOnCurve(x, y) {
			if r.Intn(2) == 0 {
				y.Sub(p, y)
			}
			return x, y
		}
		x.Add(x, big.NewInt(1))
	}
}

func randPayload(r *rand.Rand) []byte {
	switch r.Intn(5) {
	case 4:
		if r.Intn(3) == 0 {
			return []byte{} // "every payload": the empty one too
		}
		return []byte{0}
	case 0:
		return []byte(`{"hello":"world"}`)
	case 1:
		return opb.RandBytes(r, 1+r.Intn(300))
	case 2:
		return []byte(strings.Repeat("payload ", 1+r.Intn(50)))
	default:
		return opb.RandBytes(r, 1)
	}
}

// genC15sign: the library's signers for every key type, then verification under the matching JWK.
func genC15sign(r *rand.Rand, n int, emit func(string)) {
	for i := 0; i < n; i++ {
		kt := opb.KeyType(i % int(opb.NumKeyTypes))
		body := M{"kt": kt.String(), "alg": kt.Alg(), "kid": pick(r, []string{"", "", "key-1"}), "payload": proto.Hex(randPayload(r))}
		if kt == opb.Ed25519 {
			seed := opb.RandBytes(r, 32)
			body["seed"] = proto.Hex(seed)
			body["pub"] = proto.Hex([]byte(ed25519.NewKeyFromSeed(seed)[32:]))
		} else {
			var k *opb.Key
			if r.Intn(3) == 0 {
				k = keyWithLeadingZeros(r, kt, 1)
			} else {
				k = opb.NewKey(r, kt)
			}
			body["d"], body["x"], body["y"] = hexInt(k.D), hexInt(k.X), hexInt(k.Y)
		}
		emit(proto.Line("sign", body))
	}
}

// genC15: compact strings produced by the harness's own signer, intact and tampered, verified
// under the signing key and under other keys of the same and of different type.
func genC15(r *rand.Rand, n int, emit func(string)) {
	for i := 0; i < n; i++ {
		kt := opb.KeyType(r.Intn(int(opb.NumKeyTypes)))
		k := opb.NewKey(r, kt)
		if r.Intn(4) == 0 && kt != opb.Ed25519 {
			k = keyWithLeadingZeros(r, kt, 1)
		}
		payload := randPayload(r)
		hdr := M{"alg": kt.Alg()}
		if r.Intn(3) == 0 {
			hdr["kid"] = "k-" + ident(r, 3)
		}
		compact := opb.CompactJWS(r, k, hdr, payload)
		jwk := k.JWK()
		// what the implementation verifies first, in the same process: the intact JWS under its own key
		// (anything a verification leaves behind for the next one then shows)
		prime := M{"jwk": k.JWK(), "compact": compact}
		label := kt.String() + "/intact"
		s := strings.Split(compact, ".")
		switch r.Intn(17) {
		case 16: // the mirrored point (x, p - y): on the curve, another key
			if kt != opb.Ed25519 {
				y := new(big.Int).Sub(kt.Curve().Params().P, k.Y)
				jwk["y"] = opb.B64E(padTo(y, kt.CoordSize()))
				label = kt.String() + "/key-mirrored-point"
			}
		case 0, 1:
		case 2: // single-bit change in one of the three segments
			j := r.Intn(3)
			s[j] = flipBit(r, s[j])
			compact = strings.Join(s, ".")
			label = kt.String() + "/bitflip-segment-" + string(rune('0'+j))
		case 3: // other key of the same type
			jwk = opb.NewKey(r, kt).JWK()
			label = kt.String() + "/other-key-same-type"
		case 4: // key of another type
			jwk = opb.NewKey(r, opb.KeyType((int(kt)+1+r.Intn(4))%5)).JWK()
			label = kt.String() + "/other-key-other-type"
		case 5: // signature of the wrong length
			raw, _ := opb.B64.DecodeString(s[2])
			switch r.Intn(6) {
			case 4, 5:
				// the same r and s, each half widened with leading zero bytes (still even, still splits in the middle)
				if kt != opb.Ed25519 && r.Intn(2) == 0 {
					raw = zeroPadHalves(raw, 1+r.Intn(3))
				} else if kt != opb.Ed25519 {
					raw = zerosBetweenHalves(raw, pick(r, []int{1, 2, len(raw) / 2}))
				} else {
					raw = append(raw, 0)
				}
			case 0:
				raw = raw[:len(raw)-1]
			case 1:
				raw = append(raw, byte(r.Intn(256)))
			case 2:
				raw = append([]byte{0}, raw...)
			case 3:
				raw = append(raw, raw...)
			}
			s[2] = opb.B64E(raw)
			compact = strings.Join(s, ".")
			label = kt.String() + "/signature-wrong-length"
		case 6: // malformed split
			compact = pick(r, []string{s[0] + "." + s[1], compact + ".x", s[0] + ".." + s[2], "." + s[1] + "." + s[2], s[0] + "." + s[1] + ".", "", "..", `{"payload":"x"}`})
			label = kt.String() + "/malformed-split"
		case 7: // bad base64
			j := r.Intn(3)
			s[j] = s[j] + pick(r, []string{"=", "+", "/", "*", " "})
			compact = strings.Join(s, ".")
			label = kt.String() + "/bad-base64"
		case 8: // header without alg / not an object
			s[0] = opb.B64E([]byte(pick(r, []string{`{"kid":"x"}`, `[]`, `null`, `"alg"`, `{`})))
			compact = strings.Join(s, ".")
			label = kt.String() + "/header-without-alg"
		case 9: // unsupported key type
			jwk = pick(r, []M{{"kty": "RSA", "n": "abc", "e": "AQAB"}, {"kty": "oct", "k": "abc"}, {"kty": "", "crv": "P-256"},
				{"kty": "EC", "crv": "P-224", "x": jwk["x"], "y": jwk["y"]}, {"kty": "OKP", "crv": "X25519", "x": jwk["x"]}})
			label = kt.String() + "/unsupported-key-type"
		case 10: // header content changed (kid) without re-signing
			hb := []byte(`{"alg":"` + kt.Alg() + `","kid":"changed"}`)
			s[0] = opb.B64E(hb)
			compact = strings.Join(s, ".")
			label = kt.String() + "/header-changed"
		case 11: // payload changed without re-signing
			s[1] = opb.B64E(append(payload, 'x'))
			compact = strings.Join(s, ".")
			label = kt.String() + "/payload-changed"
		case 12: // r or s with leading zero byte (kept at fixed width): still valid
			for tries := 0; tries < 300 && kt != opb.Ed25519; tries++ {
				c2 := opb.CompactJWS(r, k, hdr, payload)
				raw, _ := opb.B64.DecodeString(strings.Split(c2, ".")[2])
				if raw[0] == 0 || raw[len(raw)/2] == 0 {
					compact = c2
					label = kt.String() + "/rs-leading-zero"
					break
				}
			}
		case 13: // header spelled differently but same content: signing input is re-marshalled
			hb := []byte(`{ "alg" : "` + kt.Alg() + `" }`)
			if _, has := hdr["kid"]; !has {
				s[0] = opb.B64E(hb)
				compact = strings.Join(s, ".")
				label = kt.String() + "/header-respelled-same-content"
			}
		case 14: // off-curve key
			if kt != opb.Ed25519 {
				jwk["y"] = flipBit(r, jwk["y"].(string))
				label = kt.String() + "/key-off-curve"
			}
		case 15: // key coordinate of the wrong width
			if kt != opb.Ed25519 {
				raw, _ := opb.B64.DecodeString(jwk["x"].(string))
				jwk["x"] = opb.B64E(append([]byte{0}, raw...))
				label = kt.String() + "/key-wrong-width"
			} else {
				raw, _ := opb.B64.DecodeString(jwk["x"].(string))
				jwk["x"] = opb.B64E(pick(r, [][]byte{raw[:31], append(raw, 0), append(raw, raw...), {}}))
				label = kt.String() + "/key-wrong-width"
			}
		}
		emit(proto.Line("jws", M{"jwk": jwk, "compact": compact, "oracle": oracleForCompact(jwk, compact), "label": label, "prime": prime}))
	}
}

// genC16: valid public keys (with leading-zero coordinates over-represented) -> JWK -> key.
func genC16(r *rand.Rand, n int, emit func(string)) {
	for i := 0; i < n; i++ {
		kt := opb.KeyType(i % int(opb.NumKeyTypes))
		if kt == opb.Ed25519 {
			k := opb.NewKey(r, kt)
			emit(proto.Line("jwk", M{"curve": "Ed25519", "x": proto.Hex([]byte(k.Ed[32:])), "label": "Ed25519"}))
			continue
		}
		var k *opb.Key
		label := kt.String()
		switch r.Intn(4) {
		case 0:
			k = keyWithLeadingZeros(r, kt, 1)
			label += "/leading-zero"
		case 1:
			x, y := pointWithSmallX(r, kt, 1+r.Intn(3))
			emit(proto.Line("jwk", M{"curve": kt.String(), "x": hexInt(x), "y": hexInt(y), "label": label + "/leading-zeros-constructed"}))
			continue
		default:
			k = opb.NewKey(r, kt)
		}
		emit(proto.Line("jwk", M{"curve": kt.String(), "x": hexInt(k.X), "y": hexInt(k.Y), "label": label}))
	}
}

// genC16parse: JWKs to be read: valid, off-curve, wrong width, wrong names.
func genC16parse(r *rand.Rand, n int, emit func(string)) {
	for i := 0; i < n; i++ {
		kt := opb.KeyType(r.Intn(int(opb.NumKeyTypes)))
		k := opb.NewKey(r, kt)
		if r.Intn(3) == 0 && kt != opb.Ed25519 {
			k = keyWithLeadingZeros(r, kt, 1)
		}
		jwk := k.JWK()
		label := kt.String() + "/valid"
		coord := pick(r, []string{"x", "y"})
		if kt == opb.Ed25519 {
			coord = "x"
		}
		raw, _ := opb.B64.DecodeString(jwk[coord].(string))
		switch r.Intn(11) {
		case 10: // a coordinate that is not reduced: x + p for a point with a small x, at the curve's width
			if kt != opb.Ed25519 {
				if x, y, ok := smallXPoint(kt.Curve(), int64(1+r.Intn(200))); ok {
					if r.Intn(4) != 0 {
						x = new(big.Int).Add(x, kt.Curve().Params().P)
					}
					jwk["x"] = opb.B64E(padTo(x, kt.CoordSize()))
					jwk["y"] = opb.B64E(padTo(y, kt.CoordSize()))
					label = kt.String() + "/small-x-point"
					if x.Cmp(kt.Curve().Params().P) >= 0 {
						label = kt.String() + "/coordinate-not-reduced"
					}
				}
			}
		case 0, 1:
		case 2:
			jwk[coord] = flipBit(r, jwk[coord].(string))
			label = kt.String() + "/bit-flipped-" + coord
		case 3: // strip a leading byte
			jwk[coord] = opb.B64E(raw[1:])
			label = kt.String() + "/width-minus-1"
		case 4: // add a leading zero
			jwk[coord] = opb.B64E(append([]byte{0}, raw...))
			label = kt.String() + "/width-plus-1"
		case 5: // minimal (no leading zeros) encoding of a coordinate
			jwk[coord] = opb.B64E(new(big.Int).SetBytes(raw).Bytes())
			label = kt.String() + "/minimal-encoding"
		case 6:
			jwk["crv"] = pick(r, []string{"P-256", "P-384", "P-521", "secp256k1", "Ed25519", "P-224", "", "p-256"})
			label = kt.String() + "/crv-swapped"
		case 7:
			delete(jwk, coord)
			label = kt.String() + "/coordinate-missing"
		case 8:
			jwk[coord] = ""
			label = kt.String() + "/coordinate-empty"
		case 9:
			jwk[coord] = jwk[coord].(string) + "*"
			label = kt.String() + "/bad-base64"
		}
		emit(proto.Line("jwkparse", M{"jwk": jwk, "label": label}))
	}
}

func padTo(v *big.Int, n int) []byte {
	b := v.Bytes()
	if len(b) >= n {
		return b
	}
	return append(make([]byte, n-len(b)), b...)
}

// smallXPoint finds a point of the curve whose x is the first one >= from that has a y.
func smallXPoint(c elliptic.Curve, from int64) (*big.Int, *big.Int, bool) {
	p := c.Params().P
	a := big.NewInt(-3)
	if c.Params().Name == "secp256k1" || c.Params().B.Cmp(big.NewInt(7)) == 0 {
		a = big.NewInt(0)
	}
	for xi := from; xi < from+400; xi++ {
		x := big.NewInt(xi)
		rhs := new(big.Int).Exp(x, big.NewInt(3), p)
		rhs.Add(rhs, new(big.Int).Mul(a, x))
		rhs.Add(rhs, c.Params().B)
		rhs.Mod(rhs, p)
		if y := new(big.Int).ModSqrt(rhs, p); y != nil {
			return x, y, true
		}
	}
	return nil, nil, false
}

// zeroPadHalves re-encodes r||s with k zero bytes in front of each half.
func zeroPadHalves(raw []byte, k int) []byte {
	h := len(raw) / 2
	z := make([]byte, k)
	out := append([]byte{}, z...)
	out = append(out, raw[:h]...)
	out = append(out, z...)
	return append(out, raw[h:]...)
}

// zerosBetweenHalves: r, k zero bytes, s - the two halves at the ends of a longer signature
func zerosBetweenHalves(raw []byte, k int) []byte {
	h := len(raw) / 2
	out := append([]byte{}, raw[:h]...)
	out = append(out, make([]byte, k)...)
	return append(out, raw[h:]...)
}
