package gen

import (
	"encoding/json"
	"math/rand"
	"strings"

	"verif/harness/internal/opb"
	"verif/harness/internal/proto"
)

func init() {
	register("C18info", genC18info)
	register("C17", genC17)
	register("C18", genC18)
}

// smallCreate builds a create request that fits the long-form handler's fixed protocol.
func smallCreate(r *rand.Rand) (M, string) {
	upd, rec := opb.NewKey(r, pick(r, []opb.KeyType{opb.Ed25519, opb.P256, opb.Secp256k1})), opb.NewKey(r, opb.P256)
	var patches []interface{}
	switch r.Intn(4) {
	case 0:
		patches = []interface{}{AddKeysPatch(PubKeyEntry("key1", opb.NewKey(r, opb.P256), "authentication"))}
	case 1:
		patches = []interface{}{AddKeysPatch(PubKeyEntry("k1", opb.NewKey(r, opb.Ed25519), "assertionMethod", "authentication")),
			AddServicesPatch(M{"id": "svc1", "type": "t", "serviceEndpoint": "https://example.com/" + ident(r, 3)})}
	case 2:
		patches = []interface{}{M{"action": "replace", "document": M{"publicKeys": []interface{}{PubKeyEntry("r1", opb.NewKey(r, opb.Secp256k1), "keyAgreement")},
			"services": []interface{}{M{"id": "s", "type": "x", "serviceEndpoint": []interface{}{"https://a.example", "did:x:y"}}}}}}
	default:
		patches = []interface{}{AddKeysPatch(PubKeyEntry("k", opb.NewKey(r, opb.P256))), M{"action": "add-also-known-as", "uris": []interface{}{"https://aka.example/" + ident(r, 2)}}}
	}
	delta := opb.Delta(upd.Commitment(18), patches)
	sd := opb.SuffixData(18, delta, rec.Commitment(18), pick(r, []interface{}{nil, nil, "origin.example"}), "")
	return opb.CreateRequest(sd, delta), opb.Suffix(18, sd)
}

func genC17(r *rand.Rand, n int, emit func(string)) {
	for i := 0; i < n; i++ {
		ns := pick(r, []string{"did:foo", "did:sidetree", "did:ion", "did:ion:test", "did:sidetree:a:b"})
		req, suffix := smallCreate(r)
		canon := opb.Canon(req)
		initial := opb.B64E(canon)
		did := ns + ":" + suffix + ":" + initial
		uri := uriTableOfRequest(canon)
		label := "valid"
		if i%5 == 4 {
			// ProcessOperation
			b := canon
			plabel := "process/create"
			switch r.Intn(12) {
			case 11:
				// a request whose canonical form is longer than the bytes received (1E30 -> 1e+30),
				// at the operation size limit of the handler's protocol (2500)
				mod := deepCopy(req).(map[string]interface{})
				sd := mod["suffixData"].(map[string]interface{})
				const mark = `"@@NUM@@"`
				sd["anchorOrigin"] = []interface{}{"@@NUM@@", ""}
				target := 2500 + pick(r, []int{-1, 0, 1}) // length of the bytes handed in
				base := len(opb.Canon(mod)) - len(mark) + len("1E30")
				if target > base {
					sd["anchorOrigin"] = []interface{}{"@@NUM@@", strings.Repeat("a", target-base)}
				}
				b = []byte(strings.Replace(string(opb.Canon(mod)), mark, "1E30", 1))
				plabel = "process/canonical-form-longer-at-size-limit"
			case 10:
				// one member twice (encoding/json merges them; outside the model, the predicate still applies)
				k := pick(r, []string{"delta", "suffixData", "type"})
				one, _ := json.Marshal(req[k])
				txt := string(canon)
				b = []byte(txt[:len(txt)-1] + `,"` + k + `":` + string(one) + `}`)
				plabel = "process/member-twice"
			case 8:
				// explicit null for members that are optional
				mod := deepCopy(req).(map[string]interface{})
				sd := mod["suffixData"].(map[string]interface{})
				for _, k := range []string{"anchorOrigin", "type"} {
					if _, ok := sd[k]; !ok && r.Intn(2) == 0 {
						sd[k] = nil
					}
				}
				b = opb.Canon(mod)
				plabel = "process/null-optional"
			case 9:
				// member names in another case (encoding/json matches them case-insensitively)
				mod := deepCopy(req).(map[string]interface{})
				k := pick(r, []string{"delta", "suffixData", "type"})
				v := mod[k]
				delete(mod, k)
				mod[strings.ToUpper(k[:1])+k[1:]] = v
				b = opb.Canon(mod)
				plabel = "process/member-name-case"
			case 6, 7:
				// members the request structs do not know (encoding/json drops them)
				mod := deepCopy(req).(map[string]interface{})
				where := pick(r, []string{"top", "delta", "suffixData"})
				if where == "top" {
					mod["extra"] = pick(r, []interface{}{"x", true, []interface{}{}})
				} else {
					mod[where].(map[string]interface{})["extra"] = "x"
				}
				b = opb.Canon(mod)
				plabel = "process/unknown-member-" + where
			case 0:
				d, _, op := oneOp(r, 18, pick(r, []string{"update", "recover", "deactivate"}), opb.Window{})
				_ = d
				b = op.bytes(r)
				plabel = "process/non-create"
			case 1:
				b = []byte(ToJV(deepCopy(req)).Render(r, true))
				plabel = "process/respelled"
			case 2:
				b = canon[:r.Intn(len(canon))]
				plabel = "process/truncated"
			case 3:
				mod := deepCopy(req).(map[string]interface{})
				mod["suffixData"].(map[string]interface{})["deltaHash"] = opb.ModelMH(18, M{"x": 1})
				b = opb.Canon(mod)
				plabel = "process/delta-hash-mismatch"
			}
			mergeTab(uri, uriTableOfRequest(b))
			emit(proto.Line("process", M{"ns": ns, "req": proto.Hex(b), "uri": uri, "label": plabel}))
			continue
		}
		switch r.Intn(18) {
		case 0, 1:
		case 17: // one letter of the suffix in the other case (base64url is case sensitive: another suffix)
			sb := []byte(suffix)
			for tries := 0; tries < 100; tries++ {
				k := r.Intn(len(sb))
				if c := sb[k]; c >= 'a' && c <= 'z' {
					sb[k] = c - 32
					break
				} else if c >= 'A' && c <= 'Z' {
					sb[k] = c + 32
					break
				}
			}
			did = ns + ":" + string(sb) + ":" + initial
			label = "suffix-letter-case-flipped"
		case 16: // the suffix segment ends in the true suffix but is longer
			did = ns + ":" + pick(r, []string{"x", suffix, "Ei", "-"}) + suffix + ":" + initial
			label = "suffix-of-another-request"
		case 14: // the type member of the initial state says something else (canonical otherwise)
			mod := deepCopy(req).(map[string]interface{})
			mod["type"] = pick(r, []string{"breate", "Create", "update", "x", "creat", "create "})
			did = ns + ":" + suffix + ":" + opb.B64E(opb.Canon(mod))
			label = "initial-state-other-type-value"
		case 15: // single-character change inside the text of the type member's value
			at := strings.Index(string(canon), `"type":"create"`) + len(`"type":"c`)
			mod := append([]byte{}, canon...)
			mod[at+r.Intn(5)] = "bdfghijklmnopqsuvwxyzABCXYZ019"[r.Intn(30)] // none of them occurs in "reate"
			did = ns + ":" + suffix + ":" + opb.B64E(mod)
			label = "single-char-change"
		case 2: // single-character change anywhere in the DID
			k := r.Intn(len(did))
			const al = "ABCDEFGHIJKLMNOPQRSTUVWXYZabcdefghijklmnopqrstuvwxyz0123456789-_:"
			c := al[r.Intn(len(al))]
			if c == did[k] {
				c = 'x'
				if did[k] == 'x' {
					c = 'y'
				}
			}
			did = did[:k] + string(c) + did[k+1:]
			label = "single-char-change"
		case 3: // whitespace / member order in the initial state
			did = ns + ":" + suffix + ":" + opb.B64E([]byte(ToJV(deepCopy(req)).Render(r, true)))
			label = "initial-state-respelled"
		case 4:
			did = did + pick(r, []string{"=", "==", "\n"})
			label = "initial-state-padding"
		case 5: // trailing bits / newline inside (Go's lenient decoder)
			const al = "ABCDEFGHIJKLMNOPQRSTUVWXYZabcdefghijklmnopqrstuvwxyz0123456789-_"
			if r.Intn(2) == 0 {
				last := strings.IndexByte(al, did[len(did)-1])
				did = did[:len(did)-1] + string(al[last^(1+r.Intn(3))])
			} else {
				k := len(did) - 1 - r.Intn(len(initial)-1)
				did = did[:k] + "\n" + did[k:]
			}
			label = "initial-state-lenient-base64"
		case 6: // namespaces related by prefix
			other := pick(r, []string{ns + "bar", ns[:len(ns)-1], ns + ":", "x" + ns, strings.ToUpper(ns), ns + "x:y"})
			did = other + ":" + suffix + ":" + initial
			label = "foreign-namespace"
		case 7:
			did = ns + ":" + suffix
			label = "short-form"
		case 8:
			did = ns + ":" + pick(r, []string{"extra", "a:b", ns}) + ":" + suffix + ":" + initial
			label = "extra-middle-segments"
		case 9:
			_, other := smallCreate(r)
			did = ns + ":" + other + ":" + initial
			label = "suffix-of-another-request"
		case 10:
			did = pick(r, []string{ns, ns + ":", ns + "::", ":" + initial, ns + ":" + initial, "", ns + ":" + suffix + ":"})
			label = "missing-parts"
		case 11: // tampered initial state: a field changed and re-encoded
			mod := deepCopy(req).(map[string]interface{})
			mod["suffixData"].(map[string]interface{})["recoveryCommitment"] = opb.NewKey(r, opb.P256).Commitment(18)
			did = ns + ":" + suffix + ":" + opb.B64E(opb.Canon(mod))
			uri = uriTableOfRequest(opb.Canon(mod))
			label = "tampered-initial-state"
		case 12: // initial state without the type member / with extra members
			mod := deepCopy(req).(map[string]interface{})
			if r.Intn(2) == 0 {
				delete(mod, "type")
				label = "initial-state-without-type"
			} else {
				mod["extra"] = 1
				label = "initial-state-extra-member"
			}
			did = ns + ":" + suffix + ":" + opb.B64E(opb.Canon(mod))
		case 13: // an update request as initial state
			_, _, op := oneOp(r, 18, "update", opb.Window{})
			did = ns + ":" + suffix + ":" + opb.B64E(op.bytes(r))
			label = "initial-state-not-a-create"
		}
		emit(proto.Line("resolve", M{"ns": ns, "did": did, "uri": uri, "label": label}))
	}
}

// ---------------------------------------------------------------- C18

func genC18(r *rand.Rand, n int, emit func(string)) {
	for i := 0; i < n; i++ {
		doc := M{}
		nk := r.Intn(5)
		ks := []interface{}{}
		for j := 0; j < nk; j++ {
			typ := pick(r, keyTypes)
			k := M{"id": "key" + ident(r, 2), "type": typ}
			ed := opb.NewKey(r, opb.Ed25519)
			switch {
			case (typ == "Ed25519VerificationKey2018" || typ == "Ed25519VerificationKey2020") && r.Intn(4) != 0:
				j := jwkNoEmptyY(ed.JWK())
				if r.Intn(8) == 0 {
					j["x"] = opb.B64E(opb.RandBytes(r, pick(r, []int{31, 33, 0})))
				}
				k["publicKeyJwk"] = j
			case r.Intn(3) == 0:
				k["publicKeyBase58"] = "GY4GunSXBPBfhLCzDL7iGmP5dR3sBDCJZkkaGK8VgYQf"
			case r.Intn(12) == 0:
				// no material at all
			default:
				k["publicKeyJwk"] = jwkNoEmptyY(opb.NewKey(r, randKT(r)).JWK())
			}
			if r.Intn(5) != 0 {
				perm := r.Perm(len(purposesAll))[:1+r.Intn(len(purposesAll))]
				ps := []interface{}{}
				for _, p := range perm {
					ps = append(ps, purposesAll[p])
				}
				k["purposes"] = ps
			}
			if r.Intn(25) == 0 {
				k["type"] = "UnknownKeyType2099"
			}
			ks = append(ks, k)
		}
		if nk > 0 || r.Intn(2) == 0 {
			doc["publicKey"] = ks
		}
		if r.Intn(3) != 0 {
			ss := []interface{}{}
			for j := 0; j < 1+r.Intn(3); j++ {
				ss = append(ss, validService(r, "svc"+ident(r, 2)))
			}
			doc["service"] = ss
		}
		if r.Intn(3) == 0 {
			doc["alsoKnownAs"] = []interface{}{"https://aka.example/1", "did:example:2"}
		}
		did := pick(r, []string{"did:sidetree:abc", "did:ion:EiA" + ident(r, 6), "did:x:y:z"})
		ops := func() interface{} {
			if r.Intn(3) == 0 {
				return nil
			}
			k := r.Intn(7)
			out := []interface{}{}
			for j := 0; j < k; j++ {
				o := M{"type": pick(r, []string{"create", "update", "recover", "deactivate"}), "t": r.Intn(4), "n": r.Intn(4), "cr": pick(r, []string{"ref-a", "ref-b", "ref-c", "ref-d", ""})}
				out = append(out, o)
				if r.Intn(4) == 0 { // exact duplicate (same canonical reference, same position)
					out = append(out, deepCopy(o))
				}
			}
			return out
		}
		state := M{"doc": doc, "created": r.Intn(2000000000), "updated": pick(r, []int{0, 0, 1700000000 + r.Intn(100000)}), "lastT": 5, "lastN": 6, "lastV": 0,
			"uc": pick(r, []string{"", "EiUC" + ident(r, 4)}), "rc": pick(r, []string{"", "EiRC" + ident(r, 4)}), "deactivated": r.Intn(5) == 0,
			"anchorOrigin": pick(r, []interface{}{nil, "origin", M{"a": 1}}), "er": nil, "cr": "", "versionId": pick(r, []string{"", "v-" + ident(r, 3)}),
			"pub": ops(), "unpub": ops()}
		info := M{"id": did, "published": r.Intn(2) == 0}
		if r.Intn(2) == 0 {
			info["canonicalId"] = did + ":canon"
		}
		if r.Intn(2) == 0 {
			info["equivalentId"] = []interface{}{did + ":eq1", did + ":eq2"}
		}
		if r.Intn(30) == 0 {
			delete(info, pick(r, []string{"id", "published"}))
		}
		opts := M{"base": r.Intn(2) == 0, "pub": r.Intn(2) == 0, "unpub": r.Intn(2) == 0}
		if r.Intn(3) == 0 {
			opts["methodCtx"] = [][]string{{"https://m.example/v1"}, {"https://m.example/v1", "https://n.example/v2"}, {"a", "b", "c"}}[r.Intn(3)]
		}
		b, _ := json.Marshal(M{"state": state, "info": info, "opts": opts})
		var body M
		_ = json.Unmarshal(b, &body)
		emit(proto.Line("transform", body))
		if i%4 == 0 {
			// the same state through the generic document transformer
			emit(proto.Line("gtransform", body))
		}
	}
}

// genC18info: what docutil builds as transformation info, for published and unpublished states.
func genC18info(r *rand.Rand, n int, emit func(string)) {
	refs := []string{"", "", "bafkrei-1", "cas:ref2", "r3"}
	for i := 0; i < n; i++ {
		ns := pick(r, []string{"did:foo", "did:sidetree:test", "did:ion"})
		suffix := "Ei" + ident(r, 8)
		if r.Intn(2) == 0 {
			var er []interface{}
			for j := r.Intn(4); j > 0; j-- {
				er = append(er, pick(r, refs[2:])+ident(r, 1))
			}
			if r.Intn(6) == 0 {
				er = nil
			}
			emit(proto.Line("tinfo", M{"published": true, "ns": ns, "id": ns + ":" + suffix, "suffix": suffix, "cr": pick(r, refs), "er": er,
				"label": "published"}))
			continue
		}
		domain := pick(r, []string{"", "", "https:example.com", "dom"})
		label := pick(r, []string{"", "", "interim", "https:example.com:label", "domlabel", "x"})
		emit(proto.Line("tinfo", M{"published": false, "ns": ns, "domain": domain, "label": label, "suffix": suffix,
			"jcs": pick(r, []string{"", "eyJ" + ident(r, 6)}), "label2": "unpublished"}))
	}
}
