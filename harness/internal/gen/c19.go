package gen

import (
	"math/rand"
	"strings"

	"verif/harness/internal/proto"
)

func init() {
	register("C19compose", genC19compose)
	register("C19transform", genC19transform)
}

var wrongTyped = []interface{}{nil, true, false, 0, -1, 7, 3000000, "", "x", "0", "-1", []interface{}{}, []interface{}{nil}, []interface{}{1, "a", nil}, M{}, M{"id": 5}, M{"k": nil},
	[]interface{}{[]interface{}{}}, "unknown"}

// corrupt replaces one node of v (chosen uniformly over all positions) with a value of another
// type, deletes a member, or duplicates an element.
func corrupt(r *rand.Rand, v interface{}) interface{} {
	type slot struct {
		set func(interface{})
		del func()
	}
	var slots []slot
	c := deepCopy(v)
	// deterministic visiting order (map iteration is random)
	walkSorted(c, func(set func(interface{}), del func()) { slots = append(slots, slot{set, del}) })
	if len(slots) == 0 {
		return pick(r, wrongTyped)
	}
	s := slots[r.Intn(len(slots))]
	if r.Intn(5) == 0 {
		s.del()
	} else {
		s.set(deepCopy(pick(r, wrongTyped)))
	}
	return c
}

func walkSorted(x interface{}, add func(set func(interface{}), del func())) {
	switch t := x.(type) {
	case map[string]interface{}:
		for _, k := range sortedKeysM(t) {
			k := k
			add(func(n interface{}) { t[k] = n }, func() { delete(t, k) })
			walkSorted(t[k], add)
		}
	case []interface{}:
		for i := range t {
			i := i
			add(func(n interface{}) { t[i] = n }, func() { t[i] = nil })
			walkSorted(t[i], add)
		}
	}
}

func sortedKeysM(m map[string]interface{}) []string {
	ks := make([]string, 0, len(m))
	for k := range m {
		ks = append(ks, k)
	}
	for i := 1; i < len(ks); i++ {
		for j := i; j > 0 && ks[j] < ks[j-1]; j-- {
			ks[j], ks[j-1] = ks[j-1], ks[j]
		}
	}
	return ks
}

// pointers chosen to hit the library's corner cases: other spellings of one location, targets
// below their own source, negative and out-of-range indices, empty tokens, escapes
var hostilePtrs = []string{"", "/", "//", "/arr", "/arr/0", "/arr/+0", "/arr/00", "/arr/-0", "/arr/-1", "/arr/-4", "/arr/3", "/arr/99", "/arr/1e1",
	"/arr/2", "/arr/+2", "/arr/2/three", "/arr/+2/three/x", "/arr/02/three", "/arr/-", "/arr/-/x", "/arr/0/x", "/arr/+0/x", "/arr/00/y/z",
	"/obj", "/obj/a", "/obj/a/c", "/obj/a/c/d", "/obj/a/new", "/obj/b", "/obj/b/0", "/obj/b/+1", "/obj/b/1/x", "/obj/b/-", "/obj/q/r",
	"/n", "/n/x", "/m~n", "/m~0n", "/m~0n/x", "/m~n/x", "/a~1b", "/a~1b/x", "/~", "/~0", "/~01", "/~/x", "/~0/x", "/x", "/x/y", "/new", "/new/deep",
	"x", "x/obj/a", "y/arr/0/x", "/alsoKnownAs", "/alsoKnownAs/0", "/publicKey", "/publicKey/0", "/service/0/id", "/obj/a/../b"}

// a location and a place inside it, under names whose pointer spelling needs both escapes ("~01" is the
// name "~1", not "/"): a guard that un-escapes in the wrong order loses its way in the document
var ownChildPairs = [][2]string{{"/k~01/0", "/k~01/0/0"}, {"/k~01/0", "/k~01/00/0"}, {"/k~01/0", "/k~01/+0/-"}, {"/~01/0", "/~01/0/q2"}, {"/~01/0", "/~01/00/q/r"},
	{"/k~01", "/k~01/0/0"}, {"/~01", "/~01/-"}, {"/a~1b/0", "/a~1b/00/x"}}

func hostileOp(r *rand.Rand) interface{} {
	if r.Intn(15) == 0 {
		p := ownChildPairs[r.Intn(len(ownChildPairs))]
		return M{"op": pick(r, []string{"copy", "move"}), "from": p[0], "path": p[1]}
	}
	kind := pick(r, []string{"add", "remove", "replace", "move", "copy", "test", "copy", "move", "Add", "", "noop"})
	op := M{"op": kind, "path": pick(r, hostilePtrs)}
	if kind == "move" || kind == "copy" || r.Intn(8) == 0 {
		op["from"] = pick(r, hostilePtrs)
	}
	if kind == "add" || kind == "replace" || kind == "test" || r.Intn(6) == 0 {
		op["value"] = randJSONValue(r)
	}
	switch r.Intn(12) {
	case 0:
		return corrupt(r, op)
	case 1:
		return pick(r, wrongTyped)
	}
	return op
}

// genC19compose: ApplyPatches on patches that never saw the validator.
func genC19compose(r *rand.Rand, n int, emit func(string)) {
	for i := 0; i < n; i++ {
		doc := startDoc(r)
		if _, ok := doc["arr"]; !ok {
			doc["arr"] = []interface{}{1, "two", M{"three": 3}}
			doc["obj"] = M{"a": M{"c": 1}, "b": []interface{}{true, nil}}
			doc["n"] = nil
			doc["m~n"] = M{"t": 1}
			doc["~"] = M{"u": []interface{}{}}
			doc["a/b"] = []interface{}{M{}}
		}
		doc["k~1"] = []interface{}{[]interface{}{1}}
		doc["~1"] = []interface{}{M{"q": M{}}}
		var ps []interface{}
		if r.Intn(500) == 0 {
			// a chain of copies between two lists: each appends one list to the other, the sizes
			// are the Fibonacci numbers (x 1.618 per operation). Kept small enough to answer.
			ops := []interface{}{M{"op": "add", "path": "/fa", "value": []interface{}{"x"}}, M{"op": "add", "path": "/fb", "value": []interface{}{"x"}}}
			copies := 12 + 2*r.Intn(3)
			for k := 0; k < copies; k++ {
				if k%2 == 0 {
					ops = append(ops, M{"op": "copy", "from": "/fa", "path": "/fb/-"})
				} else {
					ops = append(ops, M{"op": "copy", "from": "/fb", "path": "/fa/-"})
				}
			}
			emit(proto.Line("compose", M{"doc": M{}, "patches": []interface{}{M{"action": "ietf-json-patch", "patches": ops}}, "label": "copy-chain", "copies": copies}))
			continue
		}
		for k := 1 + r.Intn(3); k > 0; k-- {
			switch r.Intn(6) {
			case 0:
				ps = append(ps, corrupt(r, validatedPatch(r)))
			case 1:
				ps = append(ps, M{"action": pick(r, []string{"ietf-json-patch", "add-public-keys", "replace", "remove-services", "add-also-known-as", "nope", ""}),
					pick(r, []string{"patches", "publicKeys", "document", "ids", "uris", "x"}): pick(r, wrongTyped)})
			default:
				ops := []interface{}{}
				for j := 1 + r.Intn(3); j > 0; j-- {
					ops = append(ops, hostileOp(r))
				}
				ps = append(ps, M{"action": "ietf-json-patch", "patches": ops})
			}
		}
		// a patch must at least be a JSON object for the harness to hand it over
		for j, p := range ps {
			if _, ok := p.(map[string]interface{}); !ok {
				ps[j] = M{"action": "ietf-json-patch", "patches": p}
			}
		}
		emit(proto.Line("compose", deepCopy(M{"doc": doc, "patches": ps}).(map[string]interface{})))
	}
}

// genC19transform: documents as hostile patches can leave them (wrong types at every position).
func genC19transform(r *rand.Rand, n int, emit func(string)) {
	var base []M
	genC18(rand.New(rand.NewSource(r.Int63())), 40, func(line string) {
		_ = proto.Read(strings.NewReader(line+"\n"), func(c *proto.Case) { base = append(base, c.Body) })
	})
	for i := 0; i < n; i++ {
		b := deepCopy(base[r.Intn(len(base))]).(map[string]interface{})
		st := b["state"].(map[string]interface{})
		if doc, ok := st["doc"].(map[string]interface{}); ok {
			d := corrupt(r, doc)
			if r.Intn(3) == 0 {
				d = corrupt(r, d)
			}
			if dm, ok := d.(map[string]interface{}); ok {
				st["doc"] = dm
			}
		}
		emit(proto.Line("transform", b))
	}
}
