package gen

import (
	"math/rand"

	"verif/harness/internal/proto"
)

func init() { register("C20", genC20) }

// genC20: one case = a mixed bag of lines of the other streams, to be answered sequentially and
// then concurrently on shared component instances, plus registry contention parameters.
func genC20(r *rand.Rand, n int, emit func(string)) {
	for i := 0; i < n; i++ {
		var lines []interface{}
		for _, part := range []struct {
			gen string
			n   int
		}{{"C07", 25}, {"C01", 10}, {"C02", 10}, {"C10", 25}, {"C19compose", 10}, {"C18", 25}, {"C17", 20}, {"C17vdr", 3}, {"C08", 3}, {"C13", 15}, {"C15", 10}} {
			g, _ := Get(part.gen)
			g(rand.New(rand.NewSource(r.Int63())), part.n, func(l string) { lines = append(lines, l) })
		}
		r.Shuffle(len(lines), func(a, b int) { lines[a], lines[b] = lines[b], lines[a] })
		emit(proto.Line("stress", M{"goroutines": 8 + r.Intn(9), "versions": 3 + r.Intn(3), "rounds": 30, "lines": lines}))
	}
}
