// Package gen holds the case generators, one per property. Every random choice comes
// from the *rand.Rand handed in (seeded from VERIF_SEED and the shard number).
package gen

import (
	"math/rand"
	"sort"

	"verif/harness/internal/opb"
	"verif/harness/internal/proto"
)

type M = map[string]interface{}

// Gen produces case lines through emit.
type Gen func(r *rand.Rand, n int, emit func(line string))

var gens = map[string]Gen{}

func register(name string, g Gen) { gens[name] = g }

func Get(name string) (Gen, bool) { g, ok := gens[name]; return g, ok }

func Names() []string {
	var ks []string
	for k := range gens {
		ks = append(ks, k)
	}
	sort.Strings(ks)
	return ks
}

// AllPatches are the eight patch actions.
var AllPatches = []string{"replace", "add-public-keys", "remove-public-keys", "add-services", "remove-services",
	"add-also-known-as", "remove-also-known-as", "ietf-json-patch"}

var AllSigAlgs = []string{"EdDSA", "ES256", "ES384", "ES512", "ES256K"}
var AllCurves = []string{"Ed25519", "P-256", "P-384", "P-521", "secp256k1"}

// BaseCfg is a permissive protocol (every key type / algorithm / patch allowed).
func BaseCfg() M {
	return M{
		"genesisTime":                  0,
		"multihashAlgorithms":          []int{18},
		"maxOperationCount":            10000,
		"maxOperationSize":             20000,
		"maxOperationHashLength":       100,
		"maxDeltaSize":                 10000,
		"maxCasUriLength":              500,
		"compressionAlgorithm":         "GZIP",
		"maxChunkFileSize":             10000000,
		"maxProvisionalIndexFileSize":  1000000,
		"maxCoreIndexFileSize":         1000000,
		"maxProofFileSize":             2500000,
		"patches":                      AllPatches,
		"signatureAlgorithms":          AllSigAlgs,
		"keyAlgorithms":                AllCurves,
		"maxOperationTimeDelta":        7200,
		"nonceSize":                    16,
		"maxMemoryDecompressionFactor": 3,
	}
}

// PubKeyEntry is a public key entry for add-public-keys / replace.
func PubKeyEntry(id string, k *opb.Key, purposes ...string) M {
	typ := "JsonWebKey2020"
	if k.Type == opb.Secp256k1 {
		typ = "EcdsaSecp256k1VerificationKey2019"
	}
	m := M{"id": id, "type": typ, "publicKeyJwk": jwkNoEmptyY(k.JWK())}
	if len(purposes) > 0 {
		ps := make([]interface{}, len(purposes))
		for i, p := range purposes {
			ps[i] = p
		}
		m["purposes"] = ps
	}
	return m
}

func jwkNoEmptyY(j M) M {
	out := M{}
	for k, v := range j {
		if k == "y" && v == "" {
			continue
		}
		out[k] = v
	}
	return out
}

func AddKeysPatch(entries ...M) M {
	arr := make([]interface{}, len(entries))
	for i, e := range entries {
		arr[i] = e
	}
	return M{"action": "add-public-keys", "publicKeys": arr}
}

func AddServicesPatch(entries ...M) M {
	arr := make([]interface{}, len(entries))
	for i, e := range entries {
		arr[i] = e
	}
	return M{"action": "add-services", "services": arr}
}

// AnchoredLine renders an anchored operation for the "ops" member of a case.
func AnchoredLine(typ, suffix string, req []byte, t, n, v uint64, cr string, er []string) M {
	m := M{"type": typ, "suffix": suffix, "req": proto.Hex(req), "t": t, "n": n, "v": v}
	if cr != "" {
		m["cr"] = cr
	}
	if er != nil {
		m["er"] = er
	}
	return m
}

func pick[T any](r *rand.Rand, xs []T) T { return xs[r.Intn(len(xs))] }

func ident(r *rand.Rand, n int) string {
	const al = "abcdefghijklmnopqrstuvwxyzABCDEFGHIJKLMNOPQRSTUVWXYZ0123456789_-"
	b := make([]byte, n)
	for i := range b {
		b[i] = al[r.Intn(len(al))]
	}
	return string(b)
}
