package gen

import (
	"encoding/binary"
	"fmt"
	"math"
	"math/rand"
	"strconv"
	"strings"
	"unicode/utf8"
)

// JV is a generated JSON value; Render writes it in a random surface spelling.
type JV struct {
	Kind byte // n(ull) b(ool) f(loat) s(tring) a(rray) o(bject)
	B    bool
	F    float64
	Lit  string // fixed literal for a number (overrides F) — used for malformed / boundary spellings
	S    string
	A    []*JV
	K    []string
	V    []*JV
}

// ---- strings

var runeClasses = []func(r *rand.Rand) rune{
	func(r *rand.Rand) rune { return rune(0x20 + r.Intn(0x5f)) }, // printable ASCII
	func(r *rand.Rand) rune { return rune(0x20 + r.Intn(0x5f)) }, // (weighted)
	func(r *rand.Rand) rune { return rune(r.Intn(0x20)) },        // C0 controls
	func(r *rand.Rand) rune { return pick(r, []rune{'"', '\\', '/', 0x7f, '<', '>', '&'}) },
	func(r *rand.Rand) rune { return rune(0x80 + r.Intn(0x780)) },         // 2-byte UTF-8
	func(r *rand.Rand) rune { return rune(0x800 + r.Intn(0xd000-0x800)) }, // BMP below surrogates
	func(r *rand.Rand) rune { return rune(0xe000 + r.Intn(0x2000)) },      // U+E000..U+FFFF (sorts after supplementary in UTF-16)
	func(r *rand.Rand) rune { return pick(r, []rune{0x2028, 0x2029, 0xfeff, 0xfffd, 0xffff, 0xfb33}) },
	func(r *rand.Rand) rune { return rune(0x10000 + r.Intn(0x100000)) }, // supplementary planes
	func(r *rand.Rand) rune { return pick(r, []rune{0x1f600, 0x10000, 0x10ffff, 0x1d11e}) },
}

// texts that look like an escape sequence but are six (or two) ordinary characters: whoever
// "un-escapes" a serialized value by text replacement rewrites them
var escapeLookalikes = []string{"\\u003c", "a\\u003eb", "\\u0026", "\\u003C", "\\n", "\\\\u003c", "x\\u0026amp;", "\\u2028", "\\\""}

func RandString(r *rand.Rand, maxLen int) string {
	if maxLen >= 6 && r.Intn(12) == 0 {
		return pick(r, escapeLookalikes)
	}
	n := r.Intn(maxLen + 1)
	var b strings.Builder
	ascii := r.Intn(3) == 0
	for i := 0; i < n; i++ {
		if ascii {
			b.WriteRune(runeClasses[0](r))
		} else {
			b.WriteRune(runeClasses[r.Intn(len(runeClasses))](r))
		}
	}
	return b.String()
}

// renderString writes s as a JSON string literal in a random escape style.
func renderString(r *rand.Rand, s string) string {
	var b strings.Builder
	b.WriteByte('"')
	style := r.Intn(4) // 0: minimal, 1: escape-happy, 2: mixed, 3: upper-case hex
	for _, c := range s {
		esc := style == 1 || (style >= 2 && r.Intn(3) == 0)
		switch {
		case c == '"' || c == '\\':
			if esc && r.Intn(2) == 0 {
				fmt.Fprintf(&b, "\\u%04x", c)
			} else {
				b.WriteByte('\\')
				b.WriteRune(c)
			}
		case c < 0x20:
			short := map[rune]string{8: "\\b", 12: "\\f", 10: "\\n", 13: "\\r", 9: "\\t"}
			if sh, ok := short[c]; ok && r.Intn(2) == 0 {
				b.WriteString(sh)
			} else if style == 3 {
				fmt.Fprintf(&b, "\\u%04X", c)
			} else {
				fmt.Fprintf(&b, "\\u%04x", c)
			}
		case c == '/' && esc:
			b.WriteString("\\/")
		case esc:
			f := "\\u%04x"
			if style == 3 {
				f = "\\u%04X"
			}
			if c >= 0x10000 {
				c2 := c - 0x10000
				fmt.Fprintf(&b, f+f, 0xd800+(c2>>10), 0xdc00+(c2&0x3ff))
			} else {
				fmt.Fprintf(&b, f, c)
			}
		default:
			b.WriteRune(c)
		}
	}
	b.WriteByte('"')
	return b.String()
}

// ---- numbers

// InterestingFloat draws a finite double from the classes the property names.
func InterestingFloat(r *rand.Rand) float64 {
	ulp := func(f float64, k int) float64 {
		b := math.Float64bits(f)
		return math.Float64frombits(uint64(int64(b) + int64(k)))
	}
	switch r.Intn(14) {
	case 0:
		return float64(r.Intn(2000) - 1000)
	case 1:
		return ulp(math.Pow(10, float64(r.Intn(617)-308)), r.Intn(5)-2)
	case 2:
		return ulp(math.Ldexp(1, r.Intn(2046)-1022), r.Intn(5)-2)
	case 3:
		return ulp(pick(r, []float64{1e21, 1e-6, 1e-7, 1e20, 1e22, 999999999999999900000, 0.000001}), r.Intn(7)-3)
	case 4:
		return math.Float64frombits(uint64(r.Int63n(1 << 52))) // subnormals
	case 5:
		return pick(r, []float64{math.MaxFloat64, math.SmallestNonzeroFloat64, 2.2250738585072014e-308, 2.225073858507201e-308, 9007199254740992, 9007199254740993, 4.5, 0.1, 0.2, 0.30000000000000004, 1e23, 5e-324, 1.7976931348623157e308})
	case 6:
		return float64(r.Int63n(1<<53)) * float64(1-2*r.Intn(2))
	case 7:
		f, _ := strconv.ParseFloat(fmt.Sprintf("%d.%d", r.Intn(100000), r.Intn(100000)), 64)
		return f
	case 8:
		return float64(r.Int63()) // large integers above 2^53
	case 9:
		return 0 * float64(1-2*r.Intn(2)) // ±0
	default:
		for {
			f := math.Float64frombits(r.Uint64())
			if !math.IsNaN(f) && !math.IsInf(f, 0) {
				return f
			}
		}
	}
}

// renderNumber spells f in a random JSON-conformant way that reads back as the same double.
func renderNumber(r *rand.Rand, f float64) string {
	if f == 0 {
		neg := math.Signbit(f)
		s := pick(r, []string{"0", "0.0", "0e0", "0E+5", "0.000", "0e-9"})
		if neg {
			return "-" + s
		}
		return s
	}
	var s string
	switch r.Intn(6) {
	case 0:
		s = strconv.FormatFloat(f, 'e', -1, 64)
	case 1:
		s = strconv.FormatFloat(f, 'g', 17, 64)
	case 2:
		if math.Abs(f) < 1e25 && math.Abs(f) > 1e-10 {
			s = strconv.FormatFloat(f, 'f', -1, 64)
		} else {
			s = strconv.FormatFloat(f, 'e', 20, 64)
		}
	case 3:
		s = strings.Replace(strconv.FormatFloat(f, 'e', -1, 64), "e", "E", 1)
	case 4:
		// shift the decimal point: d.ddde+X == ddddeY
		s = strconv.FormatFloat(f, 'e', -1, 64)
		mant, exp, _ := strings.Cut(s, "e")
		e, _ := strconv.Atoi(exp)
		neg := strings.HasPrefix(mant, "-")
		mant = strings.TrimPrefix(mant, "-")
		ip, fp, _ := strings.Cut(mant, ".")
		s = ip + fp + "e" + strconv.Itoa(e-len(fp))
		if neg {
			s = "-" + s
		}
	default:
		s = strconv.FormatFloat(f, 'g', -1, 64)
		if !strings.ContainsAny(s, ".e") && r.Intn(2) == 0 {
			s += "." + strings.Repeat("0", 1+r.Intn(3))
		}
	}
	// Go writes exponents as e+07; JSON allows it. Randomly drop the '+'.
	if r.Intn(2) == 0 {
		s = strings.Replace(s, "e+", "e", 1)
		s = strings.Replace(s, "E+", "E", 1)
	}
	return s
}

// ---- values

// orderSensitive are names whose relative order differs between UTF-16 code units,
// code points and UTF-8 bytes, or where one is a prefix of another.
var orderSensitive = []string{"\ufb33", "\U0001f600", "\ue000", "\U00010000", "a\uffff", "a\U0010ffff", "\uffff", "\ud7ff",
	"n", "nonce", "no", "a", "ab", "abc", "", "A", "\u00e9", "e\u0301", "\u20ac", "1", "10", "2", "\r", " "}

func RandName(r *rand.Rand) string {
	switch r.Intn(6) {
	case 5:
		return pick(r, orderSensitive)
	case 0:
		return ident(r, 1+r.Intn(6))
	case 1:
		return ""
	default:
		return RandString(r, 5)
	}
}

// RandValue generates a value of bounded depth; top is forced to a container by the caller.
func RandValue(r *rand.Rand, depth int) *JV {
	k := r.Intn(8)
	if depth <= 0 && k >= 5 {
		k = r.Intn(5)
	}
	switch k {
	case 0:
		return &JV{Kind: 'n'}
	case 1:
		return &JV{Kind: 'b', B: r.Intn(2) == 0}
	case 2, 3:
		if r.Intn(8) == 0 {
			// an integer literal with all its digits, beyond 2^53: not a double, must come out in the ES6 form
			v := r.Int63()>>uint(r.Intn(10)) | 1<<53
			if r.Intn(2) == 0 {
				v = -v
			}
			return &JV{Kind: 'f', F: float64(v), Lit: strconv.FormatInt(v, 10)}
		}
		return &JV{Kind: 'f', F: InterestingFloat(r)}
	case 4:
		return &JV{Kind: 's', S: RandString(r, 12)}
	case 5, 6:
		n := r.Intn(5)
		v := &JV{Kind: 'a'}
		for i := 0; i < n; i++ {
			v.A = append(v.A, RandValue(r, depth-1))
		}
		return v
	default:
		n := r.Intn(6)
		v := &JV{Kind: 'o'}
		seen := map[string]bool{}
		for i := 0; i < n; i++ {
			name := RandName(r)
			if i > 0 && r.Intn(3) == 0 {
				// a sibling that shares a prefix with an earlier name
				name = v.K[r.Intn(len(v.K))] + RandString(r, 2)
			}
			if seen[name] {
				continue
			}
			seen[name] = true
			v.K = append(v.K, name)
			v.V = append(v.V, RandValue(r, depth-1))
		}
		return v
	}
}

func RandContainer(r *rand.Rand, depth int) *JV {
	for {
		v := RandValue(r, depth)
		if v.Kind == 'a' || v.Kind == 'o' {
			return v
		}
	}
}

func ws(r *rand.Rand, loose bool) string {
	if !loose {
		return ""
	}
	n := r.Intn(3)
	var b strings.Builder
	for i := 0; i < n; i++ {
		b.WriteByte(" \t\n\r"[r.Intn(4)])
	}
	return b.String()
}

// Render spells v; loose=false gives compact output with the original member order.
func (v *JV) Render(r *rand.Rand, loose bool) string {
	var b strings.Builder
	v.render(r, loose, &b)
	return ws(r, loose) + b.String() + ws(r, loose)
}

func (v *JV) render(r *rand.Rand, loose bool, b *strings.Builder) {
	switch v.Kind {
	case 'n':
		b.WriteString("null")
	case 'b':
		b.WriteString(strconv.FormatBool(v.B))
	case 'f':
		if v.Lit != "" {
			b.WriteString(v.Lit)
		} else if loose {
			b.WriteString(renderNumber(r, v.F))
		} else {
			b.WriteString(strconv.FormatFloat(v.F, 'e', -1, 64))
		}
	case 's':
		if loose {
			b.WriteString(renderString(r, v.S))
		} else {
			b.WriteString(renderStringMinimal(v.S))
		}
	case 'a':
		b.WriteByte('[')
		for i, e := range v.A {
			if i > 0 {
				b.WriteByte(',')
			}
			b.WriteString(ws(r, loose))
			e.render(r, loose, b)
			b.WriteString(ws(r, loose))
		}
		if len(v.A) == 0 {
			b.WriteString(ws(r, loose))
		}
		b.WriteByte(']')
	case 'o':
		idx := make([]int, len(v.K))
		for i := range idx {
			idx[i] = i
		}
		if loose {
			r.Shuffle(len(idx), func(i, j int) { idx[i], idx[j] = idx[j], idx[i] })
		}
		b.WriteByte('{')
		for n, i := range idx {
			if n > 0 {
				b.WriteByte(',')
			}
			b.WriteString(ws(r, loose))
			if loose {
				b.WriteString(renderString(r, v.K[i]))
			} else {
				b.WriteString(renderStringMinimal(v.K[i]))
			}
			b.WriteString(ws(r, loose))
			b.WriteByte(':')
			b.WriteString(ws(r, loose))
			v.V[i].render(r, loose, b)
			b.WriteString(ws(r, loose))
		}
		if len(idx) == 0 {
			b.WriteString(ws(r, loose))
		}
		b.WriteByte('}')
	}
}

func renderStringMinimal(s string) string {
	var b strings.Builder
	b.WriteByte('"')
	for _, c := range s {
		switch {
		case c == '"' || c == '\\':
			b.WriteByte('\\')
			b.WriteRune(c)
		case c < 0x20:
			fmt.Fprintf(&b, "\\u%04x", c)
		default:
			b.WriteRune(c)
		}
	}
	b.WriteByte('"')
	return b.String()
}

// SimpleValue: values whose JCS the harness can compute itself with encoding/json
// (names and strings: printable ASCII without HTML-sensitive characters plus a few BMP
// letters; numbers: integers below 2^53). Returned as Go values.
func SimpleValue(r *rand.Rand, depth int) interface{} {
	k := r.Intn(7)
	if depth <= 0 && k >= 5 {
		k = r.Intn(5)
	}
	switch k {
	case 0:
		return nil
	case 1:
		return r.Intn(2) == 0
	case 2, 3:
		return r.Int63n(1<<40) - (1 << 20)
	case 4:
		return simpleString(r, 10)
	case 5:
		n := r.Intn(4)
		out := make([]interface{}, 0, n)
		for i := 0; i < n; i++ {
			out = append(out, SimpleValue(r, depth-1))
		}
		return out
	default:
		n := r.Intn(5)
		out := map[string]interface{}{}
		for i := 0; i < n; i++ {
			out[simpleString(r, 6)] = SimpleValue(r, depth-1)
		}
		return out
	}
}

func simpleString(r *rand.Rand, max int) string {
	if r.Intn(4) == 0 {
		return RandString(r, max)
	}
	const al = "abcdefghijklmnopqrstuvwxyzABCDEFGHIJKLMNOPQRSTUVWXYZ0123456789 _-.:/#@!~éλж中"
	rs := []rune(al)
	n := r.Intn(max + 1)
	var b strings.Builder
	for i := 0; i < n; i++ {
		b.WriteRune(rs[r.Intn(len(rs))])
	}
	return b.String()
}

// ToJV converts a simple Go value into a JV (member order = map iteration order; Render
// shuffles anyway when loose).
func ToJV(v interface{}) *JV {
	switch t := v.(type) {
	case nil:
		return &JV{Kind: 'n'}
	case bool:
		return &JV{Kind: 'b', B: t}
	case int64:
		return &JV{Kind: 'f', F: float64(t)}
	case int:
		return &JV{Kind: 'f', F: float64(t)}
	case float64:
		return &JV{Kind: 'f', F: t}
	case string:
		return &JV{Kind: 's', S: t}
	case []interface{}:
		out := &JV{Kind: 'a'}
		for _, e := range t {
			out.A = append(out.A, ToJV(e))
		}
		return out
	case map[string]interface{}:
		out := &JV{Kind: 'o'}
		for k, e := range t {
			out.K = append(out.K, k)
			out.V = append(out.V, ToJV(e))
		}
		return out
	}
	panic(fmt.Sprintf("ToJV: %T", v))
}

func bitsHex(f float64) string {
	var b [8]byte
	binary.BigEndian.PutUint64(b[:], math.Float64bits(f))
	return fmt.Sprintf("%x", b[:])
}

var _ = utf8.RuneError
