package gen

import (
	"math/rand"
	"sort"
	"strings"

	"verif/harness/internal/opb"
)

// opMut is one labelled way of breaking (or boundary-testing) an operation.
type opMut struct {
	label string
	types string // which operation types it applies to: letters c,u,r,d
	f     func(r *rand.Rand, b *built, cfg M)
}

func setCfgList(cfg M, key string, drop string) {
	var out []string
	for _, x := range cfg[key].([]string) {
		if x != drop {
			out = append(out, x)
		}
	}
	cfg[key] = out
}

func flipBit(r *rand.Rand, seg string) string {
	raw, err := opb.B64.DecodeString(seg)
	if err != nil || len(raw) == 0 {
		return seg + "A"
	}
	raw[r.Intn(len(raw))] ^= 1 << uint(r.Intn(8))
	return opb.B64E(raw)
}

func segs(r *rand.Rand, b *built) []string { return strings.Split(b.sign(r), ".") }

func deltaM(b *built) M { d, _ := b.Delta.(M); return d }

var opMuts = []opMut{
	// --- signature / framing (C02, C15 overlap)
	{"sig/bitflip", "urd", func(r *rand.Rand, b *built, cfg M) {
		s := segs(r, b)
		s[2] = flipBit(r, s[2])
		b.Compact = strings.Join(s, ".")
	}},
	{"sig/truncated", "urd", func(r *rand.Rand, b *built, cfg M) {
		s := segs(r, b)
		raw, _ := opb.B64.DecodeString(s[2])
		s[2] = opb.B64E(raw[:len(raw)-1-r.Intn(2)])
		b.Compact = strings.Join(s, ".")
	}},
	{"sig/padded", "urd", func(r *rand.Rand, b *built, cfg M) {
		s := segs(r, b)
		raw, _ := opb.B64.DecodeString(s[2])
		if r.Intn(2) == 0 {
			raw = append([]byte{0}, raw...)
		} else {
			raw = append(raw, byte(r.Intn(256)))
		}
		s[2] = opb.B64E(raw)
		b.Compact = strings.Join(s, ".")
	}},
	{"sig/halves-zero-padded", "urd", func(r *rand.Rand, b *built, cfg M) {
		s := segs(r, b)
		raw, _ := opb.B64.DecodeString(s[2])
		if b.Key.Type == opb.Ed25519 {
			raw = append(raw, 0)
		} else if r.Intn(2) == 0 {
			raw = zeroPadHalves(raw, 1+r.Intn(3))
		} else {
			raw = zerosBetweenHalves(raw, pick(r, []int{1, 2, len(raw) / 2}))
		}
		s[2] = opb.B64E(raw)
		b.Compact = strings.Join(s, ".")
	}},
	{"sig/empty", "urd", func(r *rand.Rand, b *built, cfg M) { s := segs(r, b); s[2] = ""; b.Compact = strings.Join(s, ".") }},
	{"segments/two", "urd", func(r *rand.Rand, b *built, cfg M) { s := segs(r, b); b.Compact = s[0] + "." + s[1] }},
	{"segments/four", "urd", func(r *rand.Rand, b *built, cfg M) { b.Compact = b.sign(r) + "." + "AAAA" }},
	{"segments/json-serialization", "urd", func(r *rand.Rand, b *built, cfg M) { b.Compact = `{"payload":"x","signatures":[]}` }},
	{"b64/bad-char", "urd", func(r *rand.Rand, b *built, cfg M) {
		s := segs(r, b)
		i := r.Intn(3)
		k := r.Intn(len(s[i]) + 1)
		s[i] = s[i][:k] + pick(r, []string{"+", "/", "=", " ", "*"}) + s[i][k:]
		b.Compact = strings.Join(s, ".")
	}},
	{"b64/newline-inside", "urd", func(r *rand.Rand, b *built, cfg M) {
		s := segs(r, b)
		i := r.Intn(3)
		k := r.Intn(len(s[i]) + 1)
		s[i] = s[i][:k] + "\n" + s[i][k:]
		b.Compact = strings.Join(s, ".")
	}},
	{"payload/field-reencoded-not-resigned", "urd", func(r *rand.Rand, b *built, cfg M) {
		s := segs(r, b)
		switch b.Typ {
		case "update", "recover":
			b.Signed["anchorFrom"] = int64(1 + r.Intn(5))
		default:
			b.Signed["anchorUntil"] = int64(100000 + r.Intn(5))
		}
		s[1] = opb.B64E(opb.Canon(b.Signed))
		b.Compact = strings.Join(s, ".")
	}},
	{"payload/whitespace-not-resigned", "urd", func(r *rand.Rand, b *built, cfg M) {
		s := segs(r, b)
		s[1] = opb.B64E(append([]byte(" "), opb.Canon(b.Signed)...))
		b.Compact = strings.Join(s, ".")
	}},
	{"payload/not-json", "urd", func(r *rand.Rand, b *built, cfg M) {
		hb := opb.HeaderBytes(b.Headers)
		pl := []byte(pick(r, []string{"not json", "[]", "1", "{", `"x"`}))
		b.Compact = opb.B64E(hb) + "." + opb.B64E(pl) + "." + opb.B64E(b.Key.SignRaw(r, opb.SigningInput(hb, pl)))
	}},
	{"key/substituted-resigned", "urd", func(r *rand.Rand, b *built, cfg M) {
		other := opb.NewKey(r, randKT(r))
		name := map[string]string{"update": "updateKey", "recover": "recoveryKey", "deactivate": "recoveryKey"}[b.Typ]
		b.Signed[name] = other.JWK()
		b.Key = other
		b.Headers = opb.DefaultHeaders(other)
	}},
	{"signed/reveal-value-of-another-key", "d", func(r *rand.Rand, b *built, cfg M) {
		// accepted: the member is optional and not part of any check; what is reported is the request's reveal value
		b.Signed["revealValue"] = opb.NewKey(r, opb.P256).Reveal(b.Code)
	}},
	{"key/substituted-resigned-with-its-reveal", "urd", func(r *rand.Rand, b *built, cfg M) {
		// a complete, self-consistent operation by somebody else's key (the applier has no commitment check)
		other := opb.NewKey(r, randKT(r))
		name := map[string]string{"update": "updateKey", "recover": "recoveryKey", "deactivate": "recoveryKey"}[b.Typ]
		b.Signed[name] = other.JWK()
		if b.Typ == "deactivate" {
			b.Signed["revealValue"] = other.Reveal(b.Code)
		}
		b.Key = other
		b.Headers = opb.DefaultHeaders(other)
		b.Reveal = other.Reveal(b.Code)
	}},
	{"key/substituted-not-resigned", "urd", func(r *rand.Rand, b *built, cfg M) {
		s := segs(r, b)
		other := opb.NewKey(r, b.Key.Type)
		name := map[string]string{"update": "updateKey", "recover": "recoveryKey", "deactivate": "recoveryKey"}[b.Typ]
		b.Signed[name] = other.JWK()
		b.Reveal = other.Reveal(b.Code)
		s[1] = opb.B64E(opb.Canon(b.Signed))
		b.Compact = strings.Join(s, ".")
	}},
	{"reveal/other-key", "urd", func(r *rand.Rand, b *built, cfg M) { b.Reveal = opb.NewKey(r, opb.P256).Reveal(b.Code) }},
	{"reveal/malformed", "urd", func(r *rand.Rand, b *built, cfg M) {
		b.Reveal = pick(r, []string{"", "abc", "!!", opb.B64E([]byte{18, 32, 1})})
	}},
	{"reveal/other-algorithm", "urd", func(r *rand.Rand, b *built, cfg M) { b.Reveal = b.Key.Reveal(37 - b.Code) }},
	{"delta/substituted-after-signing", "ur", func(r *rand.Rand, b *built, cfg M) {
		b.Compact = b.sign(r)
		b.Delta = opb.Delta(opb.NewKey(r, opb.P256).Commitment(b.Code), docPatches(r))
	}},
	{"delta/extra-member-ignored", "cur", func(r *rand.Rand, b *built, cfg M) {
		b.Compact = func() string {
			if b.Typ == "create" {
				return ""
			}
			return b.sign(r)
		}()
		d := M{}
		for k, v := range deltaM(b) {
			d[k] = v
		}
		d["unknownMember"] = "dropped by the decoder"
		b.Delta = d
	}},
	{"headers/extra", "urd", func(r *rand.Rand, b *built, cfg M) {
		b.Headers[pick(r, []string{"typ", "b64", "crit", "jwk", "x"})] = pick(r, []interface{}{"JWT", true, "v"})
	}},
	{"headers/kid-ok", "urd", func(r *rand.Rand, b *built, cfg M) { b.Headers["kid"] = "key-1" }},
	{"headers/alg-none", "urd", func(r *rand.Rand, b *built, cfg M) { b.Headers["alg"] = "none" }},
	{"headers/alg-empty", "urd", func(r *rand.Rand, b *built, cfg M) { b.Headers["alg"] = "" }},
	{"headers/alg-missing", "urd", func(r *rand.Rand, b *built, cfg M) {
		b.Compact = func() string { s := segs(r, b); s[0] = opb.B64E([]byte(`{"kid":"k"}`)); return strings.Join(s, ".") }()
	}},
	{"headers/alg-not-string", "urd", func(r *rand.Rand, b *built, cfg M) { b.Headers["alg"] = pick(r, []interface{}{true, nil}) }},
	{"headers/alg-not-allowed", "urd", func(r *rand.Rand, b *built, cfg M) { setCfgList(cfg, "signatureAlgorithms", b.Headers["alg"].(string)) }},
	{"headers/alg-of-other-key-type-allowed", "urd", func(r *rand.Rand, b *built, cfg M) {
		b.Headers["alg"] = opb.KeyType((int(b.Key.Type) + 1) % int(opb.NumKeyTypes)).Alg()
	}},
	{"headers/not-object", "urd", func(r *rand.Rand, b *built, cfg M) {
		s := segs(r, b)
		s[0] = opb.B64E([]byte(pick(r, []string{"null", "[]", `"alg"`, "{"})))
		b.Compact = strings.Join(s, ".")
	}},
	{"headers/respelled-signed-over-segment", "urd", func(r *rand.Rand, b *built, cfg M) {
		// sign over a differently spelled header segment: verification re-marshals the headers
		hb := []byte(`{ "alg" : "` + b.Key.Type.Alg() + `" }`)
		pl := opb.Canon(b.Signed)
		b.Compact = opb.B64E(hb) + "." + opb.B64E(pl) + "." + opb.B64E(b.Key.SignRaw(r, opb.SigningInput(hb, pl)))
	}},
	{"key/curve-not-allowed", "urd", func(r *rand.Rand, b *built, cfg M) { setCfgList(cfg, "keyAlgorithms", b.Key.Type.String()) }},
	{"key/nonce-wrong-size", "urd", func(r *rand.Rand, b *built, cfg M) {
		name := map[string]string{"update": "updateKey", "recover": "recoveryKey", "deactivate": "recoveryKey"}[b.Typ]
		k := *b.Key
		k.Nonce = opb.B64E(opb.RandBytes(r, pick(r, []int{15, 17, 1, 32})))
		b.Signed[name] = k.JWK()
		b.Reveal = k.Reveal(b.Code)
		if b.Typ == "deactivate" {
			b.Signed["revealValue"] = b.Reveal
		}
	}},
	{"key/nonce-configured-size-ok", "urd", func(r *rand.Rand, b *built, cfg M) {
		name := map[string]string{"update": "updateKey", "recover": "recoveryKey", "deactivate": "recoveryKey"}[b.Typ]
		n := pick(r, []int{8, 16, 24})
		cfg["nonceSize"] = n
		k := *b.Key
		k.Nonce = opb.B64E(opb.RandBytes(r, n))
		b.Signed[name] = k.JWK()
		b.Reveal = k.Reveal(b.Code)
		if b.Typ == "deactivate" {
			b.Signed["revealValue"] = b.Reveal
		}
	}},
	{"key/nonce-but-configured-size-0", "urd", func(r *rand.Rand, b *built, cfg M) {
		// a protocol whose nonce size is 0 admits no nonce at all
		name := map[string]string{"update": "updateKey", "recover": "recoveryKey", "deactivate": "recoveryKey"}[b.Typ]
		cfg["nonceSize"] = 0
		k := *b.Key
		k.Nonce = opb.B64E(opb.RandBytes(r, pick(r, []int{16, 1, 8})))
		b.Signed[name] = k.JWK()
		b.Reveal = k.Reveal(b.Code)
		if b.Typ == "deactivate" {
			b.Signed["revealValue"] = b.Reveal
		}
	}},
	{"key/nonce-bad-base64", "urd", func(r *rand.Rand, b *built, cfg M) {
		name := map[string]string{"update": "updateKey", "recover": "recoveryKey", "deactivate": "recoveryKey"}[b.Typ]
		k := *b.Key
		k.Nonce = "not*base64"
		b.Signed[name] = k.JWK()
		b.Reveal = k.Reveal(b.Code)
	}},
	{"key/missing", "urd", func(r *rand.Rand, b *built, cfg M) {
		name := map[string]string{"update": "updateKey", "recover": "recoveryKey", "deactivate": "recoveryKey"}[b.Typ]
		if r.Intn(2) == 0 {
			delete(b.Signed, name)
		} else {
			b.Signed[name] = nil
		}
	}},
	{"key/member-missing", "urd", func(r *rand.Rand, b *built, cfg M) {
		name := map[string]string{"update": "updateKey", "recover": "recoveryKey", "deactivate": "recoveryKey"}[b.Typ]
		j := b.Key.JWK()
		delete(j, pick(r, []string{"kty", "crv", "x"}))
		b.Signed[name] = j
	}},
	{"key/off-curve", "ur", func(r *rand.Rand, b *built, cfg M) {
		if b.Key.Type == opb.Ed25519 {
			return
		}
		name := map[string]string{"update": "updateKey", "recover": "recoveryKey"}[b.Typ]
		j := b.Key.JWK()
		j["y"] = flipBit(r, j["y"].(string))
		b.Signed[name] = j
		b.Reveal = opb.ModelMH(b.Code, j)
	}},
	{"headers/alg-in-other-case", "urd", func(r *rand.Rand, b *built, cfg M) {
		a := b.Headers["alg"].(string)
		b.Headers["alg"] = pick(r, []string{strings.ToLower(a), strings.ToUpper(a), strings.ToLower(a[:1]) + a[1:]})
	}},
	{"key/crv-in-other-case", "urd", func(r *rand.Rand, b *built, cfg M) {
		name := map[string]string{"update": "updateKey", "recover": "recoveryKey", "deactivate": "recoveryKey"}[b.Typ]
		j := b.Key.JWK()
		c := j["crv"].(string)
		j["crv"] = pick(r, []string{strings.ToLower(c), strings.ToUpper(c)})
		b.Signed[name] = j
		b.Reveal = opb.ModelMH(b.Code, j)
	}},
	{"window/from-not-integer", "urd", func(r *rand.Rand, b *built, cfg M) {
		b.Signed["anchorFrom"] = pick(r, []interface{}{"5", true, []interface{}{}})
	}},
	{"request/suffix-empty", "urd", func(r *rand.Rand, b *built, cfg M) { b.Suffix = "" }},
	{"request/signed-data-empty", "urd", func(r *rand.Rand, b *built, cfg M) { b.Extra = M{"signedData": ""} }},
	{"request/signed-data-not-string", "urd", func(r *rand.Rand, b *built, cfg M) { b.Extra = M{"signedData": 7} }},
	{"request/type-unknown", "curd", func(r *rand.Rand, b *built, cfg M) { b.Extra = M{"type": pick(r, []interface{}{"foo", "", "Create"})} }},
	{"request/type-missing", "curd", func(r *rand.Rand, b *built, cfg M) { b.NoType = true }},
	{"request/type-not-string", "curd", func(r *rand.Rand, b *built, cfg M) {
		b.Extra = M{"type": pick(r, []interface{}{1, true, []interface{}{}})}
	}},
	{"request/type-of-other-operation", "urd", func(r *rand.Rand, b *built, cfg M) {
		b.Extra = M{"type": pick(r, []string{"update", "recover", "deactivate", "create"})}
	}},
	{"request/truncated", "curd", func(r *rand.Rand, b *built, cfg M) { x := b.bytes(r); b.Raw = x[:r.Intn(len(x))] }},
	{"request/not-object", "curd", func(r *rand.Rand, b *built, cfg M) {
		b.Raw = []byte(pick(r, []string{"[]", "null", "1", `"create"`, ""}))
	}},
	{"size/at-limit-ok", "curd", func(r *rand.Rand, b *built, cfg M) { cfg["maxOperationSize"] = len(b.bytes(r)); b.Raw = b.bytes(r) }},
	{"size/over-limit", "curd", func(r *rand.Rand, b *built, cfg M) { x := b.bytes(r); b.Raw = x; cfg["maxOperationSize"] = len(x) - 1 }},
	{"hash/length-at-limit-ok", "urd", func(r *rand.Rand, b *built, cfg M) { cfg["maxOperationHashLength"] = len(b.Reveal) }},
	{"hash/length-over-limit", "urd", func(r *rand.Rand, b *built, cfg M) { cfg["maxOperationHashLength"] = len(b.Reveal) - 1 }},
	{"hash/algorithm-not-configured", "curd", func(r *rand.Rand, b *built, cfg M) { cfg["multihashAlgorithms"] = []int{int(37 - b.Code)} }},
	{"hash/two-algorithms-configured-ok", "curd", func(r *rand.Rand, b *built, cfg M) {
		cfg["multihashAlgorithms"] = pick(r, [][]int{{18, 19}, {19, 18}})
		cfg["maxOperationHashLength"] = 150
	}},
	// --- delta
	{"delta/missing", "cur", func(r *rand.Rand, b *built, cfg M) {
		if b.Typ != "create" {
			b.Compact = b.sign(r)
		}
		b.Delta = nil
	}},
	{"delta/null", "cur", func(r *rand.Rand, b *built, cfg M) {
		if b.Typ != "create" {
			b.Compact = b.sign(r)
		}
		b.Delta = nil
		b.Extra = M{"delta": nil}
	}},
	{"delta/not-object", "cur", func(r *rand.Rand, b *built, cfg M) {
		if b.Typ != "create" {
			b.Compact = b.sign(r)
		}
		b.Delta = pick(r, []interface{}{"x", 1, []interface{}{}})
	}},
	{"delta/patches-empty", "cur", func(r *rand.Rand, b *built, cfg M) { deltaM(b)["patches"] = []interface{}{}; rebind(b) }},
	{"delta/patch-disabled", "cur", func(r *rand.Rand, b *built, cfg M) {
		p := deltaM(b)["patches"].([]interface{})[0].(map[string]interface{})
		setCfgList(cfg, "patches", p["action"].(string))
	}},
	{"delta/patch-invalid", "cur", func(r *rand.Rand, b *built, cfg M) {
		deltaM(b)["patches"] = []interface{}{M{"action": "remove-public-keys", "ids": []interface{}{ident(r, 51)}}}
		rebind(b)
	}},
	{"delta/patch-unknown-action", "cur", func(r *rand.Rand, b *built, cfg M) {
		deltaM(b)["patches"] = []interface{}{M{"action": "frobnicate", "x": 1}}
		rebind(b)
	}},
	{"delta/patch-not-applicable", "cur", func(r *rand.Rand, b *built, cfg M) {
		deltaM(b)["patches"] = []interface{}{M{"action": "ietf-json-patch", "patches": []interface{}{M{"op": "remove", "path": "/doesNotExist"}}}}
		rebind(b)
	}},
	{"delta/update-commitment-malformed", "cur", func(r *rand.Rand, b *built, cfg M) {
		deltaM(b)["updateCommitment"] = pick(r, []string{"", "abc", opb.B64E(opb.MHRaw(0x11, opb.RandBytes(r, 20)))})
		rebind(b)
	}},
	{"delta/size-at-limit-ok", "cur", func(r *rand.Rand, b *built, cfg M) { cfg["maxDeltaSize"] = len(opb.Canon(b.Delta)) }},
	{"delta/size-over-limit", "cur", func(r *rand.Rand, b *built, cfg M) { cfg["maxDeltaSize"] = len(opb.Canon(b.Delta)) - 1 }},
	{"delta/size-over-limit-in-bytes-not-in-characters", "cur", func(r *rand.Rand, b *built, cfg M) {
		// a delta with two- and three-byte characters: over the limit in bytes, under it in characters
		ps, _ := deltaM(b)["patches"].([]interface{})
		deltaM(b)["patches"] = append(append([]interface{}{}, ps...), M{"action": "add-also-known-as", "uris": []interface{}{"https://aka.example/" + strings.Repeat("é中", 3+r.Intn(5))}})
		rebind(b)
		cfg["maxDeltaSize"] = len(opb.Canon(b.Delta)) - 1 - r.Intn(3)
	}},
	{"delta/hash-mismatch", "cur", func(r *rand.Rand, b *built, cfg M) {
		other := opb.ModelMH(b.Code, M{"x": ident(r, 4)})
		if b.Typ == "create" {
			b.SD["deltaHash"] = other
		} else {
			b.Signed["deltaHash"] = other
		}
	}},
	{"delta/hash-lenient-base64-sibling", "cur", func(r *rand.Rand, b *built, cfg M) {
		// a different string that Go's lenient decoder maps to the same bytes
		const al = "ABCDEFGHIJKLMNOPQRSTUVWXYZabcdefghijklmnopqrstuvwxyz0123456789-_"
		sib := func(h string) string {
			if r.Intn(2) == 0 {
				k := r.Intn(len(h))
				return h[:k] + "\n" + h[k:]
			}
			last := strings.IndexByte(al, h[len(h)-1])
			return h[:len(h)-1] + string(al[last^(1+r.Intn(3))])
		}
		if b.Typ == "create" {
			b.SD["deltaHash"] = sib(b.SD["deltaHash"].(string))
		} else {
			b.Signed["deltaHash"] = sib(b.Signed["deltaHash"].(string))
		}
	}},
	{"delta/hash-malformed", "cur", func(r *rand.Rand, b *built, cfg M) {
		if b.Typ == "create" {
			b.SD["deltaHash"] = "xyz"
		} else {
			b.Signed["deltaHash"] = "xyz"
		}
	}},
	// --- commitment rules
	{"commitment/update-equals-recovery", "cr", func(r *rand.Rand, b *built, cfg M) {
		if b.Typ == "create" {
			deltaM(b)["updateCommitment"] = b.SD["recoveryCommitment"]
			b.SD["deltaHash"] = opb.ModelMH(b.Code, b.Delta)
		} else {
			deltaM(b)["updateCommitment"] = b.Signed["recoveryCommitment"]
			b.Signed["deltaHash"] = opb.ModelMH(b.Code, b.Delta)
		}
	}},
	{"commitment/next-update-is-current-key", "ur", func(r *rand.Rand, b *built, cfg M) {
		deltaM(b)["updateCommitment"] = b.Key.Commitment(b.Code)
		b.Signed["deltaHash"] = opb.ModelMH(b.Code, b.Delta)
	}},
	{"commitment/next-recovery-is-current-key", "r", func(r *rand.Rand, b *built, cfg M) { b.Signed["recoveryCommitment"] = b.Key.Commitment(b.Code) }},
	{"commitment/next-recovery-is-current-key-other-algorithm", "r", func(r *rand.Rand, b *built, cfg M) {
		cfg["multihashAlgorithms"] = []int{18, 19}
		cfg["maxOperationHashLength"] = 150
		b.Signed["recoveryCommitment"] = b.Key.Commitment(37 - b.Code)
	}},
	{"commitment/next-update-is-current-key-other-algorithm", "ur", func(r *rand.Rand, b *built, cfg M) {
		cfg["multihashAlgorithms"] = []int{18, 19}
		cfg["maxOperationHashLength"] = 150
		deltaM(b)["updateCommitment"] = b.Key.Commitment(37 - b.Code)
		b.Signed["deltaHash"] = opb.ModelMH(b.Code, b.Delta)
	}},
	{"commitment/next-recovery-malformed", "r", func(r *rand.Rand, b *built, cfg M) { b.Signed["recoveryCommitment"] = pick(r, []string{"", "abc"}) }},
	{"deactivate/signed-suffix-mismatch", "d", func(r *rand.Rand, b *built, cfg M) { b.Signed["didSuffix"] = b.Suffix + "x" }},
	// --- member names in a spelling encoding/json still matches to the struct field (all accepted by Go)
	{"names/request-member-other-spelling", "curd", func(r *rand.Rand, b *built, cfg M) {
		names := []string{"type", "didSuffix", "revealValue", "signedData", "delta"}
		if b.Typ == "create" {
			names = []string{"type", "suffixData", "delta"}
		}
		n := pick(r, names)
		b.Respell = map[string]string{n: otherSpelling(r, n)}
	}},
	{"names/delta-or-suffix-data-member-other-spelling", "cur", func(r *rand.Rand, b *built, cfg M) {
		names := []string{"updateCommitment", "patches"}
		if b.Typ == "create" {
			names = append(names, "deltaHash", "recoveryCommitment")
		}
		n := pick(r, names)
		b.Respell = map[string]string{n: otherSpelling(r, n)}
	}},
	{"names/signed-data-member-other-spelling", "urd", func(r *rand.Rand, b *built, cfg M) {
		var names []string
		for k := range b.Signed {
			names = append(names, k)
		}
		sort.Strings(names)
		n := pick(r, names)
		b.SignedRespell = map[string]string{n: otherSpelling(r, n)}
	}},
	{"names/signing-key-member-other-spelling", "urd", func(r *rand.Rand, b *built, cfg M) {
		n := pick(r, []string{"kty", "crv", "x"})
		b.SignedRespell = map[string]string{n: otherSpelling(r, n)}
	}},
	{"names/unknown-look-alike-member", "curd", func(r *rand.Rand, b *built, cfg M) {
		// does not fold to a field: dropped like any unknown member
		b.Extra = M{pick(r, []string{"typ", "type ", "delta_", "signed-data", "d\u00e9lta"}): "x"}
	}},
	// --- another text for the same hash bytes (unused bits of the last character set, or a line break inside)
	{"hash/commitment-in-other-spelling", "cur", func(r *rand.Rand, b *built, cfg M) {
		d := deltaM(b)
		if d == nil {
			return
		}
		uc, _ := d["updateCommitment"].(string)
		d["updateCommitment"] = respellB64(r, uc)
		rebind(b)
	}},
	{"hash/recovery-commitment-equal-bytes-other-spelling", "c", func(r *rand.Rand, b *built, cfg M) {
		// recovery commitment = the update commitment's bytes under another text: "differ" must not be fooled
		d := deltaM(b)
		if d == nil || b.SD == nil {
			return
		}
		uc, _ := d["updateCommitment"].(string)
		b.SD["recoveryCommitment"] = respellB64(r, uc)
	}},
	{"hash/reveal-in-other-spelling", "urd", func(r *rand.Rand, b *built, cfg M) { b.Reveal = respellB64(r, b.Reveal) }},
	// --- create
	{"create/suffix-data-missing", "c", func(r *rand.Rand, b *built, cfg M) { b.SD = nil }},
	{"create/recovery-commitment-malformed", "c", func(r *rand.Rand, b *built, cfg M) { b.SD["recoveryCommitment"] = pick(r, []string{"", "abc"}) }},
	{"create/suffix-data-not-object", "c", func(r *rand.Rand, b *built, cfg M) {
		b.Extra = M{"suffixData": pick(r, []interface{}{"x", 1, []interface{}{}})}
	}},
	{"create/anchor-origin", "c", func(r *rand.Rand, b *built, cfg M) {
		b.SD["anchorOrigin"] = pick(r, []interface{}{"o", M{"a": 1}, 0, false, ""})
	}},
	{"create/type-in-suffix-data", "c", func(r *rand.Rand, b *built, cfg M) { b.SD["type"] = ident(r, 3) }},
}

// rebind recomputes the delta hash in suffix data / signed data after the delta was edited.
func rebind(b *built) {
	if b.Typ == "create" {
		if b.SD != nil {
			b.SD["deltaHash"] = opb.ModelMH(b.Code, b.Delta)
		}
	} else if b.Signed != nil && b.Typ != "deactivate" {
		b.Signed["deltaHash"] = opb.ModelMH(b.Code, b.Delta)
	}
}

func mutsFor(typ string) []opMut {
	letter := typ[:1]
	var out []opMut
	for _, m := range opMuts {
		if strings.Contains(m.types, letter) {
			out = append(out, m)
		}
	}
	return out
}

// respellB64 gives another text that Go's plain base64url decoder reads as the same bytes.
func respellB64(r *rand.Rand, s string) string {
	if s == "" {
		return s
	}
	const al = "ABCDEFGHIJKLMNOPQRSTUVWXYZabcdefghijklmnopqrstuvwxyz0123456789-_"
	unused := map[int]int{2: 4, 3: 2}[len(s)%4]
	if unused > 0 && r.Intn(2) == 0 {
		last := strings.IndexByte(al, s[len(s)-1])
		return s[:len(s)-1] + string(al[last|(1+r.Intn(1<<unused-1))])
	}
	k := 1 + r.Intn(len(s)-1)
	return s[:k] + pick(r, []string{"\n", "\r\n"}) + s[k:]
}
