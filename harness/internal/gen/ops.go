package gen

import (
	"encoding/json"
	"math/rand"
	"strings"

	"verif/harness/internal/opb"
	"verif/harness/internal/proto"
)

// built is an operation under construction; mutations edit its parts before finalize.
type built struct {
	Typ     string
	Code    uint64
	Suffix  string
	Key     *opb.Key
	Headers M
	Signed  M // signed data model (nil for create)
	Delta   interface{}
	SD      M // suffix data (create)
	Reveal  string
	Compact string // when set, used instead of signing Signed
	Extra   M      // extra top-level request members
	NoType  bool
	Raw     []byte // when set, the request bytes as is
	Resign  bool   // re-sign after payload mutations (default true)
	// member names written in another spelling that encoding/json still matches to the struct field
	Respell       map[string]string // request, delta and suffix data members
	SignedRespell map[string]string // signed data members and the members of the key inside it
}

// respelled returns a copy of m with members renamed as the table says.
func respelled(m M, tab map[string]string) M {
	if m == nil || len(tab) == 0 {
		return m
	}
	out := M{}
	for k, v := range m {
		if n, ok := tab[k]; ok {
			out[n] = v
		} else {
			out[k] = v
		}
	}
	return out
}

// otherSpelling: a name that folds to the same field name (other case; long s and the Kelvin sign
// fold to s and k).
func otherSpelling(r *rand.Rand, name string) string {
	switch r.Intn(4) {
	case 0:
		return strings.ToUpper(name[:1]) + name[1:]
	case 1:
		return strings.ToUpper(name)
	case 2:
		if i := strings.IndexAny(name, "sk"); i >= 0 {
			if name[i] == 's' {
				return name[:i] + "\u017f" + name[i+1:]
			}
			return name[:i] + "\u212a" + name[i+1:]
		}
		return strings.ToUpper(name)
	default:
		k := r.Intn(len(name))
		return name[:k] + strings.ToUpper(name[k:k+1]) + name[k+1:]
	}
}

func (b *built) sign(r *rand.Rand) string {
	if b.Compact != "" {
		return b.Compact
	}
	signed := b.Signed
	if len(b.SignedRespell) > 0 {
		signed = respelled(signed, b.SignedRespell)
		for k, v := range signed {
			if jwk, ok := v.(M); ok {
				signed[k] = respelled(jwk, b.SignedRespell)
			}
		}
	}
	return opb.CompactJWS(r, b.Key, b.Headers, opb.Canon(signed))
}

func (b *built) request(r *rand.Rand) M {
	var req M
	switch b.Typ {
	case "create":
		req = M{"type": "create"}
		if b.SD != nil {
			req["suffixData"] = b.SD
		}
		if b.Delta != nil {
			req["delta"] = b.Delta
		}
	case "deactivate":
		req = M{"type": b.Typ, "didSuffix": b.Suffix, "revealValue": b.Reveal, "signedData": b.sign(r)}
	default:
		req = M{"type": b.Typ, "didSuffix": b.Suffix, "revealValue": b.Reveal, "signedData": b.sign(r)}
		if b.Delta != nil {
			req["delta"] = b.Delta
		}
	}
	for k, v := range b.Extra {
		if v == nil && k != "delta" {
			delete(req, k)
		} else {
			req[k] = v
		}
	}
	if b.NoType {
		delete(req, "type")
	}
	if len(b.Respell) > 0 {
		for _, k := range []string{"delta", "suffixData"} {
			if m, ok := req[k].(M); ok {
				req[k] = respelled(m, b.Respell)
			}
		}
		req = respelled(req, b.Respell)
	}
	return req
}

func (b *built) bytes(r *rand.Rand) []byte {
	if b.Raw != nil {
		return b.Raw
	}
	return opb.Canon(b.request(r))
}

// didState tracks the keys whose commitments the resolved state currently holds.
type didState struct {
	Code     uint64
	Suffix   string
	Upd, Rec *opb.Key
	r        *rand.Rand
}

func randKT(r *rand.Rand) opb.KeyType { return opb.KeyType(r.Intn(int(opb.NumKeyTypes))) }

func newKeyN(r *rand.Rand, kt opb.KeyType) *opb.Key {
	k := opb.NewKey(r, kt)
	if r.Intn(3) == 0 {
		k.Nonce = opb.B64E(opb.RandBytes(r, 16))
	}
	return k
}

func docPatches(r *rand.Rand) []interface{} {
	switch r.Intn(4) {
	case 0:
		return []interface{}{AddKeysPatch(PubKeyEntry("key"+ident(r, 2), opb.NewKey(r, opb.P256), "authentication"))}
	case 1:
		return []interface{}{AddServicesPatch(validService(r, "svc"+ident(r, 2)))}
	case 2:
		return []interface{}{M{"action": "replace", "document": M{"publicKeys": []interface{}{validKey(r, "k"+ident(r, 2))}, "services": []interface{}{validService(r, "s"+ident(r, 2))}}}}
	default:
		return []interface{}{AddKeysPatch(PubKeyEntry("k"+ident(r, 3), opb.NewKey(r, randKT(r)), "assertionMethod")),
			M{"action": "add-also-known-as", "uris": []interface{}{"https://aka.example/" + ident(r, 3)}}}
	}
}

func anchorOriginValue(r *rand.Rand) interface{} {
	return pick(r, []interface{}{nil, nil, "origin.example", M{"org": "x", "n": 1}, []interface{}{"a", "b"}, 7, ""})
}

func newCreate(r *rand.Rand, code uint64) (*didState, *built) {
	d := &didState{Code: code, Upd: newKeyN(r, randKT(r)), Rec: newKeyN(r, randKT(r)), r: r}
	delta := opb.Delta(d.Upd.Commitment(code), docPatches(r))
	typ := ""
	if r.Intn(4) == 0 {
		typ = ident(r, 4)
	}
	sd := opb.SuffixData(code, delta, d.Rec.Commitment(code), anchorOriginValue(r), typ)
	d.Suffix = opb.Suffix(code, sd)
	return d, &built{Typ: "create", Code: code, Suffix: d.Suffix, SD: sd, Delta: delta}
}

func randWindow(r *rand.Rand, t int64) opb.Window {
	switch r.Intn(5) {
	case 0:
		return opb.Window{From: t - int64(r.Intn(50)), Until: t + int64(r.Intn(50))}
	case 1:
		return opb.Window{From: t - int64(r.Intn(50))}
	default:
		return opb.Window{}
	}
}

func headersFor(r *rand.Rand, k *opb.Key) M {
	h := opb.DefaultHeaders(k)
	if r.Intn(4) == 0 {
		h["kid"] = "key-" + ident(r, 3)
	}
	return h
}

// nextUpdate builds a valid update signed by the current update key and rotates it.
func (d *didState) nextUpdate(w opb.Window) *built {
	r := d.r
	next := newKeyN(r, randKT(r))
	delta := opb.Delta(next.Commitment(d.Code), docPatches(r))
	b := &built{Typ: "update", Code: d.Code, Suffix: d.Suffix, Key: d.Upd, Headers: headersFor(r, d.Upd), Delta: delta,
		Signed: opb.UpdateSigned(d.Code, d.Upd, delta, w), Reveal: d.Upd.Reveal(d.Code)}
	d.Upd = next
	return b
}

func (d *didState) nextRecover(w opb.Window) *built {
	r := d.r
	nextU, nextR := newKeyN(r, randKT(r)), newKeyN(r, randKT(r))
	delta := opb.Delta(nextU.Commitment(d.Code), docPatches(r))
	b := &built{Typ: "recover", Code: d.Code, Suffix: d.Suffix, Key: d.Rec, Headers: headersFor(r, d.Rec), Delta: delta,
		Signed: opb.RecoverSigned(d.Code, d.Rec, delta, nextR.Commitment(d.Code), anchorOriginValue(r), w), Reveal: d.Rec.Reveal(d.Code)}
	d.Upd, d.Rec = nextU, nextR
	return b
}

func (d *didState) nextDeactivate(w opb.Window) *built {
	r := d.r
	return &built{Typ: "deactivate", Code: d.Code, Suffix: d.Suffix, Key: d.Rec, Headers: headersFor(r, d.Rec),
		Signed: opb.DeactivateSigned(d.Code, d.Rec, d.Suffix, w), Reveal: d.Rec.Reveal(d.Code)}
}

// OracleEntries computes, independently of the library, the signature verdicts a correct
// implementation may need for this request: the (key, signing input, signature) triple its
// signed data denotes, if the framing can be read at all.
func OracleEntries(req []byte) []interface{} {
	var m map[string]interface{}
	if json.Unmarshal(req, &m) != nil {
		return nil
	}
	sd, ok := m["signedData"].(string)
	if !ok {
		return nil
	}
	parts := strings.Split(sd, ".")
	if len(parts) != 3 {
		return nil
	}
	hb, e1 := opb.B64.DecodeString(parts[0])
	pb, e2 := opb.B64.DecodeString(parts[1])
	sb, e3 := opb.B64.DecodeString(parts[2])
	if e1 != nil || e2 != nil || e3 != nil {
		return nil
	}
	var hdr map[string]interface{}
	if json.Unmarshal(hb, &hdr) != nil || hdr == nil {
		return nil
	}
	hb2, err := json.Marshal(hdr)
	if err != nil {
		return nil
	}
	input := opb.SigningInput(hb2, pb)
	var payload map[string]interface{}
	if json.Unmarshal(pb, &payload) != nil {
		return nil
	}
	var out []interface{}
	for _, name := range []string{"updateKey", "recoveryKey"} {
		if k, ok := payload[name].(map[string]interface{}); ok {
			out = append(out, M{"jwk": k, "in": proto.Hex(input), "sig": proto.Hex(sb), "ok": opb.VerifyJWK(k, input, sb)})
		}
	}
	return out
}

// oracleForCompact: the verdict a correct implementation may need for VerifyJWS(compact, jwk).
func oracleForCompact(jwk M, compact string) []interface{} {
	parts := strings.Split(compact, ".")
	if len(parts) != 3 {
		return nil
	}
	hb, e1 := opb.B64.DecodeString(parts[0])
	pb, e2 := opb.B64.DecodeString(parts[1])
	sb, e3 := opb.B64.DecodeString(parts[2])
	if e1 != nil || e2 != nil || e3 != nil {
		return nil
	}
	var hdr map[string]interface{}
	if json.Unmarshal(hb, &hdr) != nil || hdr == nil {
		return nil
	}
	hb2, err := json.Marshal(hdr)
	if err != nil {
		return nil
	}
	input := opb.SigningInput(hb2, pb)
	return []interface{}{M{"jwk": jwk, "in": proto.Hex(input), "sig": proto.Hex(sb), "ok": opb.VerifyJWK(jwk, input, sb)}}
}
