package impl

import (
	"bytes"
	"fmt"
	"reflect"

	"github.com/trustbloc/sidetree-go/pkg/api/operation"
	"github.com/trustbloc/sidetree-go/pkg/api/protocol"

	"verif/harness/internal/proto"
)

func init() {
	register("parse", parseKind)
	register("getters", gettersKind)
	register("apply", applyKind)
}

func stackFor(c *proto.Case) *stack {
	if Shared {
		tv, _ := c.Body["tv_fail"].(bool)
		ov, _ := c.Body["ov_fail"].(bool)
		key := fmt.Sprintf("stack|%s|%v|%v", proto.Marshal(c.Body["cfg"]), tv, ov)
		return shared(key, func() interface{} { return newSharedStack(Protocol(c.Body["cfg"]), tv, ov) }).(*stack)
	}
	if PlainValidators {
		tv, _ := c.Body["tv_fail"].(bool)
		ov, _ := c.Body["ov_fail"].(bool)
		return newSharedStack(Protocol(c.Body["cfg"]), tv, ov)
	}
	s := newStack(Protocol(c.Body["cfg"]))
	if b, ok := c.Body["tv_fail"].(bool); ok {
		s.tv.fail = b
	}
	if b, ok := c.Body["ov_fail"].(bool); ok {
		s.ov.fail = b
	}
	return s
}

// parseKind: C07 / C03. Parser.Parse with recording validators.
func parseKind(c *proto.Case) interface{} {
	s := stackFor(c)
	req := c.Bytes("req")
	op, err := s.parser.Parse(c.Str("ns"), req)
	out := M{}
	if err != nil {
		out["class"] = "err"
	} else {
		out["class"] = "ok"
		out["op"] = M{"type": string(op.Type), "suffix": op.UniqueSuffix, "id": op.ID,
			"request_equal": bytes.Equal(op.OperationRequest, req), "anchor_origin": jsonRound(op.AnchorOrigin)}
	}
	oc := []interface{}{}
	for _, o := range s.ov.calls {
		oc = append(oc, jsonRound(o))
	}
	tc := []interface{}{}
	for _, t := range s.tv.calls {
		tc = append(tc, []int64{t[0], t[1]})
	}
	out["origin_calls"] = oc
	out["time_calls"] = tc
	return out
}

func gettersKind(c *proto.Case) interface{} {
	s := stackFor(c)
	out := []interface{}{}
	for _, r := range proto.Arr(c.Body["reqs"]) {
		b := proto.UnHex(r.(string))
		e := M{}
		if v, err := s.parser.GetRevealValue(b); err == nil {
			e["reveal"] = v
		} else {
			e["reveal"] = nil
		}
		if v, err := s.parser.GetCommitment(b); err == nil {
			e["commitment"] = v
		} else {
			e["commitment"] = nil
		}
		out = append(out, e)
	}
	return out
}

func opList(v interface{}) []*operation.AnchoredOperation {
	if v == nil {
		return nil
	}
	out := []*operation.AnchoredOperation{}
	for _, x := range proto.Arr(v) {
		switch t := x.(type) {
		case string:
			out = append(out, &operation.AnchoredOperation{UniqueSuffix: t})
		case map[string]interface{}:
			// the request names the transaction number: an unpublished operation is written without it
			a := &operation.AnchoredOperation{Type: operation.Type(t["type"].(string)), TransactionTime: uint64(proto.Num(t["t"])),
				TransactionNumber: uint64(proto.Num(t["n"])), UniqueSuffix: "sfx", OperationRequest: []byte(fmt.Sprintf(`{"n":%d}`, proto.Num(t["n"])))}
			if cr, ok := t["cr"].(string); ok {
				a.CanonicalReference = cr
			}
			out = append(out, a)
		}
	}
	return out
}

func opListJSON(l []*operation.AnchoredOperation) interface{} {
	if l == nil {
		return nil
	}
	out := []interface{}{}
	for _, x := range l {
		out = append(out, x.UniqueSuffix)
	}
	return out
}

func rmFromJSON(v interface{}) *protocol.ResolutionModel {
	rm := &protocol.ResolutionModel{}
	m, ok := v.(map[string]interface{})
	if !ok {
		return rm
	}
	if d, ok := m["doc"].(map[string]interface{}); ok {
		rm.Doc = toDoc(d)
	}
	num := func(k string) uint64 {
		if x, ok := m[k]; ok && x != nil {
			return uint64(proto.Num(x))
		}
		return 0
	}
	str := func(k string) string { s, _ := m[k].(string); return s }
	rm.CreatedTime, rm.UpdatedTime = num("created"), num("updated")
	rm.LastOperationTransactionTime, rm.LastOperationTransactionNumber, rm.LastOperationProtocolVersion = num("lastT"), num("lastN"), num("lastV")
	rm.UpdateCommitment, rm.RecoveryCommitment = str("uc"), str("rc")
	rm.Deactivated, _ = m["deactivated"].(bool)
	rm.AnchorOrigin = m["anchorOrigin"]
	if er, ok := m["er"].([]interface{}); ok {
		rm.EquivalentReferences = []string{}
		for _, e := range er {
			rm.EquivalentReferences = append(rm.EquivalentReferences, e.(string))
		}
	}
	rm.CanonicalReference, rm.VersionID = str("cr"), str("versionId")
	rm.PublishedOperations = opList(m["pub"])
	rm.UnpublishedOperations = opList(m["unpub"])
	return rm
}

func rmJSON(rm *protocol.ResolutionModel) M {
	var doc interface{}
	if rm.Doc != nil {
		doc = jsonRound(rm.Doc)
	}
	var er interface{}
	if rm.EquivalentReferences != nil {
		er = append([]string{}, rm.EquivalentReferences...)
	}
	return M{"doc": doc, "created": rm.CreatedTime, "updated": rm.UpdatedTime, "lastT": rm.LastOperationTransactionTime,
		"lastN": rm.LastOperationTransactionNumber, "lastV": rm.LastOperationProtocolVersion, "uc": rm.UpdateCommitment,
		"rc": rm.RecoveryCommitment, "deactivated": rm.Deactivated, "anchorOrigin": jsonRound(rm.AnchorOrigin), "er": er,
		"cr": rm.CanonicalReference, "versionId": rm.VersionID, "pub": opListJSON(rm.PublishedOperations), "unpub": opListJSON(rm.UnpublishedOperations)}
}

func snapshotOp(a *operation.AnchoredOperation) interface{} {
	return jsonRound(M{"t": string(a.Type), "s": a.UniqueSuffix, "r": proto.Hex(a.OperationRequest), "tt": a.TransactionTime, "tn": a.TransactionNumber,
		"pv": a.ProtocolVersion, "cr": a.CanonicalReference, "er": a.EquivalentReferences, "ao": a.AnchorOrigin})
}

// applyKind: C01 / C02 / C12 (applier half) / C08. Fold a history; after every step report the
// class and the whole state; a refused operation keeps the previous state. Inputs are
// snapshotted before and compared after each call, and every earlier state handed out is
// re-checked at the end (structure sharing between versions must never be written through).
func applyKind(c *proto.Case) interface{} {
	s := stackFor(c)
	rm := rmFromJSON(c.Body["init"])
	steps := []interface{}{}
	type held struct {
		rm   *protocol.ResolutionModel
		snap interface{}
		step int
	}
	var versions []held
	for i, o := range proto.Arr(c.Body["ops"]) {
		op := anchored(proto.Obj(o))
		rmBefore := jsonRound(rmJSON(rm))
		opBefore := snapshotOp(op)
		st := M{}
		func() {
			defer func() {
				if r := recover(); r != nil {
					st["class"] = "panic"
				}
			}()
			res, err := s.applier.Apply(op, rm)
			mutated := !reflect.DeepEqual(rmBefore, jsonRound(rmJSON(rm))) || !reflect.DeepEqual(opBefore, snapshotOp(op))
			if err != nil {
				st["class"] = "err"
				st["nil_on_err"] = res == nil
				st["mutated"] = mutated
				return
			}
			st["class"] = "ok"
			st["state"] = rmJSON(res)
			st["mutated"] = mutated
			versions = append(versions, held{rm, rmBefore, i})
			rm = res
		}()
		steps = append(steps, st)
	}
	out := M{"steps": steps}
	for _, v := range versions {
		if !reflect.DeepEqual(v.snap, jsonRound(rmJSON(v.rm))) {
			out["earlier_version_changed"] = v.step
			break
		}
	}
	return out
}
