package impl

import (
	"crypto"
	"crypto/ecdsa"
	"crypto/ed25519"
	"encoding/json"
	"errors"
	"fmt"
	"math/big"
	"reflect"

	docdid "github.com/trustbloc/did-go/doc/did"
	"github.com/trustbloc/did-go/doc/did/endpoint"
	"github.com/trustbloc/kms-go/doc/jose/jwk"

	"github.com/trustbloc/sidetree-go/pkg/api/operation"
	"github.com/trustbloc/sidetree-go/pkg/api/protocol"
	"github.com/trustbloc/sidetree-go/pkg/jws"
	"github.com/trustbloc/sidetree-go/pkg/patch"
	"github.com/trustbloc/sidetree-go/pkg/vdr/sidetreelongform/sidetree"
	stdoc "github.com/trustbloc/sidetree-go/pkg/vdr/sidetreelongform/sidetree/doc"
	"github.com/trustbloc/sidetree-go/pkg/vdr/sidetreelongform/sidetree/option/create"
	"github.com/trustbloc/sidetree-go/pkg/vdr/sidetreelongform/sidetree/option/deactivate"
	"github.com/trustbloc/sidetree-go/pkg/vdr/sidetreelongform/sidetree/option/recovery"
	"github.com/trustbloc/sidetree-go/pkg/vdr/sidetreelongform/sidetree/option/update"
	"github.com/trustbloc/sidetree-go/pkg/versions/1_0/client"
	"github.com/trustbloc/sidetree-go/pkg/versions/1_0/model"

	"verif/harness/internal/proto"
)

func init() {
	register("lifecycle", lifecycleKind)
}

// tableSigner signs by looking the signing input up in the case's table; an input the
// generator did not foresee is a signing error.
type tableSigner struct {
	headers jws.Headers
	table   map[string][]byte
	jwk     *jws.JWK
	missed  []string
}

func (t *tableSigner) Sign(data []byte) ([]byte, error) {
	if s, ok := t.table[proto.Hex(data)]; ok {
		return s, nil
	}
	t.missed = append(t.missed, string(data))
	return nil, errors.New("no signature for this input")
}
func (t *tableSigner) Headers() jws.Headers   { return t.headers }
func (t *tableSigner) PublicKeyJWK() *jws.JWK { return t.jwk }

func sigTable(c *proto.Case) map[string][]byte {
	out := map[string][]byte{}
	for _, e := range proto.Arr(c.Body["sigs"]) {
		p := e.([]interface{})
		out[p[0].(string)] = proto.UnHex(p[1].(string))
	}
	return out
}

func signerFromCase(v interface{}, table map[string][]byte) *tableSigner {
	m, ok := v.(map[string]interface{})
	if !ok {
		return nil
	}
	s := &tableSigner{table: table}
	if h, ok := m["headers"].(map[string]interface{}); ok {
		s.headers = jws.Headers{}
		for k, x := range h {
			s.headers[k] = x
		}
	}
	if k, ok := m["jwk"].(map[string]interface{}); ok {
		s.jwk, _ = jwkFromCase(k)
	}
	return s
}

func patchesFromCase(v interface{}) []patch.Patch {
	var out []patch.Patch
	for _, p := range proto.Arr(v) {
		var pp patch.Patch
		if m, ok := p.(map[string]interface{}); ok {
			pp = patch.Patch{}
			for k, x := range m {
				pp[patch.Key(k)] = x
			}
		}
		out = append(out, pp)
	}
	return out
}

func optText(i M, k string) string {
	v, ok := i[k]
	if !ok || v == nil {
		return ""
	}
	b, err := json.Marshal(v)
	if err != nil {
		panic(err)
	}
	return string(b)
}

func strOf(i M, k string) string { s, _ := i[k].(string); return s }

func int64Of(i M, k string) int64 {
	if v, ok := i[k]; ok && v != nil {
		return int64(proto.Num(v))
	}
	return 0
}

func keyPtr(i M, k string) *jws.JWK {
	m, ok := i[k].(map[string]interface{})
	if !ok {
		return nil
	}
	j, ok := jwkFromCase(m)
	if !ok {
		return nil
	}
	return j
}

func pubKeyFromCase(v interface{}) crypto.PublicKey {
	m, ok := v.(map[string]interface{})
	if !ok {
		return nil
	}
	curve, _ := m["curve"].(string)
	if curve == "Ed25519" {
		return ed25519.PublicKey(proto.UnHex(m["x"].(string)))
	}
	cv := curveByName(curve)
	if cv == nil {
		return nil
	}
	return &ecdsa.PublicKey{Curve: cv, X: new(big.Int).SetBytes(proto.UnHex(m["x"].(string))), Y: new(big.Int).SetBytes(proto.UnHex(m["y"].(string)))}
}

func strList(v interface{}) []string {
	var out []string
	for _, x := range proto.Arr(v) {
		out = append(out, x.(string))
	}
	return out
}

func docKeyFromCase(v interface{}) stdoc.PublicKey {
	m := v.(map[string]interface{})
	pk := stdoc.PublicKey{ID: strOf(m, "id"), Type: strOf(m, "type"), B58Key: strOf(m, "b58")}
	if ps, ok := m["purposes"].([]interface{}); ok {
		pk.Purposes = []string{}
		for _, p := range ps {
			pk.Purposes = append(pk.Purposes, p.(string))
		}
	}
	if j, ok := m["jwk"].(map[string]interface{}); ok {
		b, _ := json.Marshal(j)
		var k jwk.JWK
		if err := k.UnmarshalJSON(b); err != nil {
			panic("harness: jwk of a generated document key does not load: " + err.Error())
		}
		pk.JWK = k
	}
	return pk
}

type propsPool map[string]map[string]interface{}

func docServiceFromCase(v interface{}, pool propsPool) docdid.Service {
	m := v.(map[string]interface{})
	s := docdid.Service{ID: strOf(m, "id"), Type: m["type"], RecipientKeys: strList(m["recipientKeys"]),
		RoutingKeys: strList(m["routingKeys"]), Accept: strList(m["accept"])}
	if p, ok := m["priority"]; ok && p != nil {
		s.Priority = p
		// callers pass Go ints
		if n, isNum := p.(json.Number); isNum {
			if i, err := n.Int64(); err == nil {
				s.Priority = int(i)
			}
		}
	}
	switch e := m["endpoint"].(type) {
	case nil:
	case string:
		s.ServiceEndpoint = endpoint.NewDIDCommV1Endpoint(e)
	default:
		s.ServiceEndpoint = endpoint.NewDIDCoreEndpoint(e)
	}
	if p, ok := m["properties"].(map[string]interface{}); ok {
		// callers commonly build the shared extra properties once: services of one case whose
		// properties are equal are handed the same map
		b, _ := json.Marshal(p)
		if shared, ok := pool[string(b)]; ok {
			s.Properties = shared
		} else {
			cp := map[string]interface{}{}
			for k, x := range p {
				cp[k] = x
			}
			pool[string(b)] = cp
			s.Properties = cp
		}
	}
	return s
}

var errCaptured = errors.New("captured")

// buildStep runs one builder; nil = the builder refused.
func buildStep(s M, table map[string][]byte, pool propsPool) []byte {
	i := proto.Obj(s["info"])
	code := uint(0)
	if i["code"] != nil {
		code = uint(proto.Num(i["code"]))
	}
	op := strOf(s, "op")
	var out []byte
	var err error
	if strOf(s, "via") == "builder" {
		var signer client.Signer
		if ts := signerFromCase(i["signer"], table); ts != nil {
			signer = ts
		}
		switch op {
		case "create":
			out, err = client.NewCreateRequest(&client.CreateRequestInfo{OpaqueDocument: optText(i, "opaque"), Patches: patchesFromCase(i["patches"]),
				RecoveryCommitment: strOf(i, "rc"), UpdateCommitment: strOf(i, "uc"), AnchorOrigin: i["anchorOrigin"], Type: strOf(i, "type"), MultihashCode: code})
		case "update":
			out, err = client.NewUpdateRequest(&client.UpdateRequestInfo{DidSuffix: strOf(i, "didSuffix"), Patches: patchesFromCase(i["patches"]),
				UpdateCommitment: strOf(i, "uc"), UpdateKey: keyPtr(i, "key"), MultihashCode: code, Signer: signer, RevealValue: strOf(i, "reveal"),
				AnchorFrom: int64Of(i, "anchorFrom"), AnchorUntil: int64Of(i, "anchorUntil")})
		case "recover":
			out, err = client.NewRecoverRequest(&client.RecoverRequestInfo{DidSuffix: strOf(i, "didSuffix"), RecoveryKey: keyPtr(i, "key"),
				OpaqueDocument: optText(i, "opaque"), Patches: patchesFromCase(i["patches"]), RecoveryCommitment: strOf(i, "rc"),
				UpdateCommitment: strOf(i, "uc"), AnchorOrigin: i["anchorOrigin"], AnchorFrom: int64Of(i, "anchorFrom"), AnchorUntil: int64Of(i, "anchorUntil"),
				MultihashCode: code, Signer: signer, RevealValue: strOf(i, "reveal")})
		case "deactivate":
			out, err = client.NewDeactivateRequest(&client.DeactivateRequestInfo{DidSuffix: strOf(i, "didSuffix"), RecoveryKey: keyPtr(i, "key"),
				Signer: signer, RevealValue: strOf(i, "reveal"), AnchorFrom: int64Of(i, "anchorFrom"), AnchorUntil: int64Of(i, "anchorUntil")})
		default:
			panic("harness: unknown op " + op)
		}
		if err != nil {
			return nil
		}
		return out
	}
	// the Sidetree client: capture the bytes handed to the request function
	var captured []byte
	cl := sidetree.New(sidetree.WithSidetreeOperationRequestFnc(func(req []byte, _ sidetree.GetEndpointsFunc) ([]byte, error) {
		captured = append([]byte{}, req...)
		return nil, errCaptured
	}))
	ts := signerFromCase(i["signer"], table)
	switch op {
	case "create":
		opts := []create.Option{create.WithMultiHashAlgorithm(code)}
		for _, k := range proto.Arr(i["keys"]) {
			pk := docKeyFromCase(k)
			opts = append(opts, create.WithPublicKey(&pk))
		}
		for _, sv := range proto.Arr(i["services"]) {
			svc := docServiceFromCase(sv, pool)
			opts = append(opts, create.WithService(&svc))
		}
		for _, a := range strList(i["aka"]) {
			opts = append(opts, create.WithAlsoKnownAs(a))
		}
		if k := pubKeyFromCase(i["recoveryKey"]); k != nil {
			opts = append(opts, create.WithRecoveryPublicKey(k))
		}
		if k := pubKeyFromCase(i["updateKey"]); k != nil {
			opts = append(opts, create.WithUpdatePublicKey(k))
		}
		if ao := strOf(i, "anchorOrigin"); ao != "" {
			opts = append(opts, create.WithAnchorOrigin(ao))
		}
		_, err = cl.CreateDID(opts...)
	case "update":
		opts := []update.Option{update.WithMultiHashAlgorithm(code), update.WithOperationCommitment(strOf(i, "commitment"))}
		if ts != nil {
			opts = append(opts, update.WithSigner(ts))
		}
		if k := pubKeyFromCase(i["nextUpdateKey"]); k != nil {
			opts = append(opts, update.WithNextUpdatePublicKey(k))
		}
		for _, a := range strList(i["removeAka"]) {
			opts = append(opts, update.WithRemoveAlsoKnownAs(a))
		}
		for _, a := range strList(i["removeKeys"]) {
			opts = append(opts, update.WithRemovePublicKey(a))
		}
		for _, a := range strList(i["removeServices"]) {
			opts = append(opts, update.WithRemoveService(a))
		}
		for _, a := range strList(i["addAka"]) {
			opts = append(opts, update.WithAddAlsoKnownAs(a))
		}
		for _, sv := range proto.Arr(i["addServices"]) {
			svc := docServiceFromCase(sv, pool)
			opts = append(opts, update.WithAddService(&svc))
		}
		for _, k := range proto.Arr(i["addKeys"]) {
			pk := docKeyFromCase(k)
			opts = append(opts, update.WithAddPublicKey(&pk))
		}
		err = cl.UpdateDID(strOf(i, "did"), opts...)
	case "recover":
		opts := []recovery.Option{recovery.WithMultiHashAlgorithm(code), recovery.WithOperationCommitment(strOf(i, "commitment"))}
		if ts != nil {
			opts = append(opts, recovery.WithSigner(ts))
		}
		for _, k := range proto.Arr(i["keys"]) {
			pk := docKeyFromCase(k)
			opts = append(opts, recovery.WithPublicKey(&pk))
		}
		for _, sv := range proto.Arr(i["services"]) {
			svc := docServiceFromCase(sv, pool)
			opts = append(opts, recovery.WithService(&svc))
		}
		for _, a := range strList(i["aka"]) {
			opts = append(opts, recovery.WithAlsoKnownAs(a))
		}
		if k := pubKeyFromCase(i["nextRecoveryKey"]); k != nil {
			opts = append(opts, recovery.WithNextRecoveryPublicKey(k))
		}
		if k := pubKeyFromCase(i["nextUpdateKey"]); k != nil {
			opts = append(opts, recovery.WithNextUpdatePublicKey(k))
		}
		if ao := strOf(i, "anchorOrigin"); ao != "" {
			opts = append(opts, recovery.WithAnchorOrigin(ao))
		}
		err = cl.RecoverDID(strOf(i, "did"), opts...)
	case "deactivate":
		opts := []deactivate.Option{deactivate.WithOperationCommitment(strOf(i, "commitment"))}
		if ts != nil {
			opts = append(opts, deactivate.WithSigner(ts))
		}
		err = cl.DeactivateDID(strOf(i, "did"), opts...)
	default:
		panic("harness: unknown op " + op)
	}
	if captured == nil && err == nil {
		panic("harness: client returned no error and sent nothing")
	}
	return captured
}

// lifecycleKind: C08. Build every request with the real builders, parse it, convert it to
// its anchored form, apply that (and the original bytes) to the state so far.
func lifecycleKind(c *proto.Case) interface{} {
	s := stackFor(c)
	table := sigTable(c)
	pool := propsPool{}
	rm := &protocol.ResolutionModel{}
	steps := []interface{}{}
	for idx, raw := range proto.Arr(c.Body["steps"]) {
		st := proto.Obj(raw)
		out := M{}
		steps = append(steps, out)
		req := buildStep(st, table, pool)
		if req == nil {
			out["built"] = "err"
			continue
		}
		out["built"] = "ok"
		out["request"] = string(req)
		op, err := s.parser.ParseOperation(c.Str("ns"), req, false)
		if err != nil {
			out["parse"] = "err"
			continue
		}
		out["parse"] = "ok"
		anch, err := model.GetAnchoredOperation(op)
		if err != nil {
			out["anchored"] = nil
			continue
		}
		out["anchored"] = string(anch.OperationRequest)
		out["atype"] = string(anch.Type)
		out["asuffix"] = anch.UniqueSuffix
		out["aorigin"] = jsonRound(anch.AnchorOrigin)
		mk := func(b []byte) *operation.AnchoredOperation {
			return &operation.AnchoredOperation{Type: anch.Type, UniqueSuffix: anch.UniqueSuffix, OperationRequest: b,
				TransactionTime: uint64(proto.Num(st["t"])), TransactionNumber: uint64(proto.Num(st["n"])),
				CanonicalReference: fmt.Sprintf("ref%d", idx)}
		}
		resA, errA := s.applier.Apply(mk(anch.OperationRequest), rm)
		resO, errO := s.applier.Apply(mk(req), rm)
		switch {
		case errA == nil && errO == nil:
			out["apply"] = "ok"
			out["state"] = rmJSON(resA)
			out["original_same_state"] = reflect.DeepEqual(jsonRound(rmJSON(resA)), jsonRound(rmJSON(resO)))
			rm = resA
		case errA != nil && errO != nil:
			out["apply"] = "err"
			out["original_same_state"] = true
		default:
			out["apply"] = "differs"
		}
	}
	return M{"steps": steps}
}
