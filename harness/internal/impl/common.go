// Package impl runs the real library on case lines. Every handler is wrapped in
// recover(); the answer is one JSON line per case.
package impl

import (
	"encoding/json"
	"fmt"
	"sort"
	"sync"

	"github.com/trustbloc/sidetree-go/pkg/api/operation"
	"github.com/trustbloc/sidetree-go/pkg/api/protocol"
	"github.com/trustbloc/sidetree-go/pkg/versions/1_0/doccomposer"
	"github.com/trustbloc/sidetree-go/pkg/versions/1_0/operationapplier"
	"github.com/trustbloc/sidetree-go/pkg/versions/1_0/operationparser"

	"verif/harness/internal/proto"
)

type M = map[string]interface{}

// Handler answers one case.
type Handler func(c *proto.Case) interface{}

var handlers = map[string]Handler{}

func register(kind string, h Handler) { handlers[kind] = h }

// Kinds lists the registered kinds.
func Kinds() []string {
	var ks []string
	for k := range handlers {
		ks = append(ks, k)
	}
	sort.Strings(ks)
	return ks
}

// Run answers a case, converting a panic into {"class":"panic"}.
func Run(c *proto.Case) (out interface{}) {
	h, ok := handlers[c.Kind]
	if !ok {
		return M{"class": "unknown-kind"}
	}
	defer func() {
		if r := recover(); r != nil {
			out = M{"class": "panic", "panic": fmt.Sprint(r)}
		}
	}()
	return h(c)
}

// Protocol decodes the cfg member with the struct's own json tags.
func Protocol(v interface{}) protocol.Protocol {
	var p protocol.Protocol
	b, _ := json.Marshal(v)
	if err := json.Unmarshal(b, &p); err != nil {
		panic("impl: bad cfg: " + err.Error())
	}
	return p
}

type recTimeValidator struct {
	calls [][2]int64
	fail  bool
}

func (r *recTimeValidator) Validate(from, until int64) error {
	r.calls = append(r.calls, [2]int64{from, until})
	if r.fail {
		return fmt.Errorf("time validator refuses")
	}
	return nil
}

type recObjValidator struct {
	calls []interface{}
	fail  bool
}

func (r *recObjValidator) Validate(obj interface{}) error {
	r.calls = append(r.calls, obj)
	if r.fail {
		return fmt.Errorf("origin validator refuses")
	}
	return nil
}

// Shared makes the handlers use one instance of every component per configuration for the whole
// process (the C20 stress runs many goroutines against them); validators then do not record.
var Shared bool

// PlainValidators makes freshly built stacks use the non-recording validators too (the stress
// compares answers of fresh instances with answers of shared ones).
var PlainValidators bool

var sharedObjects sync.Map

func shared(key string, mk func() interface{}) interface{} {
	if v, ok := sharedObjects.Load(key); ok {
		return v
	}
	v, _ := sharedObjects.LoadOrStore(key, mk())
	return v
}

type plainTimeValidator struct{ fail bool }

func (v plainTimeValidator) Validate(_, _ int64) error {
	if v.fail {
		return fmt.Errorf("time validator refuses")
	}
	return nil
}

type plainObjValidator struct{ fail bool }

func (v plainObjValidator) Validate(_ interface{}) error {
	if v.fail {
		return fmt.Errorf("origin validator refuses")
	}
	return nil
}

func newSharedStack(p protocol.Protocol, tvFail, ovFail bool) *stack {
	s := &stack{p: p, tv: &recTimeValidator{}, ov: &recObjValidator{}}
	s.parser = operationparser.New(p, operationparser.WithAnchorTimeValidator(plainTimeValidator{tvFail}), operationparser.WithAnchorOriginValidator(plainObjValidator{ovFail}))
	s.applier = operationapplier.New(p, s.parser, doccomposer.New())
	return s
}

type stack struct {
	p       protocol.Protocol
	parser  *operationparser.Parser
	applier *operationapplier.Applier
	tv      *recTimeValidator
	ov      *recObjValidator
}

func newStack(p protocol.Protocol) *stack {
	s := &stack{p: p, tv: &recTimeValidator{}, ov: &recObjValidator{}}
	s.parser = operationparser.New(p, operationparser.WithAnchorTimeValidator(s.tv), operationparser.WithAnchorOriginValidator(s.ov))
	s.applier = operationapplier.New(p, s.parser, doccomposer.New())
	return s
}

func anchored(o M) *operation.AnchoredOperation {
	a := &operation.AnchoredOperation{
		Type:              operation.Type(o["type"].(string)),
		UniqueSuffix:      o["suffix"].(string),
		OperationRequest:  proto.UnHex(o["req"].(string)),
		TransactionTime:   proto.UNum(o["t"]),
		TransactionNumber: uint64(proto.Num(o["n"])),
		ProtocolVersion:   uint64(proto.Num(o["v"])),
	}
	if s, ok := o["cr"].(string); ok {
		a.CanonicalReference = s
	}
	if er, ok := o["er"].([]interface{}); ok {
		a.EquivalentReferences = []string{}
		for _, e := range er {
			a.EquivalentReferences = append(a.EquivalentReferences, e.(string))
		}
	}
	return a
}

// jsonRound deep-copies / normalises a value through encoding/json (harness side only).
func jsonRound(v interface{}) interface{} {
	b, err := json.Marshal(v)
	if err != nil {
		return "unmarshalable: " + err.Error()
	}
	var out interface{}
	if err := json.Unmarshal(b, &out); err != nil {
		return "unparsable: " + err.Error()
	}
	return out
}
