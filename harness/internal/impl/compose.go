package impl

import (
	"encoding/json"
	"reflect"

	"github.com/trustbloc/sidetree-go/pkg/document"
	"github.com/trustbloc/sidetree-go/pkg/patch"
	"github.com/trustbloc/sidetree-go/pkg/versions/1_0/doccomposer"
	"github.com/trustbloc/sidetree-go/pkg/versions/1_0/operationparser/patchvalidator"

	"verif/harness/internal/proto"
)

func init() {
	register("compose", composeKind)
	register("protect", protectKind)
	register("patchrt", patchRTKind)
	register("ctor", ctorKind)
}

func toDoc(v interface{}) document.Document {
	b, _ := json.Marshal(v)
	d, err := document.FromBytes(b)
	if err != nil {
		panic("impl: bad doc in case: " + err.Error())
	}
	return d
}

func toPatches(v interface{}) []patch.Patch {
	var out []patch.Patch
	for _, p := range proto.Arr(v) {
		b, _ := json.Marshal(p)
		var pp patch.Patch
		if err := json.Unmarshal(b, &pp); err != nil {
			panic("impl: bad patch in case: " + err.Error())
		}
		out = append(out, pp)
	}
	return out
}

// composeKind: C10 / C12 (patch half). ApplyPatches on a document and a patch list, with deep
// snapshots of both inputs taken before and compared after.
func composeKind(c *proto.Case) interface{} {
	doc := toDoc(c.Body["doc"])
	patches := toPatches(c.Body["patches"])
	docBefore := jsonRound(doc)
	patchesBefore := jsonRound(patches)
	out := M{}
	res, err := doccomposer.New().ApplyPatches(doc, patches)
	if err != nil {
		out["class"] = "err"
		out["nil_on_err"] = res == nil
	} else {
		out["class"] = "ok"
		out["doc"] = jsonRound(res)
	}
	out["input_mutated"] = !reflect.DeepEqual(docBefore, jsonRound(doc))
	out["patches_mutated"] = !reflect.DeepEqual(patchesBefore, jsonRound(patches))
	return out
}

// protectKind: C11. Validate one ietf-json-patch; when accepted apply it and report whether the
// publicKey / service members changed.
func protectKind(c *proto.Case) interface{} {
	doc := toDoc(c.Body["doc"])
	ps := toPatches([]interface{}{c.Body["patch"]})
	out := M{}
	v := guarded(func() error { return patchvalidator.Validate(ps[0]) })
	out["validate"] = v
	if v != "ok" {
		return out
	}
	before := jsonRound(M{"k": doc["publicKey"], "s": doc["service"]})
	res, err := doccomposer.New().ApplyPatches(doc, ps)
	if err != nil {
		out["apply"] = "err"
		return out
	}
	out["apply"] = "ok"
	after := jsonRound(M{"k": res["publicKey"], "s": res["service"]})
	out["protected_changed"] = !reflect.DeepEqual(before, after)
	return out
}

// patchRTKind: C14. document -> patches -> validate each -> apply to {} ; bytes round trip.
func patchRTKind(c *proto.Case) interface{} {
	text := string(c.Bytes("doc"))
	out := M{}
	patches, err := patch.PatchesFromDocument(text)
	if err != nil {
		out["class"] = "err"
		return out
	}
	out["class"] = "ok"
	if patches == nil {
		patches = []patch.Patch{}
	}
	out["patches"] = jsonRound(patches)
	vs := []interface{}{}
	rt := true
	for _, p := range patches {
		vs = append(vs, guarded(func() error { return patchvalidator.Validate(p) }))
		b, err := p.Bytes()
		if err != nil {
			rt = false
			continue
		}
		back, err := patch.FromBytes(b)
		if err != nil || !reflect.DeepEqual(jsonRound(back), jsonRound(p)) {
			rt = false
			continue
		}
		a1, e1 := p.GetAction()
		a2, e2 := back.GetAction()
		v1, e3 := p.GetValue()
		v2, e4 := back.GetValue()
		if e1 != nil || e2 != nil || e3 != nil || e4 != nil || a1 != a2 || !reflect.DeepEqual(jsonRound(v1), jsonRound(v2)) {
			rt = false
		}
	}
	out["validate"] = vs
	out["bytes_roundtrip"] = rt
	res, err := doccomposer.New().ApplyPatches(make(document.Document), patches)
	if err != nil {
		out["applied"] = "err"
	} else {
		out["applied"] = jsonRound(res)
	}
	return out
}

// bytesRoundTrip: Bytes -> FromBytes gives an equal patch whose accessors agree with the original's.
func bytesRoundTrip(p patch.Patch) bool {
	b, err := p.Bytes()
	if err != nil {
		return false
	}
	back, err := patch.FromBytes(b)
	if err != nil || !reflect.DeepEqual(jsonRound(back), jsonRound(p)) {
		return false
	}
	a1, e1 := p.GetAction()
	a2, e2 := back.GetAction()
	v1, e3 := p.GetValue()
	v2, e4 := back.GetValue()
	return e1 == nil && e2 == nil && e3 == nil && e4 == nil && a1 == a2 && reflect.DeepEqual(jsonRound(v1), jsonRound(v2))
}

// ctorKind: C14. One of the eight patch constructors on an argument text: the patch it makes, whether that
// patch passes validation, and its byte round trip.
func ctorKind(c *proto.Case) interface{} {
	text := string(c.Bytes("arg"))
	ctors := map[string]func(string) (patch.Patch, error){
		"replace": patch.NewReplacePatch, "ietf-json-patch": patch.NewJSONPatch,
		"add-public-keys": patch.NewAddPublicKeysPatch, "remove-public-keys": patch.NewRemovePublicKeysPatch,
		"add-services": patch.NewAddServiceEndpointsPatch, "remove-services": patch.NewRemoveServiceEndpointsPatch,
		"add-also-known-as": patch.NewAddAlsoKnownAs, "remove-also-known-as": patch.NewRemoveAlsoKnownAs,
	}
	f, ok := ctors[c.Str("ctor")]
	if !ok {
		return M{"class": "out-of-domain"}
	}
	var p patch.Patch
	if cls := guarded(func() error { var err error; p, err = f(text); return err }); cls != "ok" {
		return M{"class": cls}
	}
	return M{"class": "ok", "patch": jsonRound(p), "validate": guarded(func() error { return patchvalidator.Validate(p) }),
		"bytes_roundtrip": bytesRoundTrip(p)}
}
