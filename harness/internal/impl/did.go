package impl

import (
	"encoding/base64"
	"encoding/json"
	"reflect"

	"github.com/trustbloc/sidetree-go/pkg/api/protocol"
	"github.com/trustbloc/sidetree-go/pkg/docutil"
	"github.com/trustbloc/sidetree-go/pkg/patch"
	"github.com/trustbloc/sidetree-go/pkg/vdr/sidetreelongform/dochandler"
	"github.com/trustbloc/sidetree-go/pkg/versions/1_0/doctransformer/didtransformer"
	"github.com/trustbloc/sidetree-go/pkg/versions/1_0/doctransformer/doctransformer"
	"github.com/trustbloc/sidetree-go/pkg/versions/1_0/operationparser"
	"github.com/trustbloc/sidetree-go/pkg/versions/1_0/operationparser/patchvalidator"

	"verif/harness/internal/proto"
)

func init() {
	register("transform", transformKind)
	register("gtransform", gtransformKind)
	register("tinfo", tinfoKind)
	register("resolve", resolveKind)
	register("process", processKind)
}

// projectOps keeps of every operation entry only what the model predicts.
func projectOps(v interface{}, published bool) interface{} {
	arr, ok := v.([]interface{})
	if !ok {
		return v
	}
	out := []interface{}{}
	for _, e := range arr {
		m := e.(map[string]interface{})
		o := M{"type": m["type"], "transactionTime": m["transactionTime"]}
		if published {
			o["transactionNumber"] = m["transactionNumber"]
			cr, _ := m["canonicalReference"].(string)
			o["canonicalReference"] = cr
		} else if req, ok := m["operation"].(string); ok {
			// the harness's note for the order predicate: the number the request names
			var body struct{ N *int64 }
			if b, err := base64.StdEncoding.DecodeString(req); err == nil && json.Unmarshal(b, &body) == nil && body.N != nil {
				o["n"] = *body.N
			}
		}
		out = append(out, o)
	}
	return out
}

func resultJSON(res interface{}) interface{} {
	v := jsonRound(res)
	if m, ok := v.(map[string]interface{}); ok {
		if md, ok := m["didDocumentMetadata"].(map[string]interface{}); ok {
			if method, ok := md["method"].(map[string]interface{}); ok {
				if p, ok := method["publishedOperations"]; ok {
					method["publishedOperations"] = projectOps(p, true)
				}
				if p, ok := method["unpublishedOperations"]; ok {
					method["unpublishedOperations"] = projectOps(p, false)
				}
			}
		}
	}
	return v
}

// transformKind: C18.
func transformKind(c *proto.Case) interface{} {
	rm := rmFromJSON(c.Body["state"])
	o := proto.Obj(c.Body["opts"])
	var opts []didtransformer.Option
	if b, _ := o["base"].(bool); b {
		opts = append(opts, didtransformer.WithBase(true))
	}
	if mc, ok := o["methodCtx"].([]interface{}); ok && len(mc) > 0 {
		var ss []string
		for _, x := range mc {
			ss = append(ss, x.(string))
		}
		opts = append(opts, didtransformer.WithMethodContext(ss))
	}
	if b, _ := o["pub"].(bool); b {
		opts = append(opts, didtransformer.WithIncludePublishedOperations(true))
	}
	if b, _ := o["unpub"].(bool); b {
		opts = append(opts, didtransformer.WithIncludeUnpublishedOperations(true))
	}
	info := protocol.TransformationInfo{}
	for k, v := range proto.Obj(c.Body["info"]) {
		if n, ok := v.(json.Number); ok {
			f, _ := n.Float64()
			info[k] = f
		} else if arr, ok := v.([]interface{}); ok && k == "equivalentId" {
			var ss []string
			for _, x := range arr {
				ss = append(ss, x.(string))
			}
			info[k] = ss
		} else {
			info[k] = v
		}
	}
	tr := didtransformer.New(opts...)
	if Shared {
		tr = shared("transformer|"+string(proto.Marshal(c.Body["opts"])), func() interface{} { return didtransformer.New(opts...) }).(*didtransformer.Transformer)
	}
	stateBefore := jsonRound(rmJSON(rm))
	res, err := tr.TransformDocument(rm, info)
	if err != nil {
		// would patch validation have let these keys into a document?
		return M{"class": "err", "keys_validated": keysPassValidation(rm)}
	}
	out := M{"class": "ok", "result": resultJSON(res)}
	// the state handed in is the caller's: it must come back untouched, and transforming it a
	// second time must give the same result
	if !reflect.DeepEqual(stateBefore, jsonRound(rmJSON(rm))) {
		out["input_mutated"] = true
	}
	if res2, err2 := tr.TransformDocument(rm, info); err2 != nil || !reflect.DeepEqual(jsonRound(resultJSON(res2)), jsonRound(resultJSON(res))) {
		out["second_transformation_differs"] = true
	}
	// the same transformer used for another document (another DID, keys in the opposite order)
	// must leave the result it returned earlier alone
	before, _ := json.Marshal(res)
	rm2 := rmFromJSON(c.Body["state"])
	if rm2.Doc != nil {
		if ks, ok := rm2.Doc["publicKey"].([]interface{}); ok {
			for i, j := 0, len(ks)-1; i < j; i, j = i+1, j-1 {
				ks[i], ks[j] = ks[j], ks[i]
			}
		}
	}
	info2 := protocol.TransformationInfo{}
	for k, v := range info {
		info2[k] = v
	}
	if id, ok := info["id"].(string); ok {
		info2["id"] = id + ":other"
	}
	_, _ = tr.TransformDocument(rm2, info2)
	after, _ := json.Marshal(res)
	if string(before) != string(after) {
		out["earlier_result_changed"] = true
	}
	return out
}

// gtransformKind: C18 — the generic document transformer (doctransformer.Transformer).
func gtransformKind(c *proto.Case) interface{} {
	rm := rmFromJSON(c.Body["state"])
	o := proto.Obj(c.Body["opts"])
	var opts []doctransformer.Option
	if b, _ := o["pub"].(bool); b {
		opts = append(opts, doctransformer.WithIncludePublishedOperations(true))
	}
	if b, _ := o["unpub"].(bool); b {
		opts = append(opts, doctransformer.WithIncludeUnpublishedOperations(true))
	}
	info := protocol.TransformationInfo{}
	for k, v := range proto.Obj(c.Body["info"]) {
		if arr, ok := v.([]interface{}); ok && k == "equivalentId" {
			var ss []string
			for _, x := range arr {
				ss = append(ss, x.(string))
			}
			info[k] = ss
		} else {
			info[k] = v
		}
	}
	if rm.Doc == nil {
		return M{"class": "skipped-nil-document"}
	}
	res, err := doctransformer.New(opts...).TransformDocument(rm, info)
	if err != nil {
		return M{"class": "err"}
	}
	return M{"class": "ok", "result": resultJSON(res)}
}

func handlerFor(ns string) (*dochandler.DocumentHandler, error) {
	if !Shared {
		return dochandler.New(ns)
	}
	v := shared("dochandler|"+ns, func() interface{} {
		dh, err := dochandler.New(ns)
		if err != nil {
			return err
		}
		return dh
	})
	if err, ok := v.(error); ok {
		return nil, err
	}
	return v.(*dochandler.DocumentHandler), nil
}

func resolveKind(c *proto.Case) interface{} {
	dh, err := handlerFor(c.Str("ns"))
	if err != nil {
		return M{"class": "setup-failed"}
	}
	// Parser.ParseDID is an entry point of its own: the handler looks at the namespace first, a resolver
	// that calls the parser directly does not
	pd := parseDIDClass(c.Str("ns"), c.Str("did"))
	res, err := dh.ResolveDocument(c.Str("did"))
	if err != nil {
		return M{"class": "err", "parse_did": pd}
	}
	return M{"class": "ok", "result": resultJSON(res), "parse_did": pd}
}

var bareParser = operationparser.New(protocol.Protocol{})

func parseDIDClass(ns, did string) (class string) {
	defer func() {
		if r := recover(); r != nil {
			class = "panic"
		}
	}()
	_, initial, err := bareParser.ParseDID(ns, did)
	switch {
	case err != nil:
		return "err"
	case initial == nil:
		return "short"
	default:
		return "long"
	}
}

// processKind: C17 — ProcessOperation, then resolve the DID it returned.
func processKind(c *proto.Case) interface{} {
	dh, err := handlerFor(c.Str("ns"))
	if err != nil {
		return M{"class": "setup-failed"}
	}
	res, err := dh.ProcessOperation(c.Bytes("req"))
	if err != nil {
		return M{"class": "err"}
	}
	out := M{"class": "ok", "result": resultJSON(res)}
	id, _ := res.Document["id"].(string)
	again, err := dh.ResolveDocument(id)
	if err != nil {
		out["resolve_again"] = "err"
	} else {
		out["resolve_again"] = resultJSON(again)
	}
	return out
}

// tinfoKind: C18 / C17 — docutil.GetTransformationInfoForPublished / ForUnpublished.
func tinfoKind(c *proto.Case) interface{} {
	var ti protocol.TransformationInfo
	if b, _ := c.Body["published"].(bool); b {
		var er []string
		if l, ok := c.Body["er"].([]interface{}); ok {
			for _, e := range l {
				s, _ := e.(string)
				er = append(er, s)
			}
		}
		ti = docutil.GetTransformationInfoForPublished(c.Str("ns"), c.Str("id"), c.Str("suffix"),
			&protocol.ResolutionModel{CanonicalReference: c.Str("cr"), EquivalentReferences: er})
	} else {
		ti = docutil.GetTransformationInfoForUnpublished(c.Str("ns"), c.Str("domain"), c.Str("label"), c.Str("suffix"), c.Str("jcs"))
	}
	return M{"info": jsonRound(map[string]interface{}(ti))}
}

// keysPassValidation: the state's keys, offered to the patch validator as one add-public-keys patch.
func keysPassValidation(rm *protocol.ResolutionModel) bool {
	if rm == nil || rm.Doc == nil {
		return false
	}
	keys, ok := rm.Doc["publicKey"].([]interface{})
	if !ok || len(keys) == 0 {
		return false
	}
	b, err := json.Marshal(keys)
	if err != nil {
		return false
	}
	p, err := patch.NewAddPublicKeysPatch(string(b))
	if err != nil {
		return false
	}
	return patchvalidator.Validate(p) == nil
}
