package impl

import (
	"encoding/binary"
	"encoding/json"
	"math"
	"strconv"

	"github.com/trustbloc/sidetree-go/pkg/canonicalizer"
	"github.com/trustbloc/sidetree-go/pkg/commitment"
	"github.com/trustbloc/sidetree-go/pkg/docutil"
	"github.com/trustbloc/sidetree-go/pkg/hashing"
	"github.com/trustbloc/sidetree-go/pkg/jws"

	"verif/harness/internal/proto"
)

func init() {
	register("jcs", jcsKind)
	register("num", numKind)
	register("mh", mhKind)
	register("commit", commitKind)
}

func okOut(b []byte, err error) M {
	if err != nil {
		return M{"class": "err"}
	}
	return M{"class": "ok", "out": proto.Hex(b)}
}

func jcsKind(c *proto.Case) interface{} {
	text := c.Bytes("text")
	out := M{}
	b, err := canonicalizer.MarshalCanonical(text)
	out["bytes"] = okOut(b, err)
	var v interface{}
	if e := json.Unmarshal(text, &v); e != nil {
		out["value"] = M{"class": "err"}
	} else {
		b2, e2 := canonicalizer.MarshalCanonical(v)
		out["value"] = okOut(b2, e2)
	}
	if err == nil {
		b3, e3 := canonicalizer.MarshalCanonical(b)
		if e3 != nil {
			out["again"] = "err"
		} else {
			out["again"] = proto.Hex(b3)
		}
	} else {
		out["again"] = nil
	}
	return out
}

func numKind(c *proto.Case) interface{} {
	bits := binary.BigEndian.Uint64(c.Bytes("bits"))
	f := math.Float64frombits(bits)
	if math.IsNaN(f) || math.IsInf(f, 0) {
		// not a JSON number: both entry routes must refuse
		_, e1 := canonicalizer.MarshalCanonical([]float64{f})
		if e1 != nil {
			return M{"class": "err"}
		}
		return M{"class": "ok", "out": "accepted-non-finite"}
	}
	a, e1 := canonicalizer.MarshalCanonical([]byte("[" + strconv.FormatFloat(f, 'e', -1, 64) + "]"))
	b, e2 := canonicalizer.MarshalCanonical([]float64{f})
	if e1 != nil || e2 != nil {
		return M{"class": "err"}
	}
	if string(a) != string(b) {
		return M{"class": "ok", "out": string(a), "out_value_route": string(b)}
	}
	return M{"class": "ok", "out": string(a[1 : len(a)-1])}
}

func mhKind(c *proto.Case) interface{} {
	text := c.Bytes("value")
	code := uint(c.Int("code"))
	hash := c.Str("hash")
	out := M{}
	if s, err := hashing.CalculateModelMultihash(text, code); err == nil {
		out["calc"] = s
	} else {
		out["calc"] = nil
	}
	out["valid"] = hashing.IsValidModelMultihash(text, hash) == nil
	if cd, err := hashing.GetMultihashCode(hash); err == nil {
		out["code"] = cd
	} else {
		out["code"] = nil
	}
	var codes []uint
	for _, x := range proto.Arr(c.Body["codes"]) {
		codes = append(codes, uint(proto.Num(x)))
	}
	out["computed"] = hashing.IsComputedUsingMultihashAlgorithms(hash, codes)
	if id, err := docutil.CalculateID(c.Str("ns"), json.RawMessage(text), code); err == nil {
		out["id"] = id
	} else {
		out["id"] = nil
	}
	return out
}

func commitKind(c *proto.Case) interface{} {
	var k jws.JWK
	b, _ := json.Marshal(c.Body["jwk"])
	if err := json.Unmarshal(b, &k); err != nil {
		return M{"class": "out-of-domain"}
	}
	code := uint(c.Int("code"))
	out := M{}
	opt := func(s string, err error) interface{} {
		if err != nil {
			return nil
		}
		return s
	}
	out["commitment"] = opt(commitment.GetCommitment(&k, code))
	rv, rerr := commitment.GetRevealValue(&k, code)
	out["reveal"] = opt(rv, rerr)
	out["from_reveal"] = opt(commitment.GetCommitmentFromRevealValue(c.Str("rv")))
	if rerr == nil {
		out["from_own_reveal"] = opt(commitment.GetCommitmentFromRevealValue(rv))
	} else {
		out["from_own_reveal"] = nil
	}
	// the same key material under another nonce is another key
	twin := k
	twin.Nonce, _ = c.Body["twin_nonce"].(string)
	out["twin_commitment"] = opt(commitment.GetCommitment(&twin, code))
	out["twin_reveal"] = opt(commitment.GetRevealValue(&twin, code))
	return out
}
