package impl

import (
	"crypto/ecdsa"
	"crypto/ed25519"
	"crypto/elliptic"
	"encoding/json"
	"math/big"
	"strings"

	"github.com/btcsuite/btcd/btcec/v2"

	"github.com/trustbloc/sidetree-go/pkg/jws"
	"github.com/trustbloc/sidetree-go/pkg/jwsutil"
	"github.com/trustbloc/sidetree-go/pkg/util/ecsigner"
	"github.com/trustbloc/sidetree-go/pkg/util/edsigner"
	"github.com/trustbloc/sidetree-go/pkg/util/pubkey"
	"github.com/trustbloc/sidetree-go/pkg/util/signutil"

	"verif/harness/internal/opb"
	"verif/harness/internal/proto"
)

func init() {
	register("sign", signKind)
	register("jws", jwsKind)
	register("jwk", jwkKind)
	register("jwkparse", jwkParseKind)
}

func curveByName(n string) elliptic.Curve {
	switch n {
	case "P-256":
		return elliptic.P256()
	case "P-384":
		return elliptic.P384()
	case "P-521":
		return elliptic.P521()
	case "secp256k1":
		return btcec.S256()
	}
	return nil
}

func jwkToMap(k *jws.JWK) M {
	b, _ := json.Marshal(k)
	var m M
	_ = json.Unmarshal(b, &m)
	return m
}

func jwkFromCase(v interface{}) (*jws.JWK, bool) {
	b, _ := json.Marshal(v)
	var k jws.JWK
	if err := json.Unmarshal(b, &k); err != nil {
		return nil, false
	}
	return &k, true
}

// signKind: C15 — the library's own signers, then VerifyJWS under the JWK the library derives from
// the public key; the harness checks the result independently as well.
func signKind(c *proto.Case) interface{} {
	payload := c.Bytes("payload")
	alg, kid := c.Str("alg"), c.Str("kid")
	out := M{}
	var signer signutil.Signer
	var pub interface{}
	if c.Str("kt") == "Ed25519" {
		priv := ed25519.NewKeyFromSeed(c.Bytes("seed"))
		signer = edsigner.New(priv, alg, kid)
		pub = priv.Public().(ed25519.PublicKey)
	} else {
		cv := curveByName(c.Str("kt"))
		priv := &ecdsa.PrivateKey{PublicKey: ecdsa.PublicKey{Curve: cv, X: new(big.Int).SetBytes(c.Bytes("x")), Y: new(big.Int).SetBytes(c.Bytes("y"))},
			D: new(big.Int).SetBytes(c.Bytes("d"))}
		signer = ecsigner.New(priv, alg, kid)
		pub = &priv.PublicKey
	}
	compact, err := signutil.SignPayload(payload, signer)
	if err != nil {
		out["sign"] = "err"
		return out
	}
	out["sign"] = "ok"
	jwk, err := pubkey.GetPublicKeyJWK(pub)
	if err != nil {
		out["jwk"] = nil
		return out
	}
	out["jwk"] = jwkToMap(jwk)
	parts := strings.Split(compact, ".")
	out["segments"] = len(parts)
	if len(parts) == 3 {
		hb, _ := opb.B64.DecodeString(parts[0])
		var hdr interface{}
		_ = json.Unmarshal(hb, &hdr)
		out["headers"] = hdr
		pb, _ := opb.B64.DecodeString(parts[1])
		out["payload_segment"] = proto.Hex(pb)
		sb, _ := opb.B64.DecodeString(parts[2])
		out["sig_len"] = len(sb)
		out["independent_ok"] = opb.VerifyJWK(jwkToMap(jwk), []byte(parts[0]+"."+parts[1]), sb)
	}
	res, err := jwsutil.VerifyJWS(compact, jwk)
	if err != nil {
		out["verify"] = "err"
	} else {
		out["verify"] = "ok"
		out["payload"] = proto.Hex(res.Payload)
	}
	return out
}

// jwsKind: C15 — ParseJWS / VerifyJWS on arbitrary compact strings and keys.
func jwsKind(c *proto.Case) interface{} {
	out := M{}
	compact := c.Str("compact")
	if _, err := jwsutil.ParseJWS(compact); err != nil {
		out["parse"] = "err"
	} else {
		out["parse"] = "ok"
	}
	k, ok := jwkFromCase(c.Body["jwk"])
	if !ok {
		return M{"class": "out-of-domain"}
	}
	if pm, ok := c.Body["prime"].(map[string]interface{}); ok {
		// an earlier verification in the same process: the intact JWS under its own key
		if pk, ok := jwkFromCase(pm["jwk"]); ok {
			pc, _ := pm["compact"].(string)
			_, _ = jwsutil.VerifyJWS(pc, pk)
		}
	}
	res, err := jwsutil.VerifyJWS(compact, k)
	if err != nil {
		out["verify"] = "err"
	} else {
		out["verify"] = "ok"
		out["payload"] = proto.Hex(res.Payload)
	}
	return out
}

// jwkKind: C16 — public key -> JWK -> public key.
func jwkKind(c *proto.Case) interface{} {
	out := M{}
	if c.Str("curve") == "Ed25519" {
		pub := ed25519.PublicKey(c.Bytes("x"))
		jwk, err := pubkey.GetPublicKeyJWK(pub)
		if err != nil {
			return M{"to": "err"}
		}
		out["to"] = "ok"
		out["jwk"] = jwkToMap(jwk)
		back, err := jwsutil.GetED25519PublicKey(jwk)
		if err != nil {
			out["back"] = nil
		} else {
			out["back"] = M{"x": proto.Hex(back)}
		}
		return out
	}
	cv := curveByName(c.Str("curve"))
	pub := &ecdsa.PublicKey{Curve: cv, X: new(big.Int).SetBytes(c.Bytes("x")), Y: new(big.Int).SetBytes(c.Bytes("y"))}
	jwk, err := pubkey.GetPublicKeyJWK(pub)
	if err != nil {
		return M{"to": "err"}
	}
	out["to"] = "ok"
	out["jwk"] = jwkToMap(jwk)
	b, _ := json.Marshal(jwk)
	var in jwsutil.JWK
	if err := in.UnmarshalJSON(b); err != nil {
		out["back"] = nil
		return out
	}
	if p, ok := in.Key.(*ecdsa.PublicKey); ok {
		out["back"] = M{"x": proto.Hex(p.X.Bytes()), "y": proto.Hex(p.Y.Bytes())}
	} else {
		out["back"] = "not-ec"
	}
	return out
}

// jwkParseKind: C16 — reading JWKs (valid, off-curve, wrong width, wrong names).
func jwkParseKind(c *proto.Case) interface{} {
	k, ok := jwkFromCase(c.Body["jwk"])
	if !ok {
		return M{"class": "out-of-domain"}
	}
	if k.Kty == "OKP" {
		// both readers: GetED25519PublicKey and the exported JWK.UnmarshalJSON
		out := M{"parse": "ok", "unmarshal": "ok"}
		if _, err := jwsutil.GetED25519PublicKey(k); err != nil {
			out["parse"] = "err"
		}
		b, _ := json.Marshal(k)
		var in jwsutil.JWK
		if err := in.UnmarshalJSON(b); err != nil {
			out["unmarshal"] = "err"
		} else if _, ok := in.Key.(ed25519.PublicKey); !ok {
			out["unmarshal"] = "err"
		}
		return out
	}
	b, _ := json.Marshal(k)
	var in jwsutil.JWK
	if err := in.UnmarshalJSON(b); err != nil {
		return M{"parse": "err"}
	}
	if _, ok := in.Key.(*ecdsa.PublicKey); !ok {
		return M{"parse": "err"}
	}
	return M{"parse": "ok"}
}
