package impl

import (
	"encoding/json"

	"github.com/trustbloc/sidetree-go/pkg/patch"
	"github.com/trustbloc/sidetree-go/pkg/versions/1_0/docvalidator/didvalidator"
	"github.com/trustbloc/sidetree-go/pkg/versions/1_0/docvalidator/docvalidator"
	"github.com/trustbloc/sidetree-go/pkg/versions/1_0/operationparser/patchvalidator"

	"verif/harness/internal/proto"
)

func init() {
	register("validate", validateKind)
	register("origdoc", origDocKind)
}

func classOf(err error) string {
	if err != nil {
		return "err"
	}
	return "ok"
}

func guarded(f func() error) (cls string) {
	defer func() {
		if r := recover(); r != nil {
			cls = "panic"
		}
	}()
	return classOf(f())
}

func validateKind(c *proto.Case) interface{} {
	b, _ := json.Marshal(c.Body["patch"])
	out := M{}
	p, err := patch.FromBytes(b)
	out["from_bytes"] = classOf(err)
	if err != nil {
		// Validate is still reachable with a hand-built patch value
		var raw patch.Patch
		if e := json.Unmarshal(b, &raw); e != nil {
			out["validate"] = "err"
			return out
		}
		p = raw
	}
	out["validate"] = guarded(func() error { return patchvalidator.Validate(p) })
	return out
}

func origDocKind(c *proto.Case) interface{} {
	b := c.Bytes("doc")
	return M{
		"doc": guarded(func() error { return docvalidator.New().IsValidOriginalDocument(b) }),
		"did": guarded(func() error { return didvalidator.New().IsValidOriginalDocument(b) }),
	}
}
