package impl

import (
	"fmt"
	"reflect"
	"strings"
	"sync"

	"github.com/trustbloc/sidetree-go/pkg/api/operation"
	"github.com/trustbloc/sidetree-go/pkg/api/protocol"
	"github.com/trustbloc/sidetree-go/pkg/vdr/sidetreelongform/dochandler/protocol/nsprovider"
	"github.com/trustbloc/sidetree-go/pkg/vdr/sidetreelongform/dochandler/protocol/verprovider"
	"github.com/trustbloc/sidetree-go/pkg/vdr/sidetreelongform/dochandler/protocolversion/clientregistry"
	vcommon "github.com/trustbloc/sidetree-go/pkg/vdr/sidetreelongform/dochandler/protocolversion/versions/common"
	"github.com/trustbloc/sidetree-go/pkg/versions/1_0/doctransformer/didtransformer"
	"github.com/trustbloc/sidetree-go/pkg/versions/1_0/doctransformer/doctransformer"

	"verif/harness/internal/proto"
)

func init() {
	register("stress", stressKind)
}

type stubFactory struct{ tag string }

func (f stubFactory) Create(version string, _ *vcommon.ProtocolConfig) (protocol.Version, error) {
	return nil, fmt.Errorf("stub %s for %s", f.tag, version)
}

// stressKind: C20. Every line of the case is answered once sequentially on shared component
// instances, then by `goroutines` goroutines concurrently (each in its own order); the answers
// must be the same. The registries are exercised with concurrent registrations (also of the
// same key) and lookups. The binary is built with -race: a data race ends the process.
func stressKind(c *proto.Case) interface{} {
	g := int(c.Int("goroutines"))
	var cases []*proto.Case
	for _, l := range proto.Arr(c.Body["lines"]) {
		_ = proto.Read(strings.NewReader(l.(string)+"\n"), func(x *proto.Case) { cases = append(cases, x) })
	}
	// reference answers: every case on component instances of its own, one after the other
	Shared = false
	PlainValidators = true
	seq := make([]string, len(cases))
	for i, x := range cases {
		seq[i] = string(proto.Marshal(Run(x)))
	}
	// from here on one instance of every component per configuration, first used by all
	// goroutines at once (nothing has warmed it up)
	Shared = true
	var mu sync.Mutex
	mismatch := 0
	var first interface{}
	var wg sync.WaitGroup
	start := make(chan struct{})
	for t := 0; t < g; t++ {
		wg.Add(1)
		go func(t int) {
			defer wg.Done()
			<-start
			for k := range cases {
				i := (k*7 + t*13) % len(cases)
				got := string(proto.Marshal(Run(cases[i])))
				if got != seq[i] {
					mu.Lock()
					mismatch++
					if first == nil {
						first = M{"line": cases[i].Raw, "sequential": seq[i], "concurrent": got}
					}
					mu.Unlock()
				}
			}
		}(t)
	}
	close(start)
	wg.Wait()
	out := M{"class": "ok", "mismatch": mismatch, "first": first}
	for k, v := range derivedModels(cases, g) {
		out[k] = v
	}

	// namespace provider: concurrent Add / ForNamespace
	nsp := nsprovider.New()
	cvp, _ := verprovider.New([]protocol.Version{nil})
	var nsErr int
	start2 := make(chan struct{})
	for t := 0; t < g; t++ {
		wg.Add(1)
		go func(t int) {
			defer wg.Done()
			<-start2
			for k := 0; k < 50; k++ {
				ns := fmt.Sprintf("did:ns%d", (t+k)%8)
				nsp.Add(ns, cvp)
				if _, err := nsp.ForNamespace(ns); err != nil {
					mu.Lock()
					nsErr++
					mu.Unlock()
				}
			}
		}(t)
	}
	close(start2)
	wg.Wait()
	out["namespace_lookup_failed_after_add"] = nsErr

	// client registry: every version is registered by all goroutines at once; exactly one
	// registration of each may succeed, the others must be refused (Register panics)
	versions := int(c.Int("versions"))
	rounds := int(c.Int("rounds"))
	double := 0
	lookupBad := 0
	for r := 0; r < rounds; r++ {
		reg := clientregistry.New()
		succ := make([]int, versions)
		start3 := make(chan struct{})
		for t := 0; t < g; t++ {
			wg.Add(1)
			go func(t int) {
				defer wg.Done()
				<-start3
				for v := 0; v < versions; v++ {
					ver := fmt.Sprintf("9.%d", (v+t)%versions)
					func() {
						defer func() {
							if recover() != nil {
								return
							}
						}()
						reg.Register(ver, stubFactory{fmt.Sprint(t)})
						mu.Lock()
						succ[(v+t)%versions]++
						mu.Unlock()
					}()
					if _, err := reg.CreateClientVersion(ver, nil); err == nil || !strings.Contains(err.Error(), "stub") {
						mu.Lock()
						lookupBad++
						mu.Unlock()
					}
				}
			}(t)
		}
		close(start3)
		wg.Wait()
		for _, n := range succ {
			if n != 1 {
				double++
			}
		}
	}
	out["versions_not_registered_exactly_once"] = double
	out["registry_lookup_wrong"] = lookupBad
	return out
}

// derivedModels: every goroutine applies an operation of its own to ONE state and transforms the
// model it gets back, with both transformers and the operation lists included. Applier.Apply hands
// parts of the state on to its results (the operation lists; the document when an update does not
// take), so distinct results share memory the caller cannot see: the answers must be those of the
// same calls made one after the other on states of their own, and the state must come out as it
// went in.
func derivedModels(cases []*proto.Case, g int) M {
	type pair struct {
		c      *proto.Case
		i      int
		shares bool
	}
	apply := func(s *stack, op *operation.AnchoredOperation, rm *protocol.ResolutionModel) (res *protocol.ResolutionModel, err error) {
		defer func() {
			if r := recover(); r != nil {
				res, err = nil, fmt.Errorf("panic: %v", r)
			}
		}()
		return s.applier.Apply(op, rm)
	}
	fold := func(c *proto.Case, n int, visit func(i int, before, after *protocol.ResolutionModel)) *protocol.ResolutionModel {
		s := stackFor(c)
		rm := rmFromJSON(c.Body["init"])
		for i, o := range proto.Arr(c.Body["ops"]) {
			if i >= n {
				break
			}
			res, err := apply(s, anchored(proto.Obj(o)), rm)
			if err != nil {
				continue
			}
			if visit != nil {
				visit(i, rm, res)
			}
			rm = res
		}
		return rm
	}
	var sharing, others []pair
	for _, c := range cases {
		if c.Kind != "apply" {
			continue
		}
		fold(c, 1<<30, func(i int, before, after *protocol.ResolutionModel) {
			if before.Doc != nil && after.Doc != nil && reflect.ValueOf(before.Doc).Pointer() == reflect.ValueOf(after.Doc).Pointer() {
				sharing = append(sharing, pair{c, i, true})
			} else {
				others = append(others, pair{c, i, false})
			}
		})
	}
	if len(sharing) > 8 {
		sharing = sharing[:8]
	}
	if len(others) > 8 {
		others = others[:8]
	}
	pairs := append(sharing, others...)
	mkOps := func(n int, tag string) []*operation.AnchoredOperation {
		var l []*operation.AnchoredOperation
		for k := 0; k < n; k++ {
			// store order: newest first, so sorting has work to do
			l = append(l, &operation.AnchoredOperation{Type: operation.TypeUpdate, UniqueSuffix: "sfx", OperationRequest: []byte("{}"),
				TransactionTime: uint64(1000 - k), TransactionNumber: uint64(k % 3), CanonicalReference: fmt.Sprintf("%s%d", tag, k)})
		}
		return l
	}
	stateAt := func(p pair) *protocol.ResolutionModel {
		rm := fold(p.c, p.i, nil)
		rm.PublishedOperations = mkOps(40, "pub")
		rm.UnpublishedOperations = mkOps(12, "unpub")
		return rm
	}
	refs := func(l []*operation.AnchoredOperation) []string {
		var out []string
		for _, o := range l {
			out = append(out, o.CanonicalReference)
		}
		return out
	}
	snapshot := func(rm *protocol.ResolutionModel) string {
		return string(proto.Marshal(jsonRound(M{"state": rmJSON(rm), "pub": refs(rm.PublishedOperations), "unpub": refs(rm.UnpublishedOperations)})))
	}
	didTr := didtransformer.New(didtransformer.WithIncludePublishedOperations(true), didtransformer.WithIncludeUnpublishedOperations(true))
	docTr := doctransformer.New(doctransformer.WithIncludePublishedOperations(true), doctransformer.WithIncludeUnpublishedOperations(true))
	transform := func(f func() (interface{}, error)) (out interface{}) {
		defer func() {
			if r := recover(); r != nil {
				out = fmt.Sprintf("panic: %v", r)
			}
		}()
		res, err := f()
		if err != nil {
			return "err: " + err.Error()
		}
		return resultJSON(res)
	}
	run := func(p pair, st *protocol.ResolutionModel, t int) string {
		op := anchored(proto.Obj(proto.Arr(p.c.Body["ops"])[p.i]))
		op.CanonicalReference = fmt.Sprintf("op-%d", t)
		res, err := apply(stackFor(p.c), op, st)
		if err != nil {
			return "err: " + err.Error()
		}
		info := protocol.TransformationInfo{"id": fmt.Sprintf("did:sidetree:%s:%d", op.UniqueSuffix, t), "published": true}
		return string(proto.Marshal(M{
			"did": transform(func() (interface{}, error) { return didTr.TransformDocument(res, info) }),
			"doc": transform(func() (interface{}, error) { return docTr.TransformDocument(res, info) }),
		}))
	}
	mismatch, changed := 0, 0
	var first interface{}
	var mu sync.Mutex
	for _, p := range pairs {
		want := make([]string, g)
		for t := 0; t < g; t++ {
			want[t] = run(p, stateAt(p), t)
		}
		st := stateAt(p)
		before := snapshot(st)
		var wg sync.WaitGroup
		start := make(chan struct{})
		for t := 0; t < g; t++ {
			wg.Add(1)
			go func(t int) {
				defer wg.Done()
				<-start
				if got := run(p, st, t); got != want[t] {
					mu.Lock()
					mismatch++
					if first == nil {
						first = M{"line": p.c.Raw, "step": p.i, "goroutine": t, "own_state": want[t], "shared_state": got}
					}
					mu.Unlock()
				}
			}(t)
		}
		close(start)
		wg.Wait()
		if after := snapshot(st); after != before {
			changed++
			if first == nil {
				first = M{"line": p.c.Raw, "step": p.i, "state_before": before, "state_after": after}
			}
		}
	}
	return M{"derived_mismatch": mismatch, "derived_state_changed": changed, "derived_first": first,
		"detail": fmt.Sprintf("derived models: %d (state, operation) pairs, %d of them sharing the document", len(pairs), len(sharing))}
}
