package impl

import (
	"fmt"
	"strings"
	"sync"

	"github.com/trustbloc/sidetree-go/pkg/api/protocol"
	"github.com/trustbloc/sidetree-go/pkg/vdr/sidetreelongform/dochandler/protocol/nsprovider"
	"github.com/trustbloc/sidetree-go/pkg/vdr/sidetreelongform/dochandler/protocol/verprovider"
	"github.com/trustbloc/sidetree-go/pkg/vdr/sidetreelongform/dochandler/protocolversion/clientregistry"
	vcommon "github.com/trustbloc/sidetree-go/pkg/vdr/sidetreelongform/dochandler/protocolversion/versions/common"

	"verif/harness/internal/proto"
)

func init() {
	register("stress", stressKind)
}

type stubFactory struct{ tag string }

func (f stubFactory) Create(version string, _ *vcommon.ProtocolConfig) (protocol.Version, error) {
	return nil, fmt.Errorf("stub %s for %s", f.tag, version)
}

// stressKind: C20. Every line of the case is answered once sequentially on shared component
// instances, then by `goroutines` goroutines concurrently (each in its own order); the answers
// must be the same. The registries are exercised with concurrent registrations (also of the
// same key) and lookups. The binary is built with -race: a data race ends the process.
func stressKind(c *proto.Case) interface{} {
	g := int(c.Int("goroutines"))
	var cases []*proto.Case
	for _, l := range proto.Arr(c.Body["lines"]) {
		_ = proto.Read(strings.NewReader(l.(string)+"\n"), func(x *proto.Case) { cases = append(cases, x) })
	}
	// reference answers: every case on component instances of its own, one after the other
	Shared = false
	PlainValidators = true
	seq := make([]string, len(cases))
	for i, x := range cases {
		seq[i] = string(proto.Marshal(Run(x)))
	}
	// from here on one instance of every component per configuration, first used by all
	// goroutines at once (nothing has warmed it up)
	Shared = true
	var mu sync.Mutex
	mismatch := 0
	var first interface{}
	var wg sync.WaitGroup
	start := make(chan struct{})
	for t := 0; t < g; t++ {
		wg.Add(1)
		go func(t int) {
			defer wg.Done()
			<-start
			for k := range cases {
				i := (k*7 + t*13) % len(cases)
				got := string(proto.Marshal(Run(cases[i])))
				if got != seq[i] {
					mu.Lock()
					mismatch++
					if first == nil {
						first = M{"line": cases[i].Raw, "sequential": seq[i], "concurrent": got}
					}
					mu.Unlock()
				}
			}
		}(t)
	}
	close(start)
	wg.Wait()
	out := M{"class": "ok", "mismatch": mismatch, "first": first}

	// namespace provider: concurrent Add / ForNamespace
	nsp := nsprovider.New()
	cvp, _ := verprovider.New([]protocol.Version{nil})
	var nsErr int
	start2 := make(chan struct{})
	for t := 0; t < g; t++ {
		wg.Add(1)
		go func(t int) {
			defer wg.Done()
			<-start2
			for k := 0; k < 50; k++ {
				ns := fmt.Sprintf("did:ns%d", (t+k)%8)
				nsp.Add(ns, cvp)
				if _, err := nsp.ForNamespace(ns); err != nil {
					mu.Lock()
					nsErr++
					mu.Unlock()
				}
			}
		}(t)
	}
	close(start2)
	wg.Wait()
	out["namespace_lookup_failed_after_add"] = nsErr

	// client registry: every version is registered by all goroutines at once; exactly one
	// registration of each may succeed, the others must be refused (Register panics)
	versions := int(c.Int("versions"))
	rounds := int(c.Int("rounds"))
	double := 0
	lookupBad := 0
	for r := 0; r < rounds; r++ {
		reg := clientregistry.New()
		succ := make([]int, versions)
		start3 := make(chan struct{})
		for t := 0; t < g; t++ {
			wg.Add(1)
			go func(t int) {
				defer wg.Done()
				<-start3
				for v := 0; v < versions; v++ {
					ver := fmt.Sprintf("9.%d", (v+t)%versions)
					func() {
						defer func() {
							if recover() != nil {
								return
							}
						}()
						reg.Register(ver, stubFactory{fmt.Sprint(t)})
						mu.Lock()
						succ[(v+t)%versions]++
						mu.Unlock()
					}()
					if _, err := reg.CreateClientVersion(ver, nil); err == nil || !strings.Contains(err.Error(), "stub") {
						mu.Lock()
						lookupBad++
						mu.Unlock()
					}
				}
			}(t)
		}
		close(start3)
		wg.Wait()
		for _, n := range succ {
			if n != 1 {
				double++
			}
		}
	}
	out["versions_not_registered_exactly_once"] = double
	out["registry_lookup_wrong"] = lookupBad
	return out
}
