package impl

import (
	"encoding/json"
	"sort"
	"strings"

	"github.com/btcsuite/btcutil/base58"
	docdid "github.com/trustbloc/did-go/doc/did"
	vdrapi "github.com/trustbloc/did-go/vdr/api"
	"github.com/trustbloc/kms-go/doc/jose/jwk"

	"github.com/trustbloc/sidetree-go/pkg/vdr/sidetreelongform"

	"verif/harness/internal/proto"
)

func init() {
	register("vdr", vdrKind)
}

var relByName = map[string]docdid.VerificationRelationship{
	"authentication": docdid.Authentication, "assertionMethod": docdid.AssertionMethod, "capabilityDelegation": docdid.CapabilityDelegation,
	"capabilityInvocation": docdid.CapabilityInvocation, "keyAgreement": docdid.KeyAgreement,
}

func frag(id string) string {
	if i := strings.LastIndex(id, "#"); i >= 0 {
		return id[i+1:]
	}
	return id
}

func vmFromCase(m M) *docdid.VerificationMethod {
	id, typ := strOf(m, "id"), strOf(m, "type")
	if j, ok := m["jwk"].(map[string]interface{}); ok {
		b, _ := json.Marshal(j)
		var k jwk.JWK
		if err := k.UnmarshalJSON(b); err != nil {
			panic("harness: generated jwk does not load: " + err.Error())
		}
		vm, err := docdid.NewVerificationMethodFromJWK(id, typ, "", &k)
		if err != nil {
			panic("harness: " + err.Error())
		}
		return vm
	}
	if v, ok := m["value"].(string); ok {
		return docdid.NewVerificationMethodFromBytes(id, typ, "", proto.UnHex(v))
	}
	return &docdid.VerificationMethod{ID: id, Type: typ}
}

func docFromCase(d M, pool propsPool) *docdid.Doc {
	doc := &docdid.Doc{AlsoKnownAs: strList(d["aka"])}
	for _, sv := range proto.Arr(d["services"]) {
		doc.Service = append(doc.Service, docServiceFromCase(sv, pool))
	}
	for name, rel := range relByName {
		for _, e := range proto.Arr(d[name]) {
			v := *docdid.NewReferencedVerification(vmFromCase(proto.Obj(e)), rel)
			switch name {
			case "authentication":
				doc.Authentication = append(doc.Authentication, v)
			case "assertionMethod":
				doc.AssertionMethod = append(doc.AssertionMethod, v)
			case "capabilityDelegation":
				doc.CapabilityDelegation = append(doc.CapabilityDelegation, v)
			case "capabilityInvocation":
				doc.CapabilityInvocation = append(doc.CapabilityInvocation, v)
			case "keyAgreement":
				doc.KeyAgreement = append(doc.KeyAgreement, v)
			}
		}
	}
	return doc
}

func material(vm *docdid.VerificationMethod) string {
	if k := vm.JSONWebKey(); k != nil {
		b, _ := k.MarshalJSON()
		var m M
		_ = json.Unmarshal(b, &m)
		x, _ := m["x"].(string)
		return "jwk:" + x
	}
	return "b58:" + base58.Encode(vm.Value)
}

// summary of a did-go resolution: everything the create input determines, ids by fragment
func resolutionSummary(r *docdid.DocResolution) M {
	d := r.DIDDocument
	vms := []interface{}{}
	for i := range d.VerificationMethod {
		vm := &d.VerificationMethod[i]
		vms = append(vms, []interface{}{frag(vm.ID), vm.Type, material(vm)})
	}
	sort.Slice(vms, func(i, j int) bool { return vms[i].([]interface{})[0].(string) < vms[j].([]interface{})[0].(string) })
	rels := M{}
	for name, list := range map[string][]docdid.Verification{"authentication": d.Authentication, "assertionMethod": d.AssertionMethod,
		"capabilityDelegation": d.CapabilityDelegation, "capabilityInvocation": d.CapabilityInvocation, "keyAgreement": d.KeyAgreement} {
		ids := []string{}
		for _, v := range list {
			ids = append(ids, frag(v.VerificationMethod.ID))
		}
		sort.Strings(ids)
		rels[name] = ids
	}
	svcs := []interface{}{}
	for _, s := range d.Service {
		svcs = append(svcs, []interface{}{frag(s.ID), s.Type})
	}
	out := M{"id": d.ID, "vm": vms, "rel": rels, "services": svcs, "aka": append([]string{}, d.AlsoKnownAs...)}
	if md := r.DocumentMetadata; md != nil {
		out["equivalentId"] = append([]string{}, md.EquivalentID...)
		if md.Method != nil {
			out["uc"], out["rc"], out["published"] = md.Method.UpdateCommitment, md.Method.RecoveryCommitment, md.Method.Published
		}
	}
	return out
}

// vdrKind: C17 — VDR.Create (twice, on fresh instances) and VDR.Read of the created DID.
func vdrKind(c *proto.Case) interface{} {
	mk := func() (*docdid.DocResolution, *sidetreelongform.VDR, error) {
		newVDR := func() *sidetreelongform.VDR {
			v, err := sidetreelongform.New(sidetreelongform.WithDIDMethod(c.Str("method")))
			if err != nil {
				panic("harness: VDR.New: " + err.Error())
			}
			return v
		}
		var v *sidetreelongform.VDR
		if Shared {
			v = shared("vdr|"+c.Str("method"), func() interface{} { return newVDR() }).(*sidetreelongform.VDR)
		} else {
			v = newVDR()
		}
		r, err := v.Create(docFromCase(proto.Obj(c.Body["doc"]), propsPool{}),
			vdrapi.WithOption(sidetreelongform.UpdatePublicKeyOpt, pubKeyFromCase(c.Body["updateKey"])),
			vdrapi.WithOption(sidetreelongform.RecoveryPublicKeyOpt, pubKeyFromCase(c.Body["recoveryKey"])))
		return r, v, err
	}
	r1, v, err := mk()
	if err != nil {
		return M{"class": "err", "why": err.Error()}
	}
	out := M{"class": "ok", "created": resolutionSummary(r1)}
	for i := 0; i < 3; i++ {
		r2, _, err := mk()
		if err != nil || r2.DIDDocument.ID != r1.DIDDocument.ID {
			out["not_deterministic"] = true
		}
	}
	rd, err := v.Read(r1.DIDDocument.ID)
	if err != nil {
		out["read"] = "err"
	} else {
		out["read"] = resolutionSummary(rd)
	}
	return out
}
