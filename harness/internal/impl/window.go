package impl

import (
	"reflect"

	"github.com/trustbloc/sidetree-go/pkg/api/protocol"

	"verif/harness/internal/proto"
)

func init() { register("window", window) }

// window: C09. ops[0] is a create anchored earlier, ops[1] the operation under test.
func window(c *proto.Case) interface{} {
	p := Protocol(c.Body["cfg"])
	s := newStack(p)
	ops := proto.Arr(c.Body["ops"])
	st0, err := s.applier.Apply(anchored(proto.Obj(ops[0])), &protocol.ResolutionModel{})
	if err != nil || st0 == nil || len(st0.Doc) == 0 {
		return M{"class": "setup-failed", "err": errStr(err)}
	}
	before := jsonRound(st0.Doc)
	op := anchored(proto.Obj(ops[1]))
	out := M{}
	st1, err := s.applier.Apply(op, st0)
	switch {
	case err != nil:
		out["outcome"] = "refused"
	case string(op.Type) == "deactivate":
		if st1.Deactivated && len(st1.Doc) == 0 {
			out["outcome"] = "effective"
		} else {
			out["outcome"] = "ineffective"
		}
	case string(op.Type) == "update":
		if reflect.DeepEqual(before, jsonRound(st1.Doc)) {
			out["outcome"] = "ineffective"
		} else {
			out["outcome"] = "effective"
		}
	default: // recover
		if len(st1.Doc) == 0 {
			out["outcome"] = "ineffective"
		} else {
			out["outcome"] = "effective"
		}
	}
	if err == nil && string(op.Type) != "deactivate" {
		out["uc_advanced"] = st1.UpdateCommitment == c.Str("next_uc")
	}
	// the same request, not yet anchored: what does the time validator receive?
	s.tv.calls = nil
	_, perr := s.parser.Parse("did:x", op.OperationRequest)
	if perr != nil {
		out["parse"] = "err"
	} else {
		out["parse"] = "ok"
	}
	pairs := []interface{}{}
	for _, pr := range s.tv.calls {
		pairs = append(pairs, []int64{pr[0], pr[1]})
	}
	out["validator"] = pairs
	return out
}

func errStr(err error) string {
	if err == nil {
		return ""
	}
	return err.Error()
}
