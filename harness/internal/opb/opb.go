// Package opb is the harness's own, independent construction kit for Sidetree
// operations: keys, JWK encoding, canonical JSON of harness-built values, multihash,
// JWS signing. Nothing in here calls the code under test, so a change to the
// library cannot change what the generators produce.
package opb

import (
	"bytes"
	"crypto/ecdsa"
	"crypto/ed25519"
	"crypto/elliptic"
	"crypto/sha256"
	"crypto/sha512"
	"encoding/base64"
	"encoding/json"
	"fmt"
	"math/big"
	"math/rand"
	"sort"
	"strconv"
	"unicode/utf16"

	"github.com/btcsuite/btcd/btcec/v2"
)

// ---------------------------------------------------------------- encoding

var B64 = base64.RawURLEncoding

func B64E(b []byte) string { return B64.EncodeToString(b) }

// Canon is the harness's own RFC 8785 serializer for the values it builds: maps, slices,
// strings, booleans, nil and integers (no fractional numbers). Member names are sorted by
// UTF-16 code units; strings get the minimal escaping. It shares no code with the library.
func Canon(v interface{}) []byte {
	var buf bytes.Buffer
	canonWrite(&buf, v)
	return buf.Bytes()
}

func canonString(buf *bytes.Buffer, s string) {
	buf.WriteByte('"')
	for _, c := range s {
		switch {
		case c == '"':
			buf.WriteString("\\\"")
		case c == '\\':
			buf.WriteString("\\\\")
		case c == 8:
			buf.WriteString("\\b")
		case c == 12:
			buf.WriteString("\\f")
		case c == 10:
			buf.WriteString("\\n")
		case c == 13:
			buf.WriteString("\\r")
		case c == 9:
			buf.WriteString("\\t")
		case c < 0x20:
			fmt.Fprintf(buf, "\\u%04x", c)
		default:
			buf.WriteRune(c)
		}
	}
	buf.WriteByte('"')
}

func utf16Less(a, b string) bool {
	x, y := utf16.Encode([]rune(a)), utf16.Encode([]rune(b))
	for i := 0; i < len(x) && i < len(y); i++ {
		if x[i] != y[i] {
			return x[i] < y[i]
		}
	}
	return len(x) < len(y)
}

func canonWrite(buf *bytes.Buffer, v interface{}) {
	switch t := v.(type) {
	case nil:
		buf.WriteString("null")
	case bool:
		if t {
			buf.WriteString("true")
		} else {
			buf.WriteString("false")
		}
	case string:
		canonString(buf, t)
	case int:
		buf.WriteString(strconv.FormatInt(int64(t), 10))
	case int64:
		buf.WriteString(strconv.FormatInt(t, 10))
	case uint64:
		buf.WriteString(strconv.FormatUint(t, 10))
	case float64:
		if t != float64(int64(t)) || t > 1<<53 || t < -(1<<53) {
			panic("opb.Canon: non-integral float")
		}
		buf.WriteString(strconv.FormatInt(int64(t), 10))
	case []interface{}:
		buf.WriteByte('[')
		for i, e := range t {
			if i > 0 {
				buf.WriteByte(',')
			}
			canonWrite(buf, e)
		}
		buf.WriteByte(']')
	case []string:
		buf.WriteByte('[')
		for i, e := range t {
			if i > 0 {
				buf.WriteByte(',')
			}
			canonString(buf, e)
		}
		buf.WriteByte(']')
	case map[string]interface{}:
		keys := make([]string, 0, len(t))
		for k := range t {
			keys = append(keys, k)
		}
		sort.Slice(keys, func(i, j int) bool { return utf16Less(keys[i], keys[j]) })
		buf.WriteByte('{')
		for i, k := range keys {
			if i > 0 {
				buf.WriteByte(',')
			}
			canonString(buf, k)
			buf.WriteByte(':')
			canonWrite(buf, t[k])
		}
		buf.WriteByte('}')
	default:
		panic(fmt.Sprintf("opb.Canon: unsupported type %T", v))
	}
}

func varint(x uint64) []byte {
	var out []byte
	for x >= 0x80 {
		out = append(out, byte(x)|0x80)
		x >>= 7
	}
	return append(out, byte(x))
}

// HashFor returns the digest for a multihash code (18 = sha2-256, 19 = sha2-512).
func HashFor(code uint64, data []byte) []byte {
	switch code {
	case 18:
		h := sha256.Sum256(data)
		return h[:]
	case 19:
		h := sha512.Sum512(data)
		return h[:]
	}
	panic(fmt.Sprintf("opb: unsupported code %d", code))
}

// MHRaw wraps a digest.
func MHRaw(code uint64, digest []byte) []byte {
	out := varint(code)
	out = append(out, varint(uint64(len(digest)))...)
	return append(out, digest...)
}

// MH is base64url(multihash(code, H(data))).
func MH(code uint64, data []byte) string { return B64E(MHRaw(code, HashFor(code, data))) }

// ModelMH is the model multihash of a harness-built value.
func ModelMH(code uint64, v interface{}) string { return MH(code, Canon(v)) }

// ---------------------------------------------------------------- keys

type KeyType int

const (
	Ed25519 KeyType = iota
	P256
	P384
	P521
	Secp256k1
	NumKeyTypes
)

func (k KeyType) String() string {
	return [...]string{"Ed25519", "P-256", "P-384", "P-521", "secp256k1"}[k]
}

// Alg is the JWS algorithm name the library's signers use for the key type.
func (k KeyType) Alg() string {
	return [...]string{"EdDSA", "ES256", "ES384", "ES512", "ES256K"}[k]
}

func (k KeyType) Curve() elliptic.Curve {
	switch k {
	case P256:
		return elliptic.P256()
	case P384:
		return elliptic.P384()
	case P521:
		return elliptic.P521()
	case Secp256k1:
		return btcec.S256()
	}
	return nil
}

func (k KeyType) CoordSize() int {
	return [...]int{32, 32, 48, 66, 32}[k]
}

type Key struct {
	Type  KeyType
	D     *big.Int           // EC private scalar
	X, Y  *big.Int           // EC public point
	Ed    ed25519.PrivateKey // Ed25519
	Nonce string
}

func randBytes(r *rand.Rand, n int) []byte {
	b := make([]byte, n)
	for i := range b {
		b[i] = byte(r.Intn(256))
	}
	return b
}

// RandBytes exposes the deterministic byte source.
func RandBytes(r *rand.Rand, n int) []byte { return randBytes(r, n) }

func NewKey(r *rand.Rand, t KeyType) *Key {
	if t == Ed25519 {
		return &Key{Type: t, Ed: ed25519.NewKeyFromSeed(randBytes(r, 32))}
	}
	c := t.Curve()
	n := c.Params().N
	d := new(big.Int).SetBytes(randBytes(r, (n.BitLen()+7)/8+8))
	d.Mod(d, new(big.Int).Sub(n, big.NewInt(1)))
	d.Add(d, big.NewInt(1))
	x, y := c.ScalarBaseMult(d.Bytes())
	return &Key{Type: t, D: d, X: x, Y: y}
}

func padBE(v *big.Int, n int) []byte {
	b := v.Bytes()
	if len(b) >= n {
		return b
	}
	out := make([]byte, n)
	copy(out[n-len(b):], b)
	return out
}

// JWK is the public key in the member layout the library's jws.JWK marshals to
// (kty, crv, x, y always present; nonce only when non-empty).
func (k *Key) JWK() map[string]interface{} {
	m := map[string]interface{}{}
	if k.Type == Ed25519 {
		m["kty"] = "OKP"
		m["crv"] = "Ed25519"
		m["x"] = B64E(k.Ed.Public().(ed25519.PublicKey))
		m["y"] = ""
	} else {
		m["kty"] = "EC"
		m["crv"] = k.Type.String()
		m["x"] = B64E(padBE(k.X, k.Type.CoordSize()))
		m["y"] = B64E(padBE(k.Y, k.Type.CoordSize()))
	}
	if k.Nonce != "" {
		m["nonce"] = k.Nonce
	}
	return m
}

func (k *Key) Reveal(code uint64) string { return ModelMH(code, k.JWK()) }

// Commitment is multihash(H(H(JCS(jwk)))) i.e. the hash of the reveal digest.
func (k *Key) Commitment(code uint64) string {
	return MH(code, HashFor(code, Canon(k.JWK())))
}

func hashForSig(t KeyType, msg []byte) []byte {
	switch t {
	case P384:
		h := sha512.Sum384(msg)
		return h[:]
	case P521:
		h := sha512.Sum512(msg)
		return h[:]
	default:
		h := sha256.Sum256(msg)
		return h[:]
	}
}

// SignRaw signs msg; EC signatures are r||s at fixed width (deterministic given r).
func (k *Key) SignRaw(r *rand.Rand, msg []byte) []byte {
	if k.Type == Ed25519 {
		return ed25519.Sign(k.Ed, msg)
	}
	c := k.Type.Curve()
	n := c.Params().N
	h := hashForSig(k.Type, msg)
	// leftmost bits of the hash
	z := new(big.Int).SetBytes(h)
	if excess := len(h)*8 - n.BitLen(); excess > 0 {
		z.Rsh(z, uint(excess))
	}
	for {
		kk := new(big.Int).SetBytes(randBytes(r, (n.BitLen()+7)/8+8))
		kk.Mod(kk, new(big.Int).Sub(n, big.NewInt(1)))
		kk.Add(kk, big.NewInt(1))
		rx, _ := c.ScalarBaseMult(kk.Bytes())
		rr := new(big.Int).Mod(rx, n)
		if rr.Sign() == 0 {
			continue
		}
		kinv := new(big.Int).ModInverse(kk, n)
		s := new(big.Int).Mul(rr, k.D)
		s.Add(s, z)
		s.Mul(s, kinv)
		s.Mod(s, n)
		if s.Sign() == 0 {
			continue
		}
		sz := k.Type.CoordSize()
		return append(padBE(rr, sz), padBE(s, sz)...)
	}
}

// ---------------------------------------------------------------- JWS

// HeaderBytes is what json.Marshal of a map[string]interface{} header yields.
func HeaderBytes(h map[string]interface{}) []byte {
	b, err := json.Marshal(h)
	if err != nil {
		panic(err)
	}
	return b
}

// SigningInput is the compact signing input for headers and payload.
func SigningInput(headerBytes, payload []byte) []byte {
	return []byte(B64E(headerBytes) + "." + B64E(payload))
}

// CompactJWS signs payload with key k under headers h (h must carry alg).
func CompactJWS(r *rand.Rand, k *Key, h map[string]interface{}, payload []byte) string {
	hb := HeaderBytes(h)
	sig := k.SignRaw(r, SigningInput(hb, payload))
	return B64E(hb) + "." + B64E(payload) + "." + B64E(sig)
}

// ---------------------------------------------------------------- requests

type M = map[string]interface{}

// Delta builds a delta object.
func Delta(updateCommitment string, patches []interface{}) M {
	return M{"updateCommitment": updateCommitment, "patches": patches}
}

// SuffixData builds suffix data; anchorOrigin/typ are optional (nil / "").
func SuffixData(code uint64, delta M, recoveryCommitment string, anchorOrigin interface{}, typ string) M {
	sd := M{"deltaHash": ModelMH(code, delta), "recoveryCommitment": recoveryCommitment}
	if anchorOrigin != nil {
		sd["anchorOrigin"] = anchorOrigin
	}
	if typ != "" {
		sd["type"] = typ
	}
	return sd
}

func CreateRequest(sd, delta M) M {
	return M{"type": "create", "suffixData": sd, "delta": delta}
}

// Suffix is the unique suffix for suffix data.
func Suffix(code uint64, sd M) string { return ModelMH(code, sd) }

type Window struct{ From, Until int64 }

func addWindow(m M, w Window) {
	if w.From != 0 {
		m["anchorFrom"] = w.From
	}
	if w.Until != 0 {
		m["anchorUntil"] = w.Until
	}
}

func UpdateSigned(code uint64, key *Key, delta M, w Window) M {
	m := M{"updateKey": key.JWK(), "deltaHash": ModelMH(code, delta)}
	addWindow(m, w)
	return m
}

func RecoverSigned(code uint64, key *Key, delta M, nextRecoveryCommitment string, anchorOrigin interface{}, w Window) M {
	m := M{"recoveryKey": key.JWK(), "deltaHash": ModelMH(code, delta), "recoveryCommitment": nextRecoveryCommitment}
	if anchorOrigin != nil {
		m["anchorOrigin"] = anchorOrigin
	}
	addWindow(m, w)
	return m
}

func DeactivateSigned(code uint64, key *Key, suffix string, w Window) M {
	m := M{"recoveryKey": key.JWK(), "didSuffix": suffix, "revealValue": key.Reveal(code)}
	addWindow(m, w)
	return m
}

func UpdateRequest(suffix, reveal, signedData string, delta M) M {
	return M{"type": "update", "didSuffix": suffix, "revealValue": reveal, "signedData": signedData, "delta": delta}
}

func RecoverRequest(suffix, reveal, signedData string, delta M) M {
	return M{"type": "recover", "didSuffix": suffix, "revealValue": reveal, "signedData": signedData, "delta": delta}
}

func DeactivateRequest(suffix, reveal, signedData string) M {
	return M{"type": "deactivate", "didSuffix": suffix, "revealValue": reveal, "signedData": signedData}
}

// DefaultHeaders gives the protected headers the library's signers produce.
func DefaultHeaders(k *Key) M { return M{"alg": k.Type.Alg()} }

// ---------------------------------------------------------------- independent verification

func curveFor(crv string) (elliptic.Curve, int, KeyType, bool) {
	switch crv {
	case "P-256":
		return elliptic.P256(), 32, P256, true
	case "P-384":
		return elliptic.P384(), 48, P384, true
	case "P-521":
		return elliptic.P521(), 66, P521, true
	case "secp256k1":
		return btcec.S256(), 32, Secp256k1, true
	}
	return nil, 0, 0, false
}

func strMember(m map[string]interface{}, k string) string {
	s, _ := m[k].(string)
	return s
}

// VerifyJWK is the harness's own reading of "signature sig over msg verifies under this JWK":
// supported kty/crv, coordinates of exactly the curve's width that lie on the curve, signature of
// exactly twice that width (64 bytes for Ed25519), and the standard library's verdict.
func VerifyJWK(jwk map[string]interface{}, msg, sig []byte) bool {
	switch strMember(jwk, "kty") {
	case "EC":
		c, size, kt, ok := curveFor(strMember(jwk, "crv"))
		if !ok {
			return false
		}
		xb, err1 := B64.DecodeString(strMember(jwk, "x"))
		yb, err2 := B64.DecodeString(strMember(jwk, "y"))
		if err1 != nil || err2 != nil || len(xb) != size || len(yb) != size {
			return false
		}
		x, y := new(big.Int).SetBytes(xb), new(big.Int).SetBytes(yb)
		if !c.IsOnCurve(x, y) {
			return false
		}
		if len(sig) != 2*size {
			return false
		}
		h := hashForSig(kt, msg)
		return ecdsa.Verify(&ecdsa.PublicKey{Curve: c, X: x, Y: y}, h, new(big.Int).SetBytes(sig[:size]), new(big.Int).SetBytes(sig[size:]))
	case "OKP":
		if strMember(jwk, "crv") != "Ed25519" {
			return false
		}
		xb, err := B64.DecodeString(strMember(jwk, "x"))
		if err != nil || len(xb) != ed25519.PublicKeySize {
			return false
		}
		return ed25519.Verify(ed25519.PublicKey(xb), msg, sig)
	}
	return false
}
