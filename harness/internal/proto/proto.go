// Package proto implements the line protocol shared with the Lean driver:
// one case per line "<kind>\t<json>", ASCII only; answers are one JSON value per line.
package proto

import (
	"bufio"
	"bytes"
	"encoding/hex"
	"encoding/json"
	"fmt"
	"io"
	"strconv"
	"strings"
	"unicode/utf8"
)

// ASCII re-escapes every non-ASCII rune of a JSON text as \uXXXX (surrogate pairs
// above the BMP). Input must be valid JSON produced by encoding/json.
func ASCII(b []byte) []byte {
	var out bytes.Buffer
	for len(b) > 0 {
		r, n := utf8.DecodeRune(b)
		if r < 0x80 {
			out.WriteByte(b[0])
		} else if r < 0x10000 {
			fmt.Fprintf(&out, "\\u%04x", r)
		} else {
			r -= 0x10000
			fmt.Fprintf(&out, "\\u%04x\\u%04x", 0xd800+(r>>10), 0xdc00+(r&0x3ff))
		}
		b = b[n:]
	}
	return out.Bytes()
}

// Marshal encodes v as ASCII-only compact JSON without HTML escaping.
func Marshal(v interface{}) []byte {
	var buf bytes.Buffer
	enc := json.NewEncoder(&buf)
	enc.SetEscapeHTML(false)
	if err := enc.Encode(v); err != nil {
		panic(err)
	}
	return ASCII(bytes.TrimRight(buf.Bytes(), "\n"))
}

func Hex(b []byte) string { return hex.EncodeToString(b) }

func UnHex(s string) []byte {
	b, err := hex.DecodeString(s)
	if err != nil {
		panic("proto: bad hex: " + err.Error())
	}
	return b
}

// Case is one line of the protocol.
type Case struct {
	Kind string
	Body map[string]interface{}
	Raw  string
}

// Line renders a case.
func Line(kind string, body interface{}) string {
	return kind + "\t" + string(Marshal(body))
}

// Read parses case lines.
func Read(r io.Reader, fn func(c *Case)) error {
	sc := bufio.NewReaderSize(r, 1<<20)
	for {
		line, err := sc.ReadString('\n')
		if len(line) > 0 {
			line = strings.TrimRight(line, "\n")
			if line != "" {
				i := strings.IndexByte(line, '\t')
				if i < 0 {
					return fmt.Errorf("proto: malformed line %q", line)
				}
				c := &Case{Kind: line[:i], Raw: line}
				dec := json.NewDecoder(strings.NewReader(line[i+1:]))
				dec.UseNumber()
				if e := dec.Decode(&c.Body); e != nil {
					return fmt.Errorf("proto: %v in %q", e, line)
				}
				fn(c)
			}
		}
		if err == io.EOF {
			return nil
		}
		if err != nil {
			return err
		}
	}
}

// Accessors (panic on shape errors: a malformed case is a harness bug).

func (c *Case) Str(k string) string {
	v, ok := c.Body[k].(string)
	if !ok {
		panic("proto: case member " + k + " is not a string")
	}
	return v
}

func (c *Case) Bytes(k string) []byte { return UnHex(c.Str(k)) }

func (c *Case) Int(k string) int64 {
	return Num(c.Body[k])
}

// UNum reads an unsigned 64-bit number (anchoring times reach beyond the int64 range).
func UNum(v interface{}) uint64 {
	n, ok := v.(json.Number)
	if !ok {
		panic(fmt.Sprintf("proto: %v is not a number", v))
	}
	u, err := strconv.ParseUint(n.String(), 10, 64)
	if err != nil {
		panic(err)
	}
	return u
}

func (c *Case) Has(k string) bool { _, ok := c.Body[k]; return ok }

func Num(v interface{}) int64 {
	n, ok := v.(json.Number)
	if !ok {
		panic(fmt.Sprintf("proto: %v is not a number", v))
	}
	i, err := n.Int64()
	if err != nil {
		panic(err)
	}
	return i
}

func Obj(v interface{}) map[string]interface{} {
	m, ok := v.(map[string]interface{})
	if !ok {
		panic(fmt.Sprintf("proto: %v is not an object", v))
	}
	return m
}

func Arr(v interface{}) []interface{} {
	if v == nil {
		return nil
	}
	m, ok := v.([]interface{})
	if !ok {
		panic(fmt.Sprintf("proto: %v is not an array", v))
	}
	return m
}
