package operationapplier_test

// Demo for C01 finding 1: the anchoring-window check does its arithmetic in int64 and wraps around.
// Copy into pkg/versions/1_0/operationapplier/ and run
//   go test -mod=mod -vet=off -count=1 -run 'TestDemoC01' ./pkg/versions/1_0/operationapplier/

import (
	"crypto/ecdsa"
	"crypto/elliptic"
	"crypto/rand"
	"encoding/json"
	"fmt"
	"math"
	"testing"

	"github.com/trustbloc/sidetree-go/pkg/api/operation"
	"github.com/trustbloc/sidetree-go/pkg/api/protocol"
	"github.com/trustbloc/sidetree-go/pkg/commitment"
	"github.com/trustbloc/sidetree-go/pkg/hashing"
	"github.com/trustbloc/sidetree-go/pkg/jws"
	"github.com/trustbloc/sidetree-go/pkg/patch"
	"github.com/trustbloc/sidetree-go/pkg/util/ecsigner"
	"github.com/trustbloc/sidetree-go/pkg/util/pubkey"
	"github.com/trustbloc/sidetree-go/pkg/util/signutil"
	"github.com/trustbloc/sidetree-go/pkg/versions/1_0/client"
	"github.com/trustbloc/sidetree-go/pkg/versions/1_0/doccomposer"
	"github.com/trustbloc/sidetree-go/pkg/versions/1_0/model"
	"github.com/trustbloc/sidetree-go/pkg/versions/1_0/operationapplier"
	"github.com/trustbloc/sidetree-go/pkg/versions/1_0/operationparser"
)

const demoSHA256 = 18

var demoProtocol = protocol.Protocol{
	MultihashAlgorithms:    []uint{demoSHA256},
	MaxOperationSize:       20000,
	MaxOperationHashLength: 100,
	MaxDeltaSize:           10000,
	SignatureAlgorithms:    []string{"ES256"},
	KeyAlgorithms:          []string{"P-256"},
	Patches:                []string{"ietf-json-patch"},
	MaxOperationTimeDelta:  600,
	NonceSize:              16,
}

type demoKey struct {
	jwk            *jws.JWK
	signer         client.Signer
	commit, reveal string
}

func newDemoKey(t *testing.T) *demoKey {
	sk, err := ecdsa.GenerateKey(elliptic.P256(), rand.Reader)
	if err != nil {
		t.Fatal(err)
	}

	jwk, err := pubkey.GetPublicKeyJWK(&sk.PublicKey)
	if err != nil {
		t.Fatal(err)
	}

	c, err := commitment.GetCommitment(jwk, demoSHA256)
	if err != nil {
		t.Fatal(err)
	}

	r, err := commitment.GetRevealValue(jwk, demoSHA256)
	if err != nil {
		t.Fatal(err)
	}

	return &demoKey{jwk: jwk, signer: ecsigner.New(sk, "ES256", ""), commit: c, reveal: r}
}

func demoJSONPatch(t *testing.T, s string) patch.Patch {
	p, err := patch.NewJSONPatch(s)
	if err != nil {
		t.Fatal(err)
	}

	return p
}

// created returns the state after a valid create anchored at the given time.
func created(t *testing.T, a *operationapplier.Applier, rec, upd *demoKey, txTime uint64) *protocol.ResolutionModel {
	req, err := client.NewCreateRequest(&client.CreateRequestInfo{
		Patches:            []patch.Patch{demoJSONPatch(t, `[{"op":"add","path":"/a","value":"created"}]`)},
		RecoveryCommitment: rec.commit, UpdateCommitment: upd.commit, MultihashCode: demoSHA256,
	})
	if err != nil {
		t.Fatal(err)
	}

	rm, err := a.Apply(&operation.AnchoredOperation{Type: operation.TypeCreate, OperationRequest: req,
		TransactionTime: txTime, TransactionNumber: 1, CanonicalReference: "c1"}, &protocol.ResolutionModel{})
	if err != nil {
		t.Fatal(err)
	}

	return rm
}

// An update whose window is [from, from+MaxOperationTimeDelta] (anchorUntil omitted) anchored exactly at 'from'
// is inside its window, so its patch must be applied. With from = MaxInt64 the default until wraps to a negative
// number and the update is treated as expired: the commitment advances but the document is left unchanged.
func TestDemoC01_InWindowUpdateTreatedAsExpired(t *testing.T) {
	a := operationapplier.New(demoProtocol, operationparser.New(demoProtocol), doccomposer.New())
	rec, upd1, upd2 := newDemoKey(t), newDemoKey(t), newDemoKey(t)

	const txTime = uint64(math.MaxInt64)

	rm := created(t, a, rec, upd1, txTime)

	// the client helper canonicalizes numbers through float64, which cannot spell MaxInt64, so the signed data
	// is written out by hand (the parser does not require signed data to be canonical)
	delta := &model.DeltaModel{UpdateCommitment: upd2.commit,
		Patches: []patch.Patch{demoJSONPatch(t, `[{"op":"add","path":"/b","value":"updated"}]`)}}

	deltaHash, err := hashing.CalculateModelMultihash(delta, demoSHA256)
	if err != nil {
		t.Fatal(err)
	}

	keyBytes, err := json.Marshal(upd1.jwk)
	if err != nil {
		t.Fatal(err)
	}

	signedData, err := signutil.SignPayload([]byte(fmt.Sprintf(`{"anchorFrom":%d,"deltaHash":%q,"updateKey":%s}`,
		int64(math.MaxInt64), deltaHash, keyBytes)), upd1.signer)
	if err != nil {
		t.Fatal(err)
	}

	req, err := json.Marshal(&model.UpdateRequest{Operation: operation.TypeUpdate, DidSuffix: "suffix",
		RevealValue: upd1.reveal, SignedData: signedData, Delta: delta})
	if err != nil {
		t.Fatal(err)
	}

	rm2, err := a.Apply(&operation.AnchoredOperation{Type: operation.TypeUpdate, OperationRequest: req,
		TransactionTime: txTime, TransactionNumber: 2, CanonicalReference: "c2"}, rm)
	if err != nil {
		t.Fatalf("update refused: %v", err)
	}

	if rm2.UpdateCommitment != upd2.commit {
		t.Fatalf("update commitment not advanced")
	}

	if rm2.Doc["b"] != "updated" {
		t.Fatalf("update anchored at time T=%d with anchorFrom=%d (window [from, from+%d]) is inside its window, "+
			"but its patch was not applied: doc=%v", txTime, int64(math.MaxInt64), demoProtocol.MaxOperationTimeDelta, rm2.Doc)
	}
}

// A deactivate with window [-1, -1+600] anchored at transaction time MaxUint64 is far outside its window and must be
// refused. int64(MaxUint64) is -1, so both comparisons pass and the DID is deactivated.
func TestDemoC01_ExpiredDeactivateAccepted(t *testing.T) {
	a := operationapplier.New(demoProtocol, operationparser.New(demoProtocol), doccomposer.New())
	rec, upd1 := newDemoKey(t), newDemoKey(t)

	const txTime = uint64(math.MaxUint64)

	rm := created(t, a, rec, upd1, 10)

	req, err := client.NewDeactivateRequest(&client.DeactivateRequestInfo{DidSuffix: "suffix", RecoveryKey: rec.jwk,
		Signer: rec.signer, RevealValue: rec.reveal, AnchorFrom: -1})
	if err != nil {
		t.Fatal(err)
	}

	rm2, err := a.Apply(&operation.AnchoredOperation{Type: operation.TypeDeactivate, OperationRequest: req,
		TransactionTime: txTime, TransactionNumber: 2, CanonicalReference: "c2"}, rm)
	if err == nil {
		t.Fatalf("deactivate with window [-1, 599] anchored at time %d was accepted (deactivated=%v); "+
			"it is outside its anchoring window and must be refused", txTime, rm2.Deactivated)
	}
}
