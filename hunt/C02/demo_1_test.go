package operationapplier_test

// Demo for C02 finding 1: the JWS signing input is rebuilt from the decoded header/payload instead of the transmitted
// segments, so a compact JWS whose protected-header (or payload) segment was altered after signing still "verifies".
// Copy into pkg/versions/1_0/operationapplier/ and run
//   go test -mod=mod -vet=off -count=1 -run 'TestDemoC02' ./pkg/versions/1_0/operationapplier/

import (
	"crypto/ecdsa"
	"crypto/elliptic"
	"crypto/rand"
	"encoding/base64"
	"encoding/json"
	"strings"
	"testing"

	"github.com/trustbloc/sidetree-go/pkg/api/operation"
	"github.com/trustbloc/sidetree-go/pkg/api/protocol"
	"github.com/trustbloc/sidetree-go/pkg/commitment"
	"github.com/trustbloc/sidetree-go/pkg/patch"
	"github.com/trustbloc/sidetree-go/pkg/util/ecsigner"
	"github.com/trustbloc/sidetree-go/pkg/util/pubkey"
	"github.com/trustbloc/sidetree-go/pkg/versions/1_0/client"
	"github.com/trustbloc/sidetree-go/pkg/versions/1_0/doccomposer"
	"github.com/trustbloc/sidetree-go/pkg/versions/1_0/operationapplier"
	"github.com/trustbloc/sidetree-go/pkg/versions/1_0/operationparser"
)

func TestDemoC02_AlteredProtectedHeaderStillVerifies(t *testing.T) {
	const sha256Code = 18

	p := protocol.Protocol{
		MultihashAlgorithms:    []uint{sha256Code},
		MaxOperationSize:       20000,
		MaxOperationHashLength: 100,
		MaxDeltaSize:           10000,
		SignatureAlgorithms:    []string{"ES256"},
		KeyAlgorithms:          []string{"P-256"},
		Patches:                []string{"ietf-json-patch"},
		MaxOperationTimeDelta:  600,
		NonceSize:              16,
	}

	applier := operationapplier.New(p, operationparser.New(p), doccomposer.New())

	newCommitment := func() string {
		sk, err := ecdsa.GenerateKey(elliptic.P256(), rand.Reader)
		if err != nil {
			t.Fatal(err)
		}

		jwk, err := pubkey.GetPublicKeyJWK(&sk.PublicKey)
		if err != nil {
			t.Fatal(err)
		}

		c, err := commitment.GetCommitment(jwk, sha256Code)
		if err != nil {
			t.Fatal(err)
		}

		return c
	}

	updateKey, err := ecdsa.GenerateKey(elliptic.P256(), rand.Reader)
	if err != nil {
		t.Fatal(err)
	}

	updateJWK, err := pubkey.GetPublicKeyJWK(&updateKey.PublicKey)
	if err != nil {
		t.Fatal(err)
	}

	updateCommitment, err := commitment.GetCommitment(updateJWK, sha256Code)
	if err != nil {
		t.Fatal(err)
	}

	updateReveal, err := commitment.GetRevealValue(updateJWK, sha256Code)
	if err != nil {
		t.Fatal(err)
	}

	addA, err := patch.NewJSONPatch(`[{"op":"add","path":"/a","value":1}]`)
	if err != nil {
		t.Fatal(err)
	}

	createReq, err := client.NewCreateRequest(&client.CreateRequestInfo{Patches: []patch.Patch{addA},
		RecoveryCommitment: newCommitment(), UpdateCommitment: updateCommitment, MultihashCode: sha256Code})
	if err != nil {
		t.Fatal(err)
	}

	rm, err := applier.Apply(&operation.AnchoredOperation{Type: operation.TypeCreate, OperationRequest: createReq,
		TransactionTime: 1, CanonicalReference: "c1"}, &protocol.ResolutionModel{})
	if err != nil {
		t.Fatal(err)
	}

	addB, err := patch.NewJSONPatch(`[{"op":"add","path":"/b","value":2}]`)
	if err != nil {
		t.Fatal(err)
	}

	updateReq, err := client.NewUpdateRequest(&client.UpdateRequestInfo{DidSuffix: "suffix", Patches: []patch.Patch{addB},
		UpdateCommitment: newCommitment(), UpdateKey: updateJWK, MultihashCode: sha256Code,
		Signer: ecsigner.New(updateKey, "ES256", ""), RevealValue: updateReveal})
	if err != nil {
		t.Fatal(err)
	}

	var req map[string]interface{}
	if err := json.Unmarshal(updateReq, &req); err != nil {
		t.Fatal(err)
	}

	signedData := req["signedData"].(string)
	parts := strings.Split(signedData, ".")

	header, err := base64.RawURLEncoding.DecodeString(parts[0])
	if err != nil {
		t.Fatal(err)
	}

	if string(header) != `{"alg":"ES256"}` {
		t.Fatalf("unexpected header %s", header)
	}

	apply := func(sd string) error {
		req["signedData"] = sd

		b, e := json.Marshal(req)
		if e != nil {
			t.Fatal(e)
		}

		_, e = applier.Apply(&operation.AnchoredOperation{Type: operation.TypeUpdate, OperationRequest: b,
			TransactionTime: 2, CanonicalReference: "c2"}, rm)

		return e
	}

	if err := apply(signedData); err != nil {
		t.Fatalf("the untampered update must be accepted: %v", err)
	}

	// The signature was computed over BASE64URL({"alg":"ES256"}) || '.' || BASE64URL(payload).
	// Each tampered JWS below carries a different first/second segment, so its RFC 7515 signing input differs from
	// what was signed: the JWS does not verify under the update key and the operation must be refused.
	tampered := map[string]string{
		"header with whitespace":        base64.RawURLEncoding.EncodeToString([]byte(`{ "alg" : "ES256" }`)) + "." + parts[1] + "." + parts[2],
		"header with escaped name":      base64.RawURLEncoding.EncodeToString([]byte(`{"\u0061lg":"ES256"}`)) + "." + parts[1] + "." + parts[2],
		"header segment with line feed": parts[0][:4] + "\n" + parts[0][4:] + "." + parts[1] + "." + parts[2],
		"payload segment with CR LF":    parts[0] + "." + parts[1][:8] + "\r\n" + parts[1][8:] + "." + parts[2],
	}

	for name, sd := range tampered {
		if err := apply(sd); err == nil {
			t.Errorf("%s: signed data altered after signing (no re-signing) was accepted and changed the state; "+
				"the compact JWS %q does not verify over its own segments", name, sd)
		}
	}
}
