package operationparser_test

// Demo for C03 finding 1: the unique suffix and the delta-hash check are computed over the decoded Go structs, not
// over the suffix data / delta carried by the request, so parts of them can be changed without changing the DID.
// Copy into pkg/versions/1_0/operationparser/ and run
//   go test -mod=mod -vet=off -count=1 -run 'TestDemoC03' ./pkg/versions/1_0/operationparser/

import (
	"encoding/json"
	"strings"
	"testing"

	"github.com/trustbloc/sidetree-go/pkg/api/protocol"
	"github.com/trustbloc/sidetree-go/pkg/canonicalizer"
	"github.com/trustbloc/sidetree-go/pkg/encoder"
	"github.com/trustbloc/sidetree-go/pkg/hashing"
	"github.com/trustbloc/sidetree-go/pkg/patch"
	"github.com/trustbloc/sidetree-go/pkg/versions/1_0/client"
	"github.com/trustbloc/sidetree-go/pkg/versions/1_0/operationparser"
)

const (
	demoNamespace = "did:sidetree"
	demoSHA256    = 18
)

func demoSetup(t *testing.T) (*operationparser.Parser, string, string) {
	p := protocol.Protocol{
		MultihashAlgorithms:    []uint{demoSHA256},
		MaxOperationSize:       20000,
		MaxOperationHashLength: 100,
		MaxDeltaSize:           10000,
		SignatureAlgorithms:    []string{"ES256"},
		KeyAlgorithms:          []string{"P-256"},
		Patches:                []string{"ietf-json-patch"},
		MaxOperationTimeDelta:  600,
		NonceSize:              16,
	}

	commitment := func(seed string) string {
		c, err := hashing.CalculateModelMultihash(map[string]string{"seed": seed}, demoSHA256)
		if err != nil {
			t.Fatal(err)
		}

		return c
	}

	jsonPatch, err := patch.NewJSONPatch(`[{"op":"add","path":"/a","value":1}]`)
	if err != nil {
		t.Fatal(err)
	}

	req, err := client.NewCreateRequest(&client.CreateRequestInfo{Patches: []patch.Patch{jsonPatch},
		RecoveryCommitment: commitment("recovery"), UpdateCommitment: commitment("update"), MultihashCode: demoSHA256})
	if err != nil {
		t.Fatal(err)
	}

	parser := operationparser.New(p)

	op, err := parser.Parse(demoNamespace, req)
	if err != nil {
		t.Fatalf("the unmodified request must be accepted: %v", err)
	}

	return parser, string(req), op.ID
}

// multihash of the canonicalized member of the request, computed independently from the request bytes.
func hashOfMember(t *testing.T, request, member string) string {
	var m map[string]json.RawMessage
	if err := json.Unmarshal([]byte(request), &m); err != nil {
		t.Fatal(err)
	}

	canonical, err := canonicalizer.MarshalCanonical([]byte(m[member]))
	if err != nil {
		t.Fatal(err)
	}

	h, err := hashing.ComputeMultihash(demoSHA256, canonical)
	if err != nil {
		t.Fatal(err)
	}

	return encoder.EncodeToString(h)
}

func TestDemoC03_SuffixDataNotBound(t *testing.T) {
	parser, req, did := demoSetup(t)

	modified := map[string]string{
		"unknown member added":            strings.Replace(req, `"suffixData":{`, `"suffixData":{"controller":"did:example:mallory",`, 1),
		"explicit null anchor origin":     strings.Replace(req, `"suffixData":{`, `"suffixData":{"anchorOrigin":null,`, 1),
		"explicit empty type":             strings.Replace(req, `"suffixData":{`, `"suffixData":{"type":"",`, 1),
		"member name in a different case": strings.Replace(req, `"recoveryCommitment"`, `"RecoveryCommitment"`, 1),
	}

	for name, r := range modified {
		if r == req {
			t.Fatalf("%s: request not modified", name)
		}

		op, err := parser.Parse(demoNamespace, []byte(r))
		if err != nil {
			continue // rejection is fine
		}

		if op.ID == did {
			t.Errorf("%s: suffix data was changed but the request is accepted with the unchanged DID %s", name, did)
		}

		if want := hashOfMember(t, r, "suffixData"); op.UniqueSuffix != want {
			t.Errorf("%s: unique suffix %s is not the multihash of the canonicalized suffix data of the request (%s)",
				name, op.UniqueSuffix, want)
		}
	}
}

func TestDemoC03_DeltaNotBound(t *testing.T) {
	parser, req, did := demoSetup(t)

	var decoded struct {
		SuffixData struct {
			DeltaHash string `json:"deltaHash"`
		} `json:"suffixData"`
	}

	if err := json.Unmarshal([]byte(req), &decoded); err != nil {
		t.Fatal(err)
	}

	modified := map[string]string{
		"unknown member added":            strings.Replace(req, `"delta":{`, `"delta":{"controller":"did:example:mallory",`, 1),
		"member name in a different case": strings.Replace(req, `"updateCommitment"`, `"UpdateCommitment"`, 1),
	}

	for name, r := range modified {
		if r == req {
			t.Fatalf("%s: request not modified", name)
		}

		op, err := parser.Parse(demoNamespace, []byte(r)) // Parse is the non-batch mode
		if err != nil {
			continue // rejection is fine
		}

		if got := hashOfMember(t, r, "delta"); op.ID == did && got != decoded.SuffixData.DeltaHash {
			t.Errorf("%s: accepted outside batch mode with the unchanged DID although the delta of the request hashes to %s "+
				"and the suffix data records %s", name, got, decoded.SuffixData.DeltaHash)
		}
	}
}
