package operationparser_test

// Demo for C04 finding 1: the reveal value / commitment of an Ed25519 (OKP) key is not computed over the key's JWK but
// over the JWK plus an invented member "y":"" (jws.JWK marshals y without omitempty).
// Copy into pkg/versions/1_0/operationparser/ and run
//   go test -mod=mod -vet=off -count=1 -run 'TestDemoC04' ./pkg/versions/1_0/operationparser/

import (
	"crypto/ed25519"
	"crypto/rand"
	"crypto/sha256"
	"encoding/base64"
	"encoding/json"
	"fmt"
	"testing"

	"github.com/multiformats/go-multihash"

	"github.com/trustbloc/sidetree-go/pkg/api/operation"
	"github.com/trustbloc/sidetree-go/pkg/api/protocol"
	"github.com/trustbloc/sidetree-go/pkg/canonicalizer"
	"github.com/trustbloc/sidetree-go/pkg/commitment"
	"github.com/trustbloc/sidetree-go/pkg/hashing"
	"github.com/trustbloc/sidetree-go/pkg/jws"
	"github.com/trustbloc/sidetree-go/pkg/patch"
	"github.com/trustbloc/sidetree-go/pkg/util/edsigner"
	"github.com/trustbloc/sidetree-go/pkg/util/signutil"
	"github.com/trustbloc/sidetree-go/pkg/versions/1_0/model"
	"github.com/trustbloc/sidetree-go/pkg/versions/1_0/operationparser"
)

func sha256Multihash(t *testing.T, data []byte) string {
	digest := sha256.Sum256(data)

	mh, err := multihash.Encode(digest[:], multihash.SHA2_256)
	if err != nil {
		t.Fatal(err)
	}

	return base64.RawURLEncoding.EncodeToString(mh)
}

func TestDemoC04_Ed25519RevealValueIsNotHashOfTheJWK(t *testing.T) {
	pub, priv, err := ed25519.GenerateKey(rand.Reader)
	if err != nil {
		t.Fatal(err)
	}

	// RFC 8037 JWK of the key, already in JCS form: an OKP key has no "y" member
	jwkJSON := fmt.Sprintf(`{"crv":"Ed25519","kty":"OKP","x":"%s"}`, base64.RawURLEncoding.EncodeToString(pub))

	canonical, err := canonicalizer.MarshalCanonical([]byte(jwkJSON))
	if err != nil {
		t.Fatal(err)
	}

	if string(canonical) != jwkJSON {
		t.Fatalf("JWK text is not canonical: %s", canonical)
	}

	wantReveal := sha256Multihash(t, canonical) // "the reveal value is the multihash of the canonicalized JWK"

	// 1. library function on the same key
	var key jws.JWK
	if err := json.Unmarshal([]byte(jwkJSON), &key); err != nil {
		t.Fatal(err)
	}

	gotReveal, err := commitment.GetRevealValue(&key, multihash.SHA2_256)
	if err != nil {
		t.Fatal(err)
	}

	if gotReveal != wantReveal {
		t.Errorf("GetRevealValue(%s) = %s, but the multihash of the canonicalized JWK is %s", jwkJSON, gotReveal, wantReveal)
	}

	// 2. parser on an update operation that carries this key and the multihash of its canonicalized JWK as reveal value
	p := protocol.Protocol{
		MultihashAlgorithms:    []uint{multihash.SHA2_256},
		MaxOperationSize:       20000,
		MaxOperationHashLength: 100,
		MaxDeltaSize:           10000,
		SignatureAlgorithms:    []string{"EdDSA"},
		KeyAlgorithms:          []string{"Ed25519"},
		Patches:                []string{"ietf-json-patch"},
		MaxOperationTimeDelta:  600,
		NonceSize:              16,
	}

	jsonPatch, err := patch.NewJSONPatch(`[{"op":"add","path":"/a","value":1}]`)
	if err != nil {
		t.Fatal(err)
	}

	delta := &model.DeltaModel{UpdateCommitment: sha256Multihash(t, []byte("next")), Patches: []patch.Patch{jsonPatch}}

	deltaHash, err := hashing.CalculateModelMultihash(delta, multihash.SHA2_256)
	if err != nil {
		t.Fatal(err)
	}

	signedData, err := signutil.SignPayload([]byte(fmt.Sprintf(`{"deltaHash":%q,"updateKey":%s}`, deltaHash, jwkJSON)),
		edsigner.New(priv, "EdDSA", ""))
	if err != nil {
		t.Fatal(err)
	}

	request, err := canonicalizer.MarshalCanonical(&model.UpdateRequest{Operation: operation.TypeUpdate, DidSuffix: "suffix",
		RevealValue: wantReveal, SignedData: signedData, Delta: delta})
	if err != nil {
		t.Fatal(err)
	}

	reported, err := operationparser.New(p).GetRevealValue(request)
	if err != nil {
		t.Fatalf("update whose reveal value is the multihash of its canonicalized update key %s is refused: %v", jwkJSON, err)
	}

	if reported != wantReveal {
		t.Fatalf("reported reveal value %s, want %s", reported, wantReveal)
	}
}
