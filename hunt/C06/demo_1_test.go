package hashing

import (
	"testing"
)

// C06 finding 1: strings that are not well-formed unpadded base64url (embedded CR/LF,
// non-zero unused trailing bits) are accepted by GetMultihashCode and
// IsComputedUsingMultihashAlgorithms.
func TestDemoC06_1_NonCanonicalBase64Accepted(t *testing.T) {
	v := map[string]interface{}{"a": 1}

	for _, code := range []uint{0x12, 0x13} {
		h, err := CalculateModelMultihash(v, code)
		if err != nil {
			t.Fatal(err)
		}

		bad := map[string]string{
			"LF inside": h[:7] + "\n" + h[7:],
			"CR at end": h + "\r",
			"LF at end": h + "\n",
		}

		if code == 0x12 {
			// 34 bytes -> 46 characters, the last one carries 4 unused bits that must be zero
			bad["unused trailing bits set"] = h[:len(h)-1] + string(rune(h[len(h)-1]+1))
		}

		for name, s := range bad {
			if c, err := GetMultihashCode(s); err == nil {
				t.Errorf("code %#x, %s: GetMultihashCode(%q) = %d, nil; want an error (not base64url)", code, name, s, c)
			}

			if IsComputedUsingMultihashAlgorithms(s, []uint{code}) {
				t.Errorf("code %#x, %s: IsComputedUsingMultihashAlgorithms(%q) = true; want false", code, name, s)
			}
		}
	}

	if t.Failed() {
		t.Fatalf("malformed encoded multihashes were accepted")
	}
}
