package hashing

import (
	"crypto/sha256"
	"encoding/base64"
	"testing"
)

// C06 finding 2: the model multihash of a JSON value that is not an object or array
// (string, number, true/false, null) is an error instead of the hash of its JCS form.
func TestDemoC06_2_TopLevelScalar(t *testing.T) {
	cases := []struct {
		v   interface{}
		jcs string
	}{
		{"abc", `"abc"`},
		{1.5, `1.5`},
		{true, `true`},
		{nil, `null`},
	}

	for _, c := range cases {
		d := sha256.Sum256([]byte(c.jcs))
		want := base64.RawURLEncoding.EncodeToString(append([]byte{0x12, 0x20}, d[:]...))

		got, err := CalculateModelMultihash(c.v, 0x12)
		if err != nil {
			t.Errorf("CalculateModelMultihash(%v): error %q; want %s", c.v, err, want)
			continue
		}

		if got != want {
			t.Errorf("CalculateModelMultihash(%v) = %s; want %s", c.v, got, want)
		}
	}

	if t.Failed() {
		t.Fatalf("JSON-serializable scalars cannot be hashed")
	}
}
