package hashing

import "testing"

// C06 finding 3 (borderline - depends on whether integers beyond 2^53 count as distinct JSON values):
// two values whose JSON texts differ in one digit validate against each other's hash.
func TestDemoC06_3_BigIntegerCollision(t *testing.T) {
	type m struct {
		N int64 `json:"n"`
	}

	a := m{N: 9007199254740993}
	b := m{N: 9007199254740992}

	h, err := CalculateModelMultihash(a, 0x12)
	if err != nil {
		t.Fatal(err)
	}

	if err := IsValidModelMultihash(b, h); err == nil {
		t.Fatalf("value %+v validates against the hash of %+v", b, a)
	}
}
