package operationparser_test

import (
	"testing"

	"github.com/trustbloc/sidetree-go/pkg/patch"
	"github.com/trustbloc/sidetree-go/pkg/util/ecsigner"
	"github.com/trustbloc/sidetree-go/pkg/versions/1_0/client"
	"github.com/trustbloc/sidetree-go/pkg/versions/1_0/operationparser"
)

// C07 finding 1: a recover request whose next UPDATE commitment is the commitment of the
// recovery key it is signed with (the key revealed by this very request) is accepted.
func TestDemoC07_1_RecoverReusesCurrentKeyAsUpdateKey(t *testing.T) {
	current := c07NewKey(t)
	nextRecovery := c07NewKey(t)

	req, err := client.NewRecoverRequest(&client.RecoverRequestInfo{
		DidSuffix:          "EiDyOQbbZAa3aiRzeCkV7LOx3SERjjH93EXoIM3UoN4oWg",
		RecoveryKey:        current.jwk,
		Patches:            []patch.Patch{c07Patch(t)},
		RecoveryCommitment: nextRecovery.commitment,
		UpdateCommitment:   current.commitment, // <- commitment of the current (now public) recovery key
		MultihashCode:      c07sha256,
		Signer:             ecsigner.New(current.priv, "ES256", ""),
		RevealValue:        current.reveal,
	})
	if err != nil {
		t.Skipf("builder refused: %s", err)
	}

	op, err := operationparser.New(c07Protocol()).Parse("did:sidetree", req)
	if err == nil {
		t.Fatalf("recover request whose next update commitment equals the current recovery key's commitment was accepted (suffix %s)", op.UniqueSuffix)
	}
}
