package operationparser_test

import (
	"testing"

	"github.com/trustbloc/sidetree-go/pkg/patch"
	"github.com/trustbloc/sidetree-go/pkg/util/ecsigner"
	"github.com/trustbloc/sidetree-go/pkg/versions/1_0/client"
	"github.com/trustbloc/sidetree-go/pkg/versions/1_0/operationparser"
)

// C07 finding 2: the "commitments differ" rules compare strings, the "is a hash" rule decodes leniently;
// a second base64url spelling of the same multihash bytes bypasses both rules.
func TestDemoC07_2_RespelledCommitments(t *testing.T) {
	p := operationparser.New(c07Protocol())

	t.Run("create: update commitment == recovery commitment", func(t *testing.T) {
		k := c07NewKey(t)

		req, err := client.NewCreateRequest(&client.CreateRequestInfo{
			Patches:            []patch.Patch{c07Patch(t)},
			RecoveryCommitment: k.commitment,
			UpdateCommitment:   c07Respell(t, k.commitment),
			MultihashCode:      c07sha256,
		})
		if err != nil {
			t.Skipf("builder refused: %s", err)
		}

		if _, err := p.Parse("did:sidetree", req); err == nil {
			t.Fatalf("create with the same commitment (two spellings %s / %s) for update and recovery was accepted",
				k.commitment, c07Respell(t, k.commitment))
		}
	})

	t.Run("update: next commitment == commitment of the current key", func(t *testing.T) {
		k := c07NewKey(t)

		req, err := client.NewUpdateRequest(&client.UpdateRequestInfo{
			DidSuffix:        "EiDyOQbbZAa3aiRzeCkV7LOx3SERjjH93EXoIM3UoN4oWg",
			UpdateKey:        k.jwk,
			Patches:          []patch.Patch{c07Patch(t)},
			UpdateCommitment: c07Respell(t, k.commitment),
			MultihashCode:    c07sha256,
			Signer:           ecsigner.New(k.priv, "ES256", ""),
			RevealValue:      k.reveal,
		})
		if err != nil {
			t.Skipf("builder refused: %s", err)
		}

		if _, err := p.Parse("did:sidetree", req); err == nil {
			t.Fatalf("update that commits to its own signing key again (respelled commitment) was accepted")
		}
	})

	t.Run("create: commitment with line break", func(t *testing.T) {
		k := c07NewKey(t)
		k2 := c07NewKey(t)

		req, err := client.NewCreateRequest(&client.CreateRequestInfo{
			Patches:            []patch.Patch{c07Patch(t)},
			RecoveryCommitment: k.commitment[:10] + "\n" + k.commitment[10:],
			UpdateCommitment:   k2.commitment,
			MultihashCode:      c07sha256,
		})
		if err != nil {
			t.Skipf("builder refused: %s", err)
		}

		if _, err := p.Parse("did:sidetree", req); err == nil {
			t.Fatalf("create whose recovery commitment contains a line break was accepted")
		}
	})
}
