package operationparser_test

import (
	"strings"
	"testing"

	"github.com/trustbloc/sidetree-go/pkg/patch"
	"github.com/trustbloc/sidetree-go/pkg/util/ecsigner"
	"github.com/trustbloc/sidetree-go/pkg/versions/1_0/client"
	"github.com/trustbloc/sidetree-go/pkg/versions/1_0/operationparser"
)

// C07 finding 3: the did suffix of update / recover / deactivate requests is a hash (of the suffix data)
// but is subject neither to the algorithm rule nor to the maximum hash length.
func TestDemoC07_3_DidSuffixIsNotValidatedAsHash(t *testing.T) {
	p := operationparser.New(c07Protocol()) // MaxOperationHashLength 100, only SHA-256

	for _, suffix := range []string{"x", "not base64 !!!", strings.Repeat("A", 5000)} {
		k := c07NewKey(t)
		next := c07NewKey(t)

		req, err := client.NewUpdateRequest(&client.UpdateRequestInfo{
			DidSuffix:        suffix,
			UpdateKey:        k.jwk,
			Patches:          []patch.Patch{c07Patch(t)},
			UpdateCommitment: next.commitment,
			MultihashCode:    c07sha256,
			Signer:           ecsigner.New(k.priv, "ES256", ""),
			RevealValue:      k.reveal,
		})
		if err != nil {
			t.Fatal(err)
		}

		if op, err := p.Parse("did:sidetree", req); err == nil {
			t.Errorf("update with didSuffix %.20q (length %d) accepted, id %.40q", suffix, len(suffix), op.ID)
		}
	}

	if t.Failed() {
		t.Fatalf("did suffix is not checked against the hash rules")
	}
}
