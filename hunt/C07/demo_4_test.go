package operationparser_test

import (
	"encoding/base64"
	"encoding/json"
	"strings"
	"testing"

	"github.com/trustbloc/sidetree-go/pkg/hashing"
	"github.com/trustbloc/sidetree-go/pkg/patch"
	"github.com/trustbloc/sidetree-go/pkg/util/ecsigner"
	"github.com/trustbloc/sidetree-go/pkg/versions/1_0/client"
	"github.com/trustbloc/sidetree-go/pkg/versions/1_0/operationparser"
)

// C07 finding 4: delta size, delta hash and reveal value are checked on the re-marshalled Go structs,
// not on what the request carries; members the structs do not know are invisible to the rules.
func TestDemoC07_4_UnknownMembersInvisible(t *testing.T) {
	p := operationparser.New(c07Protocol()) // MaxDeltaSize 2000

	t.Run("delta of 5 kB accepted with MaxDeltaSize 2000", func(t *testing.T) {
		req, err := client.NewCreateRequest(&client.CreateRequestInfo{
			Patches:            []patch.Patch{c07Patch(t)},
			RecoveryCommitment: c07NewKey(t).commitment,
			UpdateCommitment:   c07NewKey(t).commitment,
			MultihashCode:      c07sha256,
		})
		if err != nil {
			t.Fatal(err)
		}

		var m map[string]interface{}
		if err := json.Unmarshal(req, &m); err != nil {
			t.Fatal(err)
		}

		m["delta"].(map[string]interface{})["x"] = strings.Repeat("x", 5000)

		big, err := json.Marshal(m)
		if err != nil {
			t.Fatal(err)
		}

		if _, err := p.Parse("did:sidetree", big); err == nil {
			t.Fatalf("create whose delta object is > 5000 bytes (and does not hash to deltaHash) accepted with MaxDeltaSize 2000")
		}
	})

	t.Run("reveal value of the key as sent is refused", func(t *testing.T) {
		k := c07NewKey(t)

		req, err := client.NewUpdateRequest(&client.UpdateRequestInfo{
			DidSuffix:        "EiDyOQbbZAa3aiRzeCkV7LOx3SERjjH93EXoIM3UoN4oWg",
			UpdateKey:        k.jwk,
			Patches:          []patch.Patch{c07Patch(t)},
			UpdateCommitment: c07NewKey(t).commitment,
			MultihashCode:    c07sha256,
			Signer:           ecsigner.New(k.priv, "ES256", ""),
			RevealValue:      k.reveal,
		})
		if err != nil {
			t.Fatal(err)
		}

		var m map[string]interface{}
		if err := json.Unmarshal(req, &m); err != nil {
			t.Fatal(err)
		}

		parts := strings.Split(m["signedData"].(string), ".")

		payload, err := base64.RawURLEncoding.DecodeString(parts[1])
		if err != nil {
			t.Fatal(err)
		}

		var sd map[string]interface{}
		if err := json.Unmarshal(payload, &sd); err != nil {
			t.Fatal(err)
		}

		// a JWK with the perfectly ordinary "kid" member
		sd["updateKey"].(map[string]interface{})["kid"] = "key-1"

		payload, err = json.Marshal(sd)
		if err != nil {
			t.Fatal(err)
		}

		// the parser does not verify the signature, so the old signature part can stay
		m["signedData"] = parts[0] + "." + base64.RawURLEncoding.EncodeToString(payload) + "." + parts[2]

		// reveal value = hash of the signing key that the signed data contains
		m["revealValue"], err = hashing.CalculateModelMultihash(sd["updateKey"], c07sha256)
		if err != nil {
			t.Fatal(err)
		}

		b, err := json.Marshal(m)
		if err != nil {
			t.Fatal(err)
		}

		if _, err := p.Parse("did:sidetree", b); err != nil {
			t.Fatalf("update whose reveal value is the hash of the signing key in its signed data was refused: %s", err)
		}
	})
}
