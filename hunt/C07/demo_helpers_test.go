package operationparser_test

// shared helpers for the C07 demos (copy together with the demo files)

import (
	"crypto/ecdsa"
	"crypto/elliptic"
	"crypto/rand"
	"encoding/base64"
	"testing"

	"github.com/trustbloc/sidetree-go/pkg/api/protocol"
	"github.com/trustbloc/sidetree-go/pkg/commitment"
	"github.com/trustbloc/sidetree-go/pkg/jws"
	"github.com/trustbloc/sidetree-go/pkg/patch"
	"github.com/trustbloc/sidetree-go/pkg/util/pubkey"
)

const c07sha256 = 18

func c07Protocol() protocol.Protocol {
	return protocol.Protocol{
		MultihashAlgorithms:    []uint{c07sha256},
		MaxOperationSize:       20000,
		MaxOperationHashLength: 100,
		MaxDeltaSize:           2000,
		Patches: []string{"replace", "add-public-keys", "remove-public-keys", "add-services", "remove-services",
			"ietf-json-patch", "add-also-known-as", "remove-also-known-as"},
		SignatureAlgorithms:   []string{"ES256"},
		KeyAlgorithms:         []string{"P-256"},
		MaxOperationTimeDelta: 600,
		NonceSize:             16,
	}
}

type c07Key struct {
	priv       *ecdsa.PrivateKey
	jwk        *jws.JWK
	commitment string
	reveal     string
}

func c07NewKey(t *testing.T) *c07Key {
	t.Helper()

	priv, err := ecdsa.GenerateKey(elliptic.P256(), rand.Reader)
	if err != nil {
		t.Fatal(err)
	}

	jwk, err := pubkey.GetPublicKeyJWK(&priv.PublicKey)
	if err != nil {
		t.Fatal(err)
	}

	c, err := commitment.GetCommitment(jwk, c07sha256)
	if err != nil {
		t.Fatal(err)
	}

	rv, err := commitment.GetRevealValue(jwk, c07sha256)
	if err != nil {
		t.Fatal(err)
	}

	return &c07Key{priv: priv, jwk: jwk, commitment: c, reveal: rv}
}

func c07Patch(t *testing.T) patch.Patch {
	t.Helper()

	p, err := patch.NewAddServiceEndpointsPatch(`[{"id":"svc","type":"t","serviceEndpoint":"https://example.com"}]`)
	if err != nil {
		t.Fatal(err)
	}

	return p
}

// c07Respell returns another string that base64url-decodes to the same bytes as h
// (a SHA-256 multihash has 34 bytes = 46 characters, the last one has 4 unused bits).
func c07Respell(t *testing.T, h string) string {
	t.Helper()

	b, err := base64.RawURLEncoding.DecodeString(h)
	if err != nil {
		t.Fatal(err)
	}

	for _, c := range "ABCDEFGHIJKLMNOPQRSTUVWXYZabcdefghijklmnopqrstuvwxyz0123456789-_" {
		s := h[:len(h)-1] + string(c)
		if s == h {
			continue
		}

		b2, err := base64.RawURLEncoding.DecodeString(s)
		if err == nil && string(b2) == string(b) {
			return s
		}
	}

	t.Fatal("no respelling")

	return ""
}
