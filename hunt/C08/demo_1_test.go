package sidetree_test

import (
	"encoding/json"
	"testing"

	"github.com/trustbloc/sidetree-go/pkg/commitment"
	"github.com/trustbloc/sidetree-go/pkg/versions/1_0/client"
)

// C08 finding 1: client.NewCreateRequest / NewRecoverRequest with an opaque document: member names are pasted
// unescaped into a JSON string and a JSON pointer (patch.PatchesFromDocument, jsonPatchAddTemplate), so the
// accepted request does not yield the document the caller asked for.
func TestDemoC08_1_OpaqueDocumentMemberNames(t *testing.T) {
	for _, d := range []string{`{"a/b":1}`, `{"a~1b":1}`, `{"a\\b":1}`} {
		h := c08NewHarness(t)
		rec := c08NewKey(t, "ed")
		upd := c08NewKey(t, "p256")
		rc, _ := commitment.GetCommitment(rec.jwk, 18)
		uc, _ := commitment.GetCommitment(upd.jwk, 18)

		req, err := client.NewCreateRequest(&client.CreateRequestInfo{
			OpaqueDocument: d, RecoveryCommitment: rc, UpdateCommitment: uc, MultihashCode: 18,
		})
		if err != nil {
			continue // refusing is fine
		}

		h.lastReq = req
		if err := h.process(); err != nil {
			t.Errorf("%s: built request is not accepted: %v", d, err)
			continue
		}

		got, _ := json.Marshal(h.rm.Doc)

		var want interface{}
		_ = json.Unmarshal([]byte(d), &want)
		wantBytes, _ := json.Marshal(want)

		if string(got) != string(wantBytes) {
			t.Errorf("opaque document %s: resolved document is %s", wantBytes, got)
		}
	}

	if t.Failed() {
		t.Fatalf("create requests built from an opaque document do not yield that document")
	}
}
