package sidetree_test

import (
	"testing"

	"github.com/trustbloc/sidetree-go/pkg/vdr/sidetreelongform/sidetree/option/create"
)

// C08 finding 2: CreateDID (and RecoverDID) without document keys, services and also-known-as URIs sends a
// request with an empty patch list, which the parser refuses ("missing patches").
func TestDemoC08_2_EmptyDocument(t *testing.T) {
	h := c08NewHarness(t)
	rec := c08NewKey(t, "ed")
	upd := c08NewKey(t, "p256")

	_, err := h.client().CreateDID(create.WithRecoveryPublicKey(rec.pub), create.WithUpdatePublicKey(upd.pub))
	if h.lastReq == nil {
		t.Skipf("client refused to build: %v", err)
	}

	if err := h.process(); err != nil {
		t.Fatalf("CreateDID sent a request that is not accepted: %v\n%s", err, h.lastReq)
	}
}
