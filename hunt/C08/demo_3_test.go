package sidetree_test

import (
	"crypto/ed25519"
	"crypto/rand"
	"testing"

	"github.com/trustbloc/sidetree-go/pkg/vdr/sidetreelongform/sidetree/doc"
	"github.com/trustbloc/sidetree-go/pkg/vdr/sidetreelongform/sidetree/option/create"
)

// C08 finding 3: a document key without purposes (a general verification method, which the patch validator
// allows when the purposes member is absent) is sent as "purposes":null and refused.
func TestDemoC08_3_KeyWithoutPurposes(t *testing.T) {
	h := c08NewHarness(t)
	rec := c08NewKey(t, "ed")
	upd := c08NewKey(t, "p256")
	pub, _, _ := ed25519.GenerateKey(rand.Reader)

	_, err := h.client().CreateDID(create.WithRecoveryPublicKey(rec.pub), create.WithUpdatePublicKey(upd.pub),
		create.WithPublicKey(c08DocKey("key1", doc.JWK2020Type, pub /* no purposes */)))
	if h.lastReq == nil {
		t.Skipf("client refused to build: %v", err)
	}

	if err := h.process(); err != nil {
		t.Fatalf("CreateDID sent a request that is not accepted: %v\n%s", err, h.lastReq)
	}
}
