package sidetree_test

import (
	"crypto/ed25519"
	"crypto/rand"
	"testing"

	"github.com/trustbloc/sidetree-go/pkg/vdr/sidetreelongform/sidetree/doc"
	"github.com/trustbloc/sidetree-go/pkg/vdr/sidetreelongform/sidetree/option/create"
)

// C08 finding 4: the key type constant exported by the client's own doc package, doc.JWSVerificationKey2020
// ("JwsVerificationKey2020", used throughout client_test.go), is not among the key types the parser accepts.
func TestDemoC08_4_JwsVerificationKey2020(t *testing.T) {
	h := c08NewHarness(t)
	rec := c08NewKey(t, "ed")
	upd := c08NewKey(t, "p256")
	pub, _, _ := ed25519.GenerateKey(rand.Reader)

	_, err := h.client().CreateDID(create.WithRecoveryPublicKey(rec.pub), create.WithUpdatePublicKey(upd.pub),
		create.WithPublicKey(c08DocKey("key1", doc.JWSVerificationKey2020, pub, doc.KeyPurposeAuthentication)))
	if h.lastReq == nil {
		t.Skipf("client refused to build: %v", err)
	}

	if err := h.process(); err != nil {
		t.Fatalf("CreateDID with key type doc.JWSVerificationKey2020 sent a request that is not accepted: %v", err)
	}
}
