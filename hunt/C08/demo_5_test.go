package sidetree_test

import (
	"testing"

	"github.com/trustbloc/sidetree-go/pkg/commitment"
	"github.com/trustbloc/sidetree-go/pkg/patch"
	"github.com/trustbloc/sidetree-go/pkg/versions/1_0/client"
	"github.com/trustbloc/sidetree-go/pkg/versions/1_0/operationparser"
)

// C08 finding 5: NewCreateRequest refuses a commitment computed with another hash algorithm than MultihashCode,
// NewUpdateRequest and NewRecoverRequest build the request, which a SHA-256-only parser refuses.
func TestDemoC08_5_WrongHashAlgorithmNotRefused(t *testing.T) {
	pr := c08Protocol()
	pr.MultihashAlgorithms = []uint{18}
	p := operationparser.New(pr)

	k := c08NewKey(t, "p256")
	c512, _ := commitment.GetCommitment(c08NewKey(t, "p256").jwk, 19) // SHA-512
	c256, _ := commitment.GetCommitment(c08NewKey(t, "p256").jwk, 18)
	rv, _ := commitment.GetRevealValue(k.jwk, 18)
	ap, _ := patch.NewAddAlsoKnownAs(`["https://a.example"]`)

	if _, err := client.NewCreateRequest(&client.CreateRequestInfo{Patches: []patch.Patch{ap}, UpdateCommitment: c512,
		RecoveryCommitment: c256, MultihashCode: 18}); err == nil {
		t.Fatalf("create builder is expected to refuse")
	}

	req, err := client.NewUpdateRequest(&client.UpdateRequestInfo{DidSuffix: "EiDyOQbbZAa3aiRzeCkV7LOx3SERjjH93EXoIM3UoN4oWg",
		Patches: []patch.Patch{ap}, UpdateCommitment: c512, UpdateKey: k.jwk, MultihashCode: 18, Signer: k.signer, RevealValue: rv})
	if err == nil {
		if _, perr := p.Parse("did:ex", req); perr != nil {
			t.Errorf("NewUpdateRequest(MultihashCode 18, SHA-512 commitment) built a request the parser refuses: %v", perr)
		}
	}

	req, err = client.NewRecoverRequest(&client.RecoverRequestInfo{DidSuffix: "EiDyOQbbZAa3aiRzeCkV7LOx3SERjjH93EXoIM3UoN4oWg",
		Patches: []patch.Patch{ap}, UpdateCommitment: c256, RecoveryCommitment: c512, RecoveryKey: k.jwk, MultihashCode: 18,
		Signer: k.signer, RevealValue: rv})
	if err == nil {
		if _, perr := p.Parse("did:ex", req); perr != nil {
			t.Errorf("NewRecoverRequest(MultihashCode 18, SHA-512 commitment) built a request the parser refuses: %v", perr)
		}
	}

	if t.Failed() {
		t.Fatalf("builders did not refuse a commitment with the wrong hash algorithm")
	}
}
