package sidetree_test

import (
	"testing"

	"github.com/trustbloc/sidetree-go/pkg/commitment"
	"github.com/trustbloc/sidetree-go/pkg/encoder"
	"github.com/trustbloc/sidetree-go/pkg/vdr/sidetreelongform/sidetree/option/create"
	"github.com/trustbloc/sidetree-go/pkg/vdr/sidetreelongform/sidetree/option/update"
)

// C08 finding 6 (depends on whether a long-form DID is a valid argument): UpdateDID / RecoverDID / DeactivateDID
// take everything after the LAST colon as the did suffix; for did:ns:<suffix>:<initial state> the request carries
// the initial state as didSuffix and so addresses another (non-existing) DID.
func TestDemoC08_6_LongFormDID(t *testing.T) {
	h := c08NewHarness(t)
	c := h.client()
	rec := c08NewKey(t, "ed")
	upd := c08NewKey(t, "p256")

	_, _ = c.CreateDID(create.WithRecoveryPublicKey(rec.pub), create.WithUpdatePublicKey(upd.pub),
		create.WithAlsoKnownAs("https://a.example"))
	if err := h.process(); err != nil {
		t.Fatal(err)
	}

	created, err := h.p.Parse("did:ex", h.lastReq)
	if err != nil {
		t.Fatal(err)
	}

	longForm := "did:ex:" + created.UniqueSuffix + ":" + encoder.EncodeToString(h.lastReq)

	if _, _, err := h.p.ParseDID("did:ex", longForm); err != nil {
		t.Fatalf("long form DID is not valid: %v", err)
	}

	updC, _ := commitment.GetCommitment(upd.jwk, 18)

	_ = c.UpdateDID(longForm, update.WithSigner(upd.signer), update.WithOperationCommitment(updC),
		update.WithNextUpdatePublicKey(c08NewKey(t, "p256").pub), update.WithAddAlsoKnownAs("https://b.example"))

	op, err := h.p.Parse("did:ex", h.lastReq)
	if err != nil {
		t.Fatal(err)
	}

	if op.UniqueSuffix != created.UniqueSuffix {
		t.Fatalf("update request for %.60s... carries didSuffix %.30s..., want %s", longForm, op.UniqueSuffix, created.UniqueSuffix)
	}
}
