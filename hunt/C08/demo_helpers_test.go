package sidetree_test

// shared helpers for the C08 demos (copy together with the demo files)

import (
	"crypto"
	"crypto/ecdsa"
	"crypto/ed25519"
	"crypto/elliptic"
	"crypto/rand"
	"encoding/json"
	"errors"
	"fmt"
	"reflect"
	"testing"

	"github.com/btcsuite/btcd/btcec/v2"
	gojose "github.com/go-jose/go-jose/v3"
	"github.com/trustbloc/kms-go/doc/jose/jwk"

	"github.com/trustbloc/sidetree-go/pkg/api/operation"
	"github.com/trustbloc/sidetree-go/pkg/api/protocol"
	"github.com/trustbloc/sidetree-go/pkg/jws"
	"github.com/trustbloc/sidetree-go/pkg/util/ecsigner"
	"github.com/trustbloc/sidetree-go/pkg/util/edsigner"
	"github.com/trustbloc/sidetree-go/pkg/util/pubkey"
	"github.com/trustbloc/sidetree-go/pkg/vdr/sidetreelongform/sidetree"
	"github.com/trustbloc/sidetree-go/pkg/vdr/sidetreelongform/sidetree/doc"
	"github.com/trustbloc/sidetree-go/pkg/versions/1_0/doccomposer"
	vmodel "github.com/trustbloc/sidetree-go/pkg/versions/1_0/model"
	"github.com/trustbloc/sidetree-go/pkg/versions/1_0/operationapplier"
	"github.com/trustbloc/sidetree-go/pkg/versions/1_0/operationparser"
)

func c08Protocol() protocol.Protocol {
	return protocol.Protocol{
		MultihashAlgorithms:    []uint{18, 19},
		MaxOperationSize:       200000,
		MaxOperationHashLength: 100,
		MaxDeltaSize:           100000,
		Patches:                []string{"replace", "add-public-keys", "remove-public-keys", "add-services", "remove-services", "ietf-json-patch", "add-also-known-as", "remove-also-known-as"},
		SignatureAlgorithms:    []string{"EdDSA", "ES256", "ES384", "ES512", "ES256K"},
		KeyAlgorithms:          []string{"Ed25519", "P-256", "P-384", "P-521", "secp256k1"},
		MaxOperationTimeDelta:  600,
		NonceSize:              16,
	}
}

type c08Signer struct {
	s interface {
		Sign([]byte) ([]byte, error)
		Headers() jws.Headers
	}
	pk *jws.JWK
}

func (s *c08Signer) Sign(d []byte) ([]byte, error) { return s.s.Sign(d) }
func (s *c08Signer) Headers() jws.Headers           { return s.s.Headers() }
func (s *c08Signer) PublicKeyJWK() *jws.JWK         { return s.pk }

type c08Key struct {
	kind   string
	pub    crypto.PublicKey
	signer *c08Signer
	jwk    *jws.JWK
}

func c08NewKey(t *testing.T, kind string) *c08Key {
	var pub crypto.PublicKey
	var s *c08Signer
	mk := func(c elliptic.Curve, alg string) {
		k, err := ecdsa.GenerateKey(c, rand.Reader)
		if err != nil {
			t.Fatal(err)
		}
		pub = &k.PublicKey
		j, err := pubkey.GetPublicKeyJWK(pub)
		if err != nil {
			t.Fatal(err)
		}
		s = &c08Signer{ecsigner.New(k, alg, ""), j}
	}
	switch kind {
	case "ed":
		p, k, _ := ed25519.GenerateKey(rand.Reader)
		pub = p
		j, err := pubkey.GetPublicKeyJWK(pub)
		if err != nil {
			t.Fatal(err)
		}
		s = &c08Signer{edsigner.New(k, "EdDSA", ""), j}
	case "p256":
		mk(elliptic.P256(), "ES256")
	case "p384":
		mk(elliptic.P384(), "ES384")
	case "p521":
		mk(elliptic.P521(), "ES512")
	case "k1":
		mk(btcec.S256(), "ES256K")
	}
	return &c08Key{kind, pub, s, s.pk}
}

type c08Harness struct {
	t       *testing.T
	p       *operationparser.Parser
	a       *operationapplier.Applier
	rm      *protocol.ResolutionModel
	rmOrig  *protocol.ResolutionModel
	lastReq []byte
	time    uint64
}

func c08NewHarness(t *testing.T) *c08Harness {
	p := operationparser.New(c08Protocol())
	return &c08Harness{t: t, p: p, a: operationapplier.New(c08Protocol(), p, doccomposer.New()), rm: &protocol.ResolutionModel{}, rmOrig: &protocol.ResolutionModel{}}
}

func (h *c08Harness) client() *sidetree.Client {
	return sidetree.New(sidetree.WithSidetreeOperationRequestFnc(func(req []byte, _ func(bool) ([]string, error)) ([]byte, error) {
		h.lastReq = req
		return nil, errors.New("captured")
	}))
}

// process parses and applies lastReq, both via anchored form and original bytes.
func (h *c08Harness) process() error {
	req := h.lastReq
	op, err := h.p.Parse("did:ex", req)
	if err != nil {
		return fmt.Errorf("PARSE: %w", err)
	}
	internal, err := h.p.ParseOperation("did:ex", req, false)
	if err != nil {
		return err
	}
	anch, err := vmodel.GetAnchoredOperation(internal)
	if err != nil {
		return fmt.Errorf("anchored: %w", err)
	}
	if anch.Type != op.Type || anch.UniqueSuffix != op.UniqueSuffix || !reflect.DeepEqual(anch.AnchorOrigin, op.AnchorOrigin) {
		return fmt.Errorf("anchored form differs: %+v vs %+v", anch, op)
	}
	h.time++
	anch.TransactionTime = h.time
	rm, err := h.a.Apply(anch, h.rm)
	if err != nil {
		return fmt.Errorf("APPLY: %w", err)
	}
	orig := &operation.AnchoredOperation{Type: op.Type, UniqueSuffix: op.UniqueSuffix, OperationRequest: req, AnchorOrigin: op.AnchorOrigin, TransactionTime: h.time}
	rm2, err := h.a.Apply(orig, h.rmOrig)
	if err != nil {
		return fmt.Errorf("APPLY orig: %w", err)
	}
	b1, _ := json.Marshal(rm)
	b2, _ := json.Marshal(rm2)
	if string(b1) != string(b2) {
		return fmt.Errorf("anchored and original bytes apply differently:\n%s\n%s", b1, b2)
	}
	h.rm, h.rmOrig = rm, rm2
	return nil
}

func c08DocKey(id string, typ string, pub interface{}, purposes ...string) *doc.PublicKey {
	return &doc.PublicKey{ID: id, Type: typ, JWK: jwk.JWK{JSONWebKey: gojose.JSONWebKey{Key: pub}}, Purposes: purposes}
}

