package operationapplier_test

import (
	"fmt"
	"math"
	"testing"

	"github.com/trustbloc/sidetree-go/pkg/api/operation"
)

// C09 finding 1: the default expiry from + MaxOperationTimeDelta is computed in int64 and wraps around.
// from = MaxInt64-100, until absent, delta = 600, t = MaxInt64-50: from <= t <= from+delta holds, yet the operation
// is treated as expired, and the time validator of the parser is handed a negative until.
func TestDemoC09_1_DefaultExpiryOverflow(t *testing.T) {
	const delta = 600

	from := int64(math.MaxInt64 - 100)
	tm := uint64(math.MaxInt64 - 50)
	window := fmt.Sprintf(`,"anchorFrom":%d`, from)

	w := c09NewWorld(t, delta)

	for _, typ := range []operation.Type{operation.TypeUpdate, operation.TypeRecover, operation.TypeDeactivate} {
		var req []byte

		switch typ {
		case operation.TypeUpdate:
			req = w.update(t, window)
		case operation.TypeRecover:
			req = w.recover(t, window)
		default:
			req = w.deactivate(t, window)
		}

		ok, info := w.effective(t, typ, req, tm)
		if !ok {
			t.Errorf("%s with anchorFrom=%d, no anchorUntil, delta=%d is not effective at t=%d (from <= t <= from+delta): %s",
				typ, from, delta, tm, info)
		}

		if w.v.until < w.v.from {
			t.Errorf("%s: parser handed (from=%d, until=%d) to the time validator", typ, w.v.from, w.v.until)
		}
	}

	if t.Failed() {
		t.Fatalf("default expiry overflows")
	}
}
