package operationapplier_test

import (
	"testing"

	"github.com/trustbloc/sidetree-go/pkg/api/operation"
)

// C09 finding 2 (reading-dependent): a bound that the signed data SETS to 0 is treated as a missing bound.
//   {"anchorFrom":5,"anchorUntil":0}  : from <= t <= until is false for every t, the library makes it effective on [5, 5+delta]
//   {"anchorFrom":0}                  : until defaults to 0+delta, the library makes it effective for ever
//   {"anchorFrom":0,"anchorUntil":0}  : effective only at t = 0, the library makes it effective for ever
func TestDemoC09_2_ExplicitZeroBound(t *testing.T) {
	const delta = 600

	w := c09NewWorld(t, delta)

	cases := []struct {
		window string
		tm     uint64
	}{
		{`,"anchorFrom":5,"anchorUntil":0`, 5},
		{`,"anchorFrom":0`, delta + 1},
		{`,"anchorFrom":0,"anchorUntil":0`, 1},
	}

	for _, c := range cases {
		for _, typ := range []operation.Type{operation.TypeUpdate, operation.TypeRecover, operation.TypeDeactivate} {
			var req []byte

			switch typ {
			case operation.TypeUpdate:
				req = w.update(t, c.window)
			case operation.TypeRecover:
				req = w.recover(t, c.window)
			default:
				req = w.deactivate(t, c.window)
			}

			if ok, _ := w.effective(t, typ, req, c.tm); ok {
				t.Errorf("%s with signed data {...%s} is effective at t=%d; validator got (%d,%d)", typ, c.window, c.tm, w.v.from, w.v.until)
			}
		}
	}

	if t.Failed() {
		t.Fatalf("explicit zero bounds are ignored")
	}
}
