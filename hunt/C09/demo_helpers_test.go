package operationapplier_test

// shared helpers for the C09 demos (copy together with the demo files)

import (
	"crypto/ecdsa"
	"crypto/elliptic"
	"crypto/rand"
	"encoding/base64"
	"encoding/json"
	"strings"
	"testing"

	"github.com/trustbloc/sidetree-go/pkg/api/operation"
	"github.com/trustbloc/sidetree-go/pkg/api/protocol"
	"github.com/trustbloc/sidetree-go/pkg/commitment"
	"github.com/trustbloc/sidetree-go/pkg/jws"
	"github.com/trustbloc/sidetree-go/pkg/patch"
	"github.com/trustbloc/sidetree-go/pkg/util/ecsigner"
	"github.com/trustbloc/sidetree-go/pkg/util/pubkey"
	"github.com/trustbloc/sidetree-go/pkg/util/signutil"
	"github.com/trustbloc/sidetree-go/pkg/versions/1_0/client"
	"github.com/trustbloc/sidetree-go/pkg/versions/1_0/doccomposer"
	"github.com/trustbloc/sidetree-go/pkg/versions/1_0/operationapplier"
	"github.com/trustbloc/sidetree-go/pkg/versions/1_0/operationparser"
)

func c09Protocol(delta uint64) protocol.Protocol {
	return protocol.Protocol{
		MultihashAlgorithms:    []uint{18},
		MaxOperationSize:       20000,
		MaxOperationHashLength: 100,
		MaxDeltaSize:           2000,
		MaxOperationCount:      7,
		MaxCasURILength:        11,
		MaxCoreIndexFileSize:   13,
		MaxProofFileSize:       17,
		MaxChunkFileSize:       19,
		Patches:                []string{"replace", "add-public-keys", "remove-public-keys", "add-services", "remove-services", "ietf-json-patch", "add-also-known-as", "remove-also-known-as"},
		SignatureAlgorithms:    []string{"ES256"},
		KeyAlgorithms:          []string{"P-256"},
		MaxOperationTimeDelta:  delta,
		NonceSize:              16,
	}
}

type c09Key struct {
	priv *ecdsa.PrivateKey
	jwk  *jws.JWK
	c    string
	rv   string
}

func c09NewKey(t *testing.T) *c09Key {
	priv, err := ecdsa.GenerateKey(elliptic.P256(), rand.Reader)
	if err != nil {
		t.Fatal(err)
	}
	jwk, _ := pubkey.GetPublicKeyJWK(&priv.PublicKey)
	c, _ := commitment.GetCommitment(jwk, 18)
	rv, _ := commitment.GetRevealValue(jwk, 18)
	return &c09Key{priv, jwk, c, rv}
}

type c09RecValidator struct{ from, until int64; called bool }

func (r *c09RecValidator) Validate(from, until int64) error {
	r.from, r.until, r.called = from, until, true
	return nil
}

// c09Resign replaces the payload of the signed data of req by a payload in which the window members are set textually.
func c09Resign(t *testing.T, req []byte, k *c09Key, window string) []byte {
	var m map[string]interface{}
	json.Unmarshal(req, &m)
	parts := strings.Split(m["signedData"].(string), ".")
	pl, _ := base64.RawURLEncoding.DecodeString(parts[1])
	s := strings.TrimSuffix(string(pl), "}") + window + "}"
	sd, err := signutil.SignPayload([]byte(s), ecsigner.New(k.priv, "ES256", ""))
	if err != nil {
		t.Fatal(err)
	}
	m["signedData"] = sd
	b, _ := json.Marshal(m)
	return b
}

type c09World struct {
	p   *operationparser.Parser
	a   *operationapplier.Applier
	v   *c09RecValidator
	rm  *protocol.ResolutionModel
	upd *c09Key
	rec *c09Key
	sfx string
}

func c09NewWorld(t *testing.T, delta uint64) *c09World {
	v := &c09RecValidator{}
	p := operationparser.New(c09Protocol(delta), operationparser.WithAnchorTimeValidator(v))
	a := operationapplier.New(c09Protocol(delta), p, doccomposer.New())
	w := &c09World{p: p, a: a, v: v, upd: c09NewKey(t), rec: c09NewKey(t)}
	req, err := client.NewCreateRequest(&client.CreateRequestInfo{OpaqueDocument: `{"alsoKnownAs":["https://a.example"]}`, RecoveryCommitment: w.rec.c, UpdateCommitment: w.upd.c, MultihashCode: 18})
	if err != nil {
		t.Fatal(err)
	}
	op, err := p.Parse("ns", req)
	if err != nil {
		t.Fatal(err)
	}
	w.sfx = op.UniqueSuffix
	w.rm, err = a.Apply(&operation.AnchoredOperation{Type: operation.TypeCreate, UniqueSuffix: op.UniqueSuffix, OperationRequest: req, TransactionTime: 0}, &protocol.ResolutionModel{})
	if err != nil {
		t.Fatal(err)
	}
	return w
}

func (w *c09World) update(t *testing.T, window string) []byte {
	next := c09NewKey(t)
	ap, _ := patch.NewAddAlsoKnownAs(`["https://b.example"]`)
	req, err := client.NewUpdateRequest(&client.UpdateRequestInfo{DidSuffix: w.sfx, Patches: []patch.Patch{ap}, UpdateCommitment: next.c, UpdateKey: w.upd.jwk, MultihashCode: 18, Signer: ecsigner.New(w.upd.priv, "ES256", ""), RevealValue: w.upd.rv})
	if err != nil {
		t.Fatal(err)
	}
	return c09Resign(t, req, w.upd, window)
}

func (w *c09World) recover(t *testing.T, window string) []byte {
	next := c09NewKey(t)
	next2 := c09NewKey(t)
	ap, _ := patch.NewAddAlsoKnownAs(`["https://c.example"]`)
	req, err := client.NewRecoverRequest(&client.RecoverRequestInfo{DidSuffix: w.sfx, Patches: []patch.Patch{ap}, UpdateCommitment: next.c, RecoveryCommitment: next2.c, RecoveryKey: w.rec.jwk, MultihashCode: 18, Signer: ecsigner.New(w.rec.priv, "ES256", ""), RevealValue: w.rec.rv})
	if err != nil {
		t.Fatal(err)
	}
	return c09Resign(t, req, w.rec, window)
}

func (w *c09World) deactivate(t *testing.T, window string) []byte {
	req, err := client.NewDeactivateRequest(&client.DeactivateRequestInfo{DidSuffix: w.sfx, RecoveryKey: w.rec.jwk, Signer: ecsigner.New(w.rec.priv, "ES256", ""), RevealValue: w.rec.rv})
	if err != nil {
		t.Fatal(err)
	}
	return c09Resign(t, req, w.rec, window)
}

// effective reports whether the operation took effect at time tm.
func (w *c09World) effective(t *testing.T, typ operation.Type, req []byte, tm uint64) (bool, string) {
	if _, err := w.p.Parse("ns", req); err != nil {
		return false, "parse: " + err.Error()
	}
	rm, err := w.a.Apply(&operation.AnchoredOperation{Type: typ, UniqueSuffix: w.sfx, OperationRequest: req, TransactionTime: tm}, w.rm)
	if err != nil {
		return false, err.Error()
	}
	b, _ := json.Marshal(rm.Doc)
	switch typ {
	case operation.TypeUpdate:
		return strings.Contains(string(b), "b.example"), string(b) + " uc=" + rm.UpdateCommitment
	case operation.TypeRecover:
		return strings.Contains(string(b), "c.example"), string(b)
	default:
		return rm.Deactivated, ""
	}
}

