package doccomposer_test

import "testing"

// C10 finding 1: 'replace' installs the raw values of the patch, not the keys and services in them. The validator
// (like every other action) only looks at the entries that are objects, so a validated replace patch can put
// non-object entries, or a non-list, into publicKey / service; the next key or service action silently drops them,
// so "remove an unknown id" changes the document.
func TestDemoC10_1_ReplaceInstallsRawValues(t *testing.T) {
	replace := `{"action":"replace","document":{"publicKeys":[` + c10Key1 + `,"junk",7],"services":"none"}}`

	want := c10Canon(t, `{"publicKey":[`+c10Key1+`],"service":[]}`)
	wantNull := c10Canon(t, `{"publicKey":[`+c10Key1+`],"service":null}`)

	got := c10Apply(t, `{}`, replace)
	if got != want && got != wantNull {
		t.Errorf("replace with keys [k1, \"junk\", 7] and services \"none\":\n got %s\nwant %s", got, want)
	}

	// left fold: removing an id that does not exist must not change the document
	got2 := c10Apply(t, `{}`, replace, `{"action":"remove-public-keys","ids":["zzz"]}`)
	if got2 != got {
		t.Errorf("remove-public-keys of an unknown id changed the document:\nbefore %s\nafter  %s", got, got2)
	}

	if t.Failed() {
		t.Fatalf("replace does not install exactly the given keys and services")
	}
}
