package doccomposer_test

import "testing"

// C10 finding 2: actions that end with an empty list write an explicit null member, also when nothing was removed.
// Removing an unknown id is not the identity, and add followed by remove does not give back the start document.
func TestDemoC10_2_NullMembers(t *testing.T) {
	cases := []struct {
		start   string
		patches []string
		want    []string // acceptable results
	}{
		{`{}`, []string{`{"action":"remove-public-keys","ids":["zzz"]}`}, []string{`{}`, `{"publicKey":[]}`}},
		{`{}`, []string{`{"action":"remove-services","ids":["zzz"]}`}, []string{`{}`, `{"service":[]}`}},
		{`{}`, []string{`{"action":"remove-also-known-as","uris":["https://zzz.example"]}`}, []string{`{}`, `{"alsoKnownAs":[]}`}},
		{`{}`, []string{`{"action":"add-also-known-as","uris":["https://a.example"]}`, `{"action":"remove-also-known-as","uris":["https://a.example"]}`},
			[]string{`{}`, `{"alsoKnownAs":[]}`}},
		{`{}`, []string{`{"action":"replace","document":{"services":[]}}`}, []string{`{"service":[]}`, `{"publicKey":[],"service":[]}`}},
	}

	for _, c := range cases {
		got := c10Apply(t, c.start, c.patches...)
		ok := false

		for _, w := range c.want {
			if got == c10Canon(t, w) {
				ok = true
			}
		}

		if !ok {
			t.Errorf("%s + %v = %s; want one of %v", c.start, c.patches, got, c.want)
		}
	}

	if t.Failed() {
		t.Fatalf("empty lists are written as null members")
	}
}
