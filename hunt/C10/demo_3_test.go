package doccomposer_test

import "testing"

// C10 finding 3: alsoKnownAs is not protected from ietf-json-patch, so a reachable document can hold entries that are
// not strings (or a value that is not a list). add-/remove-also-known-as rebuild the member from its string entries
// only: the other entries (or the whole value) vanish although the patch does not mention them.
func TestDemoC10_3_AlsoKnownAsDropsEntries(t *testing.T) {
	set := `{"action":"ietf-json-patch","patches":[{"op":"add","path":"/alsoKnownAs","value":["https://a.example",{"id":"x"},5]}]}`

	got := c10Apply(t, `{}`, set, `{"action":"remove-also-known-as","uris":["https://zzz.example"]}`)
	if want := c10Canon(t, `{"alsoKnownAs":["https://a.example",{"id":"x"},5]}`); got != want {
		t.Errorf("removing a URI that is not there:\n got %s\nwant %s", got, want)
	}

	got = c10Apply(t, `{}`, set, `{"action":"add-also-known-as","uris":["https://b.example"]}`)
	if want := c10Canon(t, `{"alsoKnownAs":["https://a.example",{"id":"x"},5,"https://b.example"]}`); got != want {
		t.Errorf("adding one URI:\n got %s\nwant %s", got, want)
	}

	if t.Failed() {
		t.Fatalf("also-known-as actions drop existing entries they were not asked to remove")
	}
}
