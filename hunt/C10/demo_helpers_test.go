package doccomposer_test

// shared helpers for the C10 demos (copy together with the demo files)

import (
	"encoding/json"
	"testing"

	"github.com/trustbloc/sidetree-go/pkg/document"
	"github.com/trustbloc/sidetree-go/pkg/patch"
	"github.com/trustbloc/sidetree-go/pkg/versions/1_0/doccomposer"
	"github.com/trustbloc/sidetree-go/pkg/versions/1_0/operationparser/patchvalidator"
)

const c10Key1 = `{"id":"k1","type":"JsonWebKey2020","purposes":["authentication"],"publicKeyJwk":{"kty":"EC","crv":"P-256","x":"x","y":"y"}}`

// c10Apply validates every patch with the patch validator and applies the list to the start document.
func c10Apply(t *testing.T, start string, patches ...string) string {
	t.Helper()

	doc, err := document.FromBytes([]byte(start))
	if err != nil {
		t.Fatal(err)
	}

	var ps []patch.Patch

	for _, p := range patches {
		pp, err := patch.FromBytes([]byte(p))
		if err != nil {
			t.Skipf("patch refused by patch.FromBytes: %s: %v", p, err)
		}

		if err := patchvalidator.Validate(pp); err != nil {
			t.Skipf("patch refused by validator: %s: %v", p, err)
		}

		ps = append(ps, pp)
	}

	res, err := doccomposer.New().ApplyPatches(doc, ps)
	if err != nil {
		return "error: " + err.Error()
	}

	b, err := json.Marshal(res)
	if err != nil {
		t.Fatal(err)
	}

	return string(b)
}

func c10Canon(t *testing.T, s string) string {
	t.Helper()

	var v interface{}
	if err := json.Unmarshal([]byte(s), &v); err != nil {
		t.Fatal(err)
	}

	b, _ := json.Marshal(v)

	return string(b)
}
