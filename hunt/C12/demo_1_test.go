package doccomposer_test

import (
	"testing"

	"github.com/trustbloc/sidetree-go/pkg/document"
	"github.com/trustbloc/sidetree-go/pkg/patch"
	"github.com/trustbloc/sidetree-go/pkg/versions/1_0/doccomposer"
	"github.com/trustbloc/sidetree-go/pkg/versions/1_0/operationparser/patchvalidator"
)

// A validated ietf-json-patch copy (or move) whose target is an array index far beyond the end of the array is not
// answered with an error. evanphx/json-patch v4.1.0 partialArray.set allocates index+1 slots without any bound
// check, so the ~60 byte operation below produces a document with 3,000,001 array elements (15 MB); with an index of
// 2000000000 the same operation needs 16 GB for the slice alone and the Go runtime aborts the whole process with
// "fatal error: out of memory", which the recover() in applyJSONPatchOperation cannot catch. Neither an error nor a
// usable state is returned in that case.
//
// The index is kept moderate here so that the test is safe to run; it fails because no error is returned.
func TestDemo1_CopyToHugeArrayIndex(t *testing.T) {
	for _, kind := range []string{"copy", "move"} {
		doc, err := document.FromBytes([]byte(`{"arr":[1],"x":2}`))
		if err != nil {
			t.Fatal(err)
		}

		p, err := patch.NewJSONPatch(`[{"op":"` + kind + `","from":"/x","path":"/arr/3000000"}]`)
		if err != nil {
			t.Fatal(err)
		}

		if err := patchvalidator.Validate(p); err != nil {
			t.Skipf("patch is refused by validation (repaired there): %s", err)
		}

		res, err := doccomposer.New().ApplyPatches(doc, []patch.Patch{p})
		if err == nil {
			arr, _ := res["arr"].([]interface{})
			t.Fatalf("%s to index 3000000 of a 1-element array: expected an error (RFC 6902: index must not exceed the "+
				"number of elements), got a document whose array has %d elements; a larger index kills the process "+
				"with an unrecoverable out-of-memory fatal error", kind, len(arr))
		}
	}
}
