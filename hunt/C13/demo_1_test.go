package didvalidator_test

import (
	"testing"

	"github.com/trustbloc/sidetree-go/pkg/versions/1_0/docvalidator/didvalidator"
)

// "Original documents that carry ... (for DID documents) a context are refused."
// DIDDocument.Context() only understands the array form of @context, so the (very common) string form and the
// object form are not seen and the document is accepted.
func TestDemo1_DIDDocumentWithNonArrayContextAccepted(t *testing.T) {
	v := didvalidator.New()

	// control: array form is refused
	if err := v.IsValidOriginalDocument([]byte(`{"@context":["https://www.w3.org/ns/did/v1"]}`)); err == nil {
		t.Fatalf("control failed: array context accepted")
	}

	for _, doc := range []string{
		`{"@context":"https://www.w3.org/ns/did/v1"}`,
		`{"@context":{"@base":"did:example:123"}}`,
	} {
		if err := v.IsValidOriginalDocument([]byte(doc)); err == nil {
			t.Fatalf("original DID document %s carries a context but was accepted", doc)
		}
	}
}
