package didvalidator_test

import (
	"testing"

	"github.com/trustbloc/sidetree-go/pkg/versions/1_0/docvalidator/didvalidator"
	"github.com/trustbloc/sidetree-go/pkg/versions/1_0/docvalidator/docvalidator"
)

// "Original documents that carry an id ... are refused" (code comment: "The document must NOT have the id property").
// Both validators test `doc.ID() != ""`, and ID() answers "" for every id value that is not a non-empty string.
func TestDemo2_OriginalDocumentWithNonStringIDAccepted(t *testing.T) {
	did := didvalidator.New()
	gen := docvalidator.New()

	// control
	if did.IsValidOriginalDocument([]byte(`{"id":"did:example:123"}`)) == nil ||
		gen.IsValidOriginalDocument([]byte(`{"id":"did:example:123"}`)) == nil {
		t.Fatalf("control failed: string id accepted")
	}

	for _, doc := range []string{
		`{"id":123}`,
		`{"id":["did:example:123"]}`,
		`{"id":{"@id":"did:example:123"}}`,
		`{"id":true}`,
		`{"id":""}`,
	} {
		if err := did.IsValidOriginalDocument([]byte(doc)); err == nil {
			t.Errorf("didvalidator: original document %s has the id property but was accepted", doc)
		}

		if err := gen.IsValidOriginalDocument([]byte(doc)); err == nil {
			t.Errorf("docvalidator: original document %s has the id property but was accepted", doc)
		}
	}

	if t.Failed() {
		t.Fatalf("documents carrying an id member were accepted")
	}
}
