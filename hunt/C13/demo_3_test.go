package patchvalidator_test

import (
	"testing"

	"github.com/trustbloc/sidetree-go/pkg/patch"
	"github.com/trustbloc/sidetree-go/pkg/versions/1_0/operationparser/patchvalidator"
)

// "remove lists are non-empty and every id in them is valid" / "also-known-as URIs parse".
// The validators convert the list with document.StringArray, which silently drops every entry that is not a string,
// and validate only what is left. A list made of (or containing) numbers, nulls, objects therefore passes.
func TestDemo3_RemoveListWithNonStringIdsPasses(t *testing.T) {
	// control: an invalid string id is refused
	p, err := patch.FromBytes([]byte(`{"action":"remove-public-keys","ids":["not valid!"]}`))
	if err != nil {
		t.Fatal(err)
	}

	if patchvalidator.Validate(p) == nil {
		t.Fatalf("control failed")
	}

	for _, s := range []string{
		`{"action":"remove-public-keys","ids":[123]}`,
		`{"action":"remove-public-keys","ids":[null]}`,
		`{"action":"remove-public-keys","ids":["key1",{"id":"key2"}]}`,
		`{"action":"remove-services","ids":[1.5]}`,
		`{"action":"remove-services","ids":[["svc"]]}`,
		`{"action":"add-also-known-as","uris":[1]}`,
		`{"action":"remove-also-known-as","uris":[{"a":"b"}]}`,
	} {
		p, err := patch.FromBytes([]byte(s))
		if err != nil {
			continue // refused while parsing is fine too
		}

		if err := patchvalidator.Validate(p); err == nil {
			t.Errorf("patch %s contains an entry that is not a valid id/URI but passed validation", s)
		}
	}

	if t.Failed() {
		t.Fatalf("lists with non-string entries passed validation")
	}
}
