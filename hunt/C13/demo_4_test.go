package patchvalidator_test

import (
	"testing"

	"github.com/trustbloc/sidetree-go/pkg/patch"
	"github.com/trustbloc/sidetree-go/pkg/versions/1_0/operationparser/patchvalidator"
)

const demo4JWK = `{"kty":"EC","crv":"P-256","x":"PUymIqdtF_qxaAqPABSw-C-owT1KYYQbsMKFM-L9fJA","y":"nM84jDHCMOTGTh_ZdHq4dBBdo4Z5PkEOW9jA8z8IsGc"}`

// "purposes that if present are non-empty, known, at most five".
// PublicKey.Purpose() drops every entry that is not a string before the checks run, so an unknown (non-string)
// purpose is not noticed and a list of six entries passes the "at most five" rule.
func TestDemo4_KeyPurposesWithNonStringEntriesPass(t *testing.T) {
	key := func(purposes string) string {
		return `{"action":"add-public-keys","publicKeys":[{"id":"k","type":"JsonWebKey2020","purposes":` + purposes +
			`,"publicKeyJwk":` + demo4JWK + `}]}`
	}

	// control: unknown string purpose refused
	p, err := patch.FromBytes([]byte(key(`["authentication","bogus"]`)))
	if err != nil {
		t.Fatal(err)
	}

	if patchvalidator.Validate(p) == nil {
		t.Fatalf("control failed")
	}

	for _, purposes := range []string{
		`["authentication",7]`,
		`["authentication",null]`,
		`["authentication",{"x":"keyAgreement"}]`,
		`["authentication","assertionMethod","keyAgreement","capabilityDelegation","capabilityInvocation",["sixth"]]`,
	} {
		p, err := patch.FromBytes([]byte(key(purposes)))
		if err != nil {
			t.Fatal(err)
		}

		if err := patchvalidator.Validate(p); err == nil {
			t.Errorf("key with purposes %s passed validation", purposes)
		}
	}

	if t.Failed() {
		t.Fatalf("purposes lists with unknown (non-string) entries passed validation")
	}
}
