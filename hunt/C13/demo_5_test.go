package patchvalidator_test

import (
	"testing"

	"github.com/trustbloc/sidetree-go/pkg/patch"
	"github.com/trustbloc/sidetree-go/pkg/versions/1_0/operationparser/patchvalidator"
)

const demo5Key = `{"id":"k","type":"JsonWebKey2020","publicKeyJwk":{"kty":"EC","crv":"P-256","x":"PUymIqdtF_qxaAqPABSw-C-owT1KYYQbsMKFM-L9fJA","y":"nM84jDHCMOTGTh_ZdHq4dBBdo4Z5PkEOW9jA8z8IsGc"}}`

// "a key has a type, exactly one of JWK or base58 material ...; a service has a valid id, a type ... and an endpoint";
// "a replace document has only publicKeys and services members, each valid by the same rules".
// document.ParsePublicKeys / ParseServices skip every element that is not a JSON object and answer nil for a value
// that is not an array, and the validators only look at what these functions return. Elements without any of the
// required members, and (for replace) publicKeys/services values of the wrong kind, pass; the replace value is then
// stored verbatim in the document by the composer.
func TestDemo5_NonObjectKeysAndServicesPass(t *testing.T) {
	// control: an object without the required members is refused
	p, err := patch.FromBytes([]byte(`{"action":"add-public-keys","publicKeys":[{}]}`))
	if err != nil {
		t.Fatal(err)
	}

	if patchvalidator.Validate(p) == nil {
		t.Fatalf("control failed")
	}

	for _, s := range []string{
		`{"action":"add-public-keys","publicKeys":[5]}`,
		`{"action":"add-public-keys","publicKeys":["no-type-no-id-no-material",` + demo5Key + `]}`,
		`{"action":"add-services","services":[null]}`,
		`{"action":"add-services","services":[["x"]]}`,
		`{"action":"replace","document":{"publicKeys":[5]}}`,
		`{"action":"replace","document":{"publicKeys":"keys"}}`,
		`{"action":"replace","document":{"services":{"id":"s"}}}`,
	} {
		p, err := patch.FromBytes([]byte(s))
		if err != nil {
			continue
		}

		if err := patchvalidator.Validate(p); err == nil {
			t.Errorf("patch %s passed validation", s)
		}
	}

	if t.Failed() {
		t.Fatalf("keys/services that are not objects (or not lists) passed validation")
	}
}
