package patch_test

import (
	"testing"

	"github.com/trustbloc/sidetree-go/pkg/patch"
)

// "Documents carrying an id are refused."
// validateDocument tests `doc.ID() != ""`; ID() answers "" for every id that is not a non-empty string, so the document
// is turned into patches (among them {"op":"add","path":"/id","value":123}) instead of being refused.
func TestDemo1_PatchesFromDocumentAcceptsNonStringID(t *testing.T) {
	// control
	if _, err := patch.PatchesFromDocument(`{"id":"did:example:123","foo":1}`); err == nil {
		t.Fatalf("control failed: string id accepted")
	}

	for _, doc := range []string{
		`{"id":123,"foo":1}`,
		`{"id":["did:example:123"],"foo":1}`,
		`{"id":{"@id":"did:example:123"},"foo":1}`,
		`{"id":"","foo":1}`,
	} {
		patches, err := patch.PatchesFromDocument(doc)
		if err == nil {
			b, _ := patches[len(patches)-1].Bytes()
			t.Errorf("document %s carries an id but was converted into patches: %s", doc, b)
		}
	}

	if t.Failed() {
		t.Fatalf("documents carrying an id were not refused")
	}
}
