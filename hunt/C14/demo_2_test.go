package patch_test

import (
	"testing"

	"github.com/trustbloc/sidetree-go/pkg/patch"
	"github.com/trustbloc/sidetree-go/pkg/versions/1_0/operationparser/patchvalidator"
)

// "every patch produced by the patch constructors from valid input passes validation".
// A further document member whose (ordinary) name merely starts with "service" or "publicKey" - e.g. the replace
// document's own member names "services"/"publicKeys", or "serviceEndpoint", "publicKeyBase58" - is mapped to
// {"op":"add","path":"/<name>",...}. The json patch validator refuses every pointer with the prefix /service or
// /publicKey, so the ietf-json-patch that PatchesFromDocument (via NewJSONPatch) hands out is refused by
// patchvalidator.Validate: a create request built by client.NewCreateRequest from such an opaque document is
// rejected by the operation parser with "ietf-json-patch: cannot modify services".
func TestDemo2_PatchesFromDocumentProducesPatchThatFailsValidation(t *testing.T) {
	// control: another ordinary member name is fine
	patches, err := patch.PatchesFromDocument(`{"endpoints":["https://example.com"]}`)
	if err != nil {
		t.Fatal(err)
	}

	for _, p := range patches {
		if err := patchvalidator.Validate(p); err != nil {
			t.Fatalf("control failed: %s", err)
		}
	}

	for _, doc := range []string{
		`{"services":["https://example.com"]}`,
		`{"serviceEndpoint":"https://example.com"}`,
		`{"publicKeys":{"count":1}}`,
		`{"publicKeyBase58":"abc"}`,
	} {
		patches, err := patch.PatchesFromDocument(doc)
		if err != nil {
			continue // refusing the document up front would be fine
		}

		for _, p := range patches {
			if err := patchvalidator.Validate(p); err != nil {
				b, _ := p.Bytes()
				t.Errorf("document %s: PatchesFromDocument produced %s which fails validation: %s", doc, b, err)
			}
		}
	}

	if t.Failed() {
		t.Fatalf("patches produced from documents with ordinary member names fail validation")
	}
}
