package jwsutil_test

import (
	"crypto/ecdsa"
	"crypto/ed25519"
	"crypto/elliptic"
	"crypto/rand"
	"testing"

	"github.com/trustbloc/sidetree-go/pkg/jwsutil"
	"github.com/trustbloc/sidetree-go/pkg/util/ecsigner"
	"github.com/trustbloc/sidetree-go/pkg/util/edsigner"
	"github.com/trustbloc/sidetree-go/pkg/util/pubkey"
	"github.com/trustbloc/sidetree-go/pkg/util/signutil"
)

// "For every supported key type ... and every payload, a compact JWS produced with the library's signers verifies under
// the matching public JWK and returns the payload unchanged".
// signutil.SignPayload signs the empty payload without complaint ("<header>..<signature>"), but parseCompacted refuses
// every compact JWS whose payload segment decodes to zero bytes ("compact jws payload is empty"), so the JWS the
// library itself produced never verifies.
func TestDemo1_EmptyPayloadIsSignedButNeverVerifies(t *testing.T) {
	ecKey, err := ecdsa.GenerateKey(elliptic.P256(), rand.Reader)
	if err != nil {
		t.Fatal(err)
	}

	ecJWK, err := pubkey.GetPublicKeyJWK(&ecKey.PublicKey)
	if err != nil {
		t.Fatal(err)
	}

	edPub, edPriv, err := ed25519.GenerateKey(rand.Reader)
	if err != nil {
		t.Fatal(err)
	}

	edJWK, err := pubkey.GetPublicKeyJWK(edPub)
	if err != nil {
		t.Fatal(err)
	}

	for _, payload := range [][]byte{{}, nil} {
		compact, err := signutil.SignPayload(payload, ecsigner.New(ecKey, "ES256", "kid"))
		if err == nil { // refusing to sign an empty payload would be a consistent repair
			res, err := jwsutil.VerifyJWS(compact, ecJWK)
			if err != nil {
				t.Errorf("P-256: JWS %q produced by SignPayload for the empty payload does not verify under the matching key: %s", compact, err)
			} else if len(res.Payload) != 0 {
				t.Errorf("P-256: payload changed")
			}
		}

		compact, err = signutil.SignPayload(payload, edsigner.New(edPriv, "EdDSA", "kid"))
		if err == nil {
			res, err := jwsutil.VerifyJWS(compact, edJWK)
			if err != nil {
				t.Errorf("Ed25519: JWS %q produced by SignPayload for the empty payload does not verify under the matching key: %s", compact, err)
			} else if len(res.Payload) != 0 {
				t.Errorf("Ed25519: payload changed")
			}
		}
	}

	if t.Failed() {
		t.Fatalf("signer and verifier disagree on the empty payload")
	}
}
