package jwsutil_test

import (
	"crypto/ecdsa"
	"crypto/elliptic"
	"crypto/rand"
	"strings"
	"testing"

	"github.com/trustbloc/sidetree-go/pkg/jwsutil"
	"github.com/trustbloc/sidetree-go/pkg/util/ecsigner"
	"github.com/trustbloc/sidetree-go/pkg/util/pubkey"
	"github.com/trustbloc/sidetree-go/pkg/util/signutil"
)

// "... malformed compact forms are rejected with an error."
// Go's base64 decoders silently skip '\r' and '\n'. parseCompacted hands the three segments to
// base64.RawURLEncoding.DecodeString unchecked, so a compact JWS with line breaks anywhere inside (or around) its
// segments - which RFC 7515 does not allow - is accepted by ParseJWS and verifies. Anybody can therefore produce
// arbitrarily many different "compact JWS" strings for one signed payload (signed-data malleability).
func TestDemo2_CompactJWSWithLineBreaksVerifies(t *testing.T) {
	key, err := ecdsa.GenerateKey(elliptic.P256(), rand.Reader)
	if err != nil {
		t.Fatal(err)
	}

	jwk, err := pubkey.GetPublicKeyJWK(&key.PublicKey)
	if err != nil {
		t.Fatal(err)
	}

	compact, err := signutil.SignPayload([]byte("payload"), ecsigner.New(key, "ES256", "kid"))
	if err != nil {
		t.Fatal(err)
	}

	if _, err := jwsutil.VerifyJWS(compact, jwk); err != nil {
		t.Fatalf("control failed: %s", err)
	}

	// control: another character that is not in the base64url alphabet is refused
	if _, err := jwsutil.VerifyJWS(compact+" ", jwk); err == nil {
		t.Fatalf("control failed: trailing space accepted")
	}

	p := strings.Split(compact, ".")

	for name, malformed := range map[string]string{
		"LF inside header":     p[0][:5] + "\n" + p[0][5:] + "." + p[1] + "." + p[2],
		"CRLF inside payload":  p[0] + "." + p[1][:3] + "\r\n" + p[1][3:] + "." + p[2],
		"LF inside signature":  p[0] + "." + p[1] + "." + p[2][:40] + "\n" + p[2][40:],
		"leading LF":           "\n" + compact,
		"trailing CRLF":        compact + "\r\n",
		"LF around every dot":  p[0] + "\n.\n" + p[1] + "\n.\n" + p[2],
	} {
		if _, err := jwsutil.VerifyJWS(malformed, jwk); err == nil {
			t.Errorf("%s: malformed compact JWS %q was accepted and verified", name, malformed)
		}

		if _, err := jwsutil.ParseJWS(malformed); err == nil {
			t.Errorf("%s: malformed compact JWS was accepted by ParseJWS", name)
		}
	}

	if t.Failed() {
		t.Fatalf("compact JWS forms containing line breaks are not rejected")
	}
}
