package jwsutil_test

import (
	"crypto/ed25519"
	"crypto/rand"
	"encoding/base64"
	"math/big"
	"testing"

	"github.com/trustbloc/sidetree-go/pkg/jws"
	"github.com/trustbloc/sidetree-go/pkg/jwsutil"
)

// onEd25519 reports whether the 32-byte string is the RFC 8032 encoding of a point of
// edwards25519: y below the field prime and (y^2-1)/(d*y^2+1) a square (with the sign rule for x=0).
func onEd25519(enc []byte) bool {
	p := new(big.Int).Sub(new(big.Int).Lsh(big.NewInt(1), 255), big.NewInt(19))
	d, _ := new(big.Int).SetString("37095705934669439343138083508754565189542113879843219016388785533085940283555", 10)

	le := make([]byte, 32)
	for i := range enc {
		le[31-i] = enc[i]
	}

	sign := le[0] >> 7
	le[0] &= 0x7f

	y := new(big.Int).SetBytes(le)
	if y.Cmp(p) >= 0 {
		return false
	}

	yy := new(big.Int).Mul(y, y)
	u := new(big.Int).Sub(yy, big.NewInt(1))
	u.Mod(u, p)
	v := new(big.Int).Mul(d, yy)
	v.Add(v, big.NewInt(1))
	v.Mod(v, p)
	xx := new(big.Int).Mul(u, new(big.Int).ModInverse(v, p))
	xx.Mod(xx, p)

	if xx.Sign() == 0 {
		return sign == 0
	}

	return big.Jacobi(xx, p) == 1
}

func TestDemo1Ed25519OffCurveAccepted(t *testing.T) {
	pub, priv, err := ed25519.GenerateKey(rand.Reader)
	if err != nil {
		t.Fatal(err)
	}

	if !onEd25519(pub) {
		t.Fatalf("test helper wrong: a generated key must be on the curve")
	}

	// off-curve modification of a real key: change the low byte until the string no longer
	// decodes to a point of the curve (about every second value)
	off := append([]byte{}, pub...)
	for onEd25519(off) {
		off[0]++
	}

	// cross-check with the standard library: no signature can verify under such a key
	if ed25519.Verify(off, []byte("m"), ed25519.Sign(priv, []byte("m"))) {
		t.Fatalf("unexpected")
	}

	jwk := &jws.JWK{Kty: "OKP", Crv: "Ed25519", X: base64.RawURLEncoding.EncodeToString(off)}

	key, err := jwsutil.GetED25519PublicKey(jwk)
	if err == nil {
		t.Fatalf("GetED25519PublicKey accepted a JWK whose x (%x) is not a point of Ed25519; it returned %x", off, []byte(key))
	}
}
