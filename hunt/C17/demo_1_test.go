package sidetreelongform_test

import (
	"crypto/ed25519"
	"crypto/rand"
	"strings"
	"testing"

	ariesdid "github.com/trustbloc/did-go/doc/did"
	model "github.com/trustbloc/did-go/doc/did/endpoint"
	vdrapi "github.com/trustbloc/did-go/vdr/api"
	"github.com/trustbloc/kms-go/doc/jose/jwk/jwksupport"

	"github.com/trustbloc/sidetree-go/pkg/vdr/sidetreelongform"
)

// A document whose verificationMethod list holds a key that no verification relationship refers to
// (a "general" key - Sidetree supports public keys without purposes) is accepted by VDR.Create,
// but the key is silently left out of the create request: the DID resolves to a document without it.
func TestDemo1GeneralKeyDropped(t *testing.T) {
	v, err := sidetreelongform.New()
	if err != nil {
		t.Fatal(err)
	}

	general, _, _ := ed25519.GenerateKey(rand.Reader)
	auth, _, _ := ed25519.GenerateKey(rand.Reader)
	update, _, _ := ed25519.GenerateKey(rand.Reader)
	recovery, _, _ := ed25519.GenerateKey(rand.Reader)

	jGeneral, err := jwksupport.JWKFromKey(general)
	if err != nil {
		t.Fatal(err)
	}

	jAuth, err := jwksupport.JWKFromKey(auth)
	if err != nil {
		t.Fatal(err)
	}

	vmGeneral, err := ariesdid.NewVerificationMethodFromJWK("general", "JsonWebKey2020", "", jGeneral)
	if err != nil {
		t.Fatal(err)
	}

	vmAuth, err := ariesdid.NewVerificationMethodFromJWK("auth", "JsonWebKey2020", "", jAuth)
	if err != nil {
		t.Fatal(err)
	}

	supplied := &ariesdid.Doc{
		VerificationMethod: []ariesdid.VerificationMethod{*vmGeneral, *vmAuth},
		Authentication:     []ariesdid.Verification{*ariesdid.NewReferencedVerification(vmAuth, ariesdid.Authentication)},
		Service: []ariesdid.Service{{
			ID: "svc", Type: "type", ServiceEndpoint: model.NewDIDCommV1Endpoint("https://example.com"),
		}},
	}

	created, err := v.Create(supplied,
		vdrapi.WithOption(sidetreelongform.UpdatePublicKeyOpt, update),
		vdrapi.WithOption(sidetreelongform.RecoveryPublicKeyOpt, recovery))
	if err != nil {
		// refusing the document would also be in line with the property (it ranges over accepted documents)
		t.Skipf("document refused: %v", err)
	}

	read, err := v.Read(created.DIDDocument.ID)
	if err != nil {
		t.Fatalf("created DID does not resolve: %v", err)
	}

	var found []string
	for _, vm := range read.DIDDocument.VerificationMethod {
		found = append(found, vm.ID[strings.LastIndex(vm.ID, "#"):])
	}

	if len(read.DIDDocument.VerificationMethod) != len(supplied.VerificationMethod) {
		t.Fatalf("supplied document has %d verification methods (general, auth); the DID that VDR.Create returned "+
			"resolves to a document with %d: %v", len(supplied.VerificationMethod),
			len(read.DIDDocument.VerificationMethod), found)
	}
}
