package dochandler_test

// Finding 2 (borderline, see findings.md): segments between the namespace and the suffix are ignored, and the
// document that comes back carries a different id from the DID that was asked for.

import (
	"strings"
	"testing"

	"github.com/trustbloc/sidetree-go/pkg/vdr/sidetreelongform/dochandler"
)

const obsSuffix = `EiD9H4OHw5X4ctS1Q1G9LxmyEed9WDBW_QZ4VMpuOtRciw`

//nolint:lll
const obsIS = `eyJkZWx0YSI6eyJwYXRjaGVzIjpbeyJhY3Rpb24iOiJyZXBsYWNlIiwiZG9jdW1lbnQiOnsicHVibGljS2V5cyI6W3siaWQiOiJzaWduaW5nS2V5IiwicHVibGljS2V5SndrIjp7ImNydiI6InNlY3AyNTZrMSIsImt0eSI6IkVDIiwieCI6IndkRGZEakwxRlFET3NwcC1xdmRLUUtyNzllbTdOczJFNVNBVWE5aElRaTQiLCJ5IjoiUGZmc0hEYXA1X0t3UlZwNzgtaUJaQm5XQTZMS3p6bGIxSXJ3VWhFakpuOCJ9LCJwdXJwb3NlcyI6WyJhdXRoZW50aWNhdGlvbiIsImFzc2VydGlvbk1ldGhvZCIsImNhcGFiaWxpdHlJbnZvY2F0aW9uIiwiY2FwYWJpbGl0eURlbGVnYXRpb24iLCJrZXlBZ3JlZW1lbnQiXSwidHlwZSI6IkVjZHNhU2VjcDI1NmsxVmVyaWZpY2F0aW9uS2V5MjAxOSJ9XSwic2VydmljZXMiOltdfX1dLCJ1cGRhdGVDb21taXRtZW50IjoiRWlBazRmbkFKSTJuZ1Z5ZjhrZ05fbUI5emhmX2FKcmdwa2tlalVIbTR1X3gzQSJ9LCJzdWZmaXhEYXRhIjp7ImRlbHRhSGFzaCI6IkVpQVRaWi1jclh5OXFYeGhGdkFFZElhU0pLY0tTWTVubkZ5bkJCSWtsODF5N1EiLCJyZWNvdmVyeUNvbW1pdG1lbnQiOiJFaUFOOHQ3UHlZYmtONFc3ZEVZX1JZX25YWUNlc1JPQl9mUWxzdWx3eVNyYVF3In0sInR5cGUiOiJjcmVhdGUifQ`

func TestDemo2ExtraSegments(t *testing.T) {
	h, err := dochandler.New("did:ion")
	if err != nil {
		t.Fatal(err)
	}

	for _, did := range []string{
		"did:ion::" + obsSuffix + ":" + obsIS,             // one ':' inserted into the DID
		"did:ion:test:" + obsSuffix + ":" + obsIS,         // a DID of the namespace did:ion:test
		"did:ion:did:ion:" + obsSuffix + ":" + obsIS,      // namespace twice
		"did:ion:x:y:z:" + obsSuffix + ":" + obsIS,        // anything
	} {
		res, err := h.ResolveDocument(did)
		if err != nil {
			continue
		}

		if res.Document.ID() != did {
			t.Errorf("handler did:ion resolved %s... and answered with the document of another DID %s...",
				did[:strings.Index(did, obsSuffix)+6], res.Document.ID()[:14])
		}
	}
}
