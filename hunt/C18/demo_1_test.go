package didtransformer_test

import (
	"testing"

	"github.com/trustbloc/sidetree-go/pkg/api/protocol"
	"github.com/trustbloc/sidetree-go/pkg/document"
	"github.com/trustbloc/sidetree-go/pkg/docutil"
	"github.com/trustbloc/sidetree-go/pkg/patch"
	"github.com/trustbloc/sidetree-go/pkg/versions/1_0/doccomposer"
	"github.com/trustbloc/sidetree-go/pkg/versions/1_0/doctransformer/didtransformer"
	"github.com/trustbloc/sidetree-go/pkg/versions/1_0/operationparser/patchvalidator"
)

// Keys that the patch validator accepts, of the two Ed25519 types, whose JWK cannot be turned into
// 32 Ed25519 bytes. The transformer then fails for the WHOLE document instead of emitting the keys.
func TestDemo1ValidatedKeyBreaksTransform(t *testing.T) {
	const p256 = `{"crv":"P-256","kty":"EC","x":"HPDgtHkzZPoNPj88N0jIRyMElWKvqjOcHaf1zLG9D0M","y":"ieaGeLhgBQIPdsuSA5-S9jdtImXIvTmUPkgMMHeg3M0"}`

	cases := map[string]string{
		"Ed25519VerificationKey2018 with a P-256 JWK": `{"id":"k","type":"Ed25519VerificationKey2018","purposes":["authentication"],"publicKeyJwk":` + p256 + `}`,
		"Ed25519VerificationKey2020 with a P-256 JWK": `{"id":"k","type":"Ed25519VerificationKey2020","purposes":["assertionMethod"],"publicKeyJwk":` + p256 + `}`,
		"Ed25519VerificationKey2018 with a 3-byte x":  `{"id":"k","type":"Ed25519VerificationKey2018","publicKeyJwk":{"kty":"OKP","crv":"Ed25519","x":"AAAA"}}`,
		"Ed25519VerificationKey2018 with crv X25519":  `{"id":"k","type":"Ed25519VerificationKey2018","publicKeyJwk":{"kty":"OKP","crv":"X25519","x":"J8qlDuX8wjDggWY9BZS1ICG1g6LlSCJXaSTewNNhOGo"}}`,
	}

	for name, key := range cases {
		// a second, perfectly good key and a service travel in the same document
		p, err := patch.FromBytes([]byte(`{"action":"add-public-keys","publicKeys":[` + key +
			`,{"id":"good","type":"JsonWebKey2020","purposes":["authentication"],"publicKeyJwk":` + p256 + `}]}`))
		if err != nil {
			t.Fatalf("%s: %v", name, err)
		}

		if err = patchvalidator.Validate(p); err != nil {
			t.Logf("%s: refused by the validator (%v) - outside the quantifier", name, err)

			continue
		}

		internal, err := doccomposer.New().ApplyPatches(make(document.Document), []patch.Patch{p})
		if err != nil {
			t.Fatalf("%s: %v", name, err)
		}

		info := docutil.GetTransformationInfoForPublished("did:ns", "did:ns:suffix", "suffix", &protocol.ResolutionModel{})

		res, err := didtransformer.New().TransformDocument(&protocol.ResolutionModel{Doc: internal}, info)
		if err != nil {
			t.Errorf("%s: key passed validation, but TransformDocument gives no result at all: %v", name, err)

			continue
		}

		if n := len(document.DidDocumentFromJSONLDObject(res.Document).VerificationMethods()); n != 2 {
			t.Errorf("%s: %d verification methods, want 2", name, n)
		}
	}
}
