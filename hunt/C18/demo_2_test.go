package metadata_test

import (
	"testing"

	"github.com/trustbloc/sidetree-go/pkg/api/protocol"
	"github.com/trustbloc/sidetree-go/pkg/document"
	"github.com/trustbloc/sidetree-go/pkg/docutil"
	"github.com/trustbloc/sidetree-go/pkg/versions/1_0/doctransformer/metadata"
)

// A published state that was updated at time 200 by an operation without canonical reference
// (the member is optional: `json:"canonicalReference,omitempty"`, and the applier copies it into VersionID).
func TestDemo2UpdatedTimeNotReported(t *testing.T) {
	rm := &protocol.ResolutionModel{
		Doc:         make(document.Document),
		CreatedTime: 100,
		UpdatedTime: 200,
		VersionID:   "",
	}

	info := docutil.GetTransformationInfoForPublished("did:ns", "did:ns:suffix", "suffix", rm)

	md, err := metadata.New().CreateDocumentMetadata(rm, info)
	if err != nil {
		t.Fatal(err)
	}

	if md[document.CreatedProperty] != "1970-01-01T00:01:40Z" {
		t.Fatalf("created: %v", md[document.CreatedProperty])
	}

	if md[document.UpdatedProperty] != "1970-01-01T00:03:20Z" {
		t.Fatalf("state has UpdatedTime=200 but the metadata reports updated=%v (metadata: %v)",
			md[document.UpdatedProperty], md)
	}
}
