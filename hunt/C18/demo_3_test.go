package metadata_test

import (
	"testing"

	"github.com/trustbloc/sidetree-go/pkg/api/operation"
	"github.com/trustbloc/sidetree-go/pkg/api/protocol"
	"github.com/trustbloc/sidetree-go/pkg/document"
	"github.com/trustbloc/sidetree-go/pkg/docutil"
	"github.com/trustbloc/sidetree-go/pkg/versions/1_0/doctransformer/metadata"
)

// Three different published operations, none of which carries the optional canonical reference.
func TestDemo3OperationsWithoutCanonicalReferenceCollapse(t *testing.T) {
	rm := &protocol.ResolutionModel{
		Doc: make(document.Document),
		PublishedOperations: []*operation.AnchoredOperation{
			{Type: operation.TypeCreate, TransactionTime: 100, TransactionNumber: 7, OperationRequest: []byte("create")},
			{Type: operation.TypeUpdate, TransactionTime: 200, TransactionNumber: 3, OperationRequest: []byte("update-1")},
			{Type: operation.TypeUpdate, TransactionTime: 300, TransactionNumber: 1, OperationRequest: []byte("update-2")},
		},
	}

	info := docutil.GetTransformationInfoForPublished("did:ns", "did:ns:suffix", "suffix", rm)

	md, err := metadata.New(metadata.WithIncludePublishedOperations(true)).CreateDocumentMetadata(rm, info)
	if err != nil {
		t.Fatal(err)
	}

	method, ok := md[document.MethodProperty].(document.Metadata)
	if !ok {
		t.Fatal("no method metadata")
	}

	ops, ok := method[document.PublishedOperationsProperty].([]*metadata.PublishedOperation)
	if !ok {
		t.Fatalf("no published operations: %v", method)
	}

	if len(ops) != 3 {
		t.Fatalf("3 distinct published operations (times 100, 200, 300) went in, %d came out: "+
			"operations without canonical reference are all treated as duplicates of the first", len(ops))
	}
}
