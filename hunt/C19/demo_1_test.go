package canonicalizer_test

import (
	"bytes"
	"context"
	"fmt"
	"os"
	"os/exec"
	"strings"
	"testing"
	"time"

	"github.com/trustbloc/sidetree-go/pkg/canonicalizer"
)

// MarshalCanonical hands a []byte argument straight to the recursive-descent JCS transformer, which has no
// depth limit: 3 MB of '[' exhaust the 1 GB goroutine stack and the Go runtime kills the process
// ("fatal error: stack overflow" cannot be recovered). The call is made in a child process so that
// the test run itself survives.
func TestDemo1CanonicalizerStackExhaustion(t *testing.T) {
	if os.Getenv("C19_DEMO_CHILD") == "1" {
		in := bytes.Repeat([]byte("["), 3_000_000)

		_, err := canonicalizer.MarshalCanonical(in)
		fmt.Printf("CHILD-SURVIVED err=%v\n", err)

		return
	}

	ctx, cancel := context.WithTimeout(context.Background(), 10*time.Minute)
	defer cancel()

	cmd := exec.CommandContext(ctx, os.Args[0], "-test.run=^TestDemo1CanonicalizerStackExhaustion$", "-test.timeout=9m")
	cmd.Env = append(os.Environ(), "C19_DEMO_CHILD=1")

	out, err := cmd.CombinedOutput()
	text := string(out)

	if strings.Contains(text, "CHILD-SURVIVED") {
		return // answered with an error value, as the property demands
	}

	if i := strings.Index(text, "fatal error:"); i >= 0 {
		end := i + 60
		if end > len(text) {
			end = len(text)
		}

		t.Fatalf("canonicalizer.MarshalCanonical(3 MB of '[') killed the process: %q (exit: %v)", text[i:end], err)
	}

	t.Fatalf("child neither survived nor reported a fatal error (exit: %v, timed out: %v): %.300s", err, ctx.Err() != nil, text)
}
