/-
  Line-protocol driver: reads "<kind>\t<json>" lines, answers one JSON line per case by
  running the hand-written model (never a generated definition).
-/
import Sidetree.Json
import Sidetree.Drv.Window
import Sidetree.Drv.Hash
import Sidetree.Drv.Patch
import Sidetree.Drv.Compose
import Sidetree.Drv.Apply
import Sidetree.Drv.Keys
import Sidetree.Drv.Did
import Sidetree.Drv.Client
import Sidetree.Drv.Stress

open Sidetree

def handlers : List (String × (Json → Json)) :=
  [("window", Drv.window), ("jcs", Drv.jcs), ("num", Drv.num), ("mh", Drv.mh), ("commit", Drv.commit),
   ("validate", Drv.validate), ("origdoc", Drv.origdoc),
   ("compose", Drv.compose), ("protect", Drv.protect), ("patchrt", Drv.patchrt), ("ctor", Drv.ctor),
   ("parse", Drv.parseKind), ("getters", Drv.gettersKind), ("apply", Drv.applyKind),
   ("sign", Drv.signKind), ("jws", Drv.jwsKind), ("jwk", Drv.jwkKind), ("jwkparse", Drv.jwkParseKind),
   ("transform", Drv.transformKind), ("resolve", Drv.resolveKind), ("process", Drv.processKind), ("lifecycle", Drv.lifecycleKind), ("vdr", Drv.vdrKind), ("stress", Drv.stressKind), ("gtransform", Drv.gtransformKind), ("tinfo", Drv.tinfoKind)]

def answer (line : String) : String :=
  let cs := line.toList
  let kind := cs.takeWhile (· ≠ '\t')
  let body := (cs.dropWhile (· ≠ '\t')).drop 1
  match Parse.parse body with
  | none => "{\"class\":\"bad-case\"}"
  | some j =>
    match handlers.lookup (String.ofList kind) with
    | some h => (h j).toString
    | none => "{\"class\":\"unknown-kind\"}"

partial def loop (hin : IO.FS.Stream) (hout : IO.FS.Stream) : IO Unit := do
  let line ← hin.getLine
  if line.isEmpty then return ()
  let l := String.ofList (line.toList.takeWhile (· ≠ '\n'))
  if !l.isEmpty then
    hout.putStrLn (answer l)
  loop hin hout

def main : IO Unit := do
  let hin ← IO.getStdin
  let hout ← IO.getStdout
  loop hin hout
  hout.flush
