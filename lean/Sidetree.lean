-- Root of the library: models, lemmas and property theorems.
-- `Sidetree.Obligations.*` (facts regenerated from /repo) are built one by one by ./check.
import Sidetree.Json
import Sidetree.Protocol
import Sidetree.Expected
import Sidetree.Window
import Sidetree.Props.C09
import Sidetree.Num
import Sidetree.Jcs
import Sidetree.Bytes
import Sidetree.Sha2
import Sidetree.Hashing
import Sidetree.Jwk
import Sidetree.Props.C04
import Sidetree.Props.C05
import Sidetree.Props.C06
import Sidetree.Patch
import Sidetree.Validator
import Sidetree.Props.C13
import Sidetree.JsonPatch
import Sidetree.Composer
import Sidetree.PatchBuild
import Sidetree.Props.C10
import Sidetree.Props.C11
import Sidetree.Props.C14
