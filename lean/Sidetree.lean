-- Root of the library: models, lemmas and property theorems.
-- `Sidetree.Obligations.*` (facts regenerated from /repo) are built one by one by ./check.
import Sidetree.Json
import Sidetree.Protocol
import Sidetree.Expected
import Sidetree.Window
import Sidetree.Props.C09
