/-
  pkg/versions/1_0/operationapplier/operationapplier.go.

  `apply` is the staged mirror of the Go code (what the driver runs against the implementation);
  `Spec.step` in `Props/C01.lean` is the rule table the property prescribes, proved equal to it.
-/
import Sidetree.Parser
import Sidetree.Composer
import Sidetree.Window

namespace Sidetree

/-- an anchored operation as handed to the applier -/
structure AnchoredOp where
  type : String
  uniqueSuffix : String
  /-- the request bytes: their length and their JSON reading (`none` = not valid JSON / UTF-8) -/
  size : Nat
  request : Option Json
  transactionTime : Nat
  transactionNumber : Nat
  protocolVersion : Nat
  canonicalReference : String
  equivalentReferences : Option (List String)
deriving Inhabited

/-- `protocol.ResolutionModel` (operation lists are opaque and only ever copied) -/
structure RM where
  doc : Option Json := none
  createdTime : Nat := 0
  updatedTime : Nat := 0
  lastOperationTransactionTime : Nat := 0
  lastOperationTransactionNumber : Nat := 0
  lastOperationProtocolVersion : Nat := 0
  updateCommitment : String := ""
  recoveryCommitment : String := ""
  deactivated : Bool := false
  anchorOrigin : Option Json := none
  equivalentReferences : Option (List String) := none
  canonicalReference : String := ""
  versionID : String := ""
  publishedOperations : Json := .null
  unpublishedOperations : Json := .null
deriving Inhabited

namespace Applier

inductive Outcome where
  | ok (rm : RM)
  | refused
  | outOfDomain     -- the signing input of this operation is outside the modelled header domain
  | blowup
deriving Inhabited

/-- `ApplyPatches` as the applier sees it: a document or a failure -/
def patched (doc : Json) (d : Option Delta) : Option Json ⊕ Unit :=
  match Composer.applyPatches doc (((d.bind (·.patches)).getD [])) with
  | .ok r => .inl (some r)
  | .err => .inl none
  | .blowup => .inr ()

/-- `verifyAnchoringTimeRange … == nil` -/
def inWindow (cfg : Protocol) (sd : SignedData) (t : Nat) : Bool :=
  Window.effective cfg sd.anchorFrom sd.anchorUntil t

def emptyDoc : Json := .obj []

/-- `applyCreateOperation` (after the emptiness check and the batch parse) -/
def applyCreate (H : HashFam) (cfg : Protocol) (orc : Oracles) (op : AnchoredOp) (rm : RM) (p : ParsedOp) : Outcome :=
  let sd := p.suffixData.getD default
  let result : RM :=
    { doc := some emptyDoc, createdTime := op.transactionTime,
      lastOperationTransactionTime := op.transactionTime,
      lastOperationTransactionNumber := op.transactionNumber,
      lastOperationProtocolVersion := op.protocolVersion,
      versionID := op.canonicalReference, canonicalReference := op.canonicalReference,
      equivalentReferences := op.equivalentReferences,
      recoveryCommitment := sd.recoveryCommitment, anchorOrigin := sd.anchorOrigin,
      publishedOperations := rm.publishedOperations, unpublishedOperations := rm.unpublishedOperations }
  if !Hashing.isValidModelMultihash H (deltaJson p.delta) sd.deltaHash then .ok result
  else if !Parser.validateDelta cfg orc p.delta then .ok result
  else
    let result := { result with updateCommitment := (p.delta.getD default).updateCommitment }
    match patched emptyDoc p.delta with
    | .inl (some d) => .ok { result with doc := some d }
    | .inl none => .ok result
    | .inr _ => .blowup

def verifyJws (orc : Oracles) (compact : String) (key : Option Jwk) : Jws.VerifyResult :=
  match key with
  | some k => Jws.verify orc compact k
  | none => .bad

/-- `applyUpdateOperation` -/
def applyUpdate (H : HashFam) (cfg : Protocol) (orc : Oracles) (op : AnchoredOp) (rm : RM) (p : ParsedOp) : Outcome :=
  match rm.doc with
  | none => .refused
  | some doc =>
    match Parser.parseSignedDataForUpdate cfg p.signedData with
    | none => .refused
    | some sd =>
      if !Hashing.isValidModelMultihash H (deltaJson p.delta) sd.deltaHash then .refused
      else match verifyJws orc p.signedData sd.key with
        | .bad => .refused
        | .outOfDomain => .outOfDomain
        | .ok =>
          if !Parser.validateDelta cfg orc p.delta then .refused
          else
            let result : RM :=
              { doc := some doc, createdTime := rm.createdTime, updatedTime := op.transactionTime,
                lastOperationTransactionTime := op.transactionTime,
                lastOperationTransactionNumber := op.transactionNumber,
                lastOperationProtocolVersion := op.protocolVersion,
                versionID := op.canonicalReference, canonicalReference := rm.canonicalReference,
                equivalentReferences := rm.equivalentReferences,
                updateCommitment := (p.delta.getD default).updateCommitment,
                recoveryCommitment := rm.recoveryCommitment, anchorOrigin := rm.anchorOrigin,
                publishedOperations := rm.publishedOperations, unpublishedOperations := rm.unpublishedOperations }
            if !inWindow cfg sd op.transactionTime then .ok result
            else match patched doc p.delta with
              | .inl (some d) => .ok { result with doc := some d }
              | .inl none => .ok result
              | .inr _ => .blowup

/-- `applyDeactivateOperation` -/
def applyDeactivate (cfg : Protocol) (orc : Oracles) (op : AnchoredOp) (rm : RM) (p : ParsedOp) : Outcome :=
  match rm.doc with
  | none => .refused
  | some _ =>
    match Parser.parseSignedDataForDeactivate cfg p.signedData with
    | none => .refused
    | some sd =>
      if p.uniqueSuffix ≠ sd.didSuffix then .refused
      else match verifyJws orc p.signedData sd.key with
        | .bad => .refused
        | .outOfDomain => .outOfDomain
        | .ok =>
          if !inWindow cfg sd op.transactionTime then .refused
          else .ok
            { doc := some emptyDoc, createdTime := rm.createdTime, updatedTime := op.transactionTime,
              lastOperationTransactionTime := op.transactionTime,
              lastOperationTransactionNumber := op.transactionNumber,
              lastOperationProtocolVersion := op.protocolVersion,
              versionID := op.canonicalReference, canonicalReference := rm.canonicalReference,
              equivalentReferences := rm.equivalentReferences,
              updateCommitment := "", recoveryCommitment := "", deactivated := true,
              anchorOrigin := rm.anchorOrigin,
              publishedOperations := rm.publishedOperations, unpublishedOperations := rm.unpublishedOperations }

/-- `applyRecoverOperation` -/
def applyRecover (H : HashFam) (cfg : Protocol) (orc : Oracles) (op : AnchoredOp) (rm : RM) (p : ParsedOp) : Outcome :=
  match rm.doc with
  | none => .refused
  | some _ =>
    match Parser.parseSignedDataForRecover H cfg p.signedData with
    | none => .refused
    | some sd =>
      match verifyJws orc p.signedData sd.key with
      | .bad => .refused
      | .outOfDomain => .outOfDomain
      | .ok =>
        let result : RM :=
          { doc := some emptyDoc, createdTime := rm.createdTime, updatedTime := op.transactionTime,
            lastOperationTransactionTime := op.transactionTime,
            lastOperationTransactionNumber := op.transactionNumber,
            lastOperationProtocolVersion := op.protocolVersion,
            versionID := op.canonicalReference, canonicalReference := op.canonicalReference,
            equivalentReferences := op.equivalentReferences,
            recoveryCommitment := sd.recoveryCommitment, anchorOrigin := sd.anchorOrigin,
            publishedOperations := rm.publishedOperations, unpublishedOperations := rm.unpublishedOperations }
        if !Hashing.isValidModelMultihash H (deltaJson p.delta) sd.deltaHash then .ok result
        else if !Parser.validateDelta cfg orc p.delta then .ok result
        else
          let result := { result with updateCommitment := (p.delta.getD default).updateCommitment }
          if !inWindow cfg sd op.transactionTime then .ok result
          else match patched emptyDoc p.delta with
            | .inl (some d) => .ok { result with doc := some d }
            | .inl none => .ok result
            | .inr _ => .blowup

/-- the applier calls `Parse<Type>Operation(request, true)` for the *anchored* type, not the type
    written in the request: the request's own `type` member is only decoded, never compared.
    `viewAs` re-reads a request as the given type. -/
def parseAs (H : HashFam) (cfg : Protocol) (orc : Oracles) (ty : OpType) (op : AnchoredOp) : Option ParsedOp :=
  match op.request with
  | none => none
  | some j =>
    match ty with
    | .create => Parser.parseCreate H cfg orc j true
    | .update => Parser.parseUpdate H cfg orc j true
    | .recover => Parser.parseRecover H cfg orc j true
    | .deactivate => Parser.parseDeactivate H cfg orc j true

/-- `Applier.Apply` -/
def apply (H : HashFam) (cfg : Protocol) (orc : Oracles) (op : AnchoredOp) (rm : RM) : Outcome :=
  match OpType.ofString? op.type with
  | none => .refused
  | some .create =>
    if rm.doc.isSome then .refused
    else match parseAs H cfg orc .create op with
      | none => .refused
      | some p => applyCreate H cfg orc op rm p
  | some .update =>
    if rm.doc.isNone then .refused
    else match parseAs H cfg orc .update op with
      | none => .refused
      | some p => applyUpdate H cfg orc op rm p
  | some .deactivate =>
    if rm.doc.isNone then .refused
    else match parseAs H cfg orc .deactivate op with
      | none => .refused
      | some p => applyDeactivate cfg orc op rm p
  | some .recover =>
    if rm.doc.isNone then .refused
    else match parseAs H cfg orc .recover op with
      | none => .refused
      | some p => applyRecover H cfg orc op rm p

/-- a refused operation leaves the previous state in force -/
def stepOrKeep (H : HashFam) (cfg : Protocol) (orc : Oracles) (rm : RM) (op : AnchoredOp) : RM :=
  match apply H cfg orc op rm with
  | .ok rm' => rm'
  | _ => rm

/-- folding a history -/
def resolve (H : HashFam) (cfg : Protocol) (orc : Oracles) (ops : List AnchoredOp) : RM :=
  ops.foldl (stepOrKeep H cfg orc) {}

end Applier
end Sidetree
