/-
  Byte-level encodings: hex, unpadded base64url with Go's decoding leniency
  (`base64.RawURLEncoding`: CR/LF ignored, trailing bits not checked, no padding),
  go-varint, and go-multihash `Encode`/`Decode`.
-/
import Sidetree.Json

namespace Sidetree

abbrev Bytes := List UInt8

def hexOfBytes (bs : Bytes) : String :=
  String.ofList (bs.flatMap fun b => [hexDigit (b.toNat / 16), hexDigit (b.toNat % 16)])

def bytesOfHex? : List Char → Option Bytes
  | [] => some []
  | a :: b :: rest =>
    match hexVal? a, hexVal? b, bytesOfHex? rest with
    | some x, some y, some tl => some ((x * 16 + y).toUInt8 :: tl)
    | _, _, _ => none
  | _ => none

def stringOfBytes? (bs : Bytes) : Option String := String.fromUTF8? (ByteArray.mk bs.toArray)
def bytesOfString (s : String) : Bytes := s.toUTF8.data.toList

/-! ### base64url -/

def b64Char (n : Nat) : Char :=
  if n < 26 then Char.ofNat (65 + n)
  else if n < 52 then Char.ofNat (97 + n - 26)
  else if n < 62 then Char.ofNat (48 + n - 52)
  else if n = 62 then '-' else '_'

def b64Val? (c : Char) : Option Nat :=
  let n := c.toNat
  if 65 ≤ n ∧ n ≤ 90 then some (n - 65)
  else if 97 ≤ n ∧ n ≤ 122 then some (n - 97 + 26)
  else if 48 ≤ n ∧ n ≤ 57 then some (n - 48 + 52)
  else if c = '-' then some 62
  else if c = '_' then some 63
  else none

/-- `RawURLEncoding.EncodeToString` -/
def b64Encode : Bytes → List Char
  | a :: b :: c :: rest =>
    let n := a.toNat * 65536 + b.toNat * 256 + c.toNat
    b64Char (n / 262144) :: b64Char (n / 4096 % 64) :: b64Char (n / 64 % 64) :: b64Char (n % 64) :: b64Encode rest
  | [a, b] =>
    let n := a.toNat * 65536 + b.toNat * 256
    [b64Char (n / 262144), b64Char (n / 4096 % 64), b64Char (n / 64 % 64)]
  | [a] =>
    let n := a.toNat * 65536
    [b64Char (n / 262144), b64Char (n / 4096 % 64)]
  | [] => []

def b64DecodeVals : List Nat → Option Bytes
  | a :: b :: c :: d :: rest =>
    let n := a * 262144 + b * 4096 + c * 64 + d
    (b64DecodeVals rest).map fun tl => (n / 65536).toUInt8 :: (n / 256 % 256).toUInt8 :: (n % 256).toUInt8 :: tl
  | [a, b, c] =>
    let n := a * 262144 + b * 4096 + c * 64
    some [(n / 65536).toUInt8, (n / 256 % 256).toUInt8]
  | [a, b] =>
    let n := a * 262144 + b * 4096
    some [(n / 65536).toUInt8]
  | [_] => none
  | [] => some []

def mapM? {α β} (f : α → Option β) : List α → Option (List β)
  | [] => some []
  | x :: xs => match f x, mapM? f xs with
    | some y, some ys => some (y :: ys)
    | _, _ => none

/-- `RawURLEncoding.DecodeString`: CR and LF are skipped, every other character must be in
    the alphabet, the length (after skipping) must not be 1 mod 4, trailing bits are ignored -/
def b64Decode (cs : List Char) : Option Bytes :=
  let cs := cs.filter fun c => c ≠ '\r' ∧ c ≠ '\n'
  (mapM? b64Val? cs).bind b64DecodeVals

def b64EncodeStr (bs : Bytes) : String := String.ofList (b64Encode bs)
def b64DecodeStr (s : String) : Option Bytes := b64Decode s.toList

/-- `encoder.DecodeString` (hashes, nonces, initial states): the canonical text only — no line
    breaks, no unused bits set in the last character; i.e. what re-encodes to itself -/
def b64DecodeStrictStr (s : String) : Option Bytes :=
  match b64Decode s.toList with
  | some bs => if b64Encode bs = s.toList then some bs else none
  | none => none

/-! ### varint / multihash -/

/-- minimal unsigned varint (`binary.PutUvarint`) -/
def varintEncode (n : Nat) : Bytes :=
  if h : n < 128 then [n.toUInt8]
  else (n % 128 + 128).toUInt8 :: varintEncode (n / 128)
termination_by n
decreasing_by omega

/-- go-varint `FromUvarint` (value, rest); `none` on overflow, underflow or non-minimal -/
def varintDecodeAux : Nat → Nat → Nat → Bytes → Option (Nat × Bytes)
  | _, _, _, [] => none
  | i, x, s, b :: rest =>
    if (i = 8 ∧ b.toNat ≥ 128) ∨ i ≥ 9 then none
    else if b.toNat < 128 then
      if b.toNat = 0 ∧ s > 0 then none else some (x + b.toNat * 2 ^ s, rest)
    else varintDecodeAux (i + 1) (x + (b.toNat - 128) * 2 ^ s) (s + 7) rest

def varintDecode (bs : Bytes) : Option (Nat × Bytes) := varintDecodeAux 0 0 0 bs

/-- `multihash.Encode` for a registered code (validity of the code is the caller's business) -/
def mhEncode (code : Nat) (digest : Bytes) : Bytes :=
  varintEncode code ++ varintEncode digest.length ++ digest

/-- `multihash.Decode`: (code, digest) -/
def mhDecode (bs : Bytes) : Option (Nat × Bytes) :=
  if bs.length < 2 then none
  else match varintDecode bs with
    | none => none
    | some (code, r1) =>
      match varintDecode r1 with
      | none => none
      | some (len, r2) =>
        if len > 2147483647 then none
        else if len ≠ r2.length then none   -- greater: error; smaller: ErrInconsistentLen
        else some (code, r2)

end Sidetree
