/-
  pkg/versions/1_0/client/*.go (request builders), pkg/util/signutil/signature.go,
  pkg/versions/1_0/model/util.go (GetAnchoredOperation) and the request-building half of
  pkg/vdr/sidetreelongform/sidetree/client.go + doc/doc.go.

  A builder returns the request as a JSON value; the bytes handed to the caller are its
  canonical encoding (`requestText`).
-/
import Sidetree.Parser
import Sidetree.PatchBuild

namespace Sidetree
namespace Client

/-- a JWS signer as the builders see it: its protected headers (`none` = nil map) and its
    signing function (`none` = error) -/
structure Signer where
  headers : Option (List (String × Json))
  sign : Bytes → Option Bytes

/-- `validateSigner` -/
def signerOK : Option Signer → Bool
  | none => false
  | some s =>
    match s.headers with
    | none => false
    | some hdrs =>
      match Json.lookup "alg" hdrs with
      | some (.str alg) => alg ≠ "" && hdrs.all fun kv => kv.1 = "alg" || kv.1 = "kid"
      | _ => false

/-- `signutil.SignModel`: canonical payload, JWS over the signer's headers, compact form -/
def signModel (model : Json) (s : Signer) : Option String :=
  match transformValue model, s.headers with
  | some payload, some hdrs =>
    match Json.lookup "alg" hdrs with
    | some (.str alg) =>
      if alg = "" then none
      else
        let pb := bytesOfString (String.ofList payload)
        match Jws.marshalHeaders hdrs with
        | none => none
        | some hb =>
          let h64 := b64Encode (bytesOfString (String.ofList hb))
          let p64 := b64Encode pb
          match s.sign (bytesOfString (String.ofList (h64 ++ '.' :: p64))) with
          | some sig => some (String.ofList (h64 ++ '.' :: p64 ++ '.' :: b64Encode sig))
          | none => none
    | _ => none
  | _, _ => none

/-- `json.Marshal` of a `*jws.JWK` member without omitempty -/
def keyJson : Option Jwk → Json
  | some k => k.toJson
  | none => .null

def intMember (name : String) (v : Int) : List (String × Json) :=
  if v = 0 then [] else [(name, Json.mkInt v)]

/-! ### create -/

structure CreateInfo where
  opaqueDoc : Option Json := none       -- the opaque document, decoded (`none` = not supplied)
  patches : List Json := []
  recoveryCommitment : String := ""
  updateCommitment : String := ""
  anchorOrigin : Option Json := none
  type : String := ""
  code : Nat := 18

/-- `getPatches` -/
def patchesOf (opaqueDoc : Option Json) (patches : List Json) : Option (List Json) :=
  match opaqueDoc with
  | some doc => PatchBuild.fromDocument doc
  | none => some patches

def createInfoOK (H : HashFam) (i : CreateInfo) : Bool :=
  !(i.opaqueDoc.isNone && i.patches.isEmpty) && !(i.opaqueDoc.isSome && !i.patches.isEmpty) &&
  (H i.code).isSome &&
  Hashing.isComputedUsing i.recoveryCommitment [i.code] &&
  Hashing.isComputedUsing i.updateCommitment [i.code] &&
  i.recoveryCommitment ≠ i.updateCommitment

/-- the delta of a builder: `nil` patches and an empty list both vanish (omitempty) -/
def mkDelta (uc : String) (patches : List Json) : Delta := { updateCommitment := uc, patches := some patches }

def createRequestJson (sd : SuffixData) (d : Delta) : Json :=
  .obj [("type", .str "create"), ("suffixData", sd.toJson), ("delta", d.toJson)]

/-- `NewCreateRequest` -/
def newCreateRequest (H : HashFam) (i : CreateInfo) : Option Json :=
  if !createInfoOK H i then none
  else match patchesOf i.opaqueDoc i.patches with
    | none => none
    | some patches =>
      let delta := mkDelta i.updateCommitment patches
      match Hashing.calculateModelMultihash H delta.toJson i.code with
      | none => none
      | some dh =>
        some (createRequestJson
          { deltaHash := dh, recoveryCommitment := i.recoveryCommitment, anchorOrigin := i.anchorOrigin, type := i.type } delta)

/-! ### update -/

/-- `validateAnchoringWindow`: the signed data is written in JCS, where every number is a double;
    the builders refuse a bound that would be signed as another number (D41) -/
def windowExact (af au : Int) : Bool :=
  decide (-9007199254740992 ≤ af ∧ af ≤ 9007199254740992 ∧ -9007199254740992 ≤ au ∧ au ≤ 9007199254740992)

structure UpdateInfo where
  didSuffix : String := ""
  patches : List Json := []
  updateCommitment : String := ""
  updateKey : Option Jwk := none
  code : Nat := 18
  signer : Option Signer := none
  revealValue : String := ""
  anchorFrom : Int := 0
  anchorUntil : Int := 0

/-- `validateCommitment`: the next commitment must differ from the signing key's own -/
def commitmentDiffers (H : HashFam) (k : Jwk) (code : Nat) (next : String) : Bool :=
  match Hashing.commitment H k.toJson code with
  | some cur => cur ≠ next
  | none => false

def updateSignedJson (k : Option Jwk) (dh : String) (af au : Int) : Json :=
  .obj ([("updateKey", keyJson k), ("deltaHash", .str dh)] ++ intMember "anchorFrom" af ++ intMember "anchorUntil" au)

def signedRequestJson (ty suffix reveal signed : String) (delta : Option Delta) : Json :=
  .obj ([("type", .str ty), ("didSuffix", .str suffix), ("revealValue", .str reveal), ("signedData", .str signed)] ++
    (match delta with | some d => [("delta", d.toJson)] | none => []))

/-- `NewUpdateRequest` -/
def newUpdateRequestCore (H : HashFam) (i : UpdateInfo) : Option Json :=
  if i.didSuffix = "" ∨ i.revealValue = "" ∨ i.patches.isEmpty then none
  else match i.updateKey, i.signer with
    | some k, some s =>
      if !k.valid ∨ !signerOK (some s) then none
      else
        let delta := mkDelta i.updateCommitment i.patches
        match Hashing.calculateModelMultihash H delta.toJson i.code with
        | none => none
        | some dh =>
          if !commitmentDiffers H k i.code i.updateCommitment then none
          else match signModel (updateSignedJson (some k) dh i.anchorFrom i.anchorUntil) s with
            | none => none
            | some compact => some (signedRequestJson "update" i.didSuffix i.revealValue compact (some delta))
    | _, _ => none

/-- `NewUpdateRequest` -/
def newUpdateRequest (H : HashFam) (i : UpdateInfo) : Option Json :=
  if windowExact i.anchorFrom i.anchorUntil then newUpdateRequestCore H i else none

/-! ### recover -/

structure RecoverInfo where
  didSuffix : String := ""
  recoveryKey : Option Jwk := none
  opaqueDoc : Option Json := none
  patches : List Json := []
  recoveryCommitment : String := ""
  updateCommitment : String := ""
  anchorOrigin : Option Json := none
  anchorFrom : Int := 0
  anchorUntil : Int := 0
  code : Nat := 18
  signer : Option Signer := none
  revealValue : String := ""

def recoverSignedJson (k : Option Jwk) (dh rc : String) (ao : Option Json) (af au : Int) : Json :=
  .obj ([("deltaHash", .str dh), ("recoveryKey", keyJson k), ("recoveryCommitment", .str rc)] ++
    (match ao with | some a => [("anchorOrigin", a)] | none => []) ++
    intMember "anchorFrom" af ++ intMember "anchorUntil" au)

/-- `NewRecoverRequest` -/
def newRecoverRequestCore (H : HashFam) (i : RecoverInfo) : Option Json :=
  if i.didSuffix = "" ∨ i.revealValue = "" then none
  else if (i.opaqueDoc.isNone && i.patches.isEmpty) || (i.opaqueDoc.isSome && !i.patches.isEmpty) then none
  else match i.signer, i.recoveryKey with
    | some s, some k =>
      if !signerOK (some s) ∨ !k.valid then none
      else match patchesOf i.opaqueDoc i.patches with
        | none => none
        | some patches =>
          let delta := mkDelta i.updateCommitment patches
          match Hashing.calculateModelMultihash H delta.toJson i.code with
          | none => none
          | some dh =>
            if !commitmentDiffers H k i.code i.recoveryCommitment then none
            else if !commitmentDiffers H k i.code i.updateCommitment then none   -- nor as the next update key (D33)
            else match signModel (recoverSignedJson (some k) dh i.recoveryCommitment i.anchorOrigin i.anchorFrom i.anchorUntil) s with
              | none => none
              | some compact => some (signedRequestJson "recover" i.didSuffix i.revealValue compact (some delta))
    | _, _ => none

/-- `NewRecoverRequest` -/
def newRecoverRequest (H : HashFam) (i : RecoverInfo) : Option Json :=
  if windowExact i.anchorFrom i.anchorUntil then newRecoverRequestCore H i else none

/-! ### deactivate -/

structure DeactivateInfo where
  didSuffix : String := ""
  recoveryKey : Option Jwk := none
  signer : Option Signer := none
  revealValue : String := ""
  anchorFrom : Int := 0
  anchorUntil : Int := 0

def deactivateSignedJson (suffix : String) (k : Option Jwk) (af au : Int) : Json :=
  .obj ([("didSuffix", .str suffix), ("revealValue", .str ""), ("recoveryKey", keyJson k)] ++
    intMember "anchorFrom" af ++ intMember "anchorUntil" au)

/-- `NewDeactivateRequest` (the recovery key is not validated here) -/
def newDeactivateRequestCore (i : DeactivateInfo) : Option Json :=
  if i.didSuffix = "" ∨ i.revealValue = "" then none
  else match i.signer with
    | some s =>
      if !signerOK (some s) then none
      else match signModel (deactivateSignedJson i.didSuffix i.recoveryKey i.anchorFrom i.anchorUntil) s with
        | none => none
        | some compact => some (signedRequestJson "deactivate" i.didSuffix i.revealValue compact none)
    | none => none

/-- `NewDeactivateRequest` -/
def newDeactivateRequest (i : DeactivateInfo) : Option Json :=
  if windowExact i.anchorFrom i.anchorUntil then newDeactivateRequestCore i else none

/-- the bytes a builder returns: `canonicalizer.MarshalCanonical(schema)` -/
def requestText (j : Json) : Option String := (transformValue j).map String.ofList

/-! ### GetAnchoredOperation -/

/-- the request `GetAnchoredOperation` re-assembles from a parsed operation. Members without
    `omitempty` are always written; the create request drops empty ones. -/
def anchoredJson (p : ParsedOp) : Json :=
  match p.type with
  | .create =>
    .obj ([("type", .str "create")] ++
      (match p.suffixData with | some sd => [("suffixData", sd.toJson)] | none => []) ++
      (match p.delta with | some d => [("delta", d.toJson)] | none => []))
  | .update | .recover =>
    .obj [("type", .str p.type.toString), ("didSuffix", .str p.uniqueSuffix), ("revealValue", .str p.revealValue),
          ("signedData", .str p.signedData), ("delta", deltaJson p.delta)]
  | .deactivate =>
    .obj [("type", .str "deactivate"), ("didSuffix", .str p.uniqueSuffix), ("revealValue", .str p.revealValue),
          ("signedData", .str p.signedData)]

/-! ### the Sidetree client's documents (sidetree/doc/doc.go) -/

structure DocKey where
  id : String
  type : String
  purposes : Option (List String)       -- nil slice marshals as null
  jwk : Option Json                     -- `JWK.MarshalJSON` result re-read as a map; `none` = marshalling fails
  b58 : String := ""

structure DocService where
  id : String
  type : Json
  endpoint : Json                       -- `ServiceEndpoint.MarshalJSON`, `null` when unset
  priority : Option Json := none
  recipientKeys : List String := []
  routingKeys : List String := []
  accept : List String := []
  properties : List (String × Json) := []

/-- Go map assignment on an association list kept in insertion order: replace or append -/
def setMember (kvs : List (String × Json)) (k : String) (v : Json) : List (String × Json) :=
  if kvs.any (·.1 = k) then kvs.map fun kv => if kv.1 = k then (k, v) else kv else kvs ++ [(k, v)]

/-- `populateRawPublicKey` -/
def rawKey (k : DocKey) : Option Json :=
  let base : List (String × Json) :=
    [("id", .str k.id), ("type", .str k.type)] ++
     -- a key without purposes is a general key: the member is left out (D26)
     (match k.purposes with | some (p :: ps) => [("purposes", .arr ((p :: ps).map .str))] | _ => [])
  match k.jwk with
  | some j => some (.obj (base ++ [("publicKeyJwk", j)]))
  | none =>
    if k.type = "JsonWebKey2020" then none
    else if k.b58 ≠ "" then some (.obj (base ++ [("publicKeyBase58", .str k.b58)]))
    else none

def strs (xs : List String) : Json := .arr (xs.map .str)

/-- `PopulateRawServices`, one service -/
def rawService (s : DocService) : Json :=
  let m := s.properties
  let m := setMember m "id" (.str s.id)
  let m := setMember m "type" s.type
  let m := if s.endpoint.isNull then m else setMember m "serviceEndpoint" s.endpoint
  let m := match s.priority with | some p => setMember m "priority" p | none => m
  let m := if s.recipientKeys.isEmpty then m else setMember m "recipientKeys" (strs s.recipientKeys)
  let m := if s.routingKeys.isEmpty then m else setMember m "routingKeys" (strs s.routingKeys)
  let m := if s.accept.isEmpty then m else setMember m "accept" (strs s.accept)
  .obj m

/-- `Doc.JSONBytes` as a value (`omitempty` on the three members) -/
def docJson (keys : List DocKey) (services : List DocService) (aka : List String) : Option Json :=
  match mapM? rawKey keys with
  | none => none
  | some ks =>
    some (.obj ((if ks.isEmpty then [] else [("publicKey", .arr ks)]) ++
      (if services.isEmpty then [] else [("service", .arr (services.map rawService))]) ++
      (if aka.isEmpty then [] else [("alsoKnownAs", strs aka)])))

/-- what `createUpdatePatches` emits: removals first, then additions -/
structure UpdateOpts where
  removeAka : List String := []
  removeKeys : List String := []
  removeServices : List String := []
  addAka : List String := []
  addServices : List DocService := []
  addKeys : List DocKey := []

def updatePatches (o : UpdateOpts) : Option (List Json) :=
  match mapM? rawKey o.addKeys with
  | none => none
  | some ks =>
    some ((if o.removeAka.isEmpty then [] else [PatchBuild.mkPatch "remove-also-known-as" "uris" (strs o.removeAka)]) ++
      (if o.removeKeys.isEmpty then [] else [PatchBuild.mkPatch "remove-public-keys" "ids" (strs o.removeKeys)]) ++
      (if o.removeServices.isEmpty then [] else [PatchBuild.mkPatch "remove-services" "ids" (strs o.removeServices)]) ++
      (if o.addAka.isEmpty then [] else [PatchBuild.mkPatch "add-also-known-as" "uris" (strs o.addAka)]) ++
      (if o.addServices.isEmpty then [] else [PatchBuild.mkPatch "add-services" "services" (.arr (o.addServices.map rawService))]) ++
      (if o.addKeys.isEmpty then [] else [PatchBuild.mkPatch "add-public-keys" "publicKeys" (.arr ks)]))

/-- `getUniqueSuffix`: what follows the last colon -/
def suffixOfDid (did : String) : Option String :=
  let cs := did.toList
  if cs.contains ':' then some (String.ofList ((cs.reverse.takeWhile (· ≠ ':')).reverse)) else none

end Client
end Sidetree
