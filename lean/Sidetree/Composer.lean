/-
  pkg/versions/1_0/doccomposer/composer.go. A document is a JSON object; `ApplyPatches` works on
  a deep copy, which in a functional model is the value itself.
-/
import Sidetree.JsonPatch

namespace Sidetree.Composer
open Sidetree Sidetree.Patch Sidetree.JsonPatch

def idOf (e : Json) : String := stringEntry (e.get? "id")

/-- the loop of `applyAddPublicKeys` / `applyAddServiceEndpoints`: an entry whose id is among the
    ids the document had *before the patch* replaces every entry with that id, any other entry
    is appended -/
def upsertStep (origIds : List String) (cur : List Json) (e : Json) : List Json :=
  if origIds.contains (idOf e) then cur.map (fun x => if idOf x = idOf e then e else x)
  else cur ++ [e]

def upsertById (existing adds : List Json) : List Json :=
  adds.foldl (upsertStep (existing.map idOf)) existing

/-- `applyRemovePublicKeys` / `applyRemoveServiceEndpoints` -/
def removeByIds (existing : List Json) (ids : List String) : List Json :=
  existing.filter fun e => !ids.contains (idOf e)

/-- `applyAddAlsoKnownAs`: existing URIs, then the new ones that were not there before -/
def orderedUnion (existing adds : List String) : List String :=
  existing ++ adds.filter fun u => !existing.contains u

/-- `applyRemoveAlsoKnownAs` -/
def orderedDiff (existing removes : List String) : List String :=
  existing.filter fun u => !removes.contains u

/-- the list as it stands in the document (`doc["alsoKnownAs"].([]interface{})`; anything else: empty) -/
def rawList : Option Json → List Json
  | some (.arr xs) => xs
  | _ => []

/-- `applyAddAlsoKnownAs` since D50: the list as it is — entries of another JSON type included —
    then the new URIs that are not among its string entries -/
def akaUnion (raw : List Json) (adds : List String) : List Json :=
  raw ++ ((adds.filter fun u => !(raw.filterMap Json.str?).contains u).map .str)

/-- `applyRemoveAlsoKnownAs` since D50: only string entries are compared with the URIs to remove -/
def akaDiff (raw : List Json) (removes : List String) : List Json :=
  raw.filter fun e => match e.str? with
    | some s => !removes.contains s
    | none => true

def members : Json → List (String × Json)
  | .obj kvs => kvs
  | _ => []

def setDoc (doc : Json) (k : String) (v : Json) : Json := .obj (Json.setMember k v (members doc))

/-- `applyRecover` (the replace action): the value is re-marshalled and decoded as an object
    (`null` decodes to the empty object); the old document is discarded -/
def replaceDoc (value : Json) : Option Json :=
  match value with
  | .obj _ => some (.obj [("publicKey", (value.get? "publicKeys").getD .null),
                          ("service", (value.get? "services").getD .null)])
  | .null => some (.obj [("publicKey", .null), ("service", .null)])
  | _ => none

inductive CR where
  | ok (doc : Json)
  | err
  | blowup
deriving Repr

/-- `applyPatch` -/
def applyPatch (doc : Json) (p : Json) : CR :=
  match getAction p, getValue p with
  | some action, some value =>
    if action = "replace" then
      match replaceDoc value with
      | some d => .ok d
      | none => .err
    else if action = "ietf-json-patch" then
      match Lib.decodePatch value with
      | none => .err
      | some ops =>
        match Lib.applyAll doc ops with
        | .ok d => .ok d
        | .blowup => .blowup
        | _ => .err
    else if action = "add-public-keys" then
      .ok (setDoc doc "publicKey" (listOrNull (upsertById (objectEntries (doc.get? "publicKey")) (objectEntries (some value)))))
    else if action = "remove-public-keys" then
      .ok (setDoc doc "publicKey" (listOrNull (removeByIds (objectEntries (doc.get? "publicKey")) (stringArray (some value)))))
    else if action = "add-services" then
      .ok (setDoc doc "service" (listOrNull (upsertById (objectEntries (doc.get? "service")) (objectEntries (some value)))))
    else if action = "remove-services" then
      .ok (setDoc doc "service" (listOrNull (removeByIds (objectEntries (doc.get? "service")) (stringArray (some value)))))
    else if action = "add-also-known-as" then
      .ok (setDoc doc "alsoKnownAs" (listOrNull (akaUnion (rawList (doc.get? "alsoKnownAs")) (stringArray (some value)))))
    else if action = "remove-also-known-as" then
      .ok (setDoc doc "alsoKnownAs" (listOrNull (akaDiff (rawList (doc.get? "alsoKnownAs")) (stringArray (some value)))))
    else .err
  | _, _ => .err

/-- `ApplyPatches`: left fold, first failure aborts with no document -/
def applyPatches (doc : Json) : List Json → CR
  | [] => .ok doc
  | p :: ps =>
    match applyPatch doc p with
    | .ok d => applyPatches d ps
    | r => r

end Sidetree.Composer
