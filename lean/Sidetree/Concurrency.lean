/-
  C20: the two shared mutable objects of the library (the namespace provider's map and the client
  registry's factory map) behind their `sync.RWMutex`, and everything else as what it is: values
  fixed at construction and functions of their arguments.

  * `Lock.*`  — readers/writer lock semantics as a transition system over "which goroutine is
                inside which kind of critical section"; the exclusion invariant.
  * `Reg.*`   — the registries as atomic operations on an association list (one operation = one
                critical section, which is what the extracted lock facts say about the Go
                methods); properties of every operation sequence, hence of every interleaving.
-/
namespace Sidetree.Conc

/-! ### readers/writer lock -/

inductive Mode | r | w
deriving DecidableEq, Repr

namespace Lock

/-- which section each goroutine is inside (`none` = outside) -/
structure State where
  inside : Nat → Option Mode

def init : State := { inside := fun _ => none }

def set (s : State) (t : Nat) (m : Option Mode) : State := { inside := fun u => if u = t then m else s.inside u }

/-- `Lock` waits until nobody is inside; `RLock` until no writer is; unlocking leaves -/
inductive Step : State → State → Prop
  | lock (s : State) (t : Nat) : (∀ u, s.inside u = none) → Step s (set s t (some .w))
  | rlock (s : State) (t : Nat) : s.inside t = none → (∀ u, s.inside u ≠ some .w) → Step s (set s t (some .r))
  | unlock (s : State) (t : Nat) : s.inside t ≠ none → Step s (set s t none)

inductive Reachable : State → Prop
  | init : Reachable init
  | step {s s'} : Reachable s → Step s s' → Reachable s'

/-- a goroutine inside a write section is alone -/
def Exclusive (s : State) : Prop := ∀ t u, t ≠ u → s.inside t = some .w → s.inside u = none

end Lock

/-! ### registries as atomic operations -/

inductive Op where
  | add (k : String) (v : Nat)        -- nsprovider.Add: insert or overwrite
  | register (k : String) (v : Nat)   -- clientregistry.Register: refuse (panic) if present
  | lookup (k : String)               -- ForNamespace / resolveFactory
deriving Repr, DecidableEq

inductive Out where
  | done | refused | found (v : Nat) | missing
deriving Repr, DecidableEq

abbrev Reg := List (String × Nat)

def Reg.get (r : Reg) (k : String) : Option Nat := (r.find? (·.1 = k)).map (·.2)

def Reg.put (r : Reg) (k : String) (v : Nat) : Reg := (k, v) :: r.filter (·.1 ≠ k)

def step (r : Reg) : Op → Reg × Out
  | .add k v => (r.put k v, .done)
  | .register k v => if (r.get k).isSome then (r, .refused) else (r.put k v, .done)
  | .lookup k => (r, match r.get k with | some v => .found v | none => .missing)

/-- run operations one at a time -/
def run : Reg → List Op → Reg × List Out
  | r, [] => (r, [])
  | r, op :: ops =>
    let (r', o) := step r op
    let (r'', os) := run r' ops
    (r'', o :: os)

/-- a sequence that interleaves the goroutines' own sequences, keeping each one's order -/
inductive Interleaving : List (List Op) → List Op → Prop
  | nil (ts : List (List Op)) : (∀ t ∈ ts, t = []) → Interleaving ts []
  | cons (pre post : List (List Op)) (op : Op) (rest : List Op) (s : List Op) :
      Interleaving (pre ++ rest :: post) s → Interleaving (pre ++ (op :: rest) :: post) (op :: s)

/-- number of registrations of `k` that succeeded -/
def successes (k : String) : List Op → List Out → Nat
  | .register k' _ :: ops, .done :: os => (if k' = k then 1 else 0) + successes k ops os
  | _ :: ops, _ :: os => successes k ops os
  | _, _ => 0

/-- round-robin schedule of equal per-goroutine programs (what the driver evaluates) -/
def roundRobin : Nat → List (List Op) → List Op
  | 0, _ => []
  | fuel + 1, ts =>
    let heads := ts.filterMap List.head?
    if heads.isEmpty then [] else heads ++ roundRobin fuel (ts.map List.tail)

end Sidetree.Conc

/-! ### critical sections made of several map accesses

  One step of `run` above is a whole critical section. Here a section is a sequence of single map
  accesses executed one at a time by its goroutine, interleaved with the other goroutines'
  steps under the lock's rules. The discipline read off the Go sources is built into the step
  relation: a `put` is only ever executed inside a write section, a read section contains only
  `get`s. `Props/C20.lean` proves that a write section runs alone and that the map does not
  change while anybody is inside a read section — which is what makes a section atomic. -/

namespace Sidetree.Conc

inductive Prim where
  | put (k : String) (v : Nat)
  | get (k : String)
deriving Repr, DecidableEq

def Prim.isGet : Prim → Bool
  | .get _ => true
  | .put _ _ => false

/-- one goroutine: which kind of section it is inside, and what is left of the section's body -/
structure TState where
  inside : Option Mode := none
  todo : List Prim := []

structure Sys where
  reg : Reg
  th : Nat → TState

def Sys.set (s : Sys) (t : Nat) (ts : TState) : Sys := { s with th := fun u => if u = t then ts else s.th u }

def Sys.init : Sys := { reg := [], th := fun _ => {} }

/-- `SStep s t s'`: goroutine `t` takes one step -/
inductive SStep : Sys → Nat → Sys → Prop
  | beginW (s : Sys) (t : Nat) (body : List Prim) : (∀ u, (s.th u).inside = none) →
      SStep s t (s.set t { inside := some .w, todo := body })
  | beginR (s : Sys) (t : Nat) (body : List Prim) : (s.th t).inside = none → (∀ u, (s.th u).inside ≠ some .w) →
      body.all Prim.isGet = true → SStep s t (s.set t { inside := some .r, todo := body })
  | put (s : Sys) (t : Nat) (k : String) (v : Nat) (rest : List Prim) : (s.th t).inside = some .w →
      (s.th t).todo = .put k v :: rest → SStep s t ({ s with reg := s.reg.put k v }.set t { inside := some .w, todo := rest })
  | get (s : Sys) (t : Nat) (k : String) (rest : List Prim) (m : Mode) : (s.th t).inside = some m →
      (s.th t).todo = .get k :: rest → SStep s t (s.set t { inside := some m, todo := rest })
  | done (s : Sys) (t : Nat) (m : Mode) : (s.th t).inside = some m → (s.th t).todo = [] →
      SStep s t (s.set t {})

inductive SReachable : Sys → Prop
  | init : SReachable Sys.init
  | step {s s' t} : SReachable s → SStep s t s' → SReachable s'

/-- a writer is alone; a reader's remaining body has no `put` -/
def SInv (s : Sys) : Prop :=
  (∀ t u, t ≠ u → (s.th t).inside = some .w → (s.th u).inside = none) ∧
  (∀ t, (s.th t).inside = some .r → (s.th t).todo.all Prim.isGet = true)

end Sidetree.Conc
