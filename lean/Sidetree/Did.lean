/-
  Long-form DID resolution: operationparser/method.go (ParseDID), dochandler/dochandler.go,
  docutil/docutil.go, with the handler's fixed protocol (config/protocol.go) and transformer
  options (base enabled, no method contexts).
-/
import Sidetree.Transformer

namespace Sidetree.Did
open Sidetree

/-- `GetProtocolConfig()` of the long-form handler (tied to the source by `Obligations/C17_defaultProtocol`) -/
def defaultCfg : Protocol :=
  { genesisTime := 0, multihashAlgorithms := [18], maxOperationCount := 10000, maxOperationSize := 2500,
    maxOperationHashLength := 100, maxDeltaSize := 1700, maxCasURILength := 500, compressionAlgorithm := "GZIP",
    maxChunkFileSize := 10000000, maxProvisionalIndexFileSize := 1000000, maxCoreIndexFileSize := 1000000,
    maxProofFileSize := 2500000,
    patches := ["replace", "add-public-keys", "remove-public-keys", "add-services", "remove-services",
                "add-also-known-as", "remove-also-known-as"],
    signatureAlgorithms := ["EdDSA", "ES256", "ES256K"], keyAlgorithms := ["Ed25519", "P-256", "P-384", "secp256k1"],
    maxMemoryDecompressionFactor := 3, nonceSize := 16, maxOperationTimeDelta := 0 }

def defaultOpts : TransformOpts := { includeBase := true, keyCtx := Expected.keyContexts }

/-- `strings.ReplaceAll(s, pat, "")` for a non-empty pattern -/
def removeAll (pat : List Char) : Nat → List Char → List Char
  | 0, s => s
  | _, [] => []
  | fuel + 1, c :: rest =>
    if pat.isPrefixOf (c :: rest) ∧ !pat.isEmpty then removeAll pat fuel ((c :: rest).drop pat.length)
    else c :: removeAll pat fuel rest

def lastIndexOf (c : Char) (s : List Char) : Option Nat :=
  let idx := (s.reverse.findIdx? (· == c))
  idx.map fun i => s.length - 1 - i

def splitColon (cs : List Char) : List (List Char) :=
  let rec go : List Char → List Char → List (List Char)
    | [], cur => [cur.reverse]
    | c :: rest, cur => if c = ':' then cur.reverse :: go rest [] else go rest (c :: cur)
  go cs []

/-- `json.Marshal(model.CreateRequest)` as a value -/
def createRequestJson (ty : String) (c : Parser.CreateReq) : Json :=
  .obj ((if ty = "" then [] else [("type", .str ty)]) ++
    (match c.suffixData with | some sd => [("suffixData", sd.toJson)] | none => []) ++
    (match c.delta with | some d => [("delta", d.toJson)] | none => []))

/-- `parseInitialState`: the decoded bytes must be the canonical encoding of the request they denote -/
def parseInitialState (initial : String) : Option Parser.CreateReq :=
  match b64DecodeStrictStr initial with
  | none => none
  | some bs =>
    match (stringOfBytes? bs).bind fun t => Parse.parse t.toList with
    | none => none
    | some j =>
      match Parser.decodeCreate j, (GoJson.topObject j).bind fun top => GoJson.str top "type" with
      | some c, some ty =>
        match transformValue (createRequestJson ty c) with
        | some canon =>
          if b64EncodeStr (bytesOfString (String.ofList canon)) = initial then
            -- the type member is optional, but if present it says create
            (if ty = "" ∨ ty = "create" then some c else none)
          else none
        | none => none
      | _, _ => none

inductive ParsedDID where
  | short
  | long (did : String) (initial : String) (req : Json) (size : Nat)
  | error

/-- `ParseDID(namespace, did)` -/
def parseDID (ns did : String) : ParsedDID :=
  let without := removeAll (ns.toList ++ [':']) (did.toList.length + 1) did.toList
  if !without.contains ':' then .short
  else match lastIndexOf ':' did.toList with
    | none => .short
    | some e =>
      let did' := String.ofList (did.toList.take e)
      let initial := String.ofList (did.toList.drop (e + 1))
      match parseInitialState initial with
      | none => .error
      | some c =>
        -- the request handed on is the canonical encoding of the decoded request (with its type
        -- set), as bytes: what the parser gets is the reading of that text
        match transformValue (createRequestJson "create" c) with
        | some canon =>
          (match Parse.parse canon with
          | some req => .long did' initial req (utf8Len (String.ofList canon))
          | none => .error)
        | none => .error

/-- `GetTransformationInfoForUnpublished(ns, "", "", suffix, jcs)` -/
def unpublishedInfo (ns suffix jcs : String) : Json :=
  let short := ns ++ ":" ++ suffix
  .obj ([("published", .bool false)] ++
    (if jcs = "" then [] else [("equivalentId", .arr [.str short])]) ++
    [("id", .str (if jcs = "" then short else short ++ ":" ++ jcs))])

/-- `strings.Contains` -/
def containsSub (s sub : List Char) : Bool :=
  sub.isEmpty || (List.range (s.length + 1)).any fun i => sub.isPrefixOf (s.drop i)

/-- `GetTransformationInfoForUnpublished(ns, domain, label, suffix, jcs)` in full (the long-form
    handler passes empty domain and label: `unpublishedInfo`) -/
def unpublishedInfoFull (ns domain label suffix jcs : String) : Json :=
  let id := if label = "" then ns ++ ":" ++ suffix else ns ++ ":" ++ label ++ ":" ++ suffix
  let eq1 := if jcs = "" then [] else [Json.str id]
  let eq2 :=
    if label ≠ "" ∧ domain ≠ "" then
      [Json.str (if containsSub label.toList domain.toList then id else ns ++ ":" ++ domain ++ ":" ++ label ++ ":" ++ suffix)]
    else []
  .obj ([("published", .bool false)] ++
    (if (eq1 ++ eq2).isEmpty then [] else [("equivalentId", .arr (eq1 ++ eq2))]) ++
    [("id", .str (if jcs = "" then id else id ++ ":" ++ jcs))])

/-- `GetTransformationInfoForPublished(ns, id, suffix, state)`: the canonical id is always set; the
    equivalent ids are the canonical id followed by one id per equivalent reference, in order -/
def publishedInfo (ns id suffix canonicalRef : String) (equivalentRefs : List String) : Json :=
  let canonical := ns ++ (if canonicalRef = "" then "" else ":" ++ canonicalRef) ++ ":" ++ suffix
  .obj [("id", .str id), ("published", .bool true), ("canonicalId", .str canonical),
        ("equivalentId", .arr (.str canonical :: equivalentRefs.map fun r => .str (ns ++ ":" ++ r ++ ":" ++ suffix)))]

/-- `getCreateResponse`: apply the create to an empty state, refuse an empty document, transform -/
def createResponse (H : HashFam) (orc : Oracles) (suffix : String) (req : Json) (size : Nat) (info : Json) : Option Json :=
  let anchored : AnchoredOp :=
    { type := "create", uniqueSuffix := suffix, size := size, request := some req, transactionTime := 0,
      transactionNumber := 0, protocolVersion := defaultCfg.genesisTime, canonicalReference := "", equivalentReferences := none }
  match Applier.apply H defaultCfg orc anchored {} with
  | .ok rm =>
    (match rm.doc with
    | some (.obj []) => none
    | some (.obj _) => Transformer.transform defaultOpts rm info [] []
    | _ => none)
  | _ => none

/-- `DocumentHandler.ResolveDocument` -/
def resolve (H : HashFam) (orc : Oracles) (ns did : String) : Option Json :=
  if !(ns.toList ++ [':']).isPrefixOf did.toList then none
  else match parseDID ns did with
    | .long did' initial req size =>
      let parts := splitColon did'.toList
      if parts.length < 3 then none
      else
        let suffix := String.ofList (parts.getLast?.getD [])
        match Parser.parse H defaultCfg orc ns size (some req) with
        | some op =>
          if suffix ≠ op.uniqueSuffix then none
          -- no further segments between namespace and suffix: that would be a DID of another namespace (D49)
          else if did' ≠ ns ++ ":" ++ suffix then none
          else createResponse H orc suffix req size (unpublishedInfo ns suffix initial)
        | none => none
    | _ => none

/-- the canonical text `ProcessOperation` puts into the DID it returns: the create request as
    `model.CreateRequest` reads it (members the struct does not know are gone), re-marshalled -/
def canonicalRequestOf (j : Json) : Option (List Char) :=
  match Parser.decodeCreate j, (GoJson.topObject j).bind fun top => GoJson.str top "type" with
  | some c, some ty => transformValue (createRequestJson ty c)
  | _, _ => none

/-- `DocumentHandler.ProcessOperation` on request bytes (given as size and JSON reading): the
    request as received has to be an acceptable create request, and so has its canonical form,
    which is read again and from which the result is computed -/
def processOperation (H : HashFam) (orc : Oracles) (ns : String) (_text : Option (List Char)) (size : Nat) (req : Option Json) :
    Option Json :=
  match Parser.parse H defaultCfg orc ns size req, req with
  | some op, some j =>
    if op.type ≠ .create then none
    else match canonicalRequestOf j with
      | some canon =>
        let csize := utf8Len (String.ofList canon)
        match Parse.parse canon with
        | some cj =>
          (match Parser.parse H defaultCfg orc ns csize (some cj) with
          | some cop =>
            createResponse H orc cop.uniqueSuffix cj csize
              (unpublishedInfo ns cop.uniqueSuffix (b64EncodeStr (bytesOfString (String.ofList canon))))
          | none => none)
        | none => none
      | none => none
  | _, _ => none

end Sidetree.Did
