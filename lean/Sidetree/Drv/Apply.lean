import Sidetree.Applier
import Sidetree.Drv.Patch
namespace Sidetree.Drv
open Sidetree

def hashFam : HashFam := sha2

/-- oracle table of a case: list of {jwk, in (hex), sig (hex), ok} -/
def verifyOracle (tab : List Json) : Jwk → Bytes → Bytes → Option Bool := fun k sig inp =>
  let kj := k.toJson.normalize
  let hin := hexOfBytes inp
  let hsig := hexOfBytes sig
  (tab.find? fun e =>
    getStr e "in" == hin && getStr e "sig" == hsig &&
      ((Jwk.ofJson? (e.getD "jwk")).map fun k' => k'.toJson.normalize == kj).getD false).bind fun e =>
    (e.get? "ok").bind Json.bool?

def oraclesOf (c : Json) : Oracles :=
  { verify := verifyOracle (getArr c "oracle")
    anchorOriginOK := fun _ => !(((c.get? "ov_fail").bind Json.bool?).getD false)
    anchorTimeOK := fun _ _ => !(((c.get? "tv_fail").bind Json.bool?).getD false)
    uri := uriOracle (c.getD "uri") }

/-- the JSON reading of request text as the request structs see it (member names up to case) -/
def requestReading (text : List Char) : Option Json :=
  (Parse.parse text).map (GoJson.view Parser.requestShape)

/-- two members of one object decoded into the same struct field: outside the model -/
def requestAmbiguous (text : List Char) : Bool :=
  match Parse.parse text with
  | some j => !GoJson.dupFree Parser.requestShape j
  | none => false

/-- request bytes (hex) → (size, JSON reading) -/
def requestOf (hex : String) : Nat × Option Json :=
  let bs := (bytesOfHex? hex.toList).getD []
  (bs.length, (stringOfBytes? bs).bind fun t => requestReading t.toList)

def requestAmbiguousHex (hex : String) : Bool :=
  match stringOfBytes? ((bytesOfHex? hex.toList).getD []) with
  | some t => requestAmbiguous t.toList
  | none => false

def optJson : Option Json → Json
  | some j => j
  | none => .null

def opTypeJson (t : OpType) : Json := .str t.toString

/-- kind `parse` (C07, C03) -/
def parseKind (c : Json) : Json :=
  if requestAmbiguousHex (getStr c "req") then outOfDomain "two members of one object decode into the same field" else
  let cfg := Protocol.ofJson (c.getD "cfg")
  let (size, req) := requestOf (getStr c "req")
  let res := Parser.parse hashFam cfg (oraclesOf c) (getStr c "ns") size req
  let tr := Parser.traceOperation hashFam cfg (oraclesOf c) size req false
  let calls : List (String × Json) :=
    [("origin_calls", .arr tr.origin), ("time_calls", .arr (tr.time.map fun p => .arr [Json.mkInt p.1, Json.mkInt p.2]))]
  match res with
  | some op => .obj ([("class", .str "ok"),
      ("op", .obj [("type", opTypeJson op.type), ("suffix", .str op.uniqueSuffix), ("id", .str op.id),
                   ("request_equal", .bool true), ("anchor_origin", optJson op.anchorOrigin)])] ++ calls)
  | none => .obj ([("class", .str "err")] ++ calls)

/-- kind `getters` (C04 chain half) -/
def gettersKind (c : Json) : Json :=
  let cfg := Protocol.ofJson (c.getD "cfg")
  let orc := oraclesOf c
  .arr ((getArr c "reqs").map fun r =>
    let (size, req) := requestOf ((r.str?).getD "")
    .obj [("reveal", optStr (Parser.getRevealValue hashFam cfg orc size req)),
          ("commitment", optStr (Parser.getCommitment hashFam cfg orc size req))])

def anchoredOf (o : Json) : AnchoredOp :=
  let (size, req) := requestOf (getStr o "req")
  { type := getStr o "type", uniqueSuffix := getStr o "suffix", size := size, request := req,
    transactionTime := getNat o "t", transactionNumber := getNat o "n", protocolVersion := getNat o "v",
    canonicalReference := getStr o "cr",
    equivalentReferences := ((o.get? "er").bind Json.arr?).map fun xs => xs.filterMap Json.str? }

def rmJson (rm : RM) : Json :=
  .obj [("doc", optJson rm.doc), ("created", Json.mkNat rm.createdTime), ("updated", Json.mkNat rm.updatedTime),
        ("lastT", Json.mkNat rm.lastOperationTransactionTime), ("lastN", Json.mkNat rm.lastOperationTransactionNumber),
        ("lastV", Json.mkNat rm.lastOperationProtocolVersion), ("uc", .str rm.updateCommitment),
        ("rc", .str rm.recoveryCommitment), ("deactivated", .bool rm.deactivated),
        ("anchorOrigin", optJson rm.anchorOrigin),
        ("er", match rm.equivalentReferences with | some xs => .arr (xs.map .str) | none => .null),
        ("cr", .str rm.canonicalReference), ("versionId", .str rm.versionID),
        ("pub", rm.publishedOperations), ("unpub", rm.unpublishedOperations)]

def rmOfJson (j : Json) : RM :=
  { doc := match j.get? "doc" with | some .null => none | r => r
    createdTime := getNat j "created", updatedTime := getNat j "updated",
    lastOperationTransactionTime := getNat j "lastT", lastOperationTransactionNumber := getNat j "lastN",
    lastOperationProtocolVersion := getNat j "lastV", updateCommitment := getStr j "uc",
    recoveryCommitment := getStr j "rc", deactivated := ((j.get? "deactivated").bind Json.bool?).getD false,
    anchorOrigin := match j.get? "anchorOrigin" with | some .null => none | r => r,
    equivalentReferences := ((j.get? "er").bind Json.arr?).map fun xs => xs.filterMap Json.str?,
    canonicalReference := getStr j "cr", versionID := getStr j "versionId",
    publishedOperations := j.getD "pub", unpublishedOperations := j.getD "unpub" }

/-- kind `apply` (C01, C02, C12 applier half, C08): fold a history, reporting every step -/
def applyKind (c : Json) : Json :=
  let cfg := Protocol.ofJson (c.getD "cfg")
  let orc := oraclesOf c
  let init : RM := match c.get? "init" with
    | some (.obj kvs) => rmOfJson (.obj kvs)
    | _ => {}
  let rec go (rm : RM) : List Json → List Json → Option (List Json)
    | [], acc => some acc.reverse
    | o :: rest, acc =>
      match Applier.apply hashFam cfg orc (anchoredOf o) rm with
      | .ok rm' => go rm' rest (.obj [("class", .str "ok"), ("state", rmJson rm'), ("mutated", .bool false)] :: acc)
      | .refused => go rm rest (.obj [("class", .str "err"), ("nil_on_err", .bool true), ("mutated", .bool false)] :: acc)
      | .blowup => go rm rest (.obj [("class", .str "killed")] :: acc)
      | .outOfDomain => none
  match go init (getArr c "ops") [] with
  | some steps => .obj [("steps", .arr steps)]
  | none => outOfDomain "no signature verdict supplied for a signing input the model derived"

end Sidetree.Drv
