import Sidetree.Client
import Sidetree.Vdr
import Sidetree.Lemmas.Framing
import Sidetree.Drv.Did
import Sidetree.Drv.Keys
namespace Sidetree.Drv
open Sidetree Sidetree.Client

/-- the case's signer table: signing input (hex) ↦ signature (hex) -/
def tableSign (tab : List Json) : Bytes → Option Bytes := fun inp =>
  let h := hexOfBytes inp
  (tab.find? fun e => match e with
    | .arr [.str i, _] => i == h
    | _ => false).bind fun e => match e with
    | .arr [_, .str s] => bytesOfHex? s.toList
    | _ => none

def signerOf (tab : List Json) (j : Option Json) : Option Signer :=
  match j with
  | some (.obj kvs) =>
    some { headers := match Json.lookup "headers" kvs with
                      | some (.obj h) => some h
                      | _ => none
           sign := tableSign tab }
  | _ => none

def jwkOf (j : Option Json) : Option Jwk :=
  match j with
  | some (.obj kvs) => Jwk.ofJson? (.obj kvs)
  | _ => none

def optMember (c : Json) (k : String) : Option Json :=
  match c.get? k with
  | some .null => none
  | r => r

/-- a public key given by curve name and coordinates (or Ed25519 bytes), as `pubkey.GetPublicKeyJWK` converts it -/
def pubJwk (j : Option Json) : Option Jwk :=
  match j with
  | some (.obj kvs) =>
    let c := Json.obj kvs
    let curve := getStr c "curve"
    if curve = "Ed25519" then some (edToJwk (getBytes c "x"))
    else (Curve.byName curve).bind fun cv => ecToJwk cv (natOfHex c "x") (natOfHex c "y")
  | _ => none

def docKeyOf (j : Json) : DocKey :=
  { id := getStr j "id", type := getStr j "type",
    purposes := match j.get? "purposes" with | some (.arr xs) => some (xs.filterMap Json.str?) | _ => none
    jwk := optMember j "jwk", b58 := getStr j "b58" }

def docServiceOf (j : Json) : DocService :=
  { id := getStr j "id", type := j.getD "type", endpoint := j.getD "endpoint", priority := optMember j "priority",
    recipientKeys := getStrList j "recipientKeys", routingKeys := getStrList j "routingKeys", accept := getStrList j "accept",
    properties := match j.get? "properties" with | some (.obj kvs) => kvs | _ => [] }

/-- one builder call; `none` = the builder returns an error -/
def buildStep (tab : List Json) (s : Json) : Option Json :=
  let i := s.getD "info"
  let code := getNat i "code"
  let via := getStr s "via"
  let op := getStr s "op"
  if via = "builder" then
    if op = "create" then
      newCreateRequest hashFam
        { opaqueDoc := optMember i "opaque", patches := getArr i "patches", recoveryCommitment := getStr i "rc",
          updateCommitment := getStr i "uc", anchorOrigin := optMember i "anchorOrigin", type := getStr i "type", code := code }
    else if op = "update" then
      newUpdateRequest hashFam
        { didSuffix := getStr i "didSuffix", patches := getArr i "patches", updateCommitment := getStr i "uc",
          updateKey := jwkOf (i.get? "key"), code := code, signer := signerOf tab (i.get? "signer"),
          revealValue := getStr i "reveal", anchorFrom := getInt i "anchorFrom", anchorUntil := getInt i "anchorUntil" }
    else if op = "recover" then
      newRecoverRequest hashFam
        { didSuffix := getStr i "didSuffix", recoveryKey := jwkOf (i.get? "key"), opaqueDoc := optMember i "opaque",
          patches := getArr i "patches", recoveryCommitment := getStr i "rc", updateCommitment := getStr i "uc",
          anchorOrigin := optMember i "anchorOrigin", anchorFrom := getInt i "anchorFrom", anchorUntil := getInt i "anchorUntil",
          code := code, signer := signerOf tab (i.get? "signer"), revealValue := getStr i "reveal" }
    else if op = "deactivate" then
      newDeactivateRequest
        { didSuffix := getStr i "didSuffix", recoveryKey := jwkOf (i.get? "key"), signer := signerOf tab (i.get? "signer"),
          revealValue := getStr i "reveal", anchorFrom := getInt i "anchorFrom", anchorUntil := getInt i "anchorUntil" }
    else none
  else
    -- the Sidetree client (sidetree/client.go)
    let keys := (getArr i "keys").map docKeyOf
    let services := (getArr i "services").map docServiceOf
    let aka := getStrList i "aka"
    let ao : Option Json := if getStr i "anchorOrigin" = "" then none else some (.str (getStr i "anchorOrigin"))
    let signerJwk := jwkOf ((i.get? "signer").bind (·.get? "jwk"))
    let signer := signerOf tab (i.get? "signer")
    let opCode := Hashing.getMultihashCode (getStr i "commitment")
    let reveal := match signerJwk, opCode with
      | some k, some c => Hashing.revealValue hashFam k.toJson c
      | _, _ => none
    if op = "create" then
      match docJson keys services aka, pubJwk (i.get? "recoveryKey"), pubJwk (i.get? "updateKey") with
      | some doc, some rk, some uk =>
        match Hashing.commitment hashFam rk.toJson code, Hashing.commitment hashFam uk.toJson code with
        | some rc, some uc =>
          newCreateRequest hashFam { opaqueDoc := some doc, recoveryCommitment := rc, updateCommitment := uc, anchorOrigin := ao, code := code }
        | _, _ => none
      | _, _, _ => none
    else if op = "update" then
      let o : UpdateOpts :=
        { removeAka := getStrList i "removeAka", removeKeys := getStrList i "removeKeys", removeServices := getStrList i "removeServices",
          addAka := getStrList i "addAka", addServices := (getArr i "addServices").map docServiceOf,
          addKeys := (getArr i "addKeys").map docKeyOf }
      match pubJwk (i.get? "nextUpdateKey"), updatePatches o, suffixOfDid (getStr i "did"), reveal with
      | some nk, some patches, some suffix, some rv =>
        match Hashing.commitment hashFam nk.toJson code with
        | some nc =>
          newUpdateRequest hashFam
            { didSuffix := suffix, revealValue := rv, updateCommitment := nc, updateKey := signerJwk, patches := patches,
              code := code, signer := signer }
        | none => none
      | _, _, _, _ => none
    else if op = "recover" then
      match docJson keys services aka, pubJwk (i.get? "nextRecoveryKey"), pubJwk (i.get? "nextUpdateKey"),
            suffixOfDid (getStr i "did"), reveal with
      | some doc, some nrk, some nuk, some suffix, some rv =>
        match Hashing.commitment hashFam nrk.toJson code, Hashing.commitment hashFam nuk.toJson code with
        | some nrc, some nuc =>
          newRecoverRequest hashFam
            { didSuffix := suffix, revealValue := rv, opaqueDoc := some doc, recoveryCommitment := nrc, updateCommitment := nuc,
              code := code, signer := signer, recoveryKey := signerJwk, anchorOrigin := ao }
        | _, _ => none
      | _, _, _, _, _ => none
    else if op = "deactivate" then
      match suffixOfDid (getStr i "did"), reveal with
      | some suffix, some rv =>
        newDeactivateRequest { didSuffix := suffix, revealValue := rv, recoveryKey := signerJwk, signer := signer }
      | _, _ => none
    else none

/-- do the hypotheses of `Props.C08.create_built_accepted` hold for this create step? (evidence of
    non-vacuity: counted per run) -/
def createPremises (cfg : Protocol) (orc : Oracles) (s : Json) : Option Bool :=
  let i := s.getD "info"
  if getStr s "op" ≠ "create" ∨ getStr s "via" ≠ "builder" then none
  else
    let code := getNat i "code"
    let info : CreateInfo :=
      { opaqueDoc := optMember i "opaque", patches := getArr i "patches", recoveryCommitment := getStr i "rc",
        updateCommitment := getStr i "uc", anchorOrigin := optMember i "anchorOrigin", type := getStr i "type", code := code }
    match patchesOf info.opaqueDoc info.patches with
    | none => some false
    | some patches =>
      let delta := mkDelta info.updateCommitment patches
      let dh := (Hashing.calculateModelMultihash hashFam delta.toJson code).getD ""
      let sd : SuffixData := { deltaHash := dh, recoveryCommitment := info.recoveryCommitment, anchorOrigin := info.anchorOrigin, type := info.type }
      some (decide (cfg.multihashAlgorithms = [code]) && (match info.anchorOrigin with | some .null => false | _ => true) && orc.anchorOriginOK info.anchorOrigin &&
        Parser.validateDelta cfg orc (some delta) && decide (utf8Len info.recoveryCommitment ≤ cfg.maxOperationHashLength) &&
        decide (utf8Len dh ≤ cfg.maxOperationHashLength) && (transformValue sd.toJson).isSome &&
        (newCreateRequest hashFam info).isSome)

def updateOptsOf (i : Json) : UpdateOpts :=
  { removeAka := getStrList i "removeAka", removeKeys := getStrList i "removeKeys", removeServices := getStrList i "removeServices",
    addAka := getStrList i "addAka", addServices := (getArr i "addServices").map docServiceOf,
    addKeys := (getArr i "addKeys").map docKeyOf }

/-- do the hypotheses of `Props.C08.update/deactivate/recover_built_accepted_windowed` (which
    contain the `…_unwindowed` ones: no window is the window 0, 0) hold for this step? `none`: the
    step is not of that shape (create, a bound beyond 2^53 in magnitude — which the builders refuse) -/
def signedPremises (cfg : Protocol) (orc : Oracles) (tab : List Json) (s : Json) : Option Bool :=
  let i := s.getD "info"
  let op := getStr s "op"
  let via := getStr s "via"
  if op = "create" then none
  else if ¬ ((getInt i "anchorFrom").natAbs ≤ 2 ^ 53 ∧ (getInt i "anchorUntil").natAbs ≤ 2 ^ 53) then none
  else
    let af := getInt i "anchorFrom"
    let au := getInt i "anchorUntil"
    let code := getNat i "code"
    let signerJ := i.get? "signer"
    let key : Option Jwk := if via = "client" then jwkOf (signerJ.bind (·.get? "jwk")) else jwkOf (i.get? "key")
    match signerOf tab signerJ, key with
    | some sg, some k =>
      match sg.headers with
      | none => some false
      | some hdrs =>
        let fits := hdrs.all Framing.plainEntry && decide ((hdrs.map (·.1)).Nodup) && signerOK (some sg) &&
          (match Json.lookup "alg" hdrs with | some (.str a) => cfg.signatureAlgorithms.contains a | _ => false)
        let keyOK := Parser.signingKeyOK cfg (some k)
        let reveal := if via = "client" then
            ((Hashing.getMultihashCode (getStr i "commitment")).bind fun c => Hashing.revealValue hashFam k.toJson c).getD ""
          else getStr i "reveal"
        let revealOK := Parser.multihashOK cfg reveal &&
          ((cfg.multihashAlgorithms.head?.bind fun c => Hashing.revealValue hashFam k.toJson c) == some reveal)
        let time := orc.anchorTimeOK af (Parser.anchorUntil cfg af au)
        if op = "deactivate" then some (fits && keyOK && revealOK && time)
        else
          -- update / recover: the delta must validate and hash under the protocol's algorithm
          let patches : Option (List Json) :=
            if via = "client" then
              if op = "update" then
                updatePatches (updateOptsOf i)
              else (docJson ((getArr i "keys").map docKeyOf) ((getArr i "services").map docServiceOf) (getStrList i "aka")).bind PatchBuild.fromDocument
            else patchesOf (optMember i "opaque") (getArr i "patches")
          let uc : String :=
            if via = "client" then ((pubJwk (i.get? "nextUpdateKey")).bind fun nk => Hashing.commitment hashFam nk.toJson code).getD ""
            else getStr i "uc"
          match patches with
          | none => some false
          | some ps =>
            let delta := mkDelta uc ps
            let dh := (Hashing.calculateModelMultihash hashFam delta.toJson code).getD ""
            some (fits && keyOK && revealOK && time && decide (cfg.multihashAlgorithms = [code]) &&
              Parser.validateDelta cfg orc (some delta) && decide (utf8Len dh ≤ cfg.maxOperationHashLength) && dh != "")
    | _, _ => some false

/-- kind `lifecycle` (C08): build every request, parse it, convert it to its anchored form,
    apply that (and the original bytes) to the state so far -/
def lifecycleKind (c : Json) : Json :=
  let cfg := Protocol.ofJson (c.getD "cfg")
  let orc := oraclesOf c
  let tab := getArr c "sigs"
  let rec go (rm : RM) (idx : Nat) : List Json → List Json → Option (List Json)
    | [], acc => some acc.reverse
    | s :: rest, acc =>
      match (buildStep tab s).bind requestText with
      | none => go rm (idx + 1) rest (.obj [("built", .str "err")] :: acc)
      | some text =>
        let bytes := bytesOfString text
        let req := Parse.parse text.toList
        match Parser.parseOperation hashFam cfg orc bytes.length req false with
        | none => go rm (idx + 1) rest (.obj [("built", .str "ok"), ("request", .str text), ("parse", .str "err")] :: acc)
        | some p =>
          match requestText (anchoredJson p) with
          | none => go rm (idx + 1) rest (.obj [("built", .str "ok"), ("request", .str text), ("parse", .str "ok"), ("anchored", .null)] :: acc)
          | some atext =>
            let mk (t : String) : AnchoredOp :=
              { type := p.type.toString, uniqueSuffix := p.uniqueSuffix, size := (bytesOfString t).length,
                request := Parse.parse t.toList, transactionTime := getNat s "t", transactionNumber := getNat s "n",
                protocolVersion := 0, canonicalReference := "ref" ++ toString idx, equivalentReferences := none }
            let common : List (String × Json) :=
              (match createPremises cfg orc s with | some b => [("premises", .bool b)] | none => []) ++
              (match signedPremises cfg orc tab s with | some b => [("premises", .bool b)] | none => []) ++
              [("built", .str "ok"), ("request", .str text), ("parse", .str "ok"), ("anchored", .str atext),
               ("atype", .str p.type.toString), ("asuffix", .str p.uniqueSuffix), ("aorigin", optJson p.anchorOrigin)]
            match Applier.apply hashFam cfg orc (mk atext) rm, Applier.apply hashFam cfg orc (mk text) rm with
            | .ok rm', .ok rm'' =>
              go rm' (idx + 1) rest (.obj (common ++ [("apply", .str "ok"), ("state", rmJson rm'),
                ("original_same_state", .bool (rmJson rm' == rmJson rm''))]) :: acc)
            | .refused, .refused => go rm (idx + 1) rest (.obj (common ++ [("apply", .str "err"), ("original_same_state", .bool true)]) :: acc)
            | .outOfDomain, _ | _, .outOfDomain => none
            | _, _ => go rm (idx + 1) rest (.obj (common ++ [("apply", .str "differs")]) :: acc)
  match go {} 0 (getArr c "steps") [] with
  | some steps => .obj [("steps", .arr steps)]
  | none => outOfDomain "no signature verdict supplied for a signing input the model derived"

/-- kind `vdr` (C17): VDR.Create of a did-go document, then VDR.Read of the DID it returned -/
def vdrKind (c : Json) : Json :=
  let d := c.getD "doc"
  let ver : List Vdr.VerEntry := Vdr.relationshipOrder.flatMap fun rel =>
    (getArr d rel).map fun e =>
      { purpose := rel, id := getStr e "id", type := getStr e "type", jwk := optMember e "jwk",
        value := match e.get? "value" with | some (.str h) => bytesOfHex? h.toList | _ => none }
  let services := (getArr d "services").map docServiceOf
  let aka := getStrList d "aka"
  match pubJwk (c.get? "updateKey"), pubJwk (c.get? "recoveryKey") with
  | some uk, some rk =>
    let method := getStr c "method"
    match Vdr.create hashFam (oraclesOf c) method ver services aka uk rk with
    | none => .obj [("class", .str "err")]
    | some r =>
      let id := getStr (r.getD "didDocument") "id"
      let again := match Did.resolve hashFam (oraclesOf c) ("did:" ++ method) id with
        | some a => a
        | none => .str "err"
      .obj [("class", .str "ok"), ("result", r), ("read", again)]
  | _, _ => .obj [("class", .str "err")]

end Sidetree.Drv
