import Sidetree.Bytes
namespace Sidetree.Drv
open Sidetree

def jstr (s : String) : Json := .str s
def optStr : Option String → Json
  | some s => .str s
  | none => .null
def optNat : Option Nat → Json
  | some n => Json.mkNat n
  | none => .null

def getStr (c : Json) (k : String) : String := ((c.get? k).bind Json.str?).getD ""
def getNat (c : Json) (k : String) : Nat := ((c.get? k).bind Json.nat?).getD 0
def getInt (c : Json) (k : String) : Int := ((c.get? k).bind Json.int?).getD 0
def getArr (c : Json) (k : String) : List Json := ((c.get? k).bind Json.arr?).getD []
def getNatList (c : Json) (k : String) : List Nat := (getArr c k).filterMap Json.nat?
def getStrList (c : Json) (k : String) : List String := (getArr c k).filterMap Json.str?

/-- a hex member decoded to bytes -/
def getBytes (c : Json) (k : String) : Bytes := (bytesOfHex? (getStr c k).toList).getD []
/-- a hex member decoded to text (`none` when it is not valid UTF-8) -/
def getText (c : Json) (k : String) : Option (List Char) := (stringOfBytes? (getBytes c k)).map String.toList

def outOfDomain (why : String) : Json := .obj [("class", .str "out-of-domain"), ("why", .str why)]

def hexOfChars (cs : List Char) : String := hexOfBytes (bytesOfString (String.ofList cs))

end Sidetree.Drv
