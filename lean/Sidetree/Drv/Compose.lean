import Sidetree.PatchBuild
import Sidetree.Validator
import Sidetree.Drv.Patch
namespace Sidetree.Drv
open Sidetree Sidetree.JsonPatch

/-- the composer with the ietf action interpreted by RFC 6902 as written (specification side) -/
def applyPatchRfc (doc p : Json) : Composer.CR :=
  match Patch.getAction p, Patch.getValue p with
  | some "ietf-json-patch", some value =>
    (match Lib.decodePatch value with
    | none => .err
    | some ops =>
      match ops.foldlM (fun d op => Rfc.applyOp d op) doc with
      | some d => .ok d
      | none => .err)
  | _, _ => Composer.applyPatch doc p

def crEq : Composer.CR → Composer.CR → Bool
  | .ok a, .ok b => a.normalize == b.normalize
  | .err, .err => true
  | .blowup, .blowup => true
  | _, _ => false

/-- an operation whose pointers spell an array index in a way `strconv.Atoi` reads but RFC 6901
    does not allow (`+1`, `01`, `-0`) -/
def nonRfcIndex (op : Json) : Bool :=
  ["path", "from"].any fun k =>
    match (op.get? k).bind Json.str? with
    | some ptr => ((splitSlash ptr.toList).drop 1).any fun t =>
        let s := decodeKey t
        (atoi? s).isSome && (rfcIndex? s).isNone && s != "-"
    | none => false

/-- first ietf operation on which the library and RFC 6902 part ways, as `<kind>/<relation>` -/
def firstDeviation (doc : Json) (patches : List Json) : Option String :=
  let rec goOps (d : Json) : List Json → Option String ⊕ Json
    | [] => .inr d
    | op :: rest =>
      let kind := Lib.opString op "op"
      let kind := if nonRfcIndex op then kind ++ "/index-spelling" else kind
      let lib := Lib.applyGuarded d op
      match lib, Rfc.applyOp d op with
      | .ok a, some b => if a.normalize == b.normalize then goOps a rest else .inl (some (kind ++ "/result-differs"))
      | .ok _, none => .inl (some (kind ++ "/accepts-what-rfc-refuses"))
      | .err, some _ => .inl (some (kind ++ "/refuses-what-rfc-accepts"))
      | .blowup, _ => .inl (some (kind ++ "/blowup"))
      | _, none => .inl none     -- both refuse: the patch list fails either way
      | .panic, some _ => .inl (some (kind ++ "/refuses-what-rfc-accepts"))
  let rec go (d : Json) : List Json → Option String
    | [] => none
    | p :: ps =>
      match Patch.getAction p, Patch.getValue p with
      | some "ietf-json-patch", some value =>
        (match Lib.decodePatch value with
        | none => none
        | some ops =>
          match goOps d ops with
          | .inl r => r
          | .inr d' => go d' ps)
      | _, _ =>
        match Composer.applyPatch d p with
        | .ok d' => go d' ps
        | _ => none
  go doc patches

def crJson : Composer.CR → List (String × Json)
  | .ok d => [("class", .str "ok"), ("doc", d)]
  | .err => [("class", .str "err"), ("nil_on_err", .bool true)]
  | .blowup => [("class", .str "killed")]

/-- kind `compose` (C10, C12 patch half) -/
def compose (c : Json) : Json :=
  let doc := c.getD "doc"
  let patches := getArr c "patches"
  let r := Composer.applyPatches doc patches
  let dev := match firstDeviation doc patches with
    | some s => Json.str s
    | none => Json.null
  .obj (crJson r ++ [("input_mutated", .bool false), ("patches_mutated", .bool false), ("deviation", dev)])

/-- kind `protect` (C11) -/
def protect (c : Json) : Json :=
  let doc := c.getD "doc"
  let p := c.getD "patch"
  let orc := uriOracle (c.getD "uri")
  let v := Validator.validate orc p
  if v ≠ .ok then .obj [("validate", .str (verdictStr v))]
  else
    match Composer.applyPatches doc [p] with
    | .ok d =>
      let same := fun k => ((doc.get? k).getD .null).normalize == ((d.get? k).getD .null).normalize
      .obj [("validate", .str "ok"), ("apply", .str "ok"), ("protected_changed", .bool (!(same "publicKey" && same "service")))]
    | .err => .obj [("validate", .str "ok"), ("apply", .str "err")]
    | .blowup => .obj [("validate", .str "ok"), ("apply", .str "killed")]

/-- kind `patchrt` (C14) -/
def patchrt (c : Json) : Json :=
  match getText c "doc" with
  | none => outOfDomain "not UTF-8"
  | some t =>
    match Parse.parse t with
    | none => .obj [("class", .str "err")]
    | some d =>
      -- (member names with JSON-pointer or quoting metacharacters are in the domain since the D30 repair)
      if !d.wf then outOfDomain "duplicate member names"
      else match PatchBuild.fromDocument d with
        | none => .obj [("class", .str "err")]
        | some ps =>
          let orc := uriOracle (c.getD "uri")
          let applied := match Composer.applyPatches (.obj []) ps with
            | .ok r => r
            | _ => .str "err"
          .obj [("class", .str "ok"), ("patches", .arr ps),
                ("validate", .arr (ps.map fun p => .str (verdictStr (Validator.validate orc p)))),
                ("bytes_roundtrip", .bool true), ("applied", applied)]

/-- kind `ctor` (C14): one of the eight patch constructors on an argument text -/
def ctor (c : Json) : Json :=
  match getText c "arg" with
  | none => outOfDomain "not UTF-8"
  | some t =>
    match Parse.parse t with
    | none => .obj [("class", .str "err")]
    | some a =>
      if !a.wf then outOfDomain "duplicate member names"
      else if getStr c "ctor" = "replace" ∧ a.isNull then
        -- NewReplacePatch("null") holds a nil Go map: validated as an empty document in memory, written as `null`
        outOfDomain "a nil map has no JSON counterpart"
      else match PatchBuild.newPatch (getStr c "ctor") a with
        | none => .obj [("class", .str "err")]
        | some p =>
          .obj [("class", .str "ok"), ("patch", p),
                ("validate", .str (verdictStr (Validator.validate (uriOracle (c.getD "uri")) p))),
                ("bytes_roundtrip", .bool true)]

end Sidetree.Drv
