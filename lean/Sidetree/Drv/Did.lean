import Sidetree.Did
import Sidetree.Lemmas.RoundTrip
import Sidetree.Props.C05Num
import Sidetree.Drv.Apply
namespace Sidetree.Drv
open Sidetree

def opRefs (j : Json) (k : String) : List OpRef :=
  (getArr j k).filterMap fun e =>
    match e with
    | .obj _ => some { type := getStr e "type", time := getNat e "t", number := getNat e "n", canonicalReference := getStr e "cr" }
    | _ => none

def optsOf (o : Json) : TransformOpts :=
  { methodCtx := getStrList o "methodCtx", includeBase := ((o.get? "base").bind Json.bool?).getD false,
    includePublished := ((o.get? "pub").bind Json.bool?).getD false,
    includeUnpublished := ((o.get? "unpub").bind Json.bool?).getD false, keyCtx := Expected.keyContexts }

def resultOf : Option Json → Json
  | some r => .obj [("class", .str "ok"), ("result", r)]
  | none => .obj [("class", .str "err")]

/-- kind `transform` (C18) -/
def transformKind (c : Json) : Json :=
  let st := c.getD "state"
  let rm := rmOfJson st
  resultOf (Transformer.transform (optsOf (c.getD "opts")) rm (c.getD "info") (opRefs st "pub") (opRefs st "unpub"))

/-- kind `gtransform` (C18): the generic document transformer -/
def gtransformKind (c : Json) : Json :=
  let st := c.getD "state"
  let rm := rmOfJson st
  resultOf (Transformer.genericTransform (optsOf (c.getD "opts")) rm (c.getD "info") (opRefs st "pub") (opRefs st "unpub"))

/-- kind `tinfo` (C18, C17): `docutil.GetTransformationInfoForPublished / ForUnpublished` -/
def tinfoKind (c : Json) : Json :=
  if ((c.get? "published").bind Json.bool?).getD false then
    .obj [("info", Did.publishedInfo (getStr c "ns") (getStr c "id") (getStr c "suffix") (getStr c "cr") (getStrList c "er"))]
  else
    .obj [("info", Did.unpublishedInfoFull (getStr c "ns") (getStr c "domain") (getStr c "label") (getStr c "suffix") (getStr c "jcs"))]

/-- kind `resolve` (C17) -/
def resolveKind (c : Json) : Json :=
  let pd := match Did.parseDID (getStr c "ns") (getStr c "did") with
    | .short => "short"
    | .long .. => "long"
    | .error => "err"
  match resultOf (Did.resolve hashFam (oraclesOf c) (getStr c "ns") (getStr c "did")) with
  | .obj kvs => .obj (kvs ++ [("parse_did", .str pd)])
  | j => j

/-- kind `process` (C17): ProcessOperation, then ResolveDocument of the returned id -/
def processKind (c : Json) : Json :=
  let bs := getBytes c "req"
  let text := (stringOfBytes? bs).map String.toList
  let req := text.bind requestReading
  let ns := getStr c "ns"
  if (text.map requestAmbiguous).getD false then outOfDomain "two members of one object decode into the same field" else
  match Did.processOperation hashFam (oraclesOf c) ns text bs.length req with
  | none => .obj [("class", .str "err")]
  | some r =>
    let id := getStr (r.getD "didDocument") "id"
    let again := match Did.resolve hashFam (oraclesOf c) ns id with
      | some a => a
      | none => .str "err"
    -- the hypotheses of `Props.C17P.process_result_resolves_ints`, evaluated on this case
    let numFree := match req.bind Parser.decodeCreate, (req.bind GoJson.topObject).bind (fun top => GoJson.str top "type") with
      | some cr, some ty => Props.C05.intsOnly (Did.createRequestJson ty cr)
      | _, _ => false
    .obj [("class", .str "ok"), ("result", r), ("resolve_again", again),
          ("premises", .bool (numFree && ns.toList.contains ':'))]

end Sidetree.Drv
