import Sidetree.Props.C05Num
import Sidetree.Hashing
import Sidetree.Jwk
import Sidetree.Drv.Common
namespace Sidetree.Drv
open Sidetree

/-- last-wins de-duplication of member names at every depth (what decoding into Go maps does) -/
partial def dedupLast : Json → Json
  | .arr xs => .arr (xs.map dedupLast)
  | .obj kvs =>
    let rec go : List (String × Json) → List (String × Json)
      | [] => []
      | (k, v) :: rest => if rest.any (·.1 == k) then go rest else (k, dedupLast v) :: go rest
    .obj (go kvs)
  | j => j

/-- kind `jcs` (C05): canonicalize text, and the same value after decoding into Go values -/
def jcs (c : Json) : Json :=
  match getText c "text" with
  | none => outOfDomain "input is not UTF-8"
  | some text =>
    let direct := match transform text with
      | some cs => .obj [("class", .str "ok"), ("out", .str (hexOfChars cs))]
      | none => .obj [("class", .str "err")]
    -- (both `encoding/json`, which the harness decodes with, and the transformer refuse nesting beyond 10000)
    let viaValue := match ((Parse.parse text).map dedupLast).bind fun v => if v.depth ≤ maxNesting then some v else none with
      | some v => (match transformValue v with
        | some cs => .obj [("class", .str "ok"), ("out", .str (hexOfChars cs))]
        | none => .obj [("class", .str "err")])
      | none => .obj [("class", .str "err")]
    -- fixed point: canonicalizing the output again
    let again := match transform text with
      | some cs => (match transform cs with
        | some cs2 => .str (hexOfChars cs2)
        | none => .str "err")
      | none => .null
    -- the hypothesis of `Props.C05.canonical_text_reads_back_ints` & co., evaluated on this case
    let premises := match Parse.parse text with
      | some v => Props.C05.intsOnly v
      | none => false
    .obj [("bytes", direct), ("value", viaValue), ("again", again), ("premises", .bool premises)]

/-- kind `num` (C05): ES6 rendering of a bit pattern -/
def num (c : Json) : Json :=
  match (bytesOfHex? (getStr c "bits").toList) with
  | some bs =>
    let b := bs.foldl (fun a x => a * 256 + x.toNat) 0
    (match F64.ofBits b with
    | some d => .obj [("class", .str "ok"), ("out", .str (String.ofList (es6 d)))]
    | none => .obj [("class", .str "err")])
  | none => .obj [("class", .str "bad-case")]

/-- kind `mh` (C06) -/
def mh (c : Json) : Json :=
  match getText c "value" with
  | none => outOfDomain "value is not UTF-8"
  | some text =>
    let code := getNat c "code"
    let hash := getStr c "hash"
    let v := Parse.parse text
    let calcd := v.bind fun v => Hashing.calculateModelMultihash sha2 v code
    let valid := match v with
      | some v => Hashing.isValidModelMultihash sha2 v hash
      | none => false
    let id := calcd.map fun h => getStr c "ns" ++ ":" ++ h
    .obj [("calc", optStr calcd), ("valid", .bool valid), ("code", optNat (Hashing.getMultihashCode hash)),
          ("computed", .bool (Hashing.isComputedUsing hash (getNatList c "codes"))), ("id", optStr id)]

/-- kind `commit` (C04, first half) -/
def commit (c : Json) : Json :=
  match Jwk.ofJson? (c.getD "jwk") with
  | none => outOfDomain "jwk member of a non-string type"
  | some k =>
    let code := getNat c "code"
    let j := k.toJson
    let rv := Hashing.revealValue sha2 j code
    -- the same key material under another nonce is another key
    let twin := { k with nonce := getStr c "twin_nonce" }
    .obj [("commitment", optStr (Hashing.commitment sha2 j code)), ("reveal", optStr rv),
          ("from_reveal", optStr (Hashing.commitmentFromReveal sha2 (getStr c "rv"))),
          ("from_own_reveal", optStr (rv.bind (Hashing.commitmentFromReveal sha2))),
          ("twin_commitment", optStr (Hashing.commitment sha2 twin.toJson code)),
          ("twin_reveal", optStr (Hashing.revealValue sha2 twin.toJson code))]

end Sidetree.Drv
