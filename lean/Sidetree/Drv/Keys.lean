import Sidetree.KeyCodec
import Sidetree.Drv.Apply
namespace Sidetree.Drv
open Sidetree

def natOfHex (c : Json) (k : String) : Nat := fromBE (getBytes c k)

def jwkJson (k : Jwk) : Json := k.toJson

def algOf : String → String
  | "Ed25519" => "EdDSA" | "P-256" => "ES256" | "P-384" => "ES384" | "P-521" => "ES512" | "secp256k1" => "ES256K" | _ => ""

/-- kind `sign` (C15): what the library's signers and `VerifyJWS` must produce for this key and payload -/
def signKind (c : Json) : Json :=
  let kt := getStr c "kt"
  let payload := getStr c "payload"
  let kid := getStr c "kid"
  let hdrs : List (String × Json) := [("alg", .str (getStr c "alg"))] ++ (if kid = "" then [] else [("kid", .str kid)])
  let common (jwk : Jwk) (sigLen : Nat) : Json :=
    .obj [("sign", .str "ok"), ("jwk", jwkJson jwk), ("segments", Json.mkNat 3), ("headers", .obj hdrs),
          ("payload_segment", .str payload), ("sig_len", Json.mkNat sigLen), ("independent_ok", .bool true),
          ("verify", .str "ok"), ("payload", .str payload)]
  if payload = "" then .obj [("sign", .str "err")]   -- an empty payload could never be read back: refused (D24)
  else if kt = "Ed25519" then
    -- the public key is derived from the seed by the harness with Go's crypto/ed25519
    common (edToJwk (getBytes c "pub")) 64
  else match Curve.byName kt with
    | none => .obj [("sign", .str "err")]
    | some cv =>
      match ecToJwk cv (natOfHex c "x") (natOfHex c "y") with
      | some jwk => common jwk (2 * cv.size)
      | none => .obj [("sign", .str "ok"), ("jwk", .null)]

/-- kind `jws` (C15) -/
def jwsKind (c : Json) : Json :=
  match Jwk.ofJson? (c.getD "jwk") with
  | none => outOfDomain "jwk member of a non-string type"
  | some k =>
    let compact := getStr c "compact"
    let orc := oraclesOf c
    -- a header segment that is not valid UTF-8 is outside the modelled domain (Go substitutes U+FFFD)
    let hdrUtf8 := match Jws.splitDot compact.toList with
      | [h, _, _] => (match b64Decode h with | some hb => (stringOfBytes? hb).isSome | none => true)
      | _ => true
    if !hdrUtf8 then outOfDomain "header segment is not valid UTF-8" else
    let parsed := Jws.parse compact
    let p := okErr parsed.isSome
    match Jws.verify orc compact k with
    | .ok => .obj [("parse", p), ("verify", .str "ok"), ("payload", .str (hexOfBytes ((parsed.map (·.payload)).getD [])))]
    | .bad => .obj [("parse", p), ("verify", .str "err")]
    | .outOfDomain => outOfDomain "no verdict for the derived signing input"

/-- kind `jwk` (C16) -/
def jwkKind (c : Json) : Json :=
  let curve := getStr c "curve"
  if curve = "Ed25519" then
    let pub := getBytes c "x"
    let k := edToJwk pub
    .obj [("to", .str "ok"), ("jwk", jwkJson k),
          ("back", match edFromJwk k with | some b => .obj [("x", .str (hexOfBytes b))] | none => .null)]
  else match Curve.byName curve with
    | none => .obj [("to", .str "err")]
    | some cv =>
      match ecToJwk cv (natOfHex c "x") (natOfHex c "y") with
      | none => .obj [("to", .str "err")]
      | some k =>
        let minimal := fun (n : Nat) => hexOfBytes ((padBE n cv.size).dropWhile (· == 0))
        .obj [("to", .str "ok"), ("jwk", jwkJson k),
              ("back", match ecFromJwk k with
                | some (_, x, y) => .obj [("x", .str (minimal x)), ("y", .str (minimal y))]
                | none => .null)]

/-- kind `jwkparse` (C16) -/
def jwkParseKind (c : Json) : Json :=
  match Jwk.ofJson? (c.getD "jwk") with
  | none => outOfDomain "jwk member of a non-string type"
  | some k =>
    if k.kty = "OKP" then .obj [("parse", okErr (edFromJwk k).isSome), ("unmarshal", okErr (edFromJwk k).isSome)]
    else .obj [("parse", okErr (ecFromJwk k).isSome)]

end Sidetree.Drv
