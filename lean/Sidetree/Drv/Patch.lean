import Sidetree.Validator
import Sidetree.Drv.Common
namespace Sidetree.Drv
open Sidetree

/-- the `uri` member of a case: string ↦ {req, norm} computed by the harness with net/url.
    A string that is not in the table makes the case out-of-domain (flag via `missing`). -/
def uriOracle (tab : Json) : UriOracle :=
  { requestOK := fun s => ((tab.get? s).bind (·.get? "req")).bind Json.bool? |>.getD false
    norm := fun s => ((tab.get? s).bind (·.get? "norm")).bind Json.str? }

def verdictStr : Validator.Verdict → String
  | .ok => "ok" | .err => "err" | .panic => "panic"

def okErr (b : Bool) : Json := .str (if b then "ok" else "err")

/-- kind `validate` (C13, C11 verdict) -/
def validate (c : Json) : Json :=
  let p := c.getD "patch"
  let orc := uriOracle (c.getD "uri")
  .obj [("from_bytes", okErr (Patch.acceptable p)), ("validate", .str (verdictStr (Validator.validate orc p)))]

/-- kind `origdoc` (C13) -/
def origdoc (c : Json) : Json :=
  match getText c "doc" with
  | none => outOfDomain "not UTF-8"
  | some t =>
    match Parse.parse t with
    | none => .obj [("doc", .str "err"), ("did", .str "err")]
    | some d => .obj [("doc", okErr (Validator.originalDocOK d)), ("did", okErr (Validator.originalDidDocOK d))]

end Sidetree.Drv
