import Sidetree.Concurrency
import Sidetree.Drv.Common
namespace Sidetree.Drv
open Sidetree Sidetree.Conc

/-- kind `stress` (C20): what a run of the stress case must report. Components are functions of
    their arguments (no disagreement between sequential and concurrent answers, also for models
    the applier derived from one state; that state comes out as it went in); the registries
    are evaluated on one schedule (round robin) of the programs the harness runs — the theorems
    say every other schedule gives the same counts. -/
def stressKind (c : Json) : Json :=
  let g := getNat c "goroutines"
  let versions := getNat c "versions"
  let prog := fun (t : Nat) => (List.range versions).flatMap fun v =>
    let k := toString ((v + t) % versions)
    [Op.register k t, Op.lookup k]
  let s := roundRobin (2 * versions + 1) ((List.range g).map prog)
  let outs := (run [] s).2
  let notOnce := ((List.range versions).filter fun v => successes (toString v) s outs != 1).length
  let lookupWrong := (outs.filter fun o => o == Out.missing).length
  let nsProg := fun (t : Nat) => (List.range 50).flatMap fun k =>
    let ns := toString ((t + k) % 8)
    [Op.add ns t, Op.lookup ns]
  let nsOuts := (run [] (roundRobin 101 ((List.range g).map nsProg))).2
  let nsMissing := (nsOuts.filter fun o => o == Out.missing).length
  .obj [("class", .str "ok"), ("first", .null), ("mismatch", Json.mkNat 0),
        ("derived_first", .null), ("derived_mismatch", Json.mkNat 0), ("derived_state_changed", Json.mkNat 0),
        ("namespace_lookup_failed_after_add", Json.mkNat nsMissing),
        ("registry_lookup_wrong", Json.mkNat lookupWrong),
        ("versions_not_registered_exactly_once", Json.mkNat notOnce)]

end Sidetree.Drv
