import Sidetree.Window
namespace Sidetree.Drv
open Sidetree

def outcomeStr : Window.Outcome → String
  | .effective => "effective" | .ineffective => "ineffective" | .refused => "refused"

/-- kind `window` (C09): prescribed outcome from the labels (type, from, until, t, cfg) -/
def window (c : Json) : Json :=
  let cfg := Protocol.ofJson (c.getD "cfg")
  let frm := ((c.get? "from").bind Json.int?).getD 0
  let untl := ((c.get? "until").bind Json.int?).getD 0
  let t := ((c.get? "t").bind Json.int?).getD 0
  let ty := match (c.get? "type").bind Json.str? with
    | some "update" => Window.OpType.update
    | some "recover" => Window.OpType.recover
    | _ => Window.OpType.deactivate
  let oc := Window.outcome cfg ty frm untl t
  let pair := Window.validatorPair cfg frm untl
  let base : List (String × Json) :=
    [("outcome", .str (outcomeStr oc)), ("parse", .str "ok"),
     ("validator", .arr [.arr [Json.mkInt pair.1, Json.mkInt pair.2]])]
  let withUc := if oc ≠ .refused ∧ ty ≠ .deactivate then base ++ [("uc_advanced", .bool true)] else base
  .obj withUc

end Sidetree.Drv
