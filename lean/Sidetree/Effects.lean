/-
  C12, effect discipline: a tiny imperative IR with a heap, a may-alias-an-input analysis, and
  the theorem that a program passing the analysis never writes to an object that existed on entry.

  The Go functions of composer.go / operationapplier.go (C12) and of the transformers and
  metadata.go (C20) are summarised in this IR by the extractor (`Generated.prog_*`); the
  obligations `Disciplined … = true` are decided by the kernel (`decide +kernel`).
-/
namespace Sidetree.Effects

/-- names are of any type with decidable equality: strings in the examples, numbers (indices
    into the extractor's name table) in the generated summaries, which the kernel compares fast -/
inductive Instr (α : Type) where
  | alloc (x : α)            -- x := make(...) / literal / result of a pure call
  | copy (x y : α)           -- x := deep copy of y (fresh object with y's content)
  | alias (x y : α)          -- x may now also refer to what y refers to (x := y, a view into y, one branch of several)
  | write (x : α)            -- x[...] = …, x.f = …, append in place, sort in place
deriving Repr, DecidableEq

abbrev Prog (α : Type) := List (Instr α)

variable {α : Type} [DecidableEq α]

structure State (α : Type) where
  env : α → Option Nat
  heap : Nat → Nat          -- object id ↦ number of writes it has received
  next : Nat

def exec1 (s : State α) : Instr α → State α
  | .alloc x => { env := fun n => if n = x then some s.next else s.env n, heap := s.heap, next := s.next + 1 }
  | .copy x _ => { env := fun n => if n = x then some s.next else s.env n, heap := s.heap, next := s.next + 1 }
  | .alias x y => { s with env := fun n => if n = x then s.env y else s.env n }   -- one possible outcome; see `step`
  | .write x =>
    match s.env x with
    | some o => { s with heap := fun i => if i = o then s.heap i + 1 else s.heap i }
    | none => s

def exec (s : State α) (p : Prog α) : State α := p.foldl exec1 s

/-- names that may refer to an object that existed on entry -/
def step (t : List α) : Instr α → Option (List α)
  | .alloc x => some (t.filter (· ≠ x))
  | .copy x _ => some (t.filter (· ≠ x))
  | .alias x y => if y ∈ t then some (if x ∈ t then t else x :: t) else some t   -- never removes: branches are flattened
  | .write x => if x ∈ t then none else some t

/-- the analysis: `inputs` are the parameters (and anything reachable from them) -/
def disciplinedFrom : List α → Prog α → Bool
  | _, [] => true
  | t, i :: rest => match step t i with
    | some t' => disciplinedFrom t' rest
    | none => false

def Disciplined (inputs : List α) (p : Prog α) : Bool := disciplinedFrom inputs p

/-- the invariant: every name outside the taint set is unbound or bound to an object allocated
    after entry -/
def Inv (entry : Nat) (t : List α) (s : State α) : Prop :=
  entry ≤ s.next ∧ ∀ n o, n ∉ t → s.env n = some o → entry ≤ o

theorem inv_step (entry : Nat) (t t' : List α) (s : State α) (i : Instr α)
    (hinv : Inv entry t s) (hs : step t i = some t') :
    Inv entry t' (exec1 s i) ∧ ∀ o, o < entry → (exec1 s i).heap o = s.heap o := by
  obtain ⟨hn, hb⟩ := hinv
  cases i with
  | alloc x =>
    simp only [step, Option.some.injEq] at hs
    subst hs
    refine ⟨⟨by simp [exec1]; omega, ?_⟩, fun o _ => rfl⟩
    intro n o hnt he
    simp only [exec1] at he
    by_cases hx : n = x
    · simp [hx] at he; omega
    · simp only [hx, if_false] at he
      exact hb n o (by intro hm; exact hnt (List.mem_filter.mpr ⟨hm, by simpa using hx⟩)) he
  | copy x y =>
    simp only [step, Option.some.injEq] at hs
    subst hs
    refine ⟨⟨by simp [exec1]; omega, ?_⟩, fun o _ => rfl⟩
    intro n o hnt he
    simp only [exec1] at he
    by_cases hx : n = x
    · simp [hx] at he; omega
    · simp only [hx, if_false] at he
      exact hb n o (by intro hm; exact hnt (List.mem_filter.mpr ⟨hm, by simpa using hx⟩)) he
  | alias x y =>
    simp only [step] at hs
    refine ⟨⟨by simpa [exec1] using hn, ?_⟩, fun o _ => rfl⟩
    intro n o hnt he
    simp only [exec1] at he
    by_cases hy : y ∈ t
    · simp only [hy, if_true, Option.some.injEq] at hs
      by_cases hx : n = x
      · subst hx
        exfalso
        apply hnt
        rw [← hs]
        by_cases hc : n ∈ t
        · simp only [hc, if_true]
        · simp [hc]
      · simp only [hx, if_false] at he
        refine hb n o ?_ he
        intro hm
        apply hnt
        rw [← hs]
        split
        · exact hm
        · exact List.mem_cons_of_mem _ hm
    · simp only [hy, if_false, Option.some.injEq] at hs
      subst hs
      by_cases hx : n = x
      · subst hx
        simp only [if_true] at he
        exact hb y o hy he
      · simp only [hx, if_false] at he
        exact hb n o hnt he
  | write x =>
    simp only [step] at hs
    by_cases hx : x ∈ t
    · simp [hx] at hs
    · simp only [hx, if_false, Option.some.injEq] at hs
      subst hs
      cases he : s.env x with
      | none =>
        simp only [exec1, he]
        exact ⟨⟨hn, hb⟩, fun _ _ => trivial⟩
      | some ox =>
        have hge := hb x ox hx he
        simp only [exec1, he]
        refine ⟨⟨hn, hb⟩, ?_⟩
        intro o ho
        have : o ≠ ox := by omega
        simp [this]

/-- **a disciplined program never writes to an object that existed on entry**: every object
    with an id below `s.next` (inputs and everything reachable from them) is unchanged -/
theorem disciplined_no_input_write :
    ∀ (p : Prog α) (t : List α) (entry : Nat) (s : State α),
      Inv entry t s → disciplinedFrom t p = true → ∀ o, o < entry → (exec s p).heap o = s.heap o
  | [], _, _, _, _, _, _, _ => rfl
  | i :: rest, t, entry, s, hinv, hd, o, ho => by
    simp only [disciplinedFrom] at hd
    cases hs : step t i with
    | none => simp [hs] at hd
    | some t' =>
      simp only [hs] at hd
      obtain ⟨hinv', hheap⟩ := inv_step entry t t' s i hinv hs
      have := disciplined_no_input_write rest t' entry (exec1 s i) hinv' hd o ho
      simp only [exec, List.foldl_cons] at this ⊢
      rw [this, hheap o ho]

omit [DecidableEq α] in
/-- on entry, with every bound name in the taint set, the invariant holds -/
theorem inv_entry (inputs : List α) (s : State α) (h : ∀ n o, s.env n = some o → n ∈ inputs) :
    Inv s.next inputs s :=
  ⟨Nat.le_refl _, fun n o hn he => absurd (h n o he) hn⟩

theorem disciplined_sound (inputs : List α) (p : Prog α) (s : State α)
    (hbound : ∀ n o, s.env n = some o → n ∈ inputs) (hd : Disciplined inputs p = true) :
    ∀ o, o < s.next → (exec s p).heap o = s.heap o :=
  disciplined_no_input_write p inputs s.next s (inv_entry inputs s hbound) hd

/-- the analysis refuses a program that writes through a parameter or an alias of one -/
example : Disciplined ["doc"] [.write "doc"] = false ∧
    Disciplined ["doc"] [.alias "result" "doc", .write "result"] = false ∧
    Disciplined ["doc"] [.copy "result" "doc", .write "result"] = true := by decide

end Sidetree.Effects
