/-
  Hand-written counterparts of every constant the extractor regenerates from /repo into
  `Sidetree/Generated/*.lean`. The model and every theorem use *these*; one small module per
  fact under `Sidetree/Obligations/` proves `Generated.x = Expected.x`.
-/
namespace Sidetree.Expected

/-- C09: the protocol field that gives the default expiry (`from + cfg.<field>`) in
    `operationapplier.go:getAnchorUntil` and in `operationparser/recover.go:getAnchorUntil` -/
def anchorUntilParamApplier : String := "MaxOperationTimeDelta"
def anchorUntilParamParser : String := "MaxOperationTimeDelta"

/-- C09: `verifyAnchoringTimeRange` as a list of (lhs, operator, rhs) refusals, in order -/
def windowRefusals : List (String × String × String) :=
  [("from", ">", "int64(anchor)"), ("s.getAnchorUntil(from, until)", "<", "int64(anchor)")]

/-- C09: guard of the "nothing to check" early return -/
def windowUnsetGuard : String := "from == 0 && until == 0"

/-- C09: guard under which `getAnchorUntil` substitutes the default -/
def anchorUntilGuard : String := "from != 0 && until == 0"

end Sidetree.Expected
