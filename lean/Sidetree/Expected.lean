/-
  Hand-written counterparts of every constant the extractor regenerates from /repo into
  `Sidetree/Generated/*.lean`. The model and every theorem use *these*; one small module per
  fact under `Sidetree/Obligations/` proves `Generated.x = Expected.x`.
-/
namespace Sidetree.Expected

/-- C09: the protocol field that gives the default expiry (`from + cfg.<field>`) in
    `operationapplier.go:getAnchorUntil` and in `operationparser/recover.go:getAnchorUntil` -/
def anchorUntilParamApplier : String := "MaxOperationTimeDelta"
def anchorUntilParamParser : String := "MaxOperationTimeDelta"

/-- C09: `verifyAnchoringTimeRange` as a list of (lhs, operator, rhs): the value the comparisons
    refer to, then the refusals, in order. Since the D23 repair the three quantities are compared as
    integers (`big.Int`): `a.Cmp(b) > 0` is `a > b`, `a.Cmp(b) < 0` is `a < b`. -/
def windowRefusals : List (String × String × String) :=
  [("anchorTime", ":=", "new(big.Int).SetUint64(anchor)"),
   ("big.NewInt(from).Cmp(anchorTime)", ">", "0"), ("s.getAnchorUntil(from, until).Cmp(anchorTime)", "<", "0")]

/-- C09: guard of the "nothing to check" early return -/
def windowUnsetGuard : String := "from == 0 && until == 0"

/-- C09: guard under which `getAnchorUntil` substitutes the default -/
def anchorUntilGuard : String := "from != 0 && until == 0"

/-- C05: NumberToJSON uses fixed notation exactly for 1e-6 ≤ v < 1e21 (conjuncts sorted) -/
def es6FixedRange : List (String × String × String) :=
  [("ieeeF64", "<", "1e+21"), ("ieeeF64", ">=", "1e-6")]

/-- C05: member names are compared on their UTF-16 code units -/
def jcsSortKey : String := "utf16.Encode([]rune(rawUTF8))"

/-- C05: the short escapes and the `\u00xx` rule of `decorateString` -/
def jcsAsciiEscapes : List String := ["'\\\\'", "'\"'", "'b'", "'f'", "'n'", "'r'", "'t'"]
def jcsBinaryEscapes : List String := ["'\\\\'", "'\"'", "'\\b'", "'\\f'", "'\\n'", "'\\r'", "'\\t'"]
def jcsControlFormat : String := "c < 0x20 => \"\\\\u%04x\""

/-- C06: `GetHashFromMultihash` -/
def hashSupportedCodes : List (String × String) :=
  [("multihash.SHA2_256", "crypto.SHA256"), ("multihash.SHA2_512", "crypto.SHA512")]

/-- C06: `IsValidModelMultihash` recomputes with the code of the supplied hash and compares the
    *encoded strings* -/
def isValidCompare : String := "encodedComputedMultihash != modelMultihash"
def isValidCalls : List String := ["GetMultihashCode(modelMultihash)", "CalculateModelMultihash(model, uint(code))"]

/-- C04: `GetCommitment` hashes the canonical JWK with the algorithm of the code, then wraps the
    hash of that digest -/
def commitmentInnerHash : List String :=
  ["canonicalizer.MarshalCanonical(jwk)", "hashing.GetHashFromMultihash(multihashCode)",
   "hashing.GetHash(hash, data)", "hashing.ComputeMultihash(multihashCode, dataHash)"]
def commitmentFromRevealCalls : List String :=
  ["hashing.GetMultihash(rv)", "hashing.ComputeMultihash(uint(mh.Code), mh.Digest)"]

/-! ### patches (pkg/patch/patch.go, patchvalidator/document.go) -/

/-- C14: `actionConfig`, action ↦ name of the member that carries its value (sorted by action) -/
def actionConfig : List (String × String) :=
  [("add-also-known-as", "uris"), ("add-public-keys", "publicKeys"), ("add-services", "services"),
   ("ietf-json-patch", "patches"), ("remove-also-known-as", "uris"), ("remove-public-keys", "ids"),
   ("remove-services", "ids"), ("replace", "document")]

def maxIDLength : Nat := 50
def maxServiceTypeLength : Nat := 30
def idRegexp : String := "^[A-Za-z0-9_-]+$"

def allowedPurposes : List String :=
  ["assertionMethod", "authentication", "capabilityDelegation", "capabilityInvocation", "keyAgreement"]

def keyTypesGeneral : List String :=
  ["Bls12381G2Key2020", "EcdsaSecp256k1VerificationKey2019", "Ed25519VerificationKey2018",
   "Ed25519VerificationKey2020", "JsonWebKey2020", "X25519KeyAgreementKey2019"]
def keyTypesVerification : List String :=
  ["Bls12381G2Key2020", "EcdsaSecp256k1VerificationKey2019", "Ed25519VerificationKey2018",
   "Ed25519VerificationKey2020", "JsonWebKey2020"]
def keyTypesAgreement : List String :=
  ["Bls12381G2Key2020", "EcdsaSecp256k1VerificationKey2019", "JsonWebKey2020", "X25519KeyAgreementKey2019"]

/-- purpose ↦ permitted key types (sorted by purpose) -/
def keyTypePurpose : List (String × List String) :=
  [("assertionMethod", keyTypesVerification), ("authentication", keyTypesVerification),
   ("capabilityDelegation", keyTypesVerification), ("capabilityInvocation", keyTypesVerification),
   ("keyAgreement", keyTypesAgreement)]

/-- members a public key entry may / must have -/
def pkRequiredMembers : List String := ["type", "id"]
def pkOptionalMembers : List String := ["purposes"]
def pkOneOfMembers : List String := ["publicKeyJwk", "publicKeyBase58"]
def replaceAllowedMembers : List String := ["services", "publicKeys"]

/-- the key type for which base58 material is not accepted in place of a JWK -/
def jwkOnlyKeyType : String := "JsonWebKey2020"

/-- C11: pointer prefixes refused by `validateJSONPatches`, and the operation members inspected -/
def protectedPrefixes : List String := ["/service", "/publicKey"]
def inspectedMembers : List String := ["path", "from"]

/-- C13/C07: comparison operators of the size gates (site ↦ source condition) -/
def limitOps : List (String × String) :=
  [("validateID", "len(id) > maxIDLength"),
   ("validateServiceType", "utf8.RuneCountInString(serviceType) > maxServiceTypeLength"),
   ("validateKeyPurposes", "len(pubKey.Purpose()) > len(allowedPurposes)"),
   ("ParseOperation", "len(operationBuffer) > int(p.MaxOperationSize)"),
   ("validateMultihash", "len(mh) > int(p.MaxOperationHashLength)"),
   ("validateDeltaSize", "len(canonicalDelta) > int(p.MaxDeltaSize)")]

def base58Exception : String := "pubKey.PublicKeyBase58() == \"\" || pubKey.Type() == jsonWebKey2020"
/-- every string entry of an endpoint list is validated; the only return inside the loop is of a non-nil error -/
def endpointLoopShape : String := "if ok; if err != nil; return err"
def ietfConds : List String :=
  ["err != nil", "!ok || pathMsg == nil", "err != nil", "err != nil", "!ok", "fromMsg == nil", "err != nil",
   "err != nil", "strings.HasPrefix(path, from+\"/\")"]
def pointerConds : List String :=
  ["pointer != \"\" && !strings.HasPrefix(pointer, \"/\")", "strings.HasPrefix(pointer, \"/\"+document.ServiceProperty)",
   "strings.HasPrefix(pointer, \"/\"+document.PublicKeyProperty)"]

/-! ### composer (doccomposer/composer.go) -/

def composerDispatch : List (String × String) :=
  [("replace", "applyRecover"), ("ietf-json-patch", "applyJSON"), ("add-public-keys", "applyAddPublicKeys"),
   ("remove-public-keys", "applyRemovePublicKeys"), ("add-services", "applyAddServiceEndpoints"),
   ("remove-services", "applyRemoveServiceEndpoints"), ("add-also-known-as", "applyAddAlsoKnownAs"),
   ("remove-also-known-as", "applyRemoveAlsoKnownAs")]
/-- operations are applied one at a time on re-serialised bytes -/
def applyJSONShape : List String :=
  ["json.Marshal(entry)", "jsonpatch.DecodePatch(bytes)", "doc.Bytes()", "applyJSONPatchOperation(docBytes, jsonPatches[i:i+1])"]
/-- C12: ApplyPatches starts by deep-copying its input through a JSON round trip -/
def applyPatchesFirst : String := "result, err := deepCopy(doc)"
def deepCopyCalls : List String := ["json.Marshal(doc)", "json.Unmarshal(bytes, &result)"]
/-- C19: the deferred closure itself calls recover() -/
def recoverGuard : String := "r := recover(); r != nil"
/-- C14: PatchesFromDocument -/
def fromDocumentCases : List (String × String) :=
  [("publicKey", "NewAddPublicKeysPatch"), ("service", "NewAddServiceEndpointsPatch"), ("alsoKnownAs", "NewAddAlsoKnownAs")]
def jsonPatchAddTemplate : String := "{ \"op\": \"add\", \"path\": %s, \"value\": %s }"

/-- C03: the unique suffix is the model multihash of the suffix data under the *first* configured algorithm -/
def uniqueSuffixCalls : List String := ["hashing.CalculateModelMultihash(model, algs[0])"]

/-! ### transformer (didtransformer/transformer.go) -/

/-- C18: key type ↦ JSON-LD context (sorted by key type) -/
def keyContexts : List (String × String) :=
  [("Bls12381G2Key2020", "https://w3id.org/security/suites/bls12381-2020/v1"),
   ("EcdsaSecp256k1VerificationKey2019", "https://w3id.org/security/suites/secp256k1-2019/v1"),
   ("Ed25519VerificationKey2018", "https://w3id.org/security/suites/ed25519-2018/v1"),
   ("Ed25519VerificationKey2020", "https://w3id.org/security/suites/ed25519-2020/v1"),
   ("JsonWebKey2020", "https://w3id.org/security/suites/jws-2020/v1"),
   ("X25519KeyAgreementKey2019", "https://w3id.org/security/suites/x25519-2019/v1")]

/-- C18: the purpose switch of `processKeys` (purpose constant ↦ relationship member constant) -/
def purposeSwitch : List (String × String) :=
  [("authentication", "authentication"), ("assertionMethod", "assertionMethod"), ("keyAgreement", "keyAgreement"),
   ("capabilityDelegation", "capabilityDelegation"), ("capabilityInvocation", "capabilityInvocation")]

/-- C18: `sortOperations` comparator as (condition, result) rows: differing times decide, otherwise numbers -/
def sortCmp : List String :=
  ["if ops[i].TransactionTime != ops[j].TransactionTime {", "  return ops[i].TransactionTime < ops[j].TransactionTime", "}",
   "return ops[i].TransactionNumber < ops[j].TransactionNumber"]

/-- C17: the default protocol of the long-form handler (config/protocol.go), Go field ↦ source value -/
def defaultProtocol : List (String × String) :=
  [("CompressionAlgorithm", "\"GZIP\""), ("GenesisTime", "0"),
   ("KeyAlgorithms", "[]string{\"Ed25519\", \"P-256\", \"P-384\", \"secp256k1\"}"), ("MaxCasURILength", "500"),
   ("MaxChunkFileSize", "10000000"), ("MaxCoreIndexFileSize", "1000000"), ("MaxDeltaSize", "1700"),
   ("MaxMemoryDecompressionFactor", "3"), ("MaxOperationCount", "10000"), ("MaxOperationHashLength", "100"),
   ("MaxOperationSize", "2500"), ("MaxProofFileSize", "2500000"), ("MaxProvisionalIndexFileSize", "1000000"),
   ("MultihashAlgorithms", "[]uint{18}"), ("NonceSize", "16"),
   ("Patches", "[]string{\"replace\", \"add-public-keys\", \"remove-public-keys\", \"add-services\", \"remove-services\", \"add-also-known-as\", \"remove-also-known-as\"}"),
   ("SignatureAlgorithms", "[]string{\"EdDSA\", \"ES256\", \"ES256K\"}")]

end Sidetree.Expected
