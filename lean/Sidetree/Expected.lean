/-
  Hand-written counterparts of every constant the extractor regenerates from /repo into
  `Sidetree/Generated/*.lean`. The model and every theorem use *these*; one small module per
  fact under `Sidetree/Obligations/` proves `Generated.x = Expected.x`.
-/
namespace Sidetree.Expected

/-- C09: the protocol field that gives the default expiry (`from + cfg.<field>`) in
    `operationapplier.go:getAnchorUntil` and in `operationparser/recover.go:getAnchorUntil` -/
def anchorUntilParamApplier : String := "MaxOperationTimeDelta"
def anchorUntilParamParser : String := "MaxOperationTimeDelta"

/-- C09: `verifyAnchoringTimeRange` as a list of (lhs, operator, rhs) refusals, in order -/
def windowRefusals : List (String × String × String) :=
  [("from", ">", "int64(anchor)"), ("s.getAnchorUntil(from, until)", "<", "int64(anchor)")]

/-- C09: guard of the "nothing to check" early return -/
def windowUnsetGuard : String := "from == 0 && until == 0"

/-- C09: guard under which `getAnchorUntil` substitutes the default -/
def anchorUntilGuard : String := "from != 0 && until == 0"

/-- C05: NumberToJSON uses fixed notation exactly for 1e-6 ≤ v < 1e21 (conjuncts sorted) -/
def es6FixedRange : List (String × String × String) :=
  [("ieeeF64", "<", "1e+21"), ("ieeeF64", ">=", "1e-6")]

/-- C05: member names are compared on their UTF-16 code units -/
def jcsSortKey : String := "utf16.Encode([]rune(rawUTF8))"

/-- C05: the short escapes and the `\u00xx` rule of `decorateString` -/
def jcsAsciiEscapes : List String := ["'\\\\'", "'\"'", "'b'", "'f'", "'n'", "'r'", "'t'"]
def jcsBinaryEscapes : List String := ["'\\\\'", "'\"'", "'\\b'", "'\\f'", "'\\n'", "'\\r'", "'\\t'"]
def jcsControlFormat : String := "c < 0x20 => \"\\\\u%04x\""

/-- C06: `GetHashFromMultihash` -/
def hashSupportedCodes : List (String × String) :=
  [("multihash.SHA2_256", "crypto.SHA256"), ("multihash.SHA2_512", "crypto.SHA512")]

/-- C06: `IsValidModelMultihash` recomputes with the code of the supplied hash and compares the
    *encoded strings* -/
def isValidCompare : String := "encodedComputedMultihash != modelMultihash"
def isValidCalls : List String := ["GetMultihashCode(modelMultihash)", "CalculateModelMultihash(model, uint(code))"]

/-- C04: `GetCommitment` hashes the canonical JWK with the algorithm of the code, then wraps the
    hash of that digest -/
def commitmentInnerHash : List String :=
  ["canonicalizer.MarshalCanonical(jwk)", "hashing.GetHashFromMultihash(multihashCode)",
   "hashing.GetHash(hash, data)", "hashing.ComputeMultihash(multihashCode, dataHash)"]
def commitmentFromRevealCalls : List String :=
  ["hashing.GetMultihash(rv)", "hashing.ComputeMultihash(uint(mh.Code), mh.Digest)"]

end Sidetree.Expected
