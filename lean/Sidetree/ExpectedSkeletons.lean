/-
  Reviewed control skeletons and struct-literal tables of the Go functions the models mirror
  (frozen by tools/freeze_expected.py from the tree the models were written against and
  validated on). `Sidetree/Obligations/Shape_*.lean` prove the regenerated facts equal to these.
-/
namespace Sidetree.ExpectedSkeletons

/-- pkg/versions/1_0/client/create.go:NewCreateRequest -/
def skel_create_NewCreateRequest : List String :=
  ["if err := validateCreateRequest(info); err != nil {", "  return nil, err", "}", "patches, err := getPatches(info.OpaqueDocument, info.Patches)", "if err != nil {", "  return nil, err", "}", "delta := &model.DeltaModel{...}", "deltaHash, err := hashing.CalculateModelMultihash(delta, info.MultihashCode)", "if err != nil {", "  return nil, err", "}", "suffixData := &model.SuffixDataModel{...}", "schema := &model.CreateRequest{...}", "return canonicalizer.MarshalCanonical(schema)"]

/-- pkg/versions/1_0/client/create.go:getPatches -/
def skel_create_getPatches : List String :=
  ["if opaque != \"\" {", "  return patch.PatchesFromDocument(opaque)", "}", "return patches, nil"]

/-- pkg/versions/1_0/client/create.go:validateCreateRequest -/
def skel_create_validateCreateRequest : List String :=
  ["if info.OpaqueDocument == \"\" && len(info.Patches) == 0 {", "  return error(...)", "}", "if info.OpaqueDocument != \"\" && len(info.Patches) > 0 {", "  return error(...)", "}", "supported := multihash.ValidCode(uint64(info.MultihashCode))", "if !supported {", "  return error(...)", "}", "if !hashing.IsComputedUsingMultihashAlgorithms(info.RecoveryCommitment, []uint{info.MultihashCode}) {", "  return error(...)", "}", "if !hashing.IsComputedUsingMultihashAlgorithms(info.UpdateCommitment, []uint{info.MultihashCode}) {", "  return error(...)", "}", "if info.RecoveryCommitment == info.UpdateCommitment {", "  return error(...)", "}", "return nil"]

/-- pkg/versions/1_0/client/update.go:NewUpdateRequest -/
def skel_update_NewUpdateRequest : List String :=
  ["if err := validateUpdateRequest(info); err != nil {", "  return nil, err", "}", "delta := &model.DeltaModel{...}", "deltaHash, err := hashing.CalculateModelMultihash(delta, info.MultihashCode)", "if err != nil {", "  return nil, err", "}", "signedDataModel := &model.UpdateSignedDataModel{...}", "err = validateCommitment(info.UpdateKey, info.MultihashCode, info.UpdateCommitment)", "if err != nil {", "  return nil, err", "}", "signModel, err := signutil.SignModel(signedDataModel, info.Signer)", "if err != nil {", "  return nil, err", "}", "schema := &model.UpdateRequest{...}", "return canonicalizer.MarshalCanonical(schema)"]

/-- pkg/versions/1_0/client/update.go:validateUpdateRequest -/
def skel_update_validateUpdateRequest : List String :=
  ["if info.DidSuffix == \"\" {", "  return error(...)", "}", "if info.RevealValue == \"\" {", "  return error(...)", "}", "if len(info.Patches) == 0 {", "  return error(...)", "}", "if err := validateUpdateKey(info.UpdateKey); err != nil {", "  return err", "}", "return validateSigner(info.Signer)"]

/-- pkg/versions/1_0/client/update.go:validateUpdateKey -/
def skel_update_validateUpdateKey : List String :=
  ["if key == nil {", "  return error(...)", "}", "return key.Validate()"]

/-- pkg/versions/1_0/client/recover.go:NewRecoverRequest -/
def skel_recover_NewRecoverRequest : List String :=
  ["err := validateRecoverRequest(info)", "if err != nil {", "  return nil, err", "}", "patches, err := getPatches(info.OpaqueDocument, info.Patches)", "if err != nil {", "  return nil, err", "}", "delta := &model.DeltaModel{...}", "deltaHash, err := hashing.CalculateModelMultihash(delta, info.MultihashCode)", "if err != nil {", "  return nil, err", "}", "signedDataModel := model.RecoverSignedDataModel{...}", "err = validateCommitment(info.RecoveryKey, info.MultihashCode, info.RecoveryCommitment)", "if err != nil {", "  return nil, err", "}", "signModel, err := signutil.SignModel(signedDataModel, info.Signer)", "if err != nil {", "  return nil, err", "}", "schema := &model.RecoverRequest{...}", "return canonicalizer.MarshalCanonical(schema)"]

/-- pkg/versions/1_0/client/recover.go:validateRecoverRequest -/
def skel_recover_validateRecoverRequest : List String :=
  ["if info.DidSuffix == \"\" {", "  return error(...)", "}", "if info.RevealValue == \"\" {", "  return error(...)", "}", "if info.OpaqueDocument == \"\" && len(info.Patches) == 0 {", "  return error(...)", "}", "if info.OpaqueDocument != \"\" && len(info.Patches) > 0 {", "  return error(...)", "}", "if err := validateSigner(info.Signer); err != nil {", "  return err", "}", "return validateRecoveryKey(info.RecoveryKey)"]

/-- pkg/versions/1_0/client/recover.go:validateRecoveryKey -/
def skel_recover_validateRecoveryKey : List String :=
  ["if key == nil {", "  return error(...)", "}", "return key.Validate()"]

/-- pkg/versions/1_0/client/recover.go:validateCommitment -/
def skel_recover_validateCommitment : List String :=
  ["currentCommitment, err := commitment.GetCommitment(jwk, multihashCode)", "if err != nil {", "  return error(...)", "}", "if currentCommitment == nextCommitment {", "  return error(...)", "}", "return nil"]

/-- pkg/versions/1_0/client/deactivate.go:NewDeactivateRequest -/
def skel_deactivate_NewDeactivateRequest : List String :=
  ["if err := validateDeactivateRequest(info); err != nil {", "  return nil, err", "}", "signedDataModel := model.DeactivateSignedDataModel{...}", "signModel, err := signutil.SignModel(signedDataModel, info.Signer)", "if err != nil {", "  return nil, err", "}", "schema := &model.DeactivateRequest{...}", "return canonicalizer.MarshalCanonical(schema)"]

/-- pkg/versions/1_0/client/deactivate.go:validateDeactivateRequest -/
def skel_deactivate_validateDeactivateRequest : List String :=
  ["if info.DidSuffix == \"\" {", "  return error(...)", "}", "if info.RevealValue == \"\" {", "  return error(...)", "}", "return validateSigner(info.Signer)"]

/-- pkg/versions/1_0/client/deactivate.go:validateSigner -/
def skel_deactivate_validateSigner : List String :=
  ["if signer == nil {", "  return error(...)", "}", "if signer.Headers() == nil {", "  return error(...)", "}", "alg, ok := signer.Headers().Algorithm()", "if !ok {", "  return error(...)", "}", "if alg == \"\" {", "  return error(...)", "}", "allowedHeaders := map[string]bool{...}", "for h := range signer.Headers() {", "  if _, ok := allowedHeaders[h]; !ok {", "    return error(...)", "  }", "}", "return nil"]

/-- pkg/vdr/sidetreelongform/sidetree/client.go:buildCreateRequest -/
def skel_client_buildCreateRequest : List String :=
  ["didDoc := &doc.Doc{...}", "docBytes, err := didDoc.JSONBytes()", "if err != nil {", "  return nil, error(...)", "}", "recoveryKey, err := pubkey.GetPublicKeyJWK(createDIDOpts.RecoveryPublicKey)", "if err != nil {", "  return nil, error(...)", "}", "updateKey, err := pubkey.GetPublicKeyJWK(createDIDOpts.UpdatePublicKey)", "if err != nil {", "  return nil, error(...)", "}", "recoveryCommitment, err := commitment.GetCommitment(recoveryKey, multiHashAlgorithm)", "if err != nil {", "  return nil, err", "}", "updateCommitment, err := commitment.GetCommitment(updateKey, multiHashAlgorithm)", "if err != nil {", "  return nil, err", "}", "createRequestInfo := &client.CreateRequestInfo{...}", "if createDIDOpts.AnchorOrigin != \"\" {", "  createRequestInfo.AnchorOrigin = createDIDOpts.AnchorOrigin", "}", "req, err := client.NewCreateRequest(createRequestInfo)", "if err != nil {", "  return nil, error(...)", "}", "return req, nil"]

/-- pkg/vdr/sidetreelongform/sidetree/client.go:buildUpdateRequest -/
def skel_client_buildUpdateRequest : List String :=
  ["nextUpdateKey, err := pubkey.GetPublicKeyJWK(updateDIDOpts.NextUpdatePublicKey)", "if err != nil {", "  return nil, error(...)", "}", "nextUpdateCommitment, err := commitment.GetCommitment(nextUpdateKey, multiHashAlgorithm)", "if err != nil {", "  return nil, err", "}", "patches, err := createUpdatePatches(updateDIDOpts)", "if err != nil {", "  return nil, err", "}", "didSuffix, err := getUniqueSuffix(did)", "if err != nil {", "  return nil, err", "}", "multihashCode, err := hashing.GetMultihashCode(updateDIDOpts.OperationCommitment)", "if err != nil {", "  return nil, err", "}", "rv, err := commitment.GetRevealValue(updateDIDOpts.Signer.PublicKeyJWK(), uint(multihashCode))", "if err != nil {", "  return nil, err", "}", "return client.NewUpdateRequest(&client.UpdateRequestInfo{ DidSuffix: didSuffix, RevealValue: rv, UpdateCommitment: nextUpdateCommitment, UpdateKey: updateDIDOpts.Signer.PublicKeyJWK(), Patches: patches, MultihashCode: multiHashAlgorithm, Signer: updateDIDOpts.Signer, })"]

/-- pkg/vdr/sidetreelongform/sidetree/client.go:buildRecoverRequest -/
def skel_client_buildRecoverRequest : List String :=
  ["didDoc := &doc.Doc{...}", "docBytes, err := didDoc.JSONBytes()", "if err != nil {", "  return nil, error(...)", "}", "nextRecoveryCommitment, nextUpdateCommitment, err := getCommitment(multiHashAlgorithm, recoverDIDOpts)", "if err != nil {", "  return nil, err", "}", "didSuffix, err := getUniqueSuffix(did)", "if err != nil {", "  return nil, err", "}", "multihashCode, err := hashing.GetMultihashCode(recoverDIDOpts.OperationCommitment)", "if err != nil {", "  return nil, err", "}", "rv, err := commitment.GetRevealValue(recoverDIDOpts.Signer.PublicKeyJWK(), uint(multihashCode))", "if err != nil {", "  return nil, err", "}", "recoverRequestInfo := &client.RecoverRequestInfo{...}", "if recoverDIDOpts.AnchorOrigin != \"\" {", "  recoverRequestInfo.AnchorOrigin = recoverDIDOpts.AnchorOrigin", "}", "req, err := client.NewRecoverRequest(recoverRequestInfo)", "if err != nil {", "  return nil, error(...)", "}", "return req, nil"]

/-- pkg/vdr/sidetreelongform/sidetree/client.go:buildDeactivateRequest -/
def skel_client_buildDeactivateRequest : List String :=
  ["didSuffix, err := getUniqueSuffix(did)", "if err != nil {", "  return nil, err", "}", "multihashCode, err := hashing.GetMultihashCode(deactivateDIDOpts.OperationCommitment)", "if err != nil {", "  return nil, err", "}", "rv, err := commitment.GetRevealValue(deactivateDIDOpts.Signer.PublicKeyJWK(), uint(multihashCode))", "if err != nil {", "  return nil, err", "}", "return client.NewDeactivateRequest(&client.DeactivateRequestInfo{ DidSuffix: didSuffix, RevealValue: rv, RecoveryKey: deactivateDIDOpts.Signer.PublicKeyJWK(), Signer: deactivateDIDOpts.Signer, })"]

/-- pkg/vdr/sidetreelongform/sidetree/client.go:createUpdatePatches -/
def skel_client_createUpdatePatches : List String :=
  ["var patches []patch.Patch", "if len(updateDIDOpts.RemoveAlsoKnownAs) != 0 {", "  p, err := createRemoveAlsoKnownAsPatch(updateDIDOpts)", "  if err != nil {", "    return nil, err", "  }", "  patches = append(patches, p)", "}", "if len(updateDIDOpts.RemovePublicKeys) != 0 {", "  p, err := createRemovePublicKeysPatch(updateDIDOpts)", "  if err != nil {", "    return nil, err", "  }", "  patches = append(patches, p)", "}", "if len(updateDIDOpts.RemoveServices) != 0 {", "  p, err := createRemoveServicesPatch(updateDIDOpts)", "  if err != nil {", "    return nil, err", "  }", "  patches = append(patches, p)", "}", "if len(updateDIDOpts.AddAlsoKnownAs) != 0 {", "  p, err := createAddAlsoKnownAsPatch(updateDIDOpts)", "  if err != nil {", "    return nil, err", "  }", "  patches = append(patches, p)", "}", "if len(updateDIDOpts.AddServices) != 0 {", "  p, err := createAddServicesPatch(updateDIDOpts)", "  if err != nil {", "    return nil, err", "  }", "  patches = append(patches, p)", "}", "if len(updateDIDOpts.AddPublicKeys) != 0 {", "  p, err := createAddPublicKeysPatch(updateDIDOpts)", "  if err != nil {", "    return nil, err", "  }", "  patches = append(patches, p)", "}", "return patches, nil"]

/-- pkg/vdr/sidetreelongform/sidetree/client.go:getUniqueSuffix -/
def skel_client_getUniqueSuffix : List String :=
  ["p := strings.LastIndex(id, \":\")", "if p == -1 {", "  return \"\", error(...)", "}", "return id[p+1:], nil"]

/-- pkg/vdr/sidetreelongform/sidetree/client.go:getCommitment -/
def skel_client_getCommitment : List String :=
  ["nextRecoveryKey, err := pubkey.GetPublicKeyJWK(recoverDIDOpts.NextRecoveryPublicKey)", "if err != nil {", "  return \"\", \"\", error(...)", "}", "nextUpdateKey, err := pubkey.GetPublicKeyJWK(recoverDIDOpts.NextUpdatePublicKey)", "if err != nil {", "  return \"\", \"\", error(...)", "}", "nextRecoveryCommitment, err = commitment.GetCommitment(nextRecoveryKey, multiHashAlgorithm)", "if err != nil {", "  return \"\", \"\", err", "}", "nextUpdateCommitment, err = commitment.GetCommitment(nextUpdateKey, multiHashAlgorithm)", "if err != nil {", "  return \"\", \"\", err", "}", "return nextRecoveryCommitment, nextUpdateCommitment, nil"]

/-- pkg/vdr/sidetreelongform/sidetree/client.go:createRemovePublicKeysPatch -/
def skel_client_createRemovePublicKeysPatch : List String :=
  ["removePubKeys, err := json.Marshal(updateDIDOpts.RemovePublicKeys)", "if err != nil {", "  return nil, err", "}", "return patch.NewRemovePublicKeysPatch(string(removePubKeys))"]

/-- pkg/vdr/sidetreelongform/sidetree/client.go:createRemoveServicesPatch -/
def skel_client_createRemoveServicesPatch : List String :=
  ["removeServices, err := json.Marshal(updateDIDOpts.RemoveServices)", "if err != nil {", "  return nil, err", "}", "return patch.NewRemoveServiceEndpointsPatch(string(removeServices))"]

/-- pkg/vdr/sidetreelongform/sidetree/client.go:createRemoveAlsoKnownAsPatch -/
def skel_client_createRemoveAlsoKnownAsPatch : List String :=
  ["removeAlsoKnownAs, err := json.Marshal(updateDIDOpts.RemoveAlsoKnownAs)", "if err != nil {", "  return nil, err", "}", "return patch.NewRemoveAlsoKnownAs(string(removeAlsoKnownAs))"]

/-- pkg/vdr/sidetreelongform/sidetree/client.go:createAddAlsoKnownAsPatch -/
def skel_client_createAddAlsoKnownAsPatch : List String :=
  ["rawAlsoKnownAs := doc.PopulateRawAlsoKnownAs(updateDIDOpts.AddAlsoKnownAs)", "addAlsoKnownAs, err := json.Marshal(rawAlsoKnownAs)", "if err != nil {", "  return nil, err", "}", "return patch.NewAddAlsoKnownAs(string(addAlsoKnownAs))"]

/-- pkg/vdr/sidetreelongform/sidetree/client.go:createAddServicesPatch -/
def skel_client_createAddServicesPatch : List String :=
  ["rawServices, err := doc.PopulateRawServices(updateDIDOpts.AddServices)", "if err != nil {", "  return nil, err", "}", "addServices, err := json.Marshal(rawServices)", "if err != nil {", "  return nil, err", "}", "return patch.NewAddServiceEndpointsPatch(string(addServices))"]

/-- pkg/vdr/sidetreelongform/sidetree/client.go:createAddPublicKeysPatch -/
def skel_client_createAddPublicKeysPatch : List String :=
  ["rawPublicKeys, err := doc.PopulateRawPublicKeys(updateDIDOpts.AddPublicKeys)", "if err != nil {", "  return nil, err", "}", "addPublicKeys, err := json.Marshal(rawPublicKeys)", "if err != nil {", "  return nil, err", "}", "return patch.NewAddPublicKeysPatch(string(addPublicKeys))"]

/-- pkg/vdr/sidetreelongform/sidetree/client.go:validateCreateReq -/
def skel_client_validateCreateReq : List String :=
  ["if createDIDOpts.RecoveryPublicKey == nil {", "  return error(...)", "}", "if createDIDOpts.UpdatePublicKey == nil {", "  return error(...)", "}", "return nil"]

/-- pkg/vdr/sidetreelongform/sidetree/client.go:validateUpdateReq -/
def skel_client_validateUpdateReq : List String :=
  ["if updateDIDOpts.Signer == nil {", "  return error(...)", "}", "if updateDIDOpts.NextUpdatePublicKey == nil {", "  return error(...)", "}", "if updateDIDOpts.OperationCommitment == \"\" {", "  return error(...)", "}", "return nil"]

/-- pkg/vdr/sidetreelongform/sidetree/client.go:validateRecoverReq -/
def skel_client_validateRecoverReq : List String :=
  ["if recoverDIDOpts.NextRecoveryPublicKey == nil {", "  return error(...)", "}", "if recoverDIDOpts.NextUpdatePublicKey == nil {", "  return error(...)", "}", "if recoverDIDOpts.Signer == nil {", "  return error(...)", "}", "if recoverDIDOpts.OperationCommitment == \"\" {", "  return error(...)", "}", "return nil"]

/-- pkg/vdr/sidetreelongform/sidetree/client.go:validateDeactivateReq -/
def skel_client_validateDeactivateReq : List String :=
  ["if deactivateDIDOpts.Signer == nil {", "  return error(...)", "}", "if deactivateDIDOpts.OperationCommitment == \"\" {", "  return error(...)", "}", "return nil"]

/-- pkg/vdr/sidetreelongform/sidetree/doc/doc.go:JSONBytes -/
def skel_doc_JSONBytes : List String :=
  ["publicKeys, err := PopulateRawPublicKeys(doc.PublicKey)", "if err != nil {", "  return nil, error(...)", "}", "services, err := PopulateRawServices(doc.Service)", "if err != nil {", "  return nil, err", "}", "alsoKnownAs := PopulateRawAlsoKnownAs(doc.AlsoKnownAs)", "raw := &rawDoc{...}", "byteDoc, err := json.Marshal(raw)", "if err != nil {", "  return nil, error(...)", "}", "return byteDoc, nil"]

/-- pkg/vdr/sidetreelongform/sidetree/doc/doc.go:PopulateRawPublicKeys -/
def skel_doc_PopulateRawPublicKeys : List String :=
  ["rawPKs := make([]map[string]interface{}, 0)", "for i := range pks {", "  publicKey, err := populateRawPublicKey(&pks[i])", "  if err != nil {", "    return nil, err", "  }", "  rawPKs = append(rawPKs, publicKey)", "}", "return rawPKs, nil"]

/-- pkg/vdr/sidetreelongform/sidetree/doc/doc.go:populateRawPublicKey -/
def skel_doc_populateRawPublicKey : List String :=
  ["rawPK := make(map[string]interface{})", "rawPK[jsonldID] = pk.ID", "rawPK[jsonldType] = pk.Type", "rawPK[jsonldPurposes] = pk.Purposes", "jwkBytes, err := pk.JWK.MarshalJSON()", "switch  {", "case err == nil:", "  rawJWK := make(map[string]interface{})", "  if err := json.Unmarshal(jwkBytes, &rawJWK); err != nil {", "    return nil, err", "  }", "  rawPK[jsonldPublicKeyJwk] = rawJWK", "case pk.Type == JWK2020Type:", "  return nil, error(...)", "case pk.B58Key != \"\":", "  rawPK[jsonldPublicKeyBase58] = pk.B58Key", "default:", "  return nil, error(...)", "}", "return rawPK, nil"]

/-- pkg/vdr/sidetreelongform/sidetree/doc/doc.go:PopulateRawServices -/
def skel_doc_PopulateRawServices : List String :=
  ["rawServices := make([]map[string]interface{}, 0)", "for i := range services {", "  rawService := make(map[string]interface{})", "  for k, v := range services[i].Properties {", "    rawService[k] = v", "  }", "  rawService[jsonldID] = services[i].ID", "  rawService[jsonldType] = services[i].Type", "  serviceEndpoint, err := services[i].ServiceEndpoint.MarshalJSON()", "  if err != nil {", "    return nil, err", "  }", "  if !bytes.Equal(serviceEndpoint, []byte(\"null\")) {", "    rawService[jsonldServicePoint] = json.RawMessage(serviceEndpoint)", "  }", "  if services[i].Priority != nil {", "    rawService[jsonldPriority] = services[i].Priority", "  }", "  if len(services[i].RecipientKeys) > 0 {", "    rawService[jsonldRecipientKeys] = services[i].RecipientKeys", "  }", "  if len(services[i].RoutingKeys) > 0 {", "    rawService[jsonldRoutingKeys] = services[i].RoutingKeys", "  }", "  if len(services[i].Accept) > 0 {", "    rawService[jsonldAccept] = services[i].Accept", "  }", "  rawServices = append(rawServices, rawService)", "}", "return rawServices, nil"]

/-- pkg/vdr/sidetreelongform/sidetree/doc/doc.go:PopulateRawAlsoKnownAs -/
def skel_doc_PopulateRawAlsoKnownAs : List String :=
  ["values := make([]interface{}, len(alsoKnownAs))", "for i, v := range alsoKnownAs {", "  values[i] = v", "}", "return values"]

/-- pkg/versions/1_0/client/create.go:NewCreateRequest -/
def lit_NewCreateRequest_model_DeltaModel : List (List (String × String)) :=
  [[("Patches", "patches"), ("UpdateCommitment", "info.UpdateCommitment")]]

/-- pkg/versions/1_0/client/create.go:NewCreateRequest -/
def lit_NewCreateRequest_model_SuffixDataModel : List (List (String × String)) :=
  [[("AnchorOrigin", "info.AnchorOrigin"), ("DeltaHash", "deltaHash"), ("RecoveryCommitment", "info.RecoveryCommitment"), ("Type", "info.Type")]]

/-- pkg/versions/1_0/client/create.go:NewCreateRequest -/
def lit_NewCreateRequest_model_CreateRequest : List (List (String × String)) :=
  [[("Delta", "delta"), ("Operation", "operation.TypeCreate"), ("SuffixData", "suffixData")]]

/-- pkg/versions/1_0/client/update.go:NewUpdateRequest -/
def lit_NewUpdateRequest_model_DeltaModel : List (List (String × String)) :=
  [[("Patches", "info.Patches"), ("UpdateCommitment", "info.UpdateCommitment")]]

/-- pkg/versions/1_0/client/update.go:NewUpdateRequest -/
def lit_NewUpdateRequest_model_UpdateSignedDataModel : List (List (String × String)) :=
  [[("AnchorFrom", "info.AnchorFrom"), ("AnchorUntil", "info.AnchorUntil"), ("DeltaHash", "deltaHash"), ("UpdateKey", "info.UpdateKey")]]

/-- pkg/versions/1_0/client/update.go:NewUpdateRequest -/
def lit_NewUpdateRequest_model_UpdateRequest : List (List (String × String)) :=
  [[("Delta", "delta"), ("DidSuffix", "info.DidSuffix"), ("Operation", "operation.TypeUpdate"), ("RevealValue", "info.RevealValue"), ("SignedData", "signModel")]]

/-- pkg/versions/1_0/client/recover.go:NewRecoverRequest -/
def lit_NewRecoverRequest_model_DeltaModel : List (List (String × String)) :=
  [[("Patches", "patches"), ("UpdateCommitment", "info.UpdateCommitment")]]

/-- pkg/versions/1_0/client/recover.go:NewRecoverRequest -/
def lit_NewRecoverRequest_model_RecoverSignedDataModel : List (List (String × String)) :=
  [[("AnchorFrom", "info.AnchorFrom"), ("AnchorOrigin", "info.AnchorOrigin"), ("AnchorUntil", "info.AnchorUntil"), ("DeltaHash", "deltaHash"), ("RecoveryCommitment", "info.RecoveryCommitment"), ("RecoveryKey", "info.RecoveryKey")]]

/-- pkg/versions/1_0/client/recover.go:NewRecoverRequest -/
def lit_NewRecoverRequest_model_RecoverRequest : List (List (String × String)) :=
  [[("Delta", "delta"), ("DidSuffix", "info.DidSuffix"), ("Operation", "operation.TypeRecover"), ("RevealValue", "info.RevealValue"), ("SignedData", "signModel")]]

/-- pkg/versions/1_0/client/deactivate.go:NewDeactivateRequest -/
def lit_NewDeactivateRequest_model_DeactivateSignedDataModel : List (List (String × String)) :=
  [[("AnchorFrom", "info.AnchorFrom"), ("AnchorUntil", "info.AnchorUntil"), ("DidSuffix", "info.DidSuffix"), ("RecoveryKey", "info.RecoveryKey")]]

/-- pkg/versions/1_0/client/deactivate.go:NewDeactivateRequest -/
def lit_NewDeactivateRequest_model_DeactivateRequest : List (List (String × String)) :=
  [[("DidSuffix", "info.DidSuffix"), ("Operation", "operation.TypeDeactivate"), ("RevealValue", "info.RevealValue"), ("SignedData", "signModel")]]

/-- pkg/versions/1_0/model/util.go:GetAnchoredOperation -/
def lit_GetAnchoredOperation_CreateRequest : List (List (String × String)) :=
  [[("Delta", "op.Delta"), ("Operation", "op.Type"), ("SuffixData", "op.SuffixData")]]

/-- pkg/versions/1_0/model/util.go:GetAnchoredOperation -/
def lit_GetAnchoredOperation_UpdateRequest : List (List (String × String)) :=
  [[("Delta", "op.Delta"), ("DidSuffix", "op.UniqueSuffix"), ("Operation", "op.Type"), ("RevealValue", "op.RevealValue"), ("SignedData", "op.SignedData")]]

/-- pkg/versions/1_0/model/util.go:GetAnchoredOperation -/
def lit_GetAnchoredOperation_DeactivateRequest : List (List (String × String)) :=
  [[("DidSuffix", "op.UniqueSuffix"), ("Operation", "op.Type"), ("RevealValue", "op.RevealValue"), ("SignedData", "op.SignedData")]]

/-- pkg/versions/1_0/model/util.go:GetAnchoredOperation -/
def lit_GetAnchoredOperation_RecoverRequest : List (List (String × String)) :=
  [[("Delta", "op.Delta"), ("DidSuffix", "op.UniqueSuffix"), ("Operation", "op.Type"), ("RevealValue", "op.RevealValue"), ("SignedData", "op.SignedData")]]

/-- pkg/versions/1_0/model/util.go:GetAnchoredOperation -/
def lit_GetAnchoredOperation_operation_AnchoredOperation : List (List (String × String)) :=
  [[("AnchorOrigin", "op.AnchorOrigin"), ("OperationRequest", "operationBuffer"), ("Type", "op.Type"), ("UniqueSuffix", "op.UniqueSuffix")]]

/-- pkg/vdr/sidetreelongform/sidetree/client.go:buildCreateRequest -/
def lit_buildCreateRequest_client_CreateRequestInfo : List (List (String × String)) :=
  [[("MultihashCode", "multiHashAlgorithm"), ("OpaqueDocument", "string(docBytes)"), ("RecoveryCommitment", "recoveryCommitment"), ("UpdateCommitment", "updateCommitment")]]

/-- pkg/vdr/sidetreelongform/sidetree/client.go:buildCreateRequest -/
def lit_buildCreateRequest_doc_Doc : List (List (String × String)) :=
  [[("AlsoKnownAs", "createDIDOpts.AlsoKnownAs"), ("PublicKey", "createDIDOpts.PublicKeys"), ("Service", "createDIDOpts.Services")]]

/-- pkg/vdr/sidetreelongform/sidetree/client.go:buildUpdateRequest -/
def lit_buildUpdateRequest_client_UpdateRequestInfo : List (List (String × String)) :=
  [[("DidSuffix", "didSuffix"), ("MultihashCode", "multiHashAlgorithm"), ("Patches", "patches"), ("RevealValue", "rv"), ("Signer", "updateDIDOpts.Signer"), ("UpdateCommitment", "nextUpdateCommitment"), ("UpdateKey", "updateDIDOpts.Signer.PublicKeyJWK()")]]

/-- pkg/vdr/sidetreelongform/sidetree/client.go:buildRecoverRequest -/
def lit_buildRecoverRequest_client_RecoverRequestInfo : List (List (String × String)) :=
  [[("DidSuffix", "didSuffix"), ("MultihashCode", "multiHashAlgorithm"), ("OpaqueDocument", "string(docBytes)"), ("RecoveryCommitment", "nextRecoveryCommitment"), ("RecoveryKey", "recoverDIDOpts.Signer.PublicKeyJWK()"), ("RevealValue", "rv"), ("Signer", "recoverDIDOpts.Signer"), ("UpdateCommitment", "nextUpdateCommitment")]]

/-- pkg/vdr/sidetreelongform/sidetree/client.go:buildRecoverRequest -/
def lit_buildRecoverRequest_doc_Doc : List (List (String × String)) :=
  [[("AlsoKnownAs", "recoverDIDOpts.AlsoKnownAs"), ("PublicKey", "recoverDIDOpts.PublicKeys"), ("Service", "recoverDIDOpts.Services")]]

/-- pkg/vdr/sidetreelongform/sidetree/client.go:buildDeactivateRequest -/
def lit_buildDeactivateRequest_client_DeactivateRequestInfo : List (List (String × String)) :=
  [[("DidSuffix", "didSuffix"), ("RecoveryKey", "deactivateDIDOpts.Signer.PublicKeyJWK()"), ("RevealValue", "rv"), ("Signer", "deactivateDIDOpts.Signer")]]

/-- pkg/vdr/sidetreelongform/sidetree/doc/doc.go:JSONBytes -/
def lit_JSONBytes_rawDoc : List (List (String × String)) :=
  [[("AlsoKnownAs", "alsoKnownAs"), ("PublicKey", "publicKeys"), ("Service", "services")]]

/-- pkg/versions/1_0/model/request.go:CreateRequest -/
def lit_tags_CreateRequest : List String :=
  ["Operation operation.Type json:\"type,omitempty\"", "SuffixData *SuffixDataModel json:\"suffixData,omitempty\"", "Delta *DeltaModel json:\"delta,omitempty\""]

/-- pkg/versions/1_0/model/request.go:SuffixDataModel -/
def lit_tags_SuffixDataModel : List String :=
  ["DeltaHash string json:\"deltaHash,omitempty\"", "RecoveryCommitment string json:\"recoveryCommitment,omitempty\"", "AnchorOrigin interface{} json:\"anchorOrigin,omitempty\"", "Type string json:\"type,omitempty\""]

/-- pkg/versions/1_0/model/request.go:DeltaModel -/
def lit_tags_DeltaModel : List String :=
  ["UpdateCommitment string json:\"updateCommitment,omitempty\"", "Patches []patch.Patch json:\"patches,omitempty\""]

/-- pkg/versions/1_0/model/request.go:UpdateRequest -/
def lit_tags_UpdateRequest : List String :=
  ["Operation operation.Type json:\"type\"", "DidSuffix string json:\"didSuffix\"", "RevealValue string json:\"revealValue\"", "SignedData string json:\"signedData\"", "Delta *DeltaModel json:\"delta\""]

/-- pkg/versions/1_0/model/request.go:DeactivateRequest -/
def lit_tags_DeactivateRequest : List String :=
  ["Operation operation.Type json:\"type\"", "DidSuffix string json:\"didSuffix\"", "RevealValue string json:\"revealValue\"", "SignedData string json:\"signedData\""]

/-- pkg/versions/1_0/model/request.go:RecoverRequest -/
def lit_tags_RecoverRequest : List String :=
  ["Operation operation.Type json:\"type\"", "DidSuffix string json:\"didSuffix\"", "RevealValue string json:\"revealValue\"", "SignedData string json:\"signedData\"", "Delta *DeltaModel json:\"delta\""]

/-- pkg/versions/1_0/model/request.go:UpdateSignedDataModel -/
def lit_tags_UpdateSignedDataModel : List String :=
  ["UpdateKey *jws.JWK json:\"updateKey\"", "DeltaHash string json:\"deltaHash\"", "AnchorFrom int64 json:\"anchorFrom,omitempty\"", "AnchorUntil int64 json:\"anchorUntil,omitempty\""]

/-- pkg/versions/1_0/model/request.go:RecoverSignedDataModel -/
def lit_tags_RecoverSignedDataModel : List String :=
  ["DeltaHash string json:\"deltaHash\"", "RecoveryKey *jws.JWK json:\"recoveryKey\"", "RecoveryCommitment string json:\"recoveryCommitment\"", "AnchorOrigin interface{} json:\"anchorOrigin,omitempty\"", "AnchorFrom int64 json:\"anchorFrom,omitempty\"", "AnchorUntil int64 json:\"anchorUntil,omitempty\""]

/-- pkg/versions/1_0/model/request.go:DeactivateSignedDataModel -/
def lit_tags_DeactivateSignedDataModel : List String :=
  ["DidSuffix string json:\"didSuffix\"", "RevealValue string json:\"revealValue\"", "RecoveryKey *jws.JWK json:\"recoveryKey\"", "AnchorFrom int64 json:\"anchorFrom,omitempty\"", "AnchorUntil int64 json:\"anchorUntil,omitempty\""]

/-- pkg/jws/jwk.go:JWK -/
def lit_tags_JWK : List String :=
  ["Kty string json:\"kty\"", "Crv string json:\"crv\"", "X string json:\"x\"", "Y string json:\"y\"", "N string json:\"n,omitempty\"", "E string json:\"e,omitempty\"", "Nonce string json:\"nonce,omitempty\""]

/-- pkg/internal/jsoncanonicalizer/jsoncanonicalizer.go:Transform -/
def skel_jcs_Transform : List String :=
  ["var jsonDataLength int = len(jsonData)", "var index int = 0", "var parseElement func() string", "var parseSimpleType func() string", "var parseQuotedString func() string", "var parseObject func() string", "var parseArray func() string", "var globalError error = nil", "checkError := func(e error) { if globalError == nil { globalError = e } }", "setError := func(msg string) { checkError(errors.New(msg)) }", "isWhiteSpace := func(c byte) bool { return c == 0x20 || c == 0x0a || c == 0x0d || c == 0x09 }", "nextChar := func() byte { if index < jsonDataLength { c := jsonData[index] if c > 0x7f { setError(\"Unexpected non-ASCII character\") } index++ return c } setError(\"Unexpected EOF reached\") return '\"' }", "scan := func() byte { for { c := nextChar() if isWhiteSpace(c) { continue } return c } }", "scanFor := func(expected byte) { c := scan() if c != expected { setError(\"Expected '\" + string(expected) + \"' but got '\" + string(c) + \"'\") } }", "getUEscape := func() rune { start := index nextChar() nextChar() nextChar() nextChar() if globalError != nil { return 0 } u16, err := strconv.ParseUint(string(jsonData[start:index]), 16, 64) checkError(err) return rune(u16) }", "testNextNonWhiteSpaceChar := func() byte { save := index c := scan() index = save return c }", "decorateString := func(rawUTF8 string) string { var quotedString strings.Builder quotedString.WriteByte('\"') CoreLoop: for _, c := range []byte(rawUTF8) { for i, esc := range binaryEscapes { if esc == c { quotedString.WriteByte('\\\\') quotedString.WriteByte(asciiEscapes[i]) continue CoreLoop } } if c < 0x20 { quotedString.WriteString(fmt.Sprintf(\"\\\\u%04x\", c)) } else { quotedString.WriteByte(c) } } quotedString.WriteByte('\"') return quotedString.String() }", "parseQuotedString = func() string { var rawString strings.Builder CoreLoop: for globalError == nil { var c byte if index < jsonDataLength { c = jsonData[index] index++ } else { nextChar() break } if c == '\"' { break } if c < ' ' { setError(\"Unterminated string literal\") } else if c == '\\\\' { c = nextChar() if c == 'u' { firstUTF16 := getUEscape() if utf16.IsSurrogate(firstUTF16) { if nextChar() != '\\\\' || nextChar() != 'u' { setError(\"Missing surrogate\") } else { rawString.WriteRune(utf16.DecodeRune(firstUTF16, getUEscape())) } } else { rawString.WriteRune(firstUTF16) } } else if c == '/' { rawString.WriteByte('/') } else { for i, esc := range asciiEscapes { if esc == c { rawString.WriteByte(binaryEscapes[i]) continue CoreLoop } } setError(\"Unexpected escape: \\\\\" + string(c)) } } else { rawString.WriteByte(c) } } return rawString.String() }", "parseSimpleType = func() string { var token strings.Builder index-- for globalError == nil { c := testNextNonWhiteSpaceChar() if c == ',' || c == ']' || c == '}' { break } c = nextChar() if isWhiteSpace(c) { break } token.WriteByte(c) } if token.Len() == 0 { setError(\"Missing argument\") } value := token.String() for _, literal := range literals { if literal == value { return literal } } ieeeF64, err := strconv.ParseFloat(value, 64) checkError(err) value, err = NumberToJSON(ieeeF64) checkError(err) return value }", "parseElement = func() string { switch scan() { case '{': return parseObject() case '\"': return decorateString(parseQuotedString()) case '[': return parseArray() default: return parseSimpleType() } }", "parseArray = func() string { var arrayData strings.Builder arrayData.WriteByte('[') var next bool = false for globalError == nil && testNextNonWhiteSpaceChar() != ']' { if next { scanFor(',') arrayData.WriteByte(',') } else { next = true } arrayData.WriteString(parseElement()) } scan() arrayData.WriteByte(']') return arrayData.String() }", "lexicographicallyPrecedes := func(sortKey []uint16, e *list.Element) bool { oldSortKey := e.Value.(nameValueType).sortKey minLength := len(oldSortKey) if minLength > len(sortKey) { minLength = len(sortKey) } for q := 0; q < minLength; q++ { diff := int(sortKey[q]) - int(oldSortKey[q]) if diff < 0 { return true } else if diff > 0 { return false } } if len(sortKey) < len(oldSortKey) { return true } if len(sortKey) == len(oldSortKey) { setError(\"Duplicate key: \" + e.Value.(nameValueType).name) } return false }", "parseObject = func() string { nameValueList := list.New() var next bool = false CoreLoop: for globalError == nil && testNextNonWhiteSpaceChar() != '}' { if next { scanFor(',') } next = true scanFor('\"') rawUTF8 := parseQuotedString() if globalError != nil { break } sortKey := utf16.Encode([]rune(rawUTF8)) scanFor(':') nameValue := nameValueType{rawUTF8, sortKey, parseElement()} for e := nameValueList.Front(); e != nil; e = e.Next() { if lexicographicallyPrecedes(sortKey, e) { nameValueList.InsertBefore(nameValue, e) continue CoreLoop } } nameValueList.PushBack(nameValue) } scan() var objectData strings.Builder objectData.WriteByte('{') next = false for e := nameValueList.Front(); e != nil; e = e.Next() { if next { objectData.WriteByte(',') } next = true nameValue := e.Value.(nameValueType) objectData.WriteString(decorateString(nameValue.name)) objectData.WriteByte(':') objectData.WriteString(nameValue.value) } objectData.WriteByte('}') return objectData.String() }", "var transformed string", "if testNextNonWhiteSpaceChar() == '[' {", "  scan()", "  transformed = parseArray()", "} else {", "  scanFor('{')", "  transformed = parseObject()", "}", "for ; index < jsonDataLength;  {", "  if !isWhiteSpace(jsonData[index]) {", "    setError(\"Improperly terminated JSON object\")", "    break", "  }", "  index++", "}", "return []byte(transformed), globalError"]

/-- pkg/internal/jsoncanonicalizer/es6numfmt.go:NumberToJSON -/
def skel_jcs_NumberToJSON : List String :=
  ["ieeeU64 := math.Float64bits(ieeeF64)", "if (ieeeU64 & invalidPattern) == invalidPattern {", "  return \"null\", error(...)", "}", "if ieeeF64 == 0 {", "  return \"0\", nil", "}", "var sign string = \"\"", "if ieeeF64 < 0 {", "  ieeeF64 = -ieeeF64", "  sign = \"-\"", "}", "var format byte = 'e'", "if ieeeF64 < 1e+21 && ieeeF64 >= 1e-6 {", "  format = 'f'", "}", "es6Formatted := strconv.FormatFloat(ieeeF64, format, -1, 64)", "exponent := strings.IndexByte(es6Formatted, 'e')", "if exponent > 0 {", "  gform := strconv.FormatFloat(ieeeF64, 'g', 17, 64)", "  if len(gform) == len(es6Formatted) {", "    es6Formatted = gform", "  }", "  if es6Formatted[exponent+2] == '0' {", "    es6Formatted = es6Formatted[:exponent+2] + es6Formatted[exponent+3:]", "  }", "} else {", "  if strings.IndexByte(es6Formatted, '.') < 0 && len(es6Formatted) >= 12 { i := len(es6Formatted) for es6Formatted[i-1] == '0' { i-- } if i != len(es6Formatted) { fix := strconv.FormatFloat(ieeeF64, 'f', 0, 64) if fix[i] >= '5' { es6Formatted = fix[:i-1] + string(fix[i-1]+1) + es6Formatted[i:] } } }", "}", "return sign + es6Formatted, nil"]

/-- pkg/canonicalizer/canonicalizer.go:MarshalCanonical -/
def skel_jcs_MarshalCanonical : List String :=
  ["valueBytes, ok := value.([]byte)", "if !ok {", "  var err error", "  valueBytes, err = json.Marshal(value)", "  if err != nil {", "    return nil, err", "  }", "}", "return jsoncanonicalizer.Transform(valueBytes)"]

/-- pkg/hashing/hash.go:ComputeMultihash -/
def skel_hashing_ComputeMultihash : List String :=
  ["hash, err := GetHashFromMultihash(multihashCode)", "if err != nil {", "  return nil, err", "}", "hashedBytes, err := GetHash(hash, bytes)", "if err != nil {", "  return nil, err", "}", "return multihash.Encode(hashedBytes, uint64(multihashCode))"]

/-- pkg/hashing/hash.go:GetMultihash -/
def skel_hashing_GetMultihash : List String :=
  ["multihashBytes, err := encoder.DecodeString(encodedMultihash)", "if err != nil {", "  return nil, err", "}", "return multihash.Decode(multihashBytes)"]

/-- pkg/hashing/hash.go:GetMultihashCode -/
def skel_hashing_GetMultihashCode : List String :=
  ["mh, err := GetMultihash(encodedMultihash)", "if err != nil {", "  return 0, error(...)", "}", "return mh.Code, nil"]

/-- pkg/hashing/hash.go:IsSupportedMultihash -/
def skel_hashing_IsSupportedMultihash : List String :=
  ["code, err := GetMultihashCode(encodedMultihash)", "if err != nil {", "  return false", "}", "return multihash.ValidCode(code)"]

/-- pkg/hashing/hash.go:IsComputedUsingMultihashAlgorithms -/
def skel_hashing_IsComputedUsingMultihashAlgorithms : List String :=
  ["mhCode, err := GetMultihashCode(encodedMultihash)", "if err != nil {", "  return false", "}", "for _, supported := range codes {", "  if mhCode == uint64(supported) {", "    return true", "  }", "}", "return false"]

/-- pkg/hashing/hash.go:CalculateModelMultihash -/
def skel_hashing_CalculateModelMultihash : List String :=
  ["bytes, err := canonicalizer.MarshalCanonical(value)", "if err != nil {", "  return \"\", err", "}", "multiHashBytes, err := ComputeMultihash(alg, bytes)", "if err != nil {", "  return \"\", err", "}", "return encoder.EncodeToString(multiHashBytes), nil"]

/-- pkg/hashing/hash.go:IsValidModelMultihash -/
def skel_hashing_IsValidModelMultihash : List String :=
  ["code, err := GetMultihashCode(modelMultihash)", "if err != nil {", "  return err", "}", "encodedComputedMultihash, err := CalculateModelMultihash(model, uint(code))", "if err != nil {", "  return err", "}", "if encodedComputedMultihash != modelMultihash {", "  return error(...)", "}", "return nil"]

/-- pkg/hashing/hash.go:GetHashFromMultihash -/
def skel_hashing_GetHashFromMultihash : List String :=
  ["switch multihashCode {", "case multihash.SHA2_256:", "  h = crypto.SHA256", "case multihash.SHA2_512:", "  h = crypto.SHA512", "default:", "  err = error(...)", "}", "return h, err"]

/-- pkg/hashing/hash.go:GetHash -/
def skel_hashing_GetHash : List String :=
  ["if !hash.Available() {", "  return nil, error(...)", "}", "h := hash.New()", "if _, hashErr := h.Write(data); hashErr != nil {", "  return nil, hashErr", "}", "result := h.Sum(nil)", "return result, nil"]

/-- pkg/commitment/hash.go:GetRevealValue -/
def skel_commitment_GetRevealValue : List String :=
  ["rv, err := hashing.CalculateModelMultihash(jwk, multihashCode)", "if err != nil {", "  return \"\", error(...)", "}", "return rv, nil"]

/-- pkg/commitment/hash.go:GetCommitment -/
def skel_commitment_GetCommitment : List String :=
  ["data, err := canonicalizer.MarshalCanonical(jwk)", "if err != nil {", "  return \"\", err", "}", "hash, err := hashing.GetHashFromMultihash(multihashCode)", "if err != nil {", "  return \"\", err", "}", "dataHash, err := hashing.GetHash(hash, data)", "if err != nil {", "  return \"\", err", "}", "multiHash, err := hashing.ComputeMultihash(multihashCode, dataHash)", "if err != nil {", "  return \"\", err", "}", "return encoder.EncodeToString(multiHash), nil"]

/-- pkg/commitment/hash.go:GetCommitmentFromRevealValue -/
def skel_commitment_GetCommitmentFromRevealValue : List String :=
  ["mh, err := hashing.GetMultihash(rv)", "if err != nil {", "  return \"\", error(...)", "}", "multiHash, err := hashing.ComputeMultihash(uint(mh.Code), mh.Digest)", "if err != nil {", "  return \"\", error(...)", "}", "return encoder.EncodeToString(multiHash), nil"]

/-- pkg/patch/patch.go:PatchesFromDocument -/
def skel_patch_PatchesFromDocument : List String :=
  ["parsed, err := document.FromBytes([]byte(doc))", "if err != nil {", "  return nil, err", "}", "if err := validateDocument(parsed); err != nil {", "  return nil, err", "}", "var docPatches []Patch", "var jsonPatches []string", "for _, key := range sortedKeys(parsed) {", "  jsonBytes, err := json.Marshal(parsed[key])", "  if err != nil {", "    return nil, err", "  }", "  var docPatch Patch", "  switch key {", "  case document.PublicKeyProperty:", "    docPatch, err = NewAddPublicKeysPatch(string(jsonBytes))", "  case document.ServiceProperty:", "    docPatch, err = NewAddServiceEndpointsPatch(string(jsonBytes))", "  case document.AlsoKnownAs:", "    docPatch, err = NewAddAlsoKnownAs(string(jsonBytes))", "  default:", "    jsonPatches = append(jsonPatches, fmt.Sprintf(jsonPatchAddTemplate, key, string(jsonBytes)))", "  }", "  if err != nil {", "    return nil, err", "  }", "  if docPatch != nil {", "    docPatches = append(docPatches, docPatch)", "  }", "}", "if len(jsonPatches) > 0 {", "  combinedJSONPatch, err := NewJSONPatch(fmt.Sprintf(\"[%s]\", strings.Join(jsonPatches, \",\")))", "  if err != nil {", "    return nil, err", "  }", "  docPatches = append(docPatches, combinedJSONPatch)", "}", "return docPatches, nil"]

/-- pkg/patch/patch.go:NewReplacePatch -/
def skel_patch_NewReplacePatch : List String :=
  ["parsed, err := document.ReplaceDocumentFromBytes([]byte(doc))", "if err != nil {", "  return nil, err", "}", "if err := validateReplaceDocument(parsed); err != nil {", "  return nil, err", "}", "patch := make(Patch)", "patch[ActionKey] = Replace", "patch[DocumentKey] = parsed.JSONLdObject()", "return patch, nil"]

/-- pkg/patch/patch.go:NewJSONPatch -/
def skel_patch_NewJSONPatch : List String :=
  ["var generic []interface{}", "err := json.Unmarshal([]byte(patches), &generic)", "if err != nil {", "  return nil, err", "}", "patch := make(Patch)", "patch[ActionKey] = JSONPatch", "patch[PatchesKey] = generic", "return patch, nil"]

/-- pkg/patch/patch.go:NewAddPublicKeysPatch -/
def skel_patch_NewAddPublicKeysPatch : List String :=
  ["pubKeys, err := getPublicKeys(publicKeys)", "if err != nil {", "  return nil, err", "}", "patch := make(Patch)", "patch[ActionKey] = AddPublicKeys", "patch[PublicKeys] = pubKeys", "return patch, nil"]

/-- pkg/patch/patch.go:NewRemovePublicKeysPatch -/
def skel_patch_NewRemovePublicKeysPatch : List String :=
  ["ids, err := getStringArray(publicKeyIds)", "if err != nil {", "  return nil, error(...)", "}", "if len(ids) == 0 {", "  return nil, error(...)", "}", "patch := make(Patch)", "patch[ActionKey] = RemovePublicKeys", "patch[IdsKey] = getGenericArray(ids)", "return patch, nil"]

/-- pkg/patch/patch.go:NewAddServiceEndpointsPatch -/
def skel_patch_NewAddServiceEndpointsPatch : List String :=
  ["services, err := getServices(serviceEndpoints)", "if err != nil {", "  return nil, err", "}", "patch := make(Patch)", "patch[ActionKey] = AddServiceEndpoints", "patch[ServicesKey] = services", "return patch, nil"]

/-- pkg/patch/patch.go:NewRemoveServiceEndpointsPatch -/
def skel_patch_NewRemoveServiceEndpointsPatch : List String :=
  ["ids, err := getStringArray(serviceEndpointIds)", "if err != nil {", "  return nil, error(...)", "}", "if len(ids) == 0 {", "  return nil, error(...)", "}", "patch := make(Patch)", "patch[ActionKey] = RemoveServiceEndpoints", "patch[IdsKey] = getGenericArray(ids)", "return patch, nil"]

/-- pkg/patch/patch.go:NewAddAlsoKnownAs -/
def skel_patch_NewAddAlsoKnownAs : List String :=
  ["urisToAdd, err := getStringArray(uris)", "if err != nil {", "  return nil, error(...)", "}", "if len(urisToAdd) == 0 {", "  return nil, error(...)", "}", "patch := make(Patch)", "patch[ActionKey] = AddAlsoKnownAs", "patch[UrisKey] = getGenericArray(urisToAdd)", "return patch, nil"]

/-- pkg/patch/patch.go:NewRemoveAlsoKnownAs -/
def skel_patch_NewRemoveAlsoKnownAs : List String :=
  ["urisToRemove, err := getStringArray(uris)", "if err != nil {", "  return nil, error(...)", "}", "if len(urisToRemove) == 0 {", "  return nil, error(...)", "}", "patch := make(Patch)", "patch[ActionKey] = RemoveAlsoKnownAs", "patch[UrisKey] = getGenericArray(urisToRemove)", "return patch, nil"]

/-- pkg/patch/patch.go:GetValue -/
def skel_patch_GetValue : List String :=
  ["action, err := p.GetAction()", "if err != nil {", "  return nil, err", "}", "valueKey, ok := actionConfig[action]", "if !ok {", "  return nil, error(...)", "}", "entry, ok := p[valueKey]", "if !ok {", "  return nil, error(...)", "}", "return entry, nil"]

/-- pkg/patch/patch.go:GetAction -/
def skel_patch_GetAction : List String :=
  ["entry, ok := p[ActionKey]", "if !ok {", "  return \"\", error(...)", "}", "var action Action", "switch v := entry.(type) { case Action: action = v case string: action = Action(v) default: return \"\", fmt.Errorf(\"action type not supported: %s\", v) }", "_, ok = actionConfig[action]", "if !ok {", "  return \"\", error(...)", "}", "return action, nil"]

/-- pkg/patch/patch.go:Bytes -/
def skel_patch_Bytes : List String :=
  ["return json2.MarshalCanonical(p)"]

/-- pkg/patch/patch.go:JSONLdObject -/
def skel_patch_JSONLdObject : List String :=
  ["return p"]

/-- pkg/patch/patch.go:FromBytes -/
def skel_patch_FromBytes : List String :=
  ["patch := make(Patch)", "err := json.Unmarshal(data, &patch)", "if err != nil {", "  return nil, err", "}", "_, err = patch.GetAction()", "if err != nil {", "  return nil, err", "}", "_, err = patch.GetValue()", "if err != nil {", "  return nil, err", "}", "return patch, nil"]

/-- pkg/patch/patch.go:stringEntry -/
def skel_patch_stringEntry : List String :=
  ["if entry == nil {", "  return \"\"", "}", "id, ok := entry.(string)", "if !ok {", "  return \"\"", "}", "return id"]

/-- pkg/patch/patch.go:validateReplaceDocument -/
def skel_patch_validateReplaceDocument : List String :=
  ["allowedKeys := []string{...}", "for key := range doc {", "  if !contains(allowedKeys, key) {", "    return error(...)", "  }", "}", "return nil"]

/-- pkg/patch/patch.go:contains -/
def skel_patch_contains : List String :=
  ["for _, k := range keys {", "  if k == key {", "    return true", "  }", "}", "return false"]

/-- pkg/patch/patch.go:validateDocument -/
def skel_patch_validateDocument : List String :=
  ["if doc.ID() != \"\" {", "  return error(...)", "}", "return nil"]

/-- pkg/patch/patch.go:getPublicKeys -/
def skel_patch_getPublicKeys : List String :=
  ["pkDoc, err := document.DidDocumentFromBytes([]byte(fmt.Sprintf(`{%q:%s}`, document.PublicKeyProperty, publicKeys)))", "if err != nil {", "  return nil, error(...)", "}", "return pkDoc[document.PublicKeyProperty], nil"]

/-- pkg/patch/patch.go:getServices -/
def skel_patch_getServices : List String :=
  ["svcDocStr := fmt.Sprintf(`{%q:%s}`, document.ServiceProperty, serviceEndpoints)", "svcDoc, err := document.DidDocumentFromBytes([]byte(svcDocStr))", "if err != nil {", "  return nil, error(...)", "}", "return svcDoc[document.ServiceProperty], nil"]

/-- pkg/patch/patch.go:getStringArray -/
def skel_patch_getStringArray : List String :=
  ["var values []string", "err := json.Unmarshal([]byte(arr), &values)", "if err != nil {", "  return nil, err", "}", "return values, nil"]

/-- pkg/patch/patch.go:getGenericArray -/
def skel_patch_getGenericArray : List String :=
  ["var values []interface{}", "for _, v := range arr {", "  values = append(values, v)", "}", "return values"]

/-- pkg/patch/patch.go:sortedKeys -/
def skel_patch_sortedKeys : List String :=
  ["keys := make([]string, len(m))", "i := 0", "for k := range m {", "  keys[i] = k", "  i++", "}", "sort.Strings(keys)", "return keys"]

/-- pkg/vdr/sidetreelongform/sidetree/doc/doc.go:rawDoc -/
def lit_tags_rawDoc : List String :=
  ["PublicKey []map[string]interface{} json:\"publicKey,omitempty\"", "Service []map[string]interface{} json:\"service,omitempty\"", "AlsoKnownAs []interface{} json:\"alsoKnownAs,omitempty\""]

/-- pkg/versions/1_0/doccomposer/composer.go:ApplyPatches -/
def skel_composer_ApplyPatches : List String :=
  ["result, err := deepCopy(doc)", "if err != nil {", "  return nil, err", "}", "for _, p := range patches {", "  result, err = applyPatch(result, p)", "  if err != nil {", "    return nil, err", "  }", "}", "return result, nil"]

/-- pkg/versions/1_0/doccomposer/composer.go:applyPatch -/
def skel_composer_applyPatch : List String :=
  ["action, err := p.GetAction()", "if err != nil {", "  return nil, err", "}", "value, err := p.GetValue()", "if err != nil {", "  return nil, err", "}", "switch action {", "case patch.Replace:", "  return applyRecover(value)", "case patch.JSONPatch:", "  return applyJSON(doc, value)", "case patch.AddPublicKeys:", "  return applyAddPublicKeys(doc, value)", "case patch.RemovePublicKeys:", "  return applyRemovePublicKeys(doc, value)", "case patch.AddServiceEndpoints:", "  return applyAddServiceEndpoints(doc, value)", "case patch.RemoveServiceEndpoints:", "  return applyRemoveServiceEndpoints(doc, value)", "case patch.AddAlsoKnownAs:", "  return applyAddAlsoKnownAs(doc, value)", "case patch.RemoveAlsoKnownAs:", "  return applyRemoveAlsoKnownAs(doc, value)", "}", "return nil, error(...)"]

/-- pkg/versions/1_0/doccomposer/composer.go:applyJSON -/
def skel_composer_applyJSON : List String :=
  ["bytes, err := json.Marshal(entry)", "if err != nil {", "  return nil, err", "}", "jsonPatches, err := jsonpatch.DecodePatch(bytes)", "if err != nil {", "  return nil, err", "}", "docBytes, err := doc.Bytes()", "if err != nil {", "  return nil, err", "}", "for i := range jsonPatches {", "  docBytes, err = applyJSONPatchOperation(docBytes, jsonPatches[i:i+1])", "  if err != nil {", "    return nil, err", "  }", "}", "return document.FromBytes(docBytes)"]

/-- pkg/versions/1_0/doccomposer/composer.go:applyJSONPatchOperation -/
def skel_composer_applyJSONPatchOperation : List String :=
  ["defer func() {", "  if r := recover(); r != nil {", "    result = nil", "    err = error(...)", "  }", "}()", "if targetsOwnSource(op) {", "  return nil, error(...)", "}", "return op.Apply(docBytes)"]

/-- pkg/versions/1_0/doccomposer/composer.go:targetsOwnSource -/
def skel_composer_targetsOwnSource : List String :=
  ["for _, o := range op {", "  var kind, from, path string", "  if !stringMember(o[\"op\"], &kind) || !stringMember(o[\"from\"], &from) || !stringMember(o[\"path\"], &path) {", "    continue", "  }", "  if (kind == \"copy\" || kind == \"move\") && isBelow(path, from) {", "    return true", "  }", "}", "return false"]

/-- pkg/versions/1_0/doccomposer/composer.go:stringMember -/
def skel_composer_stringMember : List String :=
  ["return msg != nil && json.Unmarshal(*msg, s) == nil"]

/-- pkg/versions/1_0/doccomposer/composer.go:isBelow -/
def skel_composer_isBelow : List String :=
  ["f, p := strings.Split(from, \"/\"), strings.Split(path, \"/\")", "if len(p) <= len(f) {", "  return false", "}", "for i := 1; i < len(f); i++ {", "  a, b := pointerTokenDecoder.Replace(f[i]), pointerTokenDecoder.Replace(p[i])", "  if a == b {", "    continue", "  }", "  x, errX := strconv.Atoi(a)", "  y, errY := strconv.Atoi(b)", "  if errX != nil || errY != nil || x != y {", "    return false", "  }", "}", "return true"]

/-- pkg/versions/1_0/doccomposer/composer.go:applyRecover -/
def skel_composer_applyRecover : List String :=
  ["docBytes, err := json.Marshal(replaceDoc)", "if err != nil {", "  return nil, err", "}", "replace, err := document.ReplaceDocumentFromBytes(docBytes)", "if err != nil {", "  return nil, err", "}", "doc := make(document.Document)", "doc[document.PublicKeyProperty] = replace[document.ReplacePublicKeyProperty]", "doc[document.ServiceProperty] = replace[document.ReplaceServiceProperty]", "return doc, nil"]

/-- pkg/versions/1_0/doccomposer/composer.go:applyAddPublicKeys -/
def skel_composer_applyAddPublicKeys : List String :=
  ["addPublicKeys := document.ParsePublicKeys(entry)", "existingPublicKeysMap := sliceToMapPK(doc.PublicKeys())", "var newPublicKeys []document.PublicKey", "newPublicKeys = append(newPublicKeys, doc.PublicKeys()...)", "for _, key := range addPublicKeys {", "  _, ok := existingPublicKeysMap[key.ID()]", "  if ok {", "    updateKey(newPublicKeys, key)", "  } else {", "    newPublicKeys = append(newPublicKeys, key)", "  }", "}", "doc[document.PublicKeyProperty] = convertPublicKeys(newPublicKeys)", "return doc, nil"]

/-- pkg/versions/1_0/doccomposer/composer.go:updateKey -/
def skel_composer_updateKey : List String :=
  ["for index, pk := range keys {", "  if pk.ID() == key.ID() {", "    keys[index] = key", "  }", "}"]

/-- pkg/versions/1_0/doccomposer/composer.go:applyRemovePublicKeys -/
def skel_composer_applyRemovePublicKeys : List String :=
  ["keysToRemove := sliceToMap(document.StringArray(entry))", "var newPublicKeys []interface{}", "for _, key := range doc.PublicKeys() {", "  _, ok := keysToRemove[key.ID()]", "  if !ok {", "    newPublicKeys = append(newPublicKeys, key.JSONLdObject())", "  }", "}", "doc[document.PublicKeyProperty] = newPublicKeys", "return doc, nil"]

/-- pkg/versions/1_0/doccomposer/composer.go:applyAddServiceEndpoints -/
def skel_composer_applyAddServiceEndpoints : List String :=
  ["didDoc := document.DidDocumentFromJSONLDObject(doc.JSONLdObject())", "addServices := document.ParseServices(entry)", "existingServicesMap := sliceToMapServices(didDoc.Services())", "var newServices []document.Service", "newServices = append(newServices, didDoc.Services()...)", "for _, service := range addServices {", "  _, ok := existingServicesMap[service.ID()]", "  if ok {", "    updateService(newServices, service)", "  } else {", "    newServices = append(newServices, service)", "  }", "}", "doc[document.ServiceProperty] = convertServices(newServices)", "return doc, nil"]

/-- pkg/versions/1_0/doccomposer/composer.go:applyRemoveServiceEndpoints -/
def skel_composer_applyRemoveServiceEndpoints : List String :=
  ["didDoc := document.DidDocumentFromJSONLDObject(doc.JSONLdObject())", "servicesToRemove := sliceToMap(document.StringArray(entry))", "var newServices []interface{}", "for _, service := range didDoc.Services() {", "  _, ok := servicesToRemove[service.ID()]", "  if !ok {", "    newServices = append(newServices, service.JSONLdObject())", "  }", "}", "doc[document.ServiceProperty] = newServices", "return doc, nil"]

/-- pkg/versions/1_0/doccomposer/composer.go:applyAddAlsoKnownAs -/
def skel_composer_applyAddAlsoKnownAs : List String :=
  ["didDoc := document.DidDocumentFromJSONLDObject(doc.JSONLdObject())", "addURIs := document.StringArray(entry)", "existingURIs := sliceToMap(didDoc.AlsoKnownAs())", "var newURIs []string", "newURIs = append(newURIs, didDoc.AlsoKnownAs()...)", "for _, uri := range addURIs {", "  _, ok := existingURIs[uri]", "  if !ok {", "    newURIs = append(newURIs, uri)", "  }", "}", "doc[document.AlsoKnownAs] = interfaceArray(newURIs)", "return doc, nil"]

/-- pkg/versions/1_0/doccomposer/composer.go:applyRemoveAlsoKnownAs -/
def skel_composer_applyRemoveAlsoKnownAs : List String :=
  ["didDoc := document.DidDocumentFromJSONLDObject(doc.JSONLdObject())", "urisToRemove := sliceToMap(document.StringArray(entry))", "var newURIs []interface{}", "for _, uri := range didDoc.AlsoKnownAs() {", "  _, ok := urisToRemove[uri]", "  if !ok {", "    newURIs = append(newURIs, uri)", "  }", "}", "doc[document.AlsoKnownAs] = newURIs", "return doc, nil"]

/-- pkg/versions/1_0/doccomposer/composer.go:pointerTokenDecoder -/
def skel_composer_pointerTokenDecoder : List String :=
  ["strings.NewReplacer(\"~1\", \"/\", \"~0\", \"~\")"]

/-- pkg/vdr/sidetreelongform/dochandler/protocol/nsprovider/namespaceprovider.go -/
def lit_conc_lock_Provider : List String :=
  ["Add: Lock, defer Unlock, use clients", "ForNamespace: RLock, defer RUnlock, use clients"]

/-- pkg/vdr/sidetreelongform/dochandler/protocolversion/clientregistry/clientregistry.go -/
def lit_conc_lock_Registry : List String :=
  ["Register: Lock, defer Unlock, use factories", "resolveFactory: RLock, defer RUnlock, use factories"]

/-- pkg/versions/1_0/operationparser -/
def lit_conc_state_versions_1_0_operationparser : List String :=
  ["var ErrOperationEarly", "var ErrOperationExpired", "var logger"]

/-- pkg/versions/1_0/operationparser/patchvalidator -/
def lit_conc_state_versions_1_0_operationparser_patchvalidator : List String :=
  ["var allowedKeyTypes", "var allowedKeyTypesAgreement", "var allowedKeyTypesGeneral", "var allowedKeyTypesVerification", "var allowedPurposes", "var asciiRegex"]

/-- pkg/versions/1_0/operationapplier -/
def lit_conc_state_versions_1_0_operationapplier : List String :=
  ["var logger"]

/-- pkg/versions/1_0/doccomposer -/
def lit_conc_state_versions_1_0_doccomposer : List String :=
  ["var logger", "var pointerTokenDecoder"]

/-- pkg/versions/1_0/doctransformer/didtransformer -/
def lit_conc_state_versions_1_0_doctransformer_didtransformer : List String :=
  ["var defaultKeyContextMap"]

/-- pkg/versions/1_0/doctransformer/doctransformer -/
def lit_conc_state_versions_1_0_doctransformer_doctransformer : List String :=
  []

/-- pkg/versions/1_0/doctransformer/metadata -/
def lit_conc_state_versions_1_0_doctransformer_metadata : List String :=
  []

/-- pkg/vdr/sidetreelongform/dochandler -/
def lit_conc_state_vdr_sidetreelongform_dochandler : List String :=
  []

/-- pkg/vdr/sidetreelongform -/
def lit_conc_state_vdr_sidetreelongform : List String :=
  []

/-- pkg/vdr/sidetreelongform/dochandler/protocol/verprovider -/
def lit_conc_state_vdr_sidetreelongform_dochandler_protocol_verprovider : List String :=
  []

/-- pkg/vdr/sidetreelongform/dochandler/protocol/nsprovider -/
def lit_conc_state_vdr_sidetreelongform_dochandler_protocol_nsprovider : List String :=
  ["Add: m.clients[namespace] (through the receiver)"]

/-- pkg/vdr/sidetreelongform/dochandler/protocolversion/clientregistry -/
def lit_conc_state_vdr_sidetreelongform_dochandler_protocolversion_clientregistry : List String :=
  ["Register: r.factories[version] (through the receiver)"]

/-- pkg/jwsutil -/
def lit_conc_state_jwsutil : List String :=
  ["var ErrInvalidKey", "UnmarshalJSON: *j (through the receiver)", "UnmarshalJSON: j.JSONWebKey (through the receiver)", "UnmarshalJSON: j.Kty (through the receiver)", "UnmarshalJSON: j.Crv (through the receiver)", "UnmarshalJSON: *b (through the receiver)"]

/-- pkg/hashing -/
def lit_conc_state_hashing : List String :=
  []

/-- pkg/canonicalizer -/
def lit_conc_state_canonicalizer : List String :=
  []

/-- pkg/internal/jsoncanonicalizer -/
def lit_conc_state_internal_jsoncanonicalizer : List String :=
  ["var asciiEscapes", "var binaryEscapes", "var literals"]

/-- pkg/docutil -/
def lit_conc_state_docutil : List String :=
  []

/-- pkg/patch -/
def lit_conc_state_patch : List String :=
  ["var actionConfig"]

/-- pkg/document -/
def lit_conc_state_document : List String :=
  []

/-- pkg/commitment -/
def lit_conc_state_commitment : List String :=
  []

/-- pkg/versions/1_0/doctransformer/didtransformer/transformer.go:TransformDocument -/
def skel_TransformDocument : List String :=
  ["docMetadata, err := metadata.New( metadata.WithIncludeUnpublishedOperations(t.includeUnpublishedOperations), metadata.WithIncludePublishedOperations(t.includePublishedOperations)). CreateDocumentMetadata(rm, info)", "if err != nil {", "  return nil, err", "}", "id, ok := info[document.IDProperty]", "if !ok {", "  return nil, error(...)", "}", "internal := document.DidDocumentFromJSONLDObject(rm.Doc.JSONLdObject())", "external := document.DidDocumentFromJSONLDObject(make(document.DIDDocument))", "ctx := []interface{}{...}", "for _, c := range t.methodCtx {", "  ctx = append(ctx, c)", "}", "if t.includeBase {", "  ctx = append(ctx, getBase(id.(string)))", "}", "alsoKnownAs := internal.AlsoKnownAs()", "if len(alsoKnownAs) > 0 {", "  external[document.AlsoKnownAs] = alsoKnownAs", "}", "external[document.ContextProperty] = ctx", "external[document.IDProperty] = id", "result := &document.ResolutionResult{...}", "err = t.processKeys(internal, result)", "if err != nil {", "  return nil, error(...)", "}", "t.processServices(internal, result)", "return result, nil"]

/-- pkg/versions/1_0/doctransformer/didtransformer/transformer.go:processKeys -/
def skel_processKeys : List String :=
  ["purposes := map[string][]interface{}{...}", "did := resolutionResult.Document.ID()", "var publicKeys []document.PublicKey", "var keyContexts []string", "for _, pk := range internal.PublicKeys() {", "  id := t.getObjectID(did, pk.ID())", "  externalPK := make(document.PublicKey)", "  externalPK[document.IDProperty] = id", "  externalPK[document.TypeProperty] = pk.Type()", "  externalPK[document.ControllerProperty] = did", "  if pkJwk := pk.PublicKeyJwk(); pkJwk != nil {", "    if pk.Type() == ed25519VerificationKey2018 {", "      ed25519PubKey, err := getED2519PublicKey(pkJwk)", "      if err != nil {", "        return err", "      }", "      externalPK[document.PublicKeyBase58Property] = base58.Encode(ed25519PubKey)", "    } else {", "      if pk.Type() == ed25519VerificationKey2020 { ed25519PubKey, err := getED2519PublicKey(pkJwk) if err != nil { return err } multibaseEncode, err := multibase.Encode(multibase.Base58BTC, ed25519PubKey) if err != nil { return err } externalPK[document.PublicKeyMultibaseProperty] = multibaseEncode } else { externalPK[document.PublicKeyJwkProperty] = pkJwk }", "    }", "  } else {", "    if pkb58 := pk.PublicKeyBase58(); pkb58 != \"\" { externalPK[document.PublicKeyBase58Property] = pkb58 } else if pkMultibase := pk.PublicKeyMultibase(); pkMultibase != \"\" { externalPK[document.PublicKeyMultibaseProperty] = pkMultibase } else { externalPK[document.PublicKeyJwkProperty] = nil }", "  }", "  keyContext, ok := t.keyCtx[pk.Type()]", "  if !ok {", "    return error(...)", "  }", "  if !contains(keyContexts, keyContext) {", "    keyContexts = append(keyContexts, keyContext)", "  }", "  publicKeys = append(publicKeys, externalPK)", "  for _, p := range pk.Purpose() {", "    switch p {", "    case document.KeyPurposeAuthentication:", "      purposes[document.AuthenticationProperty] = append(purposes[document.AuthenticationProperty], id)", "    case document.KeyPurposeAssertionMethod:", "      purposes[document.AssertionMethodProperty] = append(purposes[document.AssertionMethodProperty], id)", "    case document.KeyPurposeKeyAgreement:", "      purposes[document.KeyAgreementProperty] = append(purposes[document.KeyAgreementProperty], id)", "    case document.KeyPurposeCapabilityDelegation:", "      purposes[document.DelegationKeyProperty] = append(purposes[document.DelegationKeyProperty], id)", "    case document.KeyPurposeCapabilityInvocation:", "      purposes[document.InvocationKeyProperty] = append(purposes[document.InvocationKeyProperty], id)", "    }", "  }", "}", "if len(publicKeys) > 0 {", "  resolutionResult.Document[document.VerificationMethodProperty] = publicKeys", "  ctx := append(resolutionResult.Document.Context(), interfaceArray(keyContexts)...)", "  resolutionResult.Document[document.ContextProperty] = ctx", "}", "for key, value := range purposes {", "  if len(value) > 0 {", "    resolutionResult.Document[key] = value", "  }", "}", "return nil"]

/-- pkg/versions/1_0/doctransformer/didtransformer/transformer.go:processServices -/
def skel_processServices : List String :=
  ["var services []document.Service", "did := resolutionResult.Document.ID()", "for _, sv := range internal.Services() {", "  externalService := make(document.Service)", "  externalService[document.IDProperty] = t.getObjectID(did, sv.ID())", "  externalService[document.TypeProperty] = sv.Type()", "  externalService[document.ServiceEndpointProperty] = sv.ServiceEndpoint()", "  for key, value := range sv {", "    _, ok := externalService[key]", "    if !ok {", "      externalService[key] = value", "    }", "  }", "  services = append(services, externalService)", "}", "if len(services) > 0 {", "  resolutionResult.Document[document.ServiceProperty] = services", "}"]

/-- pkg/versions/1_0/doctransformer/didtransformer/transformer.go:getObjectID -/
def skel_getObjectID : List String :=
  ["relativeID := \"#\" + objectID", "if t.includeBase {", "  return relativeID", "}", "return docID + relativeID"]

/-- pkg/versions/1_0/doctransformer/didtransformer/transformer.go:getBase -/
def skel_getBase : List String :=
  ["return &struct { Base string `json:\"@base\"` }{...}"]

/-- pkg/versions/1_0/doctransformer/didtransformer/transformer.go:getED2519PublicKey -/
def skel_getED2519PublicKey : List String :=
  ["jwk := &jws.JWK{...}", "return internaljws.GetED25519PublicKey(jwk)"]

/-- pkg/versions/1_0/doctransformer/didtransformer/transformer.go:New -/
def skel_New : List String :=
  ["transformer := &Transformer{...}", "for _, opt := range opts {", "  opt(transformer)", "}", "if len(transformer.keyCtx) == 0 {", "  transformer.keyCtx = defaultKeyContextMap", "}", "return transformer"]

/-- pkg/versions/1_0/doctransformer/metadata/metadata.go:CreateDocumentMetadata -/
def skel_CreateDocumentMetadata : List String :=
  ["if rm == nil || rm.Doc == nil {", "  return nil, error(...)", "}", "if info == nil {", "  return nil, error(...)", "}", "published, ok := info[document.PublishedProperty]", "if !ok {", "  return nil, error(...)", "}", "methodMetadata := make(document.Metadata)", "methodMetadata[document.PublishedProperty] = published", "if rm.RecoveryCommitment != \"\" {", "  methodMetadata[document.RecoveryCommitmentProperty] = rm.RecoveryCommitment", "}", "if rm.UpdateCommitment != \"\" {", "  methodMetadata[document.UpdateCommitmentProperty] = rm.UpdateCommitment", "}", "if rm.AnchorOrigin != nil {", "  methodMetadata[document.AnchorOriginProperty] = rm.AnchorOrigin", "}", "if t.includeUnpublishedOperations && len(rm.UnpublishedOperations) > 0 {", "  methodMetadata[document.UnpublishedOperationsProperty] = getUnpublishedOperations(rm.UnpublishedOperations)", "}", "if t.includePublishedOperations && len(rm.PublishedOperations) > 0 {", "  methodMetadata[document.PublishedOperationsProperty] = getPublishedOperations(rm.PublishedOperations)", "}", "docMetadata := make(document.Metadata)", "docMetadata[document.MethodProperty] = methodMetadata", "if rm.Deactivated {", "  docMetadata[document.DeactivatedProperty] = rm.Deactivated", "}", "canonicalID, ok := info[document.CanonicalIDProperty]", "if ok {", "  docMetadata[document.CanonicalIDProperty] = canonicalID", "}", "equivalentID, ok := info[document.EquivalentIDProperty]", "if ok {", "  docMetadata[document.EquivalentIDProperty] = equivalentID", "}", "if published.(bool) {", "  docMetadata[document.CreatedProperty] = time.Unix(int64(rm.CreatedTime), 0).UTC().Format(time.RFC3339)", "}", "if rm.VersionID != \"\" {", "  docMetadata[document.VersionIDProperty] = rm.VersionID", "  if rm.UpdatedTime > 0 {", "    docMetadata[document.UpdatedProperty] = time.Unix(int64(rm.UpdatedTime), 0).UTC().Format(time.RFC3339)", "  }", "}", "return docMetadata, nil"]

/-- pkg/versions/1_0/doctransformer/metadata/metadata.go:getPublishedOperations -/
def skel_getPublishedOperations : List String :=
  ["sortOperations(ops)", "uniqueOps := make(map[string]bool)", "var publishedOps []*PublishedOperation", "for _, op := range ops {", "  _, ok := uniqueOps[op.CanonicalReference]", "  if !ok {", "    publishedOps = append(publishedOps, &PublishedOperation{ Type: op.Type, OperationRequest: op.OperationRequest, TransactionTime: op.TransactionTime, TransactionNumber: op.TransactionNumber, ProtocolVersion: op.ProtocolVersion, CanonicalReference: op.CanonicalReference, EquivalentReferences: op.EquivalentReferences, AnchorOrigin: op.AnchorOrigin, })", "    uniqueOps[op.CanonicalReference] = true", "  }", "}", "return publishedOps"]

/-- pkg/versions/1_0/doctransformer/metadata/metadata.go:getUnpublishedOperations -/
def skel_getUnpublishedOperations : List String :=
  ["sortOperations(ops)", "unpublishedOps := make([]*UnpublishedOperation, len(ops))", "for i, op := range ops {", "  unpublishedOps[i] = &UnpublishedOperation{...}", "}", "return unpublishedOps"]

/-- pkg/versions/1_0/doctransformer/metadata/metadata.go:sortOperations -/
def skel_sortOperations : List String :=
  ["sort.Slice(ops, func(i, j int) bool { if ops[i].TransactionTime != ops[j].TransactionTime { return ops[i].TransactionTime < ops[j].TransactionTime } return ops[i].TransactionNumber < ops[j].TransactionNumber })"]

/-- pkg/versions/1_0/doctransformer/doctransformer/transformer.go:TransformDocument -/
def skel_generic_TransformDocument : List String :=
  ["docMetadata, err := metadata.New( metadata.WithIncludeUnpublishedOperations(v.includeUnpublishedOperations), metadata.WithIncludePublishedOperations(v.includePublishedOperations)). CreateDocumentMetadata(rm, info)", "if err != nil {", "  return nil, err", "}", "id, ok := info[document.IDProperty]", "if !ok {", "  return nil, error(...)", "}", "rm.Doc[document.IDProperty] = id", "result := &document.ResolutionResult{...}", "return result, nil"]

/-- pkg/document/resolution.go:ResolutionResult -/
def lit_tags_ResolutionResult : List String :=
  ["Context interface{} json:\"@context\"", "Document Document json:\"didDocument\"", "DocumentMetadata Metadata json:\"didDocumentMetadata,omitempty\""]

/-- pkg/versions/1_0/operationparser/method.go:ParseDID -/
def skel_method_ParseDID : List String :=
  ["var err error", "withoutNamespace := strings.ReplaceAll(shortOrLongFormDID, namespace+didSeparator, \"\")", "posLongFormSeparator := strings.Index(withoutNamespace, longFormSeparator)", "if posLongFormSeparator == -1 {", "  return shortOrLongFormDID, nil, nil", "}", "endOfDIDPos := strings.LastIndex(shortOrLongFormDID, longFormSeparator)", "did := shortOrLongFormDID[0:endOfDIDPos]", "longFormDID := shortOrLongFormDID[endOfDIDPos+1:]", "createRequest, err := parseInitialState(longFormDID)", "if err != nil {", "  return \"\", nil, err", "}", "createRequestBytes, err := canonicalizer.MarshalCanonical(createRequest)", "if err != nil {", "  return \"\", nil, err", "}", "return did, createRequestBytes, nil"]

/-- pkg/versions/1_0/operationparser/method.go:parseInitialState -/
def skel_method_parseInitialState : List String :=
  ["decodedJCS, err := encoder.DecodeString(initialState)", "if err != nil {", "  return nil, err", "}", "var createRequest model.CreateRequest", "err = json.Unmarshal(decodedJCS, &createRequest)", "if err != nil {", "  return nil, err", "}", "expected, err := canonicalizer.MarshalCanonical(createRequest)", "if err != nil {", "  return nil, err", "}", "if encoder.EncodeToString(expected) != initialState {", "  return nil, error(...)", "}", "if createRequest.Operation != \"\" && createRequest.Operation != operation.TypeCreate {", "  return nil, error(...)", "}", "createRequest.Operation = operation.TypeCreate", "return &createRequest, nil"]

/-- pkg/vdr/sidetreelongform/dochandler/dochandler.go:ResolveDocument -/
def skel_dochandler_ResolveDocument : List String :=
  ["ns, err := r.getNamespace(longFormDID)", "if err != nil {", "  return nil, error(...)", "}", "pv, err := r.protocolClient.Current()", "if err != nil {", "  return nil, err", "}", "shortFormDID, createReq, err := pv.OperationParser().ParseDID(ns, longFormDID)", "if err != nil {", "  return nil, error(...)", "}", "if createReq == nil {", "  return nil, error(...)", "}", "uniquePortion, err := getSuffix(shortFormDID)", "if err != nil {", "  return nil, error(...)", "}", "return r.resolveRequestWithInitialState(uniquePortion, longFormDID, createReq, pv)"]

/-- pkg/vdr/sidetreelongform/dochandler/dochandler.go:getNamespace -/
def skel_dochandler_getNamespace : List String :=
  ["if strings.HasPrefix(shortOrLongFormDID, r.namespace+docutil.NamespaceDelimiter) {", "  return r.namespace, nil", "}", "return \"\", error(...)"]

/-- pkg/vdr/sidetreelongform/dochandler/dochandler.go:resolveRequestWithInitialState -/
def skel_dochandler_resolveRequestWithInitialState : List String :=
  ["op, err := pv.OperationParser().Parse(r.namespace, initialBytes)", "if err != nil {", "  return nil, error(...)", "}", "if uniqueSuffix != op.UniqueSuffix {", "  return nil, error(...)", "}", "createRequestJCS := longFormDID[strings.LastIndex(longFormDID, docutil.NamespaceDelimiter)+1:]", "ti := docutil.GetTransformationInfoForUnpublished(r.namespace, \"\", \"\", uniqueSuffix, createRequestJCS)", "return r.getCreateResponse(op, ti, pv)"]

/-- pkg/vdr/sidetreelongform/dochandler/dochandler.go:getSuffix -/
def skel_dochandler_getSuffix : List String :=
  ["parts := strings.Split(shortFormDID, docutil.NamespaceDelimiter)", "const minParts = 3", "if len(parts) < minParts {", "  return \"\", error(...)", "}", "suffix := parts[len(parts)-1]", "return suffix, nil"]

/-- pkg/vdr/sidetreelongform/dochandler/dochandler.go:ProcessOperation -/
def skel_dochandler_ProcessOperation : List String :=
  ["pv, err := r.protocolClient.Current()", "if err != nil {", "  return nil, err", "}", "op, err := pv.OperationParser().Parse(r.namespace, operationBuffer)", "if err != nil {", "  return nil, error(...)", "}", "if op.Type != operation.TypeCreate {", "  return nil, error(...)", "}", "var createRequest model.CreateRequest", "err = json.Unmarshal(operationBuffer, &createRequest)", "if err != nil {", "  return nil, error(...)", "}", "jcsBytes, err := canonicalizer.MarshalCanonical(createRequest)", "if err != nil {", "  return nil, error(...)", "}", "op, err = pv.OperationParser().Parse(r.namespace, jcsBytes)", "if err != nil {", "  return nil, error(...)", "}", "requestJCS := encoder.EncodeToString(jcsBytes)", "ti := docutil.GetTransformationInfoForUnpublished(r.namespace, \"\", \"\", op.UniqueSuffix, requestJCS)", "return r.getCreateResponse(op, ti, pv)"]

/-- pkg/vdr/sidetreelongform/dochandler/dochandler.go:getCreateResponse -/
def skel_dochandler_getCreateResponse : List String :=
  ["rm, err := docutil.GetCreateResult(op, pv)", "if err != nil {", "  return nil, err", "}", "return pv.DocumentTransformer().TransformDocument(rm, ti)"]

/-- pkg/vdr/sidetreelongform/dochandler/dochandler.go:createProtocolClient -/
def skel_dochandler_createProtocolClient : List String :=
  ["registry := clientregistry.New()", "var clientVersions []protocol.Version", "config := &common.ProtocolConfig{...}", "for _, version := range versions {", "  cv, err := registry.CreateClientVersion(version, config)", "  if err != nil {", "    return nil, error(...)", "  }", "  clientVersions = append(clientVersions, cv)", "}", "verProvider, err := verprovider.New(clientVersions, verprovider.WithCurrentProtocolVersion(currentVersion))", "if err != nil {", "  return nil, error(...)", "}", "nsProvider := nsprovider.New()", "nsProvider.Add(namespace, verProvider)", "return nsProvider.ForNamespace(namespace)"]

/-- pkg/docutil/docutil.go:GetTransformationInfoForUnpublished -/
def skel_docutil_GetTransformationInfoForUnpublished : List String :=
  ["ti := make(protocol.TransformationInfo)", "ti[document.PublishedProperty] = false", "id := fmt.Sprintf(\"%s:%s\", namespace, suffix)", "if label != \"\" {", "  id = fmt.Sprintf(\"%s:%s:%s\", namespace, label, suffix)", "}", "var equivalentIDs []string", "if createRequestJCS != \"\" {", "  equivalentIDs = append(equivalentIDs, id)", "}", "if label != \"\" && domain != \"\" {", "  equivalentID := id", "  if !strings.Contains(label, domain) {", "    equivalentID = fmt.Sprintf(\"%s:%s:%s:%s\", namespace, domain, label, suffix)", "  }", "  equivalentIDs = append(equivalentIDs, equivalentID)", "}", "if len(equivalentIDs) > 0 {", "  ti[document.EquivalentIDProperty] = equivalentIDs", "}", "if createRequestJCS != \"\" {", "  id = fmt.Sprintf(\"%s:%s\", id, createRequestJCS)", "}", "ti[document.IDProperty] = id", "return ti"]

/-- pkg/docutil/docutil.go:GetCreateResult -/
def skel_docutil_GetCreateResult : List String :=
  ["anchored := &operation.AnchoredOperation{...}", "rm := &protocol.ResolutionModel{...}", "rm, err := pv.OperationApplier().Apply(anchored, rm)", "if err != nil {", "  return nil, err", "}", "if len(rm.Doc.JSONLdObject()) == 0 {", "  return nil, error(...)", "}", "return rm, nil"]

/-- pkg/vdr/sidetreelongform/dochandler/protocolversion/versions/v1_0/client/client.go:Create -/
def skel_client_Create : List String :=
  ["p := protocolcfg.GetProtocolConfig()", "op := operationparser.New(p)", "dc := doccomposer.New()", "oa := operationapplier.New(p, op, dc)", "dv := didvalidator.New()", "dt := didtransformer.New( didtransformer.WithMethodContext(config.MethodContext), didtransformer.WithBase(config.EnableBase))", "return &vcommon.ProtocolVersion{...}, nil"]

/-- pkg/vdr/sidetreelongform/vdr.go:Create -/
def skel_vdr_Create : List String :=
  ["didMethodOpts := &vdrapi.DIDMethodOpts{...}", "for _, opt := range opts {", "  opt(didMethodOpts)", "}", "createOpt := make([]create.Option, 0)", "if didMethodOpts.Values[UpdatePublicKeyOpt] == nil {", "  updateKey, _, err := ed25519.GenerateKey(rand.Reader)", "  if err != nil {", "    return nil, error(...)", "  }", "  didMethodOpts.Values[UpdatePublicKeyOpt] = updateKey", "}", "updatePublicKey, ok := didMethodOpts.Values[UpdatePublicKeyOpt].(crypto.PublicKey)", "if !ok {", "  return nil, error(...)", "}", "if didMethodOpts.Values[RecoveryPublicKeyOpt] == nil {", "  recoveryKey, _, err := ed25519.GenerateKey(rand.Reader)", "  if err != nil {", "    return nil, error(...)", "  }", "  didMethodOpts.Values[RecoveryPublicKeyOpt] = recoveryKey", "}", "recoveryPublicKey, ok := didMethodOpts.Values[RecoveryPublicKeyOpt].(crypto.PublicKey)", "if !ok {", "  return nil, error(...)", "}", "for i := range did.AlsoKnownAs {", "  createOpt = append(createOpt, create.WithAlsoKnownAs(did.AlsoKnownAs[i]))", "}", "for i := range did.Service {", "  createOpt = append(createOpt, create.WithService(&did.Service[i]))", "}", "pks, err := getSidetreePublicKeys(did)", "if err != nil {", "  return nil, err", "}", "keyIDs := make([]string, 0, len(pks))", "for k := range pks {", "  keyIDs = append(keyIDs, k)", "}", "sort.Strings(keyIDs)", "for _, k := range keyIDs {", "  createOpt = append(createOpt, create.WithPublicKey(pks[k].publicKey))", "}", "createOpt = append(createOpt, create.WithMultiHashAlgorithm(sha2_256), create.WithUpdatePublicKey(updatePublicKey), create.WithRecoveryPublicKey(recoveryPublicKey))", "createdDID, err := v.sidetreeClient.CreateDID(createOpt...)", "if err != nil {", "  return nil, err", "}", "return createdDID, nil"]

/-- pkg/vdr/sidetreelongform/vdr.go:Read -/
def skel_vdr_Read : List String :=
  ["resolutionResult, err := v.sidetreeDocHandler.ResolveDocument(longFormDID)", "if err != nil {", "  return nil, err", "}", "resolutionResultBytes, err := json.Marshal(resolutionResult)", "if err != nil {", "  return nil, err", "}", "documentResolution, err := docdid.ParseDocumentResolution(resolutionResultBytes)", "if err != nil {", "  return nil, err", "}", "return &docdid.DocResolution{...}, nil"]

/-- pkg/vdr/sidetreelongform/vdr.go:getSidetreePublicKeys -/
def skel_vdr_getSidetreePublicKeys : List String :=
  ["pksMap := make(map[string]*pk)", "ver := make([]docdid.Verification, 0)", "ver = append(ver, didDoc.Authentication...)", "ver = append(ver, didDoc.AssertionMethod...)", "ver = append(ver, didDoc.CapabilityDelegation...)", "ver = append(ver, didDoc.CapabilityInvocation...)", "ver = append(ver, didDoc.KeyAgreement...)", "for _, v := range ver {", "  var purpose string", "  switch v.Relationship {", "  case docdid.Authentication:", "    purpose = doc.KeyPurposeAuthentication", "  case docdid.AssertionMethod:", "    purpose = doc.KeyPurposeAssertionMethod", "  case docdid.CapabilityDelegation:", "    purpose = doc.KeyPurposeCapabilityDelegation", "  case docdid.CapabilityInvocation:", "    purpose = doc.KeyPurposeCapabilityInvocation", "  case docdid.KeyAgreement:", "    purpose = doc.KeyPurposeKeyAgreement", "  default:", "    return nil, error(...)", "  }", "  s := strings.Split(v.VerificationMethod.ID, \"#\")", "  id := s[0]", "  if len(s) > 1 {", "    id = s[1]", "  }", "  value, ok := pksMap[id]", "  if ok {", "    value.publicKey.Purposes = append(value.publicKey.Purposes, purpose)", "    continue", "  }", "  switch  {", "  case v.VerificationMethod.JSONWebKey() != nil:", "    pksMap[id] = &pk{...}", "  case v.VerificationMethod.Value != nil:", "    pksMap[id] = &pk{...}", "  default:", "    return nil, error(...)", "  }", "}", "return pksMap, nil"]

/-- pkg/vdr/sidetreelongform/vdr.go:sendRequest -/
def skel_vdr_sendRequest : List String :=
  ["didResolution, err := v.sidetreeDocHandler.ProcessOperation(req)", "if err != nil {", "  return nil, err", "}", "return json.Marshal(didResolution)"]

/-- pkg/versions/1_0/operationapplier/operationapplier.go:Apply -/
def skel_Apply : List String :=
  ["switch op.Type {", "case operation.TypeCreate:", "  return s.applyCreateOperation(op, rm)", "case operation.TypeUpdate:", "  return s.applyUpdateOperation(op, rm)", "case operation.TypeDeactivate:", "  return s.applyDeactivateOperation(op, rm)", "case operation.TypeRecover:", "  return s.applyRecoverOperation(op, rm)", "default:", "  return nil, error(...)", "}"]

/-- pkg/versions/1_0/operationapplier/operationapplier.go:applyCreateOperation -/
def skel_applyCreateOperation : List String :=
  ["if rm.Doc != nil {", "  return nil, error(...)", "}", "op, err := s.OperationParser.ParseCreateOperation(anchoredOp.OperationRequest, true)", "if err != nil {", "  return nil, error(...)", "}", "result := &protocol.ResolutionModel{...}", "err = hashing.IsValidModelMultihash(op.Delta, op.SuffixData.DeltaHash)", "if err != nil {", "  return result, nil", "}", "err = s.OperationParser.ValidateDelta(op.Delta)", "if err != nil {", "  return result, nil", "}", "result.UpdateCommitment = op.Delta.UpdateCommitment", "doc, err := s.ApplyPatches(make(document.Document), op.Delta.Patches)", "if err != nil {", "  return result, nil", "}", "result.Doc = doc", "return result, nil"]

/-- pkg/versions/1_0/operationapplier/operationapplier.go:applyUpdateOperation -/
def skel_applyUpdateOperation : List String :=
  ["if rm.Doc == nil {", "  return nil, error(...)", "}", "op, err := s.OperationParser.ParseUpdateOperation(anchoredOp.OperationRequest, true)", "if err != nil {", "  return nil, error(...)", "}", "signedDataModel, err := s.ParseSignedDataForUpdate(op.SignedData)", "if err != nil {", "  return nil, error(...)", "}", "err = hashing.IsValidModelMultihash(op.Delta, signedDataModel.DeltaHash)", "if err != nil {", "  return nil, error(...)", "}", "_, err = internal.VerifyJWS(op.SignedData, signedDataModel.UpdateKey)", "if err != nil {", "  return nil, error(...)", "}", "err = s.OperationParser.ValidateDelta(op.Delta)", "if err != nil {", "  return nil, error(...)", "}", "result := &protocol.ResolutionModel{...}", "err = s.verifyAnchoringTimeRange(signedDataModel.AnchorFrom, signedDataModel.AnchorUntil, anchoredOp.TransactionTime)", "if err != nil {", "  return result, nil", "}", "doc, err := s.ApplyPatches(rm.Doc, op.Delta.Patches)", "if err != nil {", "  return result, nil", "}", "result.Doc = doc", "return result, nil"]

/-- pkg/versions/1_0/operationapplier/operationapplier.go:applyDeactivateOperation -/
def skel_applyDeactivateOperation : List String :=
  ["if rm.Doc == nil {", "  return nil, error(...)", "}", "op, err := s.OperationParser.ParseDeactivateOperation(anchoredOp.OperationRequest, true)", "if err != nil {", "  return nil, error(...)", "}", "signedDataModel, err := s.ParseSignedDataForDeactivate(op.SignedData)", "if err != nil {", "  return nil, error(...)", "}", "if op.UniqueSuffix != signedDataModel.DidSuffix {", "  return nil, error(...)", "}", "_, err = internal.VerifyJWS(op.SignedData, signedDataModel.RecoveryKey)", "if err != nil {", "  return nil, error(...)", "}", "err = s.verifyAnchoringTimeRange(signedDataModel.AnchorFrom, signedDataModel.AnchorUntil, anchoredOp.TransactionTime)", "if err != nil {", "  return nil, error(...)", "}", "return &protocol.ResolutionModel{...}, nil"]

/-- pkg/versions/1_0/operationapplier/operationapplier.go:applyRecoverOperation -/
def skel_applyRecoverOperation : List String :=
  ["if rm.Doc == nil {", "  return nil, error(...)", "}", "op, err := s.OperationParser.ParseRecoverOperation(anchoredOp.OperationRequest, true)", "if err != nil {", "  return nil, error(...)", "}", "signedDataModel, err := s.ParseSignedDataForRecover(op.SignedData)", "if err != nil {", "  return nil, error(...)", "}", "_, err = internal.VerifyJWS(op.SignedData, signedDataModel.RecoveryKey)", "if err != nil {", "  return nil, error(...)", "}", "result := &protocol.ResolutionModel{...}", "err = hashing.IsValidModelMultihash(op.Delta, signedDataModel.DeltaHash)", "if err != nil {", "  return result, nil", "}", "err = s.OperationParser.ValidateDelta(op.Delta)", "if err != nil {", "  return result, nil", "}", "result.UpdateCommitment = op.Delta.UpdateCommitment", "err = s.verifyAnchoringTimeRange(signedDataModel.AnchorFrom, signedDataModel.AnchorUntil, anchoredOp.TransactionTime)", "if err != nil {", "  return result, nil", "}", "doc, err := s.ApplyPatches(make(document.Document), op.Delta.Patches)", "if err != nil {", "  return result, nil", "}", "result.Doc = doc", "return result, nil"]

/-- pkg/versions/1_0/operationapplier/operationapplier.go:applyCreateOperation -/
def lit_applyCreateOperation : List (List (String × String)) :=
  [[("AnchorOrigin", "op.SuffixData.AnchorOrigin"), ("CanonicalReference", "anchoredOp.CanonicalReference"), ("CreatedTime", "anchoredOp.TransactionTime"), ("Doc", "make(document.Document)"), ("EquivalentReferences", "anchoredOp.EquivalentReferences"), ("LastOperationProtocolVersion", "anchoredOp.ProtocolVersion"), ("LastOperationTransactionNumber", "anchoredOp.TransactionNumber"), ("LastOperationTransactionTime", "anchoredOp.TransactionTime"), ("PublishedOperations", "rm.PublishedOperations"), ("RecoveryCommitment", "op.SuffixData.RecoveryCommitment"), ("UnpublishedOperations", "rm.UnpublishedOperations"), ("VersionID", "anchoredOp.CanonicalReference")]]

/-- pkg/versions/1_0/operationapplier/operationapplier.go:applyUpdateOperation -/
def lit_applyUpdateOperation : List (List (String × String)) :=
  [[("AnchorOrigin", "rm.AnchorOrigin"), ("CanonicalReference", "rm.CanonicalReference"), ("CreatedTime", "rm.CreatedTime"), ("Doc", "rm.Doc"), ("EquivalentReferences", "rm.EquivalentReferences"), ("LastOperationProtocolVersion", "anchoredOp.ProtocolVersion"), ("LastOperationTransactionNumber", "anchoredOp.TransactionNumber"), ("LastOperationTransactionTime", "anchoredOp.TransactionTime"), ("PublishedOperations", "rm.PublishedOperations"), ("RecoveryCommitment", "rm.RecoveryCommitment"), ("UnpublishedOperations", "rm.UnpublishedOperations"), ("UpdateCommitment", "op.Delta.UpdateCommitment"), ("UpdatedTime", "anchoredOp.TransactionTime"), ("VersionID", "anchoredOp.CanonicalReference")]]

/-- pkg/versions/1_0/operationapplier/operationapplier.go:applyDeactivateOperation -/
def lit_applyDeactivateOperation : List (List (String × String)) :=
  [[("AnchorOrigin", "rm.AnchorOrigin"), ("CanonicalReference", "rm.CanonicalReference"), ("CreatedTime", "rm.CreatedTime"), ("Deactivated", "true"), ("Doc", "make(document.Document)"), ("EquivalentReferences", "rm.EquivalentReferences"), ("LastOperationProtocolVersion", "anchoredOp.ProtocolVersion"), ("LastOperationTransactionNumber", "anchoredOp.TransactionNumber"), ("LastOperationTransactionTime", "anchoredOp.TransactionTime"), ("PublishedOperations", "rm.PublishedOperations"), ("RecoveryCommitment", "\"\""), ("UnpublishedOperations", "rm.UnpublishedOperations"), ("UpdateCommitment", "\"\""), ("UpdatedTime", "anchoredOp.TransactionTime"), ("VersionID", "anchoredOp.CanonicalReference")]]

/-- pkg/versions/1_0/operationapplier/operationapplier.go:applyRecoverOperation -/
def lit_applyRecoverOperation : List (List (String × String)) :=
  [[("AnchorOrigin", "signedDataModel.AnchorOrigin"), ("CanonicalReference", "anchoredOp.CanonicalReference"), ("CreatedTime", "rm.CreatedTime"), ("Doc", "make(document.Document)"), ("EquivalentReferences", "anchoredOp.EquivalentReferences"), ("LastOperationProtocolVersion", "anchoredOp.ProtocolVersion"), ("LastOperationTransactionNumber", "anchoredOp.TransactionNumber"), ("LastOperationTransactionTime", "anchoredOp.TransactionTime"), ("PublishedOperations", "rm.PublishedOperations"), ("RecoveryCommitment", "signedDataModel.RecoveryCommitment"), ("UnpublishedOperations", "rm.UnpublishedOperations"), ("UpdatedTime", "anchoredOp.TransactionTime"), ("VersionID", "anchoredOp.CanonicalReference")]]

/-- pkg/versions/1_0/operationparser/operation.go:Parse -/
def skel_Parse : List String :=
  ["internal, err := p.ParseOperation(namespace, operationBuffer, false)", "if err != nil {", "  return nil, err", "}", "return &operation.Operation{...}, nil"]

/-- pkg/versions/1_0/operationparser/operation.go:ParseOperation -/
def skel_ParseOperation : List String :=
  ["if len(operationBuffer) > int(p.MaxOperationSize) {", "  return nil, error(...)", "}", "schema := &operationSchema{...}", "err := json.Unmarshal(operationBuffer, schema)", "if err != nil {", "  return nil, error(...)", "}", "var op *model.Operation", "var parseErr error", "switch schema.Operation {", "case operation.TypeCreate:", "  op, parseErr = p.ParseCreateOperation(operationBuffer, batch)", "case operation.TypeUpdate:", "  op, parseErr = p.ParseUpdateOperation(operationBuffer, batch)", "case operation.TypeDeactivate:", "  op, parseErr = p.ParseDeactivateOperation(operationBuffer, batch)", "case operation.TypeRecover:", "  op, parseErr = p.ParseRecoverOperation(operationBuffer, batch)", "default:", "  return nil, error(...)", "}", "if parseErr != nil {", "  return nil, parseErr", "}", "op.Namespace = namespace", "op.ID = namespace + docutil.NamespaceDelimiter + op.UniqueSuffix", "return op, nil"]

/-- pkg/versions/1_0/operationparser/create.go:ParseCreateOperation -/
def skel_ParseCreateOperation : List String :=
  ["schema, err := p.parseCreateRequest(request)", "if err != nil {", "  return nil, err", "}", "err = p.ValidateSuffixData(schema.SuffixData)", "if err != nil {", "  return nil, err", "}", "if !batch {", "  err = p.anchorOriginValidator.Validate(schema.SuffixData.AnchorOrigin)", "  if err != nil {", "    return nil, err", "  }", "  err = p.ValidateDelta(schema.Delta)", "  if err != nil {", "    return nil, err", "  }", "  err = hashing.IsValidModelMultihash(schema.Delta, schema.SuffixData.DeltaHash)", "  if err != nil {", "    return nil, error(...)", "  }", "  if schema.Delta.UpdateCommitment == schema.SuffixData.RecoveryCommitment {", "    return nil, error(...)", "  }", "}", "uniqueSuffix, err := model.GetUniqueSuffix(schema.SuffixData, p.MultihashAlgorithms)", "if err != nil {", "  return nil, err", "}", "return &model.Operation{...}, nil"]

/-- pkg/versions/1_0/operationparser/create.go:ValidateDelta -/
def skel_ValidateDelta : List String :=
  ["if delta == nil {", "  return error(...)", "}", "if len(delta.Patches) == 0 {", "  return error(...)", "}", "for _, ptch := range delta.Patches {", "  action, err := ptch.GetAction()", "  if err != nil {", "    return err", "  }", "  if !p.isPatchEnabled(action) {", "    return error(...)", "  }", "  if err := patchvalidator.Validate(ptch); err != nil {", "    return err", "  }", "}", "if err := p.validateMultihash(delta.UpdateCommitment, \"update commitment\"); err != nil {", "  return err", "}", "return p.validateDeltaSize(delta)"]

/-- pkg/versions/1_0/operationparser/create.go:validateMultihash -/
def skel_validateMultihash : List String :=
  ["if len(mh) > int(p.MaxOperationHashLength) {", "  return error(...)", "}", "if !hashing.IsComputedUsingMultihashAlgorithms(mh, p.MultihashAlgorithms) {", "  return error(...)", "}", "return nil"]

/-- pkg/versions/1_0/operationparser/create.go:validateDeltaSize -/
def skel_validateDeltaSize : List String :=
  ["canonicalDelta, err := canonicalizer.MarshalCanonical(delta)", "if err != nil {", "  return error(...)", "}", "if len(canonicalDelta) > int(p.MaxDeltaSize) {", "  return error(...)", "}", "return nil"]

/-- pkg/versions/1_0/operationparser/create.go:ValidateSuffixData -/
def skel_ValidateSuffixData : List String :=
  ["if suffixData == nil {", "  return error(...)", "}", "if err := p.validateMultihash(suffixData.RecoveryCommitment, \"recovery commitment\"); err != nil {", "  return err", "}", "return p.validateMultihash(suffixData.DeltaHash, \"delta hash\")"]

/-- pkg/versions/1_0/operationparser/update.go:ParseUpdateOperation -/
def skel_ParseUpdateOperation : List String :=
  ["schema, err := p.parseUpdateRequest(request)", "if err != nil {", "  return nil, err", "}", "signedData, err := p.ParseSignedDataForUpdate(schema.SignedData)", "if err != nil {", "  return nil, err", "}", "if !batch {", "  until := p.getAnchorUntil(signedData.AnchorFrom, signedData.AnchorUntil)", "  err = p.anchorTimeValidator.Validate(signedData.AnchorFrom, until)", "  if err != nil {", "    return nil, err", "  }", "  err = p.ValidateDelta(schema.Delta)", "  if err != nil {", "    return nil, err", "  }", "  err = p.validateCommitment(signedData.UpdateKey, schema.Delta.UpdateCommitment)", "  if err != nil {", "    return nil, error(...)", "  }", "}", "err = hashing.IsValidModelMultihash(signedData.UpdateKey, schema.RevealValue)", "if err != nil {", "  return nil, error(...)", "}", "return &model.Operation{...}, nil"]

/-- pkg/versions/1_0/operationparser/update.go:ParseSignedDataForUpdate -/
def skel_ParseSignedDataForUpdate : List String :=
  ["jws, err := p.parseSignedData(compactJWS)", "if err != nil {", "  return nil, err", "}", "schema := &model.UpdateSignedDataModel{...}", "err = json.Unmarshal(jws.Payload, schema)", "if err != nil {", "  return nil, error(...)", "}", "if err := p.validateSignedDataForUpdate(schema); err != nil {", "  return nil, error(...)", "}", "return schema, nil"]

/-- pkg/versions/1_0/operationparser/update.go:validateUpdateRequest -/
def skel_validateUpdateRequest : List String :=
  ["if update.DidSuffix == \"\" {", "  return error(...)", "}", "if update.SignedData == \"\" {", "  return error(...)", "}", "return p.validateMultihash(update.RevealValue, \"reveal value\")"]

/-- pkg/versions/1_0/operationparser/update.go:validateSignedDataForUpdate -/
def skel_validateSignedDataForUpdate : List String :=
  ["if err := p.validateSigningKey(signedData.UpdateKey); err != nil {", "  return err", "}", "return p.validateMultihash(signedData.DeltaHash, \"delta hash\")"]

/-- pkg/versions/1_0/operationparser/recover.go:ParseRecoverOperation -/
def skel_ParseRecoverOperation : List String :=
  ["schema, err := p.parseRecoverRequest(request)", "if err != nil {", "  return nil, err", "}", "signedData, err := p.ParseSignedDataForRecover(schema.SignedData)", "if err != nil {", "  return nil, err", "}", "if !batch {", "  err = p.anchorOriginValidator.Validate(signedData.AnchorOrigin)", "  if err != nil {", "    return nil, err", "  }", "  until := p.getAnchorUntil(signedData.AnchorFrom, signedData.AnchorUntil)", "  err = p.anchorTimeValidator.Validate(signedData.AnchorFrom, until)", "  if err != nil {", "    return nil, err", "  }", "  err = p.ValidateDelta(schema.Delta)", "  if err != nil {", "    return nil, err", "  }", "  if schema.Delta.UpdateCommitment == signedData.RecoveryCommitment {", "    return nil, error(...)", "  }", "}", "err = hashing.IsValidModelMultihash(signedData.RecoveryKey, schema.RevealValue)", "if err != nil {", "  return nil, error(...)", "}", "return &model.Operation{...}, nil"]

/-- pkg/versions/1_0/operationparser/recover.go:ParseSignedDataForRecover -/
def skel_ParseSignedDataForRecover : List String :=
  ["signedData, err := p.parseSignedData(compactJWS)", "if err != nil {", "  return nil, err", "}", "schema := &model.RecoverSignedDataModel{...}", "err = json.Unmarshal(signedData.Payload, schema)", "if err != nil {", "  return nil, error(...)", "}", "if err := p.validateSignedDataForRecovery(schema); err != nil {", "  return nil, error(...)", "}", "return schema, nil"]

/-- pkg/versions/1_0/operationparser/recover.go:validateSignedDataForRecovery -/
def skel_validateSignedDataForRecovery : List String :=
  ["if err := p.validateSigningKey(signedData.RecoveryKey); err != nil {", "  return err", "}", "if err := p.validateMultihash(signedData.RecoveryCommitment, \"recovery commitment\"); err != nil {", "  return err", "}", "if err := p.validateMultihash(signedData.DeltaHash, \"delta hash\"); err != nil {", "  return err", "}", "return p.validateCommitment(signedData.RecoveryKey, signedData.RecoveryCommitment)"]

/-- pkg/versions/1_0/operationparser/recover.go:parseSignedData -/
def skel_parseSignedData : List String :=
  ["if compactJWS == \"\" {", "  return nil, error(...)", "}", "sig, err := internal.ParseJWS(compactJWS)", "if err != nil {", "  return nil, error(...)", "}", "err = p.validateProtectedHeaders(sig.ProtectedHeaders, p.SignatureAlgorithms)", "if err != nil {", "  return nil, error(...)", "}", "return sig, nil"]

/-- pkg/versions/1_0/operationparser/recover.go:validateProtectedHeaders -/
def skel_validateProtectedHeaders : List String :=
  ["if headers == nil {", "  return error(...)", "}", "alg, ok := headers.Algorithm()", "if !ok {", "  return error(...)", "}", "if alg == \"\" {", "  return error(...)", "}", "allowedHeaders := map[string]bool{...}", "for k := range headers {", "  if _, ok := allowedHeaders[k]; !ok {", "    return error(...)", "  }", "}", "if !contains(allowedAlgorithms, alg) {", "  return error(...)", "}", "return nil"]

/-- pkg/versions/1_0/operationparser/recover.go:validateSigningKey -/
def skel_validateSigningKey : List String :=
  ["if key == nil {", "  return error(...)", "}", "err := key.Validate()", "if err != nil {", "  return error(...)", "}", "if !contains(p.KeyAlgorithms, key.Crv) {", "  return error(...)", "}", "err = p.validateNonce(key.Nonce)", "if err != nil {", "  return error(...)", "}", "return nil"]

/-- pkg/versions/1_0/operationparser/recover.go:validateCommitment -/
def skel_validateCommitment : List String :=
  ["code, err := hashing.GetMultihashCode(nextCommitment)", "if err != nil {", "  return err", "}", "currentCommitment, err := commitment.GetCommitment(jwk, uint(code))", "if err != nil {", "  return error(...)", "}", "if currentCommitment == nextCommitment {", "  return error(...)", "}", "return nil"]

/-- pkg/versions/1_0/operationparser/recover.go:validateNonce -/
def skel_validateNonce : List String :=
  ["if nonce == \"\" {", "  return nil", "}", "nonceBytes, err := encoder.DecodeString(nonce)", "if err != nil {", "  return error(...)", "}", "if len(nonceBytes) != int(p.NonceSize) {", "  return error(...)", "}", "return nil"]

/-- pkg/versions/1_0/operationparser/recover.go:validateRecoverRequest -/
def skel_validateRecoverRequest : List String :=
  ["if req.DidSuffix == \"\" {", "  return error(...)", "}", "if req.SignedData == \"\" {", "  return error(...)", "}", "return p.validateMultihash(req.RevealValue, \"reveal value\")"]

/-- pkg/versions/1_0/operationparser/deactivate.go:ParseDeactivateOperation -/
def skel_ParseDeactivateOperation : List String :=
  ["schema, err := p.parseDeactivateRequest(request)", "if err != nil {", "  return nil, err", "}", "signedData, err := p.ParseSignedDataForDeactivate(schema.SignedData)", "if err != nil {", "  return nil, err", "}", "if signedData.DidSuffix != schema.DidSuffix {", "  return nil, error(...)", "}", "err = hashing.IsValidModelMultihash(signedData.RecoveryKey, schema.RevealValue)", "if err != nil {", "  return nil, error(...)", "}", "if !batch {", "  until := p.getAnchorUntil(signedData.AnchorFrom, signedData.AnchorUntil)", "  if err := p.anchorTimeValidator.Validate(signedData.AnchorFrom, until); err != nil {", "    return nil, err", "  }", "}", "return &model.Operation{...}, nil"]

/-- pkg/versions/1_0/operationparser/deactivate.go:ParseSignedDataForDeactivate -/
def skel_ParseSignedDataForDeactivate : List String :=
  ["jws, err := p.parseSignedData(compactJWS)", "if err != nil {", "  return nil, err", "}", "signedData := &model.DeactivateSignedDataModel{...}", "err = json.Unmarshal(jws.Payload, signedData)", "if err != nil {", "  return nil, error(...)", "}", "if err := p.validateSigningKey(signedData.RecoveryKey); err != nil {", "  return nil, error(...)", "}", "return signedData, nil"]

/-- pkg/versions/1_0/operationparser/deactivate.go:validateDeactivateRequest -/
def skel_validateDeactivateRequest : List String :=
  ["if req.DidSuffix == \"\" {", "  return error(...)", "}", "if req.SignedData == \"\" {", "  return error(...)", "}", "return p.validateMultihash(req.RevealValue, \"reveal value\")"]

/-- pkg/versions/1_0/operationparser/commitment.go:GetRevealValue -/
def skel_GetRevealValue : List String :=
  ["op, err := p.ParseOperation(\"\", opBytes, true)", "if err != nil {", "  return \"\", error(...)", "}", "if op.Type == operation.TypeCreate {", "  return \"\", error(...)", "}", "return op.RevealValue, nil"]

/-- pkg/versions/1_0/operationparser/commitment.go:GetCommitment -/
def skel_GetCommitment : List String :=
  ["op, err := p.ParseOperation(\"\", opBytes, true)", "if err != nil {", "  return \"\", error(...)", "}", "switch op.Type {", "case operation.TypeUpdate:", "  if op.Delta == nil {", "    return \"\", error(...)", "  }", "  return op.Delta.UpdateCommitment, nil", "case operation.TypeDeactivate:", "  return \"\", nil", "case operation.TypeRecover:", "  signedDataModel, innerErr := p.ParseSignedDataForRecover(op.SignedData)", "  if innerErr != nil {", "    return \"\", error(...)", "  }", "  return signedDataModel.RecoveryCommitment, nil", "}", "return \"\", error(...)"]

/-- pkg/versions/1_0/model/util.go:GetAnchoredOperation -/
def skel_GetAnchoredOperation : List String :=
  ["var request interface{}", "switch op.Type {", "case operation.TypeCreate:", "  request = CreateRequest{...}", "case operation.TypeUpdate:", "  request = UpdateRequest{...}", "case operation.TypeDeactivate:", "  request = DeactivateRequest{...}", "case operation.TypeRecover:", "  request = RecoverRequest{...}", "default:", "  return nil, error(...)", "}", "operationBuffer, err := canonicalizer.MarshalCanonical(request)", "if err != nil {", "  return nil, error(...)", "}", "return &operation.AnchoredOperation{...}, nil"]

/-- pkg/versions/1_0/operationparser/operation.go:Parse -/
def lit_Parse : List (List (String × String)) :=
  [[("AnchorOrigin", "internal.AnchorOrigin"), ("ID", "internal.ID"), ("OperationRequest", "operationBuffer"), ("Type", "internal.Type"), ("UniqueSuffix", "internal.UniqueSuffix")]]

/-- pkg/versions/1_0/operationparser/create.go:ParseCreateOperation -/
def lit_ParseCreateOperation : List (List (String × String)) :=
  [[("AnchorOrigin", "schema.SuffixData.AnchorOrigin"), ("Delta", "schema.Delta"), ("OperationRequest", "request"), ("SuffixData", "schema.SuffixData"), ("Type", "operation.TypeCreate"), ("UniqueSuffix", "uniqueSuffix")]]

/-- pkg/versions/1_0/operationparser/update.go:ParseUpdateOperation -/
def lit_ParseUpdateOperation : List (List (String × String)) :=
  [[("Delta", "schema.Delta"), ("OperationRequest", "request"), ("RevealValue", "schema.RevealValue"), ("SignedData", "schema.SignedData"), ("Type", "operation.TypeUpdate"), ("UniqueSuffix", "schema.DidSuffix")]]

/-- pkg/versions/1_0/operationparser/recover.go:ParseRecoverOperation -/
def lit_ParseRecoverOperation : List (List (String × String)) :=
  [[("AnchorOrigin", "signedData.AnchorOrigin"), ("Delta", "schema.Delta"), ("OperationRequest", "request"), ("RevealValue", "schema.RevealValue"), ("SignedData", "schema.SignedData"), ("Type", "operation.TypeRecover"), ("UniqueSuffix", "schema.DidSuffix")]]

/-- pkg/versions/1_0/operationparser/deactivate.go:ParseDeactivateOperation -/
def lit_ParseDeactivateOperation : List (List (String × String)) :=
  [[("OperationRequest", "request"), ("RevealValue", "schema.RevealValue"), ("SignedData", "schema.SignedData"), ("Type", "operation.TypeDeactivate"), ("UniqueSuffix", "schema.DidSuffix")]]

/-- pkg/jwsutil/jws.go:ParseJWS -/
def skel_ParseJWS : List String :=
  ["pOpts := &jwsParseOpts{...}", "for _, opt := range opts {", "  opt(pOpts)", "}", "if strings.HasPrefix(jwsStr, \"{\") {", "  return nil, error(...)", "}", "return parseCompacted(jwsStr, pOpts)"]

/-- pkg/jwsutil/jws.go:VerifyJWS -/
def skel_VerifyJWS : List String :=
  ["parsedJWS, err := ParseJWS(jwsStr, opts...)", "if err != nil {", "  return nil, err", "}", "sInput, err := signingInput(parsedJWS.ProtectedHeaders, parsedJWS.Payload)", "if err != nil {", "  return nil, error(...)", "}", "err = VerifySignature(jwk, parsedJWS.signature, sInput)", "if err != nil {", "  return nil, err", "}", "return parsedJWS, nil"]

/-- pkg/jwsutil/jws.go:parseCompacted -/
def skel_parseCompacted : List String :=
  ["parts := strings.Split(jwsCompact, \".\")", "if len(parts) != jwsPartsCount {", "  return nil, error(...)", "}", "joseHeaders, err := parseCompactedHeaders(parts)", "if err != nil {", "  return nil, err", "}", "payload, err := parseCompactedPayload(parts[jwsPayloadPart], opts)", "if err != nil {", "  return nil, err", "}", "signature, err := base64.RawURLEncoding.DecodeString(parts[jwsSignaturePart])", "if err != nil {", "  return nil, error(...)", "}", "if len(signature) == 0 {", "  return nil, error(...)", "}", "return &JSONWebSignature{...}, nil"]

/-- pkg/jwsutil/jws.go:parseCompactedPayload -/
def skel_parseCompactedPayload : List String :=
  ["if len(opts.detachedPayload) > 0 {", "  return opts.detachedPayload, nil", "}", "payload, err := base64.RawURLEncoding.DecodeString(jwsPayload)", "if err != nil {", "  return nil, error(...)", "}", "if len(payload) == 0 {", "  return nil, error(...)", "}", "return payload, nil"]

/-- pkg/jwsutil/jws.go:parseCompactedHeaders -/
def skel_parseCompactedHeaders : List String :=
  ["headersBytes, err := base64.RawURLEncoding.DecodeString(parts[jwsHeaderPart])", "if err != nil {", "  return nil, error(...)", "}", "var joseHeaders jws.Headers", "err = json.Unmarshal(headersBytes, &joseHeaders)", "if err != nil {", "  return nil, error(...)", "}", "err = checkJWSHeaders(joseHeaders)", "if err != nil {", "  return nil, err", "}", "return joseHeaders, nil"]

/-- pkg/jwsutil/jws.go:signingInput -/
def skel_signingInput : List String :=
  ["headersBytes, err := json.Marshal(headers)", "if err != nil {", "  return nil, error(...)", "}", "hBase64 := true", "if b64, ok := headers[jws.HeaderB64Payload]; ok {", "  if hBase64, ok = b64.(bool); !ok {", "    return nil, error(...)", "  }", "}", "headersStr := base64.RawURLEncoding.EncodeToString(headersBytes)", "var payloadStr string", "if hBase64 {", "  payloadStr = base64.RawURLEncoding.EncodeToString(payload)", "} else {", "  payloadStr = string(payload)", "}", "return []byte(fmt.Sprintf(\"%s.%s\", headersStr, payloadStr)), nil"]

/-- pkg/jwsutil/jws.go:checkJWSHeaders -/
def skel_checkJWSHeaders : List String :=
  ["if _, ok := headers[jws.HeaderAlgorithm]; !ok {", "  return error(...)", "}", "return nil"]

/-- pkg/jwsutil/signature.go:VerifySignature -/
def skel_VerifySignature : List String :=
  ["switch jwk.Kty {", "case \"EC\":", "  return verifyECSignature(jwk, signature, msg)", "case \"OKP\":", "  return verifyEd25519Signature(jwk, signature, msg)", "default:", "  return error(...)", "}"]

/-- pkg/jwsutil/signature.go:verifyECSignature -/
def skel_verifyECSignature : List String :=
  ["ec := parseEllipticCurve(jwk.Crv)", "if ec == nil {", "  return error(...)", "}", "jwkBytes, err := json.Marshal(jwk)", "if err != nil {", "  return err", "}", "internalJWK := JWK{...}", "err = internalJWK.UnmarshalJSON(jwkBytes)", "if err != nil {", "  return err", "}", "ecdsaPubKey, ok := internalJWK.JSONWebKey.Key.(*ecdsa.PublicKey)", "if !ok {", "  return error(...)", "}", "if len(signature) != 2*ec.keySize {", "  return error(...)", "}", "hasher := ec.hash.New()", "_, err = hasher.Write(msg)", "if err != nil {", "  return error(...)", "}", "hash := hasher.Sum(nil)", "r := big.NewInt(0).SetBytes(signature[:ec.keySize])", "s := big.NewInt(0).SetBytes(signature[ec.keySize:])", "verified := ecdsa.Verify(ecdsaPubKey, hash, r, s)", "if !verified {", "  return error(...)", "}", "return nil"]

/-- pkg/jwsutil/signature.go -/
def skel_verifyEd25519Signature : List String :=
  ["pubKey, err := GetED25519PublicKey(jwk)", "if err != nil {", "  return err", "}", "verified := ed25519.Verify(pubKey, msg, signature)", "if !verified {", "  return error(...)", "}", "return nil"]

/-- pkg/jwsutil/signature.go -/
def skel_GetED25519PublicKey : List String :=
  ["x, err := base64.RawURLEncoding.DecodeString(jwk.X)", "if err != nil {", "  return nil, error(...)", "}", "if len(x) != ed25519.PublicKeySize {", "  return nil, error(...)", "}", "jsonBytes, err := json.Marshal(jwk)", "if err != nil {", "  return nil, err", "}", "var internalJWK JWK", "err = internalJWK.UnmarshalJSON(jsonBytes)", "if err != nil {", "  return nil, err", "}", "pubKey, ok := internalJWK.Key.(ed25519.PublicKey)", "if !ok {", "  return nil, error(...)", "}", "if len(pubKey) != ed25519.PublicKeySize {", "  return nil, error(...)", "}", "return pubKey, nil"]

/-- pkg/util/ecsigner/signer.go:Sign -/
def skel_signer_Sign : List String :=
  ["if signer.privateKey == nil {", "  return nil, error(...)", "}", "hasher := getHasher(signer.privateKey.Curve).New()", "_, err := hasher.Write(msg)", "if err != nil {", "  return nil, err", "}", "hashed := hasher.Sum(nil)", "r, s, err := ecdsa.Sign(rand.Reader, signer.privateKey, hashed)", "if err != nil {", "  return nil, err", "}", "curveBits := signer.privateKey.Curve.Params().BitSize", "const bitsInByte = 8", "keyBytes := curveBits / bitsInByte", "if curveBits%bitsInByte > 0 {", "  keyBytes++", "}", "return append(copyPadded(r.Bytes(), keyBytes), copyPadded(s.Bytes(), keyBytes)...), nil"]

/-- pkg/util/ecsigner/signer.go:getHasher -/
def skel_signer_getHasher : List String :=
  ["switch curve {", "case elliptic.P256():", "  return crypto.SHA256", "case elliptic.P384():", "  return crypto.SHA384", "case elliptic.P521():", "  return crypto.SHA512", "case btcec.S256():", "  return crypto.SHA256", "default:", "  return crypto.SHA256", "}"]

/-- pkg/util/ecsigner/signer.go:copyPadded -/
def skel_signer_copyPadded : List String :=
  ["dest := make([]byte, size)", "copy(dest[size-len(source):], source)", "return dest"]

/-- pkg/util/ecsigner/signer.go:Headers -/
def skel_signer_Headers : List String :=
  ["headers := make(jws.Headers)", "if signer.alg != \"\" {", "  headers[jws.HeaderAlgorithm] = signer.alg", "}", "if signer.kid != \"\" {", "  headers[jws.HeaderKeyID] = signer.kid", "}", "return headers"]

/-- pkg/util/signutil/signature.go:SignPayload -/
def skel_signature_SignPayload : List String :=
  ["alg, ok := signer.Headers().Algorithm()", "if !ok || alg == \"\" {", "  return \"\", error(...)", "}", "jwsSignature, err := internaljws.NewJWS(signer.Headers(), nil, payload, signer)", "if err != nil {", "  return \"\", err", "}", "return jwsSignature.SerializeCompact(false)"]

/-- pkg/util/signutil/signature.go:SignModel -/
def skel_signature_SignModel : List String :=
  ["signedDataBytes, err := canonicalizer.MarshalCanonical(model)", "if err != nil {", "  return \"\", err", "}", "return SignPayload(signedDataBytes, signer)"]

/-- pkg/util/pubkey/jwk.go:GetPublicKeyJWK -/
def skel_jwk_GetPublicKeyJWK : List String :=
  ["internalJWK := internal.JWK{...}", "switch key := pubKey.(type) { case ed25519.PublicKey, *rsa.PublicKey: case *ecdsa.PublicKey: ecdsaPubKey, ok := pubKey.(*ecdsa.PublicKey) if !ok { return nil, errors.New(\"unexpected interface\") } if ecdsaPubKey.Curve == btcec.S256() { internalJWK.Kty = secp256k1Kty internalJWK.Crv = secp256k1Crv } default: return nil, fmt.Errorf(\"unknown key type '%s'\", reflect.TypeOf(key)) }", "jsonJWK, err := internalJWK.MarshalJSON()", "if err != nil {", "  return nil, err", "}", "var jwk jws.JWK", "err = json.Unmarshal(jsonJWK, &jwk)", "if err != nil {", "  return nil, err", "}", "return &jwk, nil"]

/-- pkg/jwsutil/jwk.go:UnmarshalJSON -/
def skel_jwk_UnmarshalJSON : List String :=
  ["var key jsonWebKey", "marshalErr := json.Unmarshal(jwkBytes, &key)", "if marshalErr != nil {", "  return error(...)", "}", "if isSecp256k1(key.Kty, key.Crv) {", "  jwk, err := unmarshalSecp256k1(&key)", "  if err != nil {", "    return error(...)", "  }", "  *j = *jwk", "} else {", "  var joseJWK jose.JSONWebKey", "  err := json.Unmarshal(jwkBytes, &joseJWK)", "  if err != nil {", "    return error(...)", "  }", "  j.JSONWebKey = joseJWK", "}", "j.Kty = key.Kty", "j.Crv = key.Crv", "return nil"]

/-- pkg/jwsutil/jwk.go:MarshalJSON -/
def skel_jwk_MarshalJSON : List String :=
  ["if isSecp256k1(j.Kty, j.Crv) {", "  return marshalSecp256k1(j)", "}", "return (&j.JSONWebKey).MarshalJSON()"]

/-- pkg/jwsutil/jwk.go:unmarshalSecp256k1 -/
def skel_jwk_unmarshalSecp256k1 : List String :=
  ["if jwk.X == nil {", "  return nil, ErrInvalidKey", "}", "if jwk.Y == nil {", "  return nil, ErrInvalidKey", "}", "curve := btcec.S256()", "if curveSize(curve) != len(jwk.X.data) {", "  return nil, ErrInvalidKey", "}", "if curveSize(curve) != len(jwk.Y.data) {", "  return nil, ErrInvalidKey", "}", "if jwk.D != nil && dSize(curve) != len(jwk.D.data) {", "  return nil, ErrInvalidKey", "}", "x := jwk.X.bigInt()", "y := jwk.Y.bigInt()", "if x.Cmp(curve.Params().P) >= 0 || y.Cmp(curve.Params().P) >= 0 {", "  return nil, ErrInvalidKey", "}", "if !curve.IsOnCurve(x, y) {", "  return nil, ErrInvalidKey", "}", "var key interface{}", "if jwk.D != nil {", "  key = &ecdsa.PrivateKey{...}", "} else {", "  key = &ecdsa.PublicKey{...}", "}", "return &JWK{...}, nil"]

/-- pkg/jwsutil/jwk.go:marshalSecp256k1 -/
def skel_jwk_marshalSecp256k1 : List String :=
  ["var raw jsonWebKey", "switch ecdsaKey := jwk.Key.(type) { case *ecdsa.PublicKey: raw = jsonWebKey{ Kty: secp256k1Kty, Crv: secp256k1Crv, X: newFixedSizeBuffer(ecdsaKey.X.Bytes(), secp256k1Size), Y: newFixedSizeBuffer(ecdsaKey.Y.Bytes(), secp256k1Size), } case *ecdsa.PrivateKey: raw = jsonWebKey{ Kty: secp256k1Kty, Crv: secp256k1Crv, X: newFixedSizeBuffer(ecdsaKey.X.Bytes(), secp256k1Size), Y: newFixedSizeBuffer(ecdsaKey.Y.Bytes(), secp256k1Size), D: newFixedSizeBuffer(ecdsaKey.D.Bytes(), dSize(ecdsaKey.Curve)), } }", "raw.Kid = jwk.KeyID", "raw.Alg = jwk.Algorithm", "raw.Use = jwk.Use", "return json.Marshal(raw)"]

/-- pkg/jwsutil/jwk.go:newFixedSizeBuffer -/
def skel_jwk_newFixedSizeBuffer : List String :=
  ["paddedData := make([]byte, length-len(data))", "return &byteBuffer{...}"]

/-- pkg/jwsutil/jwk.go:curveSize -/
def skel_jwk_curveSize : List String :=
  ["bits := crv.Params().BitSize", "div := bits / bitsPerByte", "mod := bits % bitsPerByte", "if mod == 0 {", "  return div", "}", "return div + 1"]

/-- pkg/jwsutil/jwk.go:isSecp256k1 -/
def skel_jwk_isSecp256k1 : List String :=
  ["return strings.EqualFold(kty, secp256k1Kty) && strings.EqualFold(crv, secp256k1Crv)"]

/-- pkg/jwsutil/jws.go:NewJWS -/
def skel_jws_NewJWS : List String :=
  ["headers := mergeHeaders(protectedHeaders, signer.Headers())", "s := &JSONWebSignature{...}", "signature, err := sign(s.joseHeaders, payload, signer)", "if err != nil {", "  return nil, error(...)", "}", "s.signature = signature", "return s, nil"]

/-- pkg/jwsutil/jws.go:SerializeCompact -/
def skel_jws_SerializeCompact : List String :=
  ["byteHeaders, err := json.Marshal(s.joseHeaders)", "if err != nil {", "  return \"\", error(...)", "}", "b64Headers := base64.RawURLEncoding.EncodeToString(byteHeaders)", "b64Payload := \"\"", "if !detached {", "  b64Payload = base64.RawURLEncoding.EncodeToString(s.Payload)", "}", "b64Signature := base64.RawURLEncoding.EncodeToString(s.signature)", "return fmt.Sprintf(\"%s.%s.%s\", b64Headers, b64Payload, b64Signature), nil"]

/-- pkg/jwsutil/jws.go:sign -/
def skel_jws_sign : List String :=
  ["err := checkJWSHeaders(joseHeaders)", "if err != nil {", "  return nil, error(...)", "}", "sigInput, err := signingInput(joseHeaders, payload)", "if err != nil {", "  return nil, error(...)", "}", "signature, err := signer.Sign(sigInput)", "if err != nil {", "  return nil, error(...)", "}", "return signature, nil"]

/-- pkg/jwsutil/jws.go:mergeHeaders -/
def skel_jws_mergeHeaders : List String :=
  ["h := make(jws.Headers, len(h1)+len(h2))", "for k, v := range h2 {", "  h[k] = v", "}", "for k, v := range h1 {", "  h[k] = v", "}", "return h"]

/-- pkg/jws/jwk.go:Validate -/
def skel_jwk_Validate : List String :=
  ["if jwk.Kty == \"\" {", "  return error(...)", "}", "if jwk.Kty == \"RSA\" {", "  if jwk.N == \"\" {", "    return error(...)", "  }", "  if jwk.E == \"\" {", "    return error(...)", "  }", "} else {", "  if jwk.Crv == \"\" {", "    return error(...)", "  }", "  if jwk.X == \"\" {", "    return error(...)", "  }", "}", "return nil"]

/-- pkg/jwsutil/signature.go -/
def skel_parseEllipticCurve : List String :=
  ["switch curve {", "case \"P-256\":", "  return &ellipticCurve{...}", "case \"P-384\":", "  return &ellipticCurve{...}", "case \"P-521\":", "  return &ellipticCurve{...}", "case \"secp256k1\":", "  return &ellipticCurve{...}", "default:", "  return nil", "}"]

end Sidetree.ExpectedSkeletons
