/-
  pkg/hashing, pkg/commitment, docutil.CalculateID — parametric in the hash family `H`
  (`H code = some h` for supported codes). The driver instantiates `H := sha2`.
-/
import Sidetree.Jcs
import Sidetree.Sha2

namespace Sidetree

/-- a hash family: supported multihash codes and their digest functions -/
abbrev HashFam := Nat → Option (Bytes → Bytes)

/-- the real family: sha2-256 (18) and sha2-512 (19) — `GetHashFromMultihash` -/
def sha2 : HashFam
  | 18 => some Sha2.sha256
  | 19 => some Sha2.sha512
  | _ => none

namespace Hashing

/-- `ComputeMultihash` -/
def computeMultihash (H : HashFam) (code : Nat) (data : Bytes) : Option Bytes :=
  (H code).map fun h => mhEncode code (h data)

/-- `GetMultihash`: (code, digest) of an encoded multihash -/
def getMultihash (enc : String) : Option (Nat × Bytes) := (b64DecodeStrictStr enc).bind mhDecode

/-- `GetMultihashCode` -/
def getMultihashCode (enc : String) : Option Nat := (getMultihash enc).map (·.1)

/-- `IsComputedUsingMultihashAlgorithms` -/
def isComputedUsing (enc : String) (codes : List Nat) : Bool :=
  match getMultihashCode enc with
  | some c => codes.contains c
  | none => false

/-- `CalculateModelMultihash` on canonical bytes -/
def multihashOfCanonical (H : HashFam) (code : Nat) (canon : List Char) : Option String :=
  (computeMultihash H code (bytesOfString (String.ofList canon))).map b64EncodeStr

/-- `CalculateModelMultihash` of a JSON value (object or array) -/
def calculateModelMultihash (H : HashFam) (v : Json) (code : Nat) : Option String :=
  (transformValue v).bind (multihashOfCanonical H code)

/-- `IsValidModelMultihash … = nil` -/
def isValidModelMultihash (H : HashFam) (v : Json) (enc : String) : Bool :=
  match getMultihashCode enc with
  | none => false
  | some code =>
    match calculateModelMultihash H v code with
    | none => false
    | some computed => computed == enc

/-- `commitment.GetRevealValue` -/
def revealValue (H : HashFam) (jwk : Json) (code : Nat) : Option String :=
  calculateModelMultihash H jwk code

/-- `commitment.GetCommitment`: multihash of the hash of the canonical JWK -/
def commitment (H : HashFam) (jwk : Json) (code : Nat) : Option String :=
  match transformValue jwk, H code with
  | some canon, some h =>
    (computeMultihash H code (h (bytesOfString (String.ofList canon)))).map b64EncodeStr
  | _, _ => none

/-- `commitment.GetCommitmentFromRevealValue` -/
def commitmentFromReveal (H : HashFam) (rv : String) : Option String :=
  match getMultihash rv with
  | none => none
  | some (code, digest) => (computeMultihash H code digest).map b64EncodeStr

end Hashing
end Sidetree
