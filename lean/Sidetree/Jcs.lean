/-
  RFC 8785 canonicalization (pkg/internal/jsoncanonicalizer + pkg/canonicalizer).

  `normalize` is the normal form of a JSON value (members sorted by UTF-16 code units, numbers
  replaced by the canonical literal of their double); `jcs = print ∘ normalize`.
  Value equivalence `≈` is equality of normal forms.
-/
import Sidetree.Num

namespace Sidetree

/-! ### strings -/

/-- `decorateString` without the quotes: minimal escaping -/
def escapeChar (c : Char) : List Char :=
  if c = '\\' then ['\\', '\\']
  else if c = '"' then ['\\', '"']
  else if c.toNat = 8 then ['\\', 'b']
  else if c.toNat = 12 then ['\\', 'f']
  else if c = '\n' then ['\\', 'n']
  else if c = '\r' then ['\\', 'r']
  else if c = '\t' then ['\\', 't']
  else if c.toNat < 0x20 then '\\' :: 'u' :: hex4 c.toNat
  else [c]

def escape (cs : List Char) : List Char := cs.flatMap escapeChar

def quote (s : String) : List Char := '"' :: escape s.toList ++ ['"']

/-! ### member order -/

def natListLt : List Nat → List Nat → Bool
  | [], [] => false
  | [], _ :: _ => true
  | _ :: _, [] => false
  | a :: as, b :: bs => if a < b then true else if b < a then false else natListLt as bs

/-- strict order of member names: lexicographic on UTF-16 code units -/
def utf16Lt (a b : String) : Bool := natListLt (utf16 a.toList) (utf16 b.toList)

def utf16Le (a b : String) : Bool := !utf16Lt b a

def memberLe (a b : String × Json) : Bool := utf16Le a.1 b.1

def sortMembers (kvs : List (String × Json)) : List (String × Json) := kvs.mergeSort memberLe

/-! ### normal form -/

/-- canonical number: the JNum whose literal is the ES6 rendering of the double. Represented
    as the rendered text (kept in a `str`-free way: we store the text in `Json.num` through a
    re-parse so that `normalize` stays inside `Json`). -/
def canonNum (n : JNum) : Option JNum :=
  match n.canon with
  | none => none
  | some cs => (Parse.parseNumber cs).map (·.1)

namespace Json

mutual
/-- normal form; `none` when a number is out of double range or a member name repeats -/
def normalize : Json → Option Json
  | .num n => (canonNum n).map .num
  | .arr xs => (normalizeList xs).map .arr
  | .obj kvs =>
    match normalizeMembers kvs with
    | none => none
    | some kvs' => if namesNodup kvs' then some (.obj (sortMembers kvs')) else none
  | j => some j
def normalizeList : List Json → Option (List Json)
  | [] => some []
  | x :: xs =>
    match normalize x, normalizeList xs with
    | some x', some xs' => some (x' :: xs')
    | _, _ => none
def normalizeMembers : List (String × Json) → Option (List (String × Json))
  | [] => some []
  | (k, x) :: xs =>
    match normalize x, normalizeMembers xs with
    | some x', some xs' => some ((k, x') :: xs')
    | _, _ => none
end

/-- "denotes the same JSON value" -/
def equiv (a b : Json) : Prop := a.normalize = b.normalize ∧ a.normalize.isSome

mutual
/-- compact print of a value with minimal escaping and ES6 numbers (assumes numbers in range) -/
def print : Json → List Char
  | .null => "null".toList
  | .bool true => "true".toList
  | .bool false => "false".toList
  | .num n => (n.canon).getD n.render
  | .str s => quote s
  | .arr xs => '[' :: printList xs ++ [']']
  | .obj kvs => '{' :: printMembers kvs ++ ['}']
def printList : List Json → List Char
  | [] => []
  | [x] => print x
  | x :: xs => print x ++ ',' :: printList xs
def printMembers : List (String × Json) → List Char
  | [] => []
  | [(k, x)] => quote k ++ ':' :: print x
  | (k, x) :: xs => quote k ++ ':' :: print x ++ ',' :: printMembers xs
end

/-- JCS of a value (any value; the library's entry point additionally demands an object or
    array at top level, see `transformValue`) -/
def jcs (j : Json) : Option (List Char) := j.normalize.map print

def isContainer : Json → Bool
  | .arr _ => true
  | .obj _ => true
  | _ => false

end Json

/-- `jsoncanonicalizer.Transform` on a parsed value: top level must be an object or array -/
def transformValue (j : Json) : Option (List Char) :=
  if j.isContainer then j.jcs else none

namespace Json
mutual
/-- nesting depth: how many arrays / objects are open at the deepest place -/
def depth : Json → Nat
  | .arr xs => 1 + depthList xs
  | .obj kvs => 1 + depthMembers kvs
  | _ => 0
def depthList : List Json → Nat
  | [] => 0
  | x :: xs => max (depth x) (depthList xs)
def depthMembers : List (String × Json) → Nat
  | [] => 0
  | (_, x) :: xs => max (depth x) (depthMembers xs)
end
end Json

/-- the transformer's bound on nesting (the one `encoding/json` has), since the D34 repair -/
def maxNesting : Nat := 10000

/-- `jsoncanonicalizer.Transform` on text: the text is read, nesting deeper than `maxNesting` is
    refused, the value is canonicalized -/
def transform (text : List Char) : Option (List Char) :=
  (Parse.parse text).bind fun j => if j.depth ≤ maxNesting then transformValue j else none

def jcsString (j : Json) : Option String := j.jcs.map String.ofList

end Sidetree
