/-
  Json: the value domain shared by every model.

  * `JNum` keeps the decimal literal exactly (sign, mantissa, power of ten and whether the
    literal had integer syntax) so that both readings Go uses can be derived from it:
    the IEEE-754 double (`Num.lean`) and the `int64` reading of `anchorFrom/anchorUntil`.
  * `Json` is a nested inductive; every function on it is structural (`mutual`) so that
    it is total by construction and unfolds in proofs.
  * The parser is a strict RFC 8259 parser on `List Char` with explicit fuel.
-/

namespace Sidetree

structure JNum where
  neg   : Bool
  mant  : Nat
  exp10 : Int
  isInt : Bool
deriving DecidableEq, Repr, Inhabited

def JNum.ofNat (n : Nat) : JNum := { neg := false, mant := n, exp10 := 0, isInt := true }
def JNum.ofInt (i : Int) : JNum :=
  { neg := decide (i < 0), mant := i.natAbs, exp10 := 0, isInt := true }

/-- The `int64`-style reading: integer syntax only. -/
def JNum.toInt? (n : JNum) : Option Int :=
  if n.isInt then some (if n.neg then - (n.mant : Int) else n.mant) else none

inductive Json where
  | null
  | bool (b : Bool)
  | num (n : JNum)
  | str (s : String)
  | arr (xs : List Json)
  | obj (kvs : List (String × Json))
deriving Repr, Inhabited

namespace Json

mutual
def beq : Json → Json → Bool
  | .null, .null => true
  | .bool a, .bool b => a == b
  | .num a, .num b => decide (a = b)
  | .str a, .str b => a == b
  | .arr a, .arr b => beqList a b
  | .obj a, .obj b => beqMembers a b
  | _, _ => false
def beqList : List Json → List Json → Bool
  | [], [] => true
  | x :: xs, y :: ys => beq x y && beqList xs ys
  | _, _ => false
def beqMembers : List (String × Json) → List (String × Json) → Bool
  | [], [] => true
  | (k, x) :: xs, (l, y) :: ys => k == l && beq x y && beqMembers xs ys
  | _, _ => false
end

instance : BEq Json := ⟨beq⟩

def mkNat (n : Nat) : Json := .num (JNum.ofNat n)
def mkInt (i : Int) : Json := .num (JNum.ofInt i)

/-- first member with the given name -/
def lookup (k : String) : List (String × Json) → Option Json
  | [] => none
  | (k', v) :: rest => if k' = k then some v else lookup k rest

def get? (j : Json) (k : String) : Option Json :=
  match j with
  | .obj kvs => lookup k kvs
  | _ => none

def getD (j : Json) (k : String) (d : Json := .null) : Json := (j.get? k).getD d

def str? : Json → Option String
  | .str s => some s
  | _ => none

def arr? : Json → Option (List Json)
  | .arr xs => some xs
  | _ => none

def obj? : Json → Option (List (String × Json))
  | .obj kvs => some kvs
  | _ => none

def bool? : Json → Option Bool
  | .bool b => some b
  | _ => none

def int? : Json → Option Int
  | .num n => n.toInt?
  | _ => none

def nat? (j : Json) : Option Nat :=
  match j.int? with
  | some i => if i < 0 then none else some i.toNat
  | none => none

def isNull : Json → Bool
  | .null => true
  | _ => false

/-- replace-or-append a member (first occurrence is replaced, order kept) -/
def setMember (k : String) (v : Json) : List (String × Json) → List (String × Json)
  | [] => [(k, v)]
  | (k', v') :: rest => if k' = k then (k, v) :: rest else (k', v') :: setMember k v rest

def eraseMember (k : String) : List (String × Json) → List (String × Json)
  | [] => []
  | (k', v') :: rest => if k' = k then eraseMember k rest else (k', v') :: eraseMember k rest

-- no duplicate member names at any depth
mutual
def wf : Json → Bool
  | .arr xs => wfList xs
  | .obj kvs => wfMembers kvs && namesNodup kvs
  | _ => true
def wfList : List Json → Bool
  | [] => true
  | x :: xs => wf x && wfList xs
def wfMembers : List (String × Json) → Bool
  | [] => true
  | (_, x) :: xs => wf x && wfMembers xs
def namesNodup : List (String × Json) → Bool
  | [] => true
  | (k, _) :: xs => !(xs.any (fun p => p.1 == k)) && namesNodup xs
end

end Json

/-! ## Text utilities -/

/-- byte length of the UTF-8 encoding (what Go's `len` of a string is) -/
def utf8Len (s : String) : Nat := s.toList.foldl (fun a c => a + c.utf8Size) 0


def hexDigit (n : Nat) : Char :=
  if n < 10 then Char.ofNat (48 + n) else Char.ofNat (87 + n)

def hexVal? (c : Char) : Option Nat :=
  let n := c.toNat
  if 48 ≤ n ∧ n ≤ 57 then some (n - 48)
  else if 97 ≤ n ∧ n ≤ 102 then some (n - 87)
  else if 65 ≤ n ∧ n ≤ 70 then some (n - 55)
  else none

def hex4 (n : Nat) : List Char :=
  [hexDigit (n / 4096 % 16), hexDigit (n / 256 % 16), hexDigit (n / 16 % 16), hexDigit (n % 16)]

/-- UTF-16 code units of a scalar value -/
def utf16Units (c : Char) : List Nat :=
  let n := c.toNat
  if n < 0x10000 then [n]
  else
    let m := n - 0x10000
    [0xD800 + m / 0x400, 0xDC00 + m % 0x400]

def utf16 (s : List Char) : List Nat := s.flatMap utf16Units

/-! ## Printing (driver output; ASCII only, every non-ASCII scalar as \u escapes) -/

def escapeAscii (cs : List Char) : List Char :=
  cs.flatMap fun c =>
    if c = '"' then ['\\', '"']
    else if c = '\\' then ['\\', '\\']
    else if c.toNat < 0x20 ∨ c.toNat ≥ 0x7f then
      (utf16Units c).flatMap fun u => '\\' :: 'u' :: hex4 u
    else [c]

def natDigits (n : Nat) : List Char := (Nat.repr n).toList

def JNum.render (n : JNum) : List Char :=
  (if n.neg then ['-'] else []) ++ natDigits n.mant ++
    (if n.exp10 = 0 then [] else 'e' :: (if n.exp10 < 0 then '-' :: natDigits n.exp10.natAbs
      else natDigits n.exp10.natAbs))

namespace Json
mutual
def render : Json → List Char
  | .null => "null".toList
  | .bool true => "true".toList
  | .bool false => "false".toList
  | .num n => n.render
  | .str s => '"' :: escapeAscii s.toList ++ ['"']
  | .arr xs => '[' :: renderList xs ++ [']']
  | .obj kvs => '{' :: renderMembers kvs ++ ['}']
def renderList : List Json → List Char
  | [] => []
  | [x] => render x
  | x :: xs => render x ++ ',' :: renderList xs
def renderMembers : List (String × Json) → List Char
  | [] => []
  | [(k, x)] => '"' :: escapeAscii k.toList ++ '"' :: ':' :: render x
  | (k, x) :: xs => '"' :: escapeAscii k.toList ++ '"' :: ':' :: render x ++ ',' :: renderMembers xs
end
def toString (j : Json) : String := String.ofList j.render
end Json

/-! ## Strict RFC 8259 parser -/

namespace Parse

def isWs (c : Char) : Bool := c = ' ' || c = '\t' || c = '\n' || c = '\r'
def isDigit (c : Char) : Bool := '0' ≤ c && c ≤ '9'

def skipWs : List Char → List Char
  | c :: cs => if isWs c then skipWs cs else c :: cs
  | [] => []

def takeDigits : List Char → List Char × List Char
  | c :: cs => if isDigit c then
      let (ds, rest) := takeDigits cs
      (c :: ds, rest)
    else ([], c :: cs)
  | [] => ([], [])

def digitsToNat (ds : List Char) : Nat := ds.foldl (fun a c => a * 10 + (c.toNat - 48)) 0

/-- number literal; returns the number and the rest -/
def parseNumber (cs : List Char) : Option (JNum × List Char) :=
  let (neg, cs) := match cs with
    | '-' :: r => (true, r)
    | _ => (false, cs)
  let (ip, cs) := takeDigits cs
  if ip.isEmpty then none
  else if ip.length > 1 ∧ ip.head? = some '0' then none
  else
    let fracRes : Option (List Char × List Char × Bool) := match cs with
      | '.' :: r =>
        let (fp, r') := takeDigits r
        if fp.isEmpty then none else some (fp, r', true)
      | _ => some ([], cs, false)
    match fracRes with
    | none => none
    | some (fp, cs, hasFrac) =>
      let expRes : Option (Int × List Char × Bool) := match cs with
        | c :: r =>
          if c = 'e' ∨ c = 'E' then
            let (sgn, r) := match r with
              | '-' :: r' => (true, r')
              | '+' :: r' => (false, r')
              | _ => (false, r)
            let (ep, r') := takeDigits r
            if ep.isEmpty then none
            else
              let e : Int := digitsToNat ep
              some (if sgn then -e else e, r', true)
          else some (0, cs, false)
        | [] => some (0, [], false)
      match expRes with
      | none => none
      | some (e, cs, hasExp) =>
        some ({ neg := neg, mant := digitsToNat (ip ++ fp), exp10 := e - fp.length,
                isInt := !hasFrac && !hasExp }, cs)

def hex4Val? : List Char → Option (Nat × List Char)
  | a :: b :: c :: d :: rest =>
    match hexVal? a, hexVal? b, hexVal? c, hexVal? d with
    | some a, some b, some c, some d => some (a * 4096 + b * 256 + c * 16 + d, rest)
    | _, _, _, _ => none
  | _ => none

/-- string body after the opening quote. Lone surrogates are rejected (I-JSON). -/
def parseStringBody : Nat → List Char → List Char → Option (List Char × List Char)
  | 0, _, _ => none
  | fuel + 1, acc, cs =>
    match cs with
    | [] => none
    | '"' :: rest => some (acc.reverse, rest)
    | '\\' :: e :: rest =>
      if e = 'u' then
        match hex4Val? rest with
        | none => none
        | some (u, rest) =>
          if 0xD800 ≤ u ∧ u < 0xDC00 then
            match rest with
            | '\\' :: 'u' :: rest2 =>
              match hex4Val? rest2 with
              | some (l, rest3) =>
                if 0xDC00 ≤ l ∧ l < 0xE000 then
                  parseStringBody fuel (Char.ofNat (0x10000 + (u - 0xD800) * 0x400 + (l - 0xDC00)) :: acc) rest3
                else none
              | none => none
            | _ => none
          else if 0xDC00 ≤ u ∧ u < 0xE000 then none
          else parseStringBody fuel (Char.ofNat u :: acc) rest
      else
        let r : Option Char :=
          if e = '"' then some '"' else if e = '\\' then some '\\' else if e = '/' then some '/'
          else if e = 'b' then some (Char.ofNat 8) else if e = 'f' then some (Char.ofNat 12)
          else if e = 'n' then some '\n' else if e = 'r' then some '\r' else if e = 't' then some '\t'
          else none
        match r with
        | some c => parseStringBody fuel (c :: acc) rest
        | none => none
    | c :: rest =>
      if c.toNat < 0x20 then none else parseStringBody fuel (c :: acc) rest

def expectLit (lit : List Char) (cs : List Char) : Option (List Char) :=
  if lit.isPrefixOf cs then some (cs.drop lit.length) else none

mutual
def parseValue : Nat → List Char → Option (Json × List Char)
  | 0, _ => none
  | fuel + 1, cs =>
    match skipWs cs with
    | [] => none
    | 'n' :: r => (expectLit "ull".toList r).map fun r => (.null, r)
    | 't' :: r => (expectLit "rue".toList r).map fun r => (.bool true, r)
    | 'f' :: r => (expectLit "alse".toList r).map fun r => (.bool false, r)
    | '"' :: r =>
      match parseStringBody (r.length + 1) [] r with
      | some (s, r) => some (.str (String.ofList s), r)
      | none => none
    | '[' :: r =>
      match skipWs r with
      | ']' :: r => some (.arr [], r)
      | r => match parseElems fuel [] r with
        | some (xs, r) => some (.arr xs, r)
        | none => none
    | '{' :: r =>
      match skipWs r with
      | '}' :: r => some (.obj [], r)
      | r => match parseMembers fuel [] r with
        | some (kvs, r) => some (.obj kvs, r)
        | none => none
    | c :: r => if c = '-' ∨ isDigit c then
        match parseNumber (c :: r) with
        | some (n, r) => some (.num n, r)
        | none => none
      else none
def parseElems : Nat → List Json → List Char → Option (List Json × List Char)
  | 0, _, _ => none
  | fuel + 1, acc, cs =>
    match parseValue fuel cs with
    | none => none
    | some (v, r) =>
      match skipWs r with
      | ',' :: r => parseElems fuel (v :: acc) r
      | ']' :: r => some ((v :: acc).reverse, r)
      | _ => none
def parseMembers : Nat → List (String × Json) → List Char → Option (List (String × Json) × List Char)
  | 0, _, _ => none
  | fuel + 1, acc, cs =>
    match skipWs cs with
    | '"' :: r =>
      match parseStringBody (r.length + 1) [] r with
      | none => none
      | some (k, r) =>
        match skipWs r with
        | ':' :: r =>
          match parseValue fuel r with
          | none => none
          | some (v, r) =>
            match skipWs r with
            | ',' :: r => parseMembers fuel ((String.ofList k, v) :: acc) r
            | '}' :: r => some (((String.ofList k, v) :: acc).reverse, r)
            | _ => none
        | _ => none
    | _ => none
end

/-- whole-text parse: exactly one value, surrounded by optional whitespace -/
def parse (cs : List Char) : Option Json :=
  match parseValue (2 * cs.length + 2) cs with
  | some (v, r) => if (skipWs r).isEmpty then some v else none
  | none => none

def parseString (s : String) : Option Json := parse s.toList

end Parse
end Sidetree
