/-
  JSON Patch on `Json` trees.

  * `Lib.*`  — evanphx/json-patch v4.1.0 as the composer uses it since the repair of D10
               (one operation per `Apply` call on a freshly parsed document), including the
               library's deviations from RFC 6902 and its hazard outcomes (`panic`, `blowup`).
  * `Rfc.*`  — RFC 6902 / RFC 6901 as written (the specification side).
-/
import Sidetree.Jcs
import Sidetree.Patch

namespace Sidetree.JsonPatch

/-- outcome of a library call -/
inductive R (α : Type) where
  | ok (a : α)
  | err
  | panic     -- a Go run-time panic inside the library (recovered by the composer)
  | blowup    -- an allocation proportional to a caller-chosen index (not recoverable)
deriving Repr

def R.bind {α β} : R α → (α → R β) → R β
  | .ok a, f => f a
  | .err, _ => .err
  | .panic, _ => .panic
  | .blowup, _ => .blowup

instance : Monad R where
  pure := R.ok
  bind := R.bind

/-! ### pointers -/

/-- `strings.Split(s, "/")` -/
def splitSlash (cs : List Char) : List (List Char) :=
  let rec go : List Char → List Char → List (List Char)
    | [], cur => [cur.reverse]
    | c :: rest, cur => if c = '/' then cur.reverse :: go rest [] else go rest (c :: cur)
  go cs []

/-- `rfc6901Decoder.Replace`: single left-to-right pass, `~1` ↦ `/`, `~0` ↦ `~` -/
def decodeToken : List Char → List Char
  | '~' :: '1' :: rest => '/' :: decodeToken rest
  | '~' :: '0' :: rest => '~' :: decodeToken rest
  | c :: rest => c :: decodeToken rest
  | [] => []

def decodeKey (t : List Char) : String := String.ofList (decodeToken t)

/-- `strconv.Atoi`: optional sign, at least one digit, int64 range -/
def atoi? (s : String) : Option Int :=
  let cs := s.toList
  let (neg, ds) := match cs with
    | '-' :: r => (true, r)
    | '+' :: r => (false, r)
    | _ => (false, cs)
  if ds.isEmpty ∨ !ds.all Parse.isDigit then none
  else
    let n : Int := Parse.digitsToNat ds
    let v := if neg then -n else n
    if v > 9223372036854775807 ∨ v < -9223372036854775808 then none else some v

/-- RFC 6901 array index: `0` or digits without a leading zero -/
def rfcIndex? (s : String) : Option Nat :=
  let cs := s.toList
  if cs.isEmpty ∨ !cs.all Parse.isDigit then none
  else if cs.length > 1 ∧ cs.head? = some '0' then none
  else some (Parse.digitsToNat cs)

def isContainer : Json → Bool
  | .obj _ => true
  | .arr _ => true
  | _ => false

def insertAt {α} (xs : List α) (i : Nat) (v : α) : List α := xs.take i ++ v :: xs.drop i
def removeAt {α} (xs : List α) (i : Nat) : List α := xs.take i ++ xs.drop (i + 1)
def setAt {α} (xs : List α) (i : Nat) (v : α) : List α := xs.take i ++ v :: xs.drop (i + 1)

/-- indices at or above this make `partialArray.set` allocate a slice of that many pointers;
    the model calls that `blowup` (the real threshold is the memory of the host) -/
def blowupIndex : Nat := 10000000

namespace Lib

/-- a `*lazyNode` fetched from a container: `none` is the nil pointer (absent object member, or
    a JSON `null`) -/
abbrev Node := Option Json

def nodeOf (j : Json) : Node := if j.isNull then none else some j
def jsonOf : Node → Json
  | some j => j
  | none => .null

/-- `container.get` -/
def conGet (con : Json) (k : String) : R Node :=
  match con with
  | .obj kvs => .ok ((Json.lookup k kvs).bind nodeOf)
  | .arr xs =>
    match atoi? k with
    | none => .err
    | some i =>
      if i ≥ xs.length then .err
      else if i < 0 then .panic
      else .ok ((xs[i.toNat]?).bind nodeOf)
  | _ => .err

/-- `container.set` -/
def conSet (con : Json) (k : String) (v : Json) : R Json :=
  match con with
  | .obj kvs => .ok (.obj (Json.setMember k v kvs))
  | .arr xs =>
    if k = "-" then .ok (.arr (xs ++ [v]))
    else match atoi? k with
      | none => .err
      | some i =>
        if i < 0 then .panic
        else if i.toNat ≥ blowupIndex then .blowup
        else
          let padded := xs ++ List.replicate (i.toNat + 1 - xs.length) Json.null
          .ok (.arr (setAt padded i.toNat v))
  | _ => .err

/-- `container.add` -/
def conAdd (con : Json) (k : String) (v : Json) : R Json :=
  match con with
  | .obj kvs => .ok (.obj (Json.setMember k v kvs))
  | .arr xs =>
    if k = "-" then .ok (.arr (xs ++ [v]))
    else match atoi? k with
      | none => .err
      | some i =>
        let n : Int := xs.length + 1
        if i ≥ n then .err
        else if i < -n then .err
        else
          let i' := if i < 0 then i + n else i
          .ok (.arr (insertAt xs i'.toNat v))
  | _ => .err

/-- `container.remove` -/
def conRemove (con : Json) (k : String) : R Json :=
  match con with
  | .obj kvs => if (Json.lookup k kvs).isSome then .ok (.obj (Json.eraseMember k kvs)) else .err
  | .arr xs =>
    match atoi? k with
    | none => .err
    | some i =>
      let n : Int := xs.length
      if i ≥ n then .err
      else if i < -n then .err
      else
        let i' := if i < 0 then i + n else i
        .ok (.arr (removeAt xs i'.toNat))
  | _ => .err

/-- `findObject` followed by an update of the container it finds: walk `parts` from `cur`
    (which must be a container), apply `f` to the last container and rebuild the path. -/
def updateAt (f : Json → R Json) : List (List Char) → Json → R Json
  | [], cur => f cur
  | p :: ps, cur =>
    let k := decodeKey p
    match conGet cur k with
    | .ok (some next) =>
      if isContainer next then
        match updateAt f ps next with
        | .ok next' =>
          (match cur with
          | .obj kvs => .ok (.obj (Json.setMember k next' kvs))
          | .arr xs => (match atoi? k with
            | some i => .ok (.arr (setAt xs i.toNat next'))
            | none => .err)
          | _ => .err)
        | .err => .err
        | .panic => .panic
        | .blowup => .blowup
      else .err
    | .ok none => .err
    | .err => .err
    | .panic => .panic
    | .blowup => .blowup

/-- the same walk, read-only -/
def readAt (f : Json → R α) : List (List Char) → Json → R α
  | [], cur => f cur
  | p :: ps, cur =>
    match conGet cur (decodeKey p) with
    | .ok (some next) => if isContainer next then readAt f ps next else .err
    | .ok none => .err
    | .err => .err
    | .panic => .panic
    | .blowup => .blowup

/-- `findObject`'s split: everything before the first `/` is ignored; `none` when the path has
    no `/` at all -/
def splitPointer (path : String) : Option (List (List Char) × String) :=
  match splitSlash path.toList with
  | [] => none
  | [_] => none
  | _ :: rest => some (rest.dropLast, decodeKey (rest.getLast?.getD []))

/-- string member of an operation as `operation.path()` / `.from()` read it -/
def opString (op : Json) (k : String) : String :=
  match op.get? k with
  | some (.str s) => s
  | _ => "unknown"

-- `lazyNode.equal` for a document node against the operation's value, on Go-marshalled
-- values; `none` = the library panics (nil node on either side). Only the members of the
-- document node are visited (extra members of the value are ignored by the library).
mutual
def nodeEqual : Json → Json → Option Bool
  | .obj nk, o =>
    (match o with
    | .obj ok' => eqMembers nk ok'
    | _ => some false)
  | .arr ns, o =>
    (match o with
    | .arr os => if ns.length ≠ os.length then some false else eqElems ns os
    | _ => some false)
  | n, o =>
    (match o with
    | .obj _ => some false
    | .arr _ => some false
    | _ => some (n.normalize == o.normalize))
def eqMembers : List (String × Json) → List (String × Json) → Option Bool
  | [], _ => some true
  | (k, v) :: rest, ok' =>
    match Json.lookup k ok' with
    | none => some false
    | some ov =>
      if v.isNull && ov.isNull then eqMembers rest ok'
      else if v.isNull || ov.isNull then none
      else match nodeEqual v ov with
        | some true => eqMembers rest ok'
        | r => r
def eqElems : List Json → List Json → Option Bool
  | [], _ => some true
  | _ :: _, [] => some true
  | a :: as, b :: bs =>
    if a.isNull then none
    else if b.isNull then none
    else match nodeEqual a b with
      | some true => eqElems as bs
      | r => r
end

/-- the comparison at the end of `Patch.test` -/
def testOutcome (val : Node) (hasValue : Bool) (value : Json) : R Unit :=
  match val with
  | none =>
    if !hasValue then .panic          -- `op.value().raw` on a nil *lazyNode
    else if value.isNull then .ok ()
    else .err
  | some v =>
    if !hasValue then .err
    else if value.isNull then .err    -- the value node has `raw == nil`: neither tryDoc nor bytes.Equal succeeds
    else match nodeEqual v value with
      | some true => .ok ()
      | some false => .err
      | none => .panic

/-- one step of a walk, named canonically within the parent -/
inductive Step where
  | key (k : String)
  | idx (i : Nat)
deriving DecidableEq, Repr

/-- the nodes visited when `tokens` are walked from `cur`; `none` when the walk leaves the tree -/
def resolveSteps : Json → List String → Option (List Step)
  | _, [] => some []
  | .obj kvs, t :: ts => (Json.lookup t kvs).bind fun n => (resolveSteps n ts).map (Step.key t :: ·)
  | .arr xs, t :: ts =>
    match atoi? t with
    | some i =>
      if 0 ≤ i ∧ i < xs.length then (xs[i.toNat]?).bind fun n => (resolveSteps n ts).map (Step.idx i.toNat :: ·)
      else none
    | none => none
  | _, _ :: _ => none

/-- `copy` links the source node itself into the target container. When that container is the
    source node or lies inside it, the document now contains itself and serializing it does not
    end (the process dies of stack exhaustion). -/
def copyMakesCycle (doc : Json) (fparts : List (List Char)) (fkey : String) (parts : List (List Char)) : Bool :=
  match resolveSteps doc (fparts.map decodeKey ++ [fkey]), resolveSteps doc (parts.map decodeKey) with
  | some src, some dst => src.isPrefixOf dst
  | _, _ => false

/-- one operation, `Patch{op}.Apply(doc)` for a document that is a JSON object -/
def applyOp (doc : Json) (op : Json) : R Json :=
  let kind := opString op "op"
  let value : Json := (op.get? "value").getD .null
  let hasValue := (op.get? "value").isSome
  if kind = "add" then
    match splitPointer (opString op "path") with
    | none => .err
    | some (parts, key) => updateAt (fun con => conAdd con key value) parts doc
  else if kind = "remove" then
    match splitPointer (opString op "path") with
    | none => .err
    | some (parts, key) => updateAt (fun con => conRemove con key) parts doc
  else if kind = "replace" then
    match splitPointer (opString op "path") with
    | none => .err
    | some (parts, key) =>
      updateAt (fun con => do
        let _ ← conGet con key
        conSet con key value) parts doc
  else if kind = "move" then
    match splitPointer (opString op "from"), splitPointer (opString op "path") with
    | some (fparts, fkey), some (parts, key) => do
      let val ← readAt (fun con => conGet con fkey) fparts doc
      let doc' ← updateAt (fun con => conRemove con fkey) fparts doc
      updateAt (fun con => conSet con key (jsonOf val)) parts doc'
    | none, _ => .err
    | some (fparts, fkey), none => do
      -- the source is read and removed before the destination is looked up
      let _ ← readAt (fun con => conGet con fkey) fparts doc
      let _ ← updateAt (fun con => conRemove con fkey) fparts doc
      .err
  else if kind = "copy" then
    match splitPointer (opString op "from"), splitPointer (opString op "path") with
    | some (fparts, fkey), some (parts, key) => do
      let val ← readAt (fun con => conGet con fkey) fparts doc
      let doc' ← updateAt (fun con => conSet con key (jsonOf val)) parts doc
      if copyMakesCycle doc fparts fkey parts then .blowup else .ok doc'
    | none, _ => .err
    | some (fparts, fkey), none => do
      let _ ← readAt (fun con => conGet con fkey) fparts doc
      .err
  else if kind = "test" then
    match splitPointer (opString op "path") with
    | none => .err
    | some (parts, key) => do
      let val ← readAt (fun con => conGet con key) parts doc
      let _ ← testOutcome val hasValue value
      .ok doc
  else .err

/-- `DecodePatch` of the marshalled value member: an array whose elements are objects
    (`null` decodes to an empty patch; a `null` element to a nil operation, which is then an
    unknown kind) -/
def decodePatch (value : Json) : Option (List Json) :=
  match value with
  | .null => some []
  | .arr ops => if ops.all Patch.isObjOrNullB then some ops else none
  | _ => none

/-- a string member as the composer's guard reads it (`stringMember`) -/
def guardString (op : Json) (k : String) : Option String :=
  match op.get? k with
  | some (.str s) => some s
  | _ => none

/-- two unescaped tokens name the same child wherever they are resolved: equal strings, or
    equal as array indices (the comparison of the first guard, D16; kept for the statement that
    the guard of today refuses no more than that one did) -/
def sameDecoded (a b : String) : Bool :=
  a == b || (match atoi? a, atoi? b with
             | some x, some y => x == y
             | _, _ => false)

/-- the composer's walk along `from` (D45): at every level the two tokens are compared the way the
    container at hand resolves them — exactly in an object, as numbers (within range) in a list —
    and the walk goes on in the child they name. `none` is Go's `nil` (a member that is not there;
    JSON `null` decodes to it as well). -/
def belowIn : Option Json → List (String × String) → Bool
  | _, [] => true
  | some (.obj kvs), (a, b) :: rest => a == b && belowIn (Json.lookup a kvs) rest
  | some (.arr xs), (a, b) :: rest =>
    match atoi? a, atoi? b with
    | some x, some y => x == y && decide (0 ≤ x ∧ x < xs.length) && belowIn xs[x.toNat]? rest
    | _, _ => false
  | _, _ :: _ => false

/-- `isBelow(path, from, doc)` of the composer: whatever precedes the first `/` is ignored -/
def isBelow (path frm : String) (doc : Json) : Bool :=
  let f := splitSlash frm.toList
  let p := splitSlash path.toList
  if p.length ≤ f.length then false
  else belowIn (some doc) (((f.drop 1).map decodeKey).zip ((p.drop 1).map decodeKey))

/-- `targetsOwnSource` for one operation -/
def targetsOwnSource (op : Json) (doc : Json) : Bool :=
  match guardString op "op", guardString op "from", guardString op "path" with
  | some kind, some frm, some path => (kind = "copy" || kind = "move") && isBelow path frm doc
  | _, _, _ => false

/-- `applyJSONPatchOperation`: the guard, then the library; a panic is answered as an error -/
def applyGuarded (doc : Json) (op : Json) : R Json :=
  if targetsOwnSource op doc then .err
  else match applyOp doc op with
    | .panic => .err
    | r => r

/-- `applyJSON` after the repairs: operations one at a time -/
def applyAll (doc : Json) (ops : List Json) : R Json :=
  ops.foldlM applyGuarded doc

end Lib

/-! ### RFC 6902 -/

namespace Rfc

/-- RFC 6901 pointer as reference tokens; `none` when it is neither empty nor starts with `/` -/
def tokens (ptr : String) : Option (List String) :=
  match splitSlash ptr.toList with
  | [[]] => some []                                  -- "" = the whole document
  | [] :: rest => some (rest.map decodeKey)
  | _ => none

/-- value at a pointer -/
def getAt : Json → List String → Option Json
  | j, [] => some j
  | .obj kvs, t :: ts => (Json.lookup t kvs).bind (getAt · ts)
  | .arr xs, t :: ts => (rfcIndex? t).bind fun i => (xs[i]?).bind (getAt · ts)
  | _, _ :: _ => none

/-- apply `f` to the parent container of the last token -/
def updateParent (f : Json → String → Option Json) : Json → List String → Option Json
  | _, [] => none
  | j, [t] => f j t
  | .obj kvs, t :: ts =>
    (Json.lookup t kvs).bind fun c => (updateParent f c ts).map fun c' => .obj (Json.setMember t c' kvs)
  | .arr xs, t :: ts =>
    (rfcIndex? t).bind fun i => (xs[i]?).bind fun c => (updateParent f c ts).map fun c' => .arr (setAt xs i c')
  | _, _ => none

def addInto (v : Json) (con : Json) (t : String) : Option Json :=
  match con with
  | .obj kvs => some (.obj (Json.setMember t v kvs))
  | .arr xs =>
    if t = "-" then some (.arr (xs ++ [v]))
    else (rfcIndex? t).bind fun i => if i ≤ xs.length then some (.arr (insertAt xs i v)) else none
  | _ => none

def removeFrom (con : Json) (t : String) : Option Json :=
  match con with
  | .obj kvs => if (Json.lookup t kvs).isSome then some (.obj (Json.eraseMember t kvs)) else none
  | .arr xs => (rfcIndex? t).bind fun i => if i < xs.length then some (.arr (removeAt xs i)) else none
  | _ => none

def replaceIn (v : Json) (con : Json) (t : String) : Option Json :=
  match con with
  | .obj kvs => if (Json.lookup t kvs).isSome then some (.obj (Json.setMember t v kvs)) else none
  | .arr xs => (rfcIndex? t).bind fun i => if i < xs.length then some (.arr (setAt xs i v)) else none
  | _ => none

/-- one operation; `none` = the operation is an error. Root (`""`) targets are not modelled
    (the document must stay an object): they are errors here and excluded from comparison. -/
def applyOp (doc : Json) (op : Json) : Option Json :=
  let str := fun k => (op.get? k).bind Json.str?
  match str "op", (str "path").bind tokens with
  | some "add", some path => (op.get? "value").bind fun v => updateParent (addInto v) doc path
  | some "remove", some path => updateParent removeFrom doc path
  | some "replace", some path => (op.get? "value").bind fun v => updateParent (replaceIn v) doc path
  | some "move", some path =>
    (str "from").bind tokens |>.bind fun frm =>
      if frm ≠ path ∧ frm.isPrefixOf path then none
      else (getAt doc frm).bind fun v =>
        if frm.isEmpty then none
        else (updateParent removeFrom doc frm).bind fun d => updateParent (addInto v) d path
  | some "copy", some path =>
    (str "from").bind tokens |>.bind fun frm =>
      (getAt doc frm).bind fun v => updateParent (addInto v) doc path
  | some "test", some path =>
    (op.get? "value").bind fun v => (getAt doc path).bind fun cur =>
      if cur.normalize.isSome ∧ cur.normalize == v.normalize then some doc else none
  | _, _ => none

end Rfc

end Sidetree.JsonPatch
