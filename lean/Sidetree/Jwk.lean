/-
  pkg/jws/jwk.go: the JWK struct as Go's encoding/json sees it
  (kty, crv, x, y always marshalled; n, e, nonce only when non-empty), and `Validate`.
-/
import Sidetree.Json

namespace Sidetree

structure Jwk where
  kty : String := ""
  crv : String := ""
  x : String := ""
  y : String := ""
  n : String := ""
  e : String := ""
  nonce : String := ""
deriving DecidableEq, Repr, Inhabited

namespace Jwk

/-- the members `json.Unmarshal` into `jws.JWK` reads (exact-case names; a member of a
    non-string type is a decode error, `null` leaves the field empty) -/
def fieldOf (j : Json) (k : String) : Option String :=
  match j.get? k with
  | none => some ""
  | some .null => some ""
  | some (.str s) => some s
  | some _ => none

def ofJson? (j : Json) : Option Jwk :=
  match j with
  | .obj _ =>
    match fieldOf j "kty", fieldOf j "crv", fieldOf j "x", fieldOf j "y", fieldOf j "n", fieldOf j "e", fieldOf j "nonce" with
    | some kty, some crv, some x, some y, some n, some e, some nonce =>
      some { kty, crv, x, y, n, e, nonce }
    | _, _, _, _, _, _, _ => none
  | _ => none

/-- `json.Marshal(jwk)` as a value -/
def toJson (k : Jwk) : Json :=
  .obj ([("kty", .str k.kty), ("crv", .str k.crv), ("x", .str k.x), ("y", .str k.y)]
    ++ (if k.n = "" then [] else [("n", .str k.n)])
    ++ (if k.e = "" then [] else [("e", .str k.e)])
    ++ (if k.nonce = "" then [] else [("nonce", .str k.nonce)]))

/-- `JWK.Validate() == nil` -/
def valid (k : Jwk) : Bool :=
  if k.kty = "" then false
  else if k.kty = "RSA" then k.n ≠ "" && k.e ≠ ""
  else k.crv ≠ "" && k.x ≠ ""

end Jwk
end Sidetree
