/-
  Public keys ↔ JWK (pkg/util/pubkey/jwk.go, pkg/jwsutil/jwk.go, go-jose's EC/OKP handling) and
  fixed-width r‖s signatures (pkg/util/ecsigner, pkg/jwsutil/signature.go).
-/
import Sidetree.Jwk
import Sidetree.Bytes

namespace Sidetree

structure Curve where
  name : String
  /-- coordinate width in bytes -/
  size : Nat
  p : Nat
  a : Nat
  b : Nat
deriving Repr

namespace Curve
def p256 : Curve :=
  { name := "P-256", size := 32,
    p := 0xffffffff00000001000000000000000000000000ffffffffffffffffffffffff,
    a := 0xffffffff00000001000000000000000000000000fffffffffffffffffffffffc,
    b := 0x5ac635d8aa3a93e7b3ebbd55769886bc651d06b0cc53b0f63bce3c3e27d2604b }
def p384 : Curve :=
  { name := "P-384", size := 48,
    p := 0xfffffffffffffffffffffffffffffffffffffffffffffffffffffffffffffffeffffffff0000000000000000ffffffff,
    a := 0xfffffffffffffffffffffffffffffffffffffffffffffffffffffffffffffffeffffffff0000000000000000fffffffc,
    b := 0xb3312fa7e23ee7e4988e056be3f82d19181d9c6efe8141120314088f5013875ac656398d8a2ed19d2a85c8edd3ec2aef }
def p521 : Curve :=
  { name := "P-521", size := 66,
    p := 2 ^ 521 - 1,
    a := 2 ^ 521 - 4,
    b := 0x0051953eb9618e1c9a1f929a21a0b68540eea2da725b99b315f3b8b489918ef109e156193951ec7e937b1652c0bd3bb1bf073573df883d2c34f1ef451fd46b503f00 }
def secp256k1 : Curve :=
  { name := "secp256k1", size := 32,
    p := 0xfffffffffffffffffffffffffffffffffffffffffffffffffffffffefffffc2f, a := 0, b := 7 }

def all : List Curve := [p256, p384, p521, secp256k1]
def byName (n : String) : Option Curve := all.find? (·.name == n)

/-- `IsOnCurve`: both coordinates reduced and y² = x³ + ax + b (mod p) -/
def onCurve (c : Curve) (x y : Nat) : Bool :=
  decide (x < c.p) && decide (y < c.p) && (y * y) % c.p == (x * x * x + c.a * x + c.b) % c.p
end Curve

/-! ### big-endian fixed width -/

def fromBE (bs : Bytes) : Nat := bs.foldl (fun acc b => acc * 256 + b.toNat) 0

/-- the `size` low-order base-256 digits of `n`, most significant first -/
def padBE : Nat → Nat → Bytes
  | _, 0 => []
  | n, size + 1 => padBE (n / 256) size ++ [(n % 256).toUInt8]

/-! ### EC keys -/

/-- `pubkey.GetPublicKeyJWK` for an EC public key (go-jose / the secp256k1 wrapper): refuses
    points that are not on the curve, encodes both coordinates at the curve's width -/
def ecToJwk (c : Curve) (x y : Nat) : Option Jwk :=
  if c.onCurve x y then
    some { kty := "EC", crv := c.name, x := b64EncodeStr (padBE x c.size), y := b64EncodeStr (padBE y c.size) }
  else none

/-- `jwsutil.JWK.UnmarshalJSON` for `kty = EC`: named curve, both coordinates present with exactly
    the curve's width, point on the curve -/
def ecFromJwk (k : Jwk) : Option (Curve × Nat × Nat) :=
  if k.kty ≠ "EC" then none
  else match Curve.byName k.crv with
    | none => none
    | some c =>
      if k.x = "" ∨ k.y = "" then none
      else match b64DecodeStr k.x, b64DecodeStr k.y with
        | some xb, some yb =>
          if xb.length ≠ c.size ∨ yb.length ≠ c.size then none
          else if c.onCurve (fromBE xb) (fromBE yb) then some (c, fromBE xb, fromBE yb) else none
        | _, _ => none

/-! ### Ed25519 keys -/

def edToJwk (pub : Bytes) : Jwk := { kty := "OKP", crv := "Ed25519", x := b64EncodeStr pub }

/-! #### edwards25519: is a 32-byte string the RFC 8032 encoding of a point? -/

namespace Ed
def p : Nat := 2 ^ 255 - 19
def d : Nat := 37095705934669439343138083508754565189542113879843219016388785533085940283555

/-- `b ^ e mod m` by repeated squaring (fuel = number of bits of `e` that are looked at) -/
def powMod (m : Nat) : Nat → Nat → Nat → Nat
  | 0, _, _ => 1 % m
  | fuel + 1, b, e =>
    if e = 0 then 1 % m
    else
      let h := powMod m fuel ((b * b) % m) (e / 2)
      if e % 2 = 1 then (b * h) % m else h

/-- little-endian value of the 32 bytes with the sign bit (top bit of the last byte) cleared, and that bit -/
def decodeY (bs : Bytes) : Nat × Bool :=
  let v := fromBE bs.reverse
  (v % 2 ^ 255, decide (v / 2 ^ 255 % 2 = 1))

/-- `y < p` and `x² = (y² - 1) / (d·y² + 1)` is a square (Euler's criterion); `x = 0` carries no sign bit -/
def isPoint (bs : Bytes) : Bool :=
  let (y, sign) := decodeY bs
  if y ≥ p then false
  else
    let y2 := (y * y) % p
    let u := (y2 + p - 1) % p
    let v := (d * y2 + 1) % p
    let x2 := (u * powMod p 256 v (p - 2)) % p
    if x2 = 0 then !sign
    else powMod p 256 x2 ((p - 1) / 2) = 1
end Ed

/-- `GetED25519PublicKey`, and `JWK.UnmarshalJSON` for an OKP key (D42): `x` must decode to exactly
    32 bytes that encode a point of the curve -/
def edFromJwk (k : Jwk) : Option Bytes :=
  if k.kty ≠ "OKP" ∨ k.crv ≠ "Ed25519" then none
  else match b64DecodeStr k.x with
    | some xb => if xb.length = 32 ∧ Ed.isPoint xb then some xb else none
    | none => none

/-! ### signatures -/

/-- fixed-width r‖s (`ecsigner.Sign`) -/
def encodeRS (size r s : Nat) : Bytes := padBE r size ++ padBE s size

/-- `verifyECSignature`: exactly `2·size` bytes, split in the middle -/
def decodeRS (size : Nat) (sig : Bytes) : Option (Nat × Nat) :=
  if sig.length ≠ 2 * size then none else some (fromBE (sig.take size), fromBE (sig.drop size))

end Sidetree
