/-
  base58 (btcutil) is lossless: `base58Decode (base58Encode bs) = some bs`, hence the text of
  `publicKeyBase58` / `publicKeyMultibase` determines the key bytes.
-/
import Sidetree.Transformer
import Sidetree.Lemmas.KeyCodec

namespace Sidetree.B58
open Sidetree

theorem alphabet_eq : b58Alphabet =
    ['1','2','3','4','5','6','7','8','9','A','B','C','D','E','F','G','H','J','K','L','M','N','P','Q','R','S','T','U','V',
     'W','X','Y','Z','a','b','c','d','e','f','g','h','i','j','k','m','n','o','p','q','r','s','t','u','v','w','x','y','z'] := by
  decide

/-- the alphabet character of a digit -/
def alpha (d : Nat) : Char := b58Alphabet.getD d '?'

/-- value of an alphabet character (its index); `none` for any other character -/
def b58Val? (c : Char) : Option Nat :=
  let i := b58Alphabet.idxOf c
  if i < 58 then some i else none

theorem b58Val?_alphabet_fin : ∀ d : Fin 58, b58Val? (b58Alphabet.getD d.val '?') = some d.val := by
  rw [alphabet_eq]; unfold b58Val?; rw [alphabet_eq]; decide

theorem b58Val?_alphabet : ∀ d, d < 58 → b58Val? (b58Alphabet.getD d '?') = some d :=
  fun d h => b58Val?_alphabet_fin ⟨d, h⟩

theorem b58Val?_one : b58Val? '1' = some 0 := b58Val?_alphabet 0 (by decide)

/-- `'1'` is the only alphabet character of value 0 -/
theorem alpha_ne_one (d : Nat) (h : d < 58) (h0 : d ≠ 0) : alpha d ≠ '1' := by
  intro e
  have h1 := b58Val?_alphabet d h
  unfold alpha at e
  rw [e, b58Val?_one] at h1
  simp only [Option.some.injEq] at h1
  exact h0 h1.symm

/-- every other alphabet character has a value ≥ 1 -/
theorem b58Val?_pos (d : Nat) (h : d < 58) (hne : alpha d ≠ '1') : ∃ v, b58Val? (alpha d) = some v ∧ 1 ≤ v := by
  refine ⟨d, b58Val?_alphabet d h, ?_⟩
  apply Nat.pos_of_ne_zero; intro h0; subst h0
  exact hne (by unfold alpha; rw [alphabet_eq]; rfl)

/-! ### the base-58 digits as numbers -/

/-- `b58Digits` before the alphabet is applied -/
def d58 : Nat → Nat → List Nat
  | 0, _ => []
  | fuel + 1, n => if n = 0 then [] else d58 fuel (n / 58) ++ [n % 58]

theorem b58Digits_eq : ∀ (f n : Nat), b58Digits f n = (d58 f n).map alpha
  | 0, _ => rfl
  | f + 1, n => by
    simp only [b58Digits, d58]
    split
    · rfl
    · simp [b58Digits_eq f (n / 58), alpha]

theorem d58_zero : ∀ f, d58 f 0 = []
  | 0 => rfl
  | f + 1 => by simp [d58]

theorem d58_lt : ∀ (f n d : Nat), d ∈ d58 f n → d < 58
  | 0, _, d, h => by simp [d58] at h
  | f + 1, n, d, h => by
    simp only [d58] at h
    split at h
    · simp at h
    · simp only [List.mem_append, List.mem_singleton] at h
      rcases h with h | h
      · exact d58_lt f _ d h
      · omega

def val58 (ds : List Nat) : Nat := ds.foldl (fun a d => a * 58 + d) 0

/-- **fuel sufficiency**: with `n < 58^fuel` the digit list denotes `n` -/
theorem d58_value : ∀ (f n : Nat), n < 58 ^ f → val58 (d58 f n) = n
  | 0, n, h => by
    have : n = 0 := by simpa using h
    subst this; rfl
  | f + 1, n, h => by
    simp only [d58]
    split
    · rename_i h0; subst h0; rfl
    · have hdiv : n / 58 < 58 ^ f := by
        rw [Nat.pow_succ] at h
        exact Nat.div_lt_of_lt_mul (by rw [Nat.mul_comm]; exact h)
      have ih := d58_value f (n / 58) hdiv
      unfold val58 at ih ⊢
      rw [List.foldl_append, ih]
      simp only [List.foldl_cons, List.foldl_nil]
      omega

/-- no leading zero digit -/
theorem d58_head : ∀ (f n : Nat), n < 58 ^ f → 0 < n → ∃ d tl, d58 f n = d :: tl ∧ d ≠ 0
  | 0, n, h, hn => by
    have : n = 0 := by simpa using h
    omega
  | f + 1, n, h, hn => by
    simp only [d58]
    rw [if_neg (by omega)]
    by_cases hq : n / 58 = 0
    · rw [hq, d58_zero]
      have : n < 58 := by
        rcases Nat.div_eq_zero_iff.1 hq with h | h <;> omega
      exact ⟨n % 58, [], rfl, by omega⟩
    · have hdiv : n / 58 < 58 ^ f := by
        rw [Nat.pow_succ] at h
        exact Nat.div_lt_of_lt_mul (by rw [Nat.mul_comm]; exact h)
      obtain ⟨d, tl, e, hd⟩ := d58_head f (n / 58) hdiv (by omega)
      exact ⟨d, tl ++ [n % 58], by rw [e]; rfl, hd⟩

/-- the value of the digit characters `b58Digits` emits is the number (fuel large enough) -/
theorem b58Digits_value (f n : Nat) (h : n < 58 ^ f) :
    ((b58Digits f n).map (fun c => (b58Val? c).getD 0)).foldl (fun a d => a * 58 + d) 0 = n := by
  have hmap : (b58Digits f n).map (fun c => (b58Val? c).getD 0) = d58 f n := by
    rw [b58Digits_eq, List.map_map]
    have : ∀ d ∈ d58 f n, ((fun c => (b58Val? c).getD 0) ∘ alpha) d = d := by
      intro d hd
      show (b58Val? (alpha d)).getD 0 = d
      unfold alpha
      rw [b58Val?_alphabet d (d58_lt f n d hd)]
      rfl
    rw [List.map_congr_left this, List.map_id']
  rw [hmap]
  exact d58_value f n h

/-- the first digit character is not `'1'` when the number is positive -/
theorem b58Digits_head (f n : Nat) (h : n < 58 ^ f) (hn : 0 < n) :
    ∃ c tl, b58Digits f n = c :: tl ∧ c ≠ '1' := by
  obtain ⟨d, tl, e, hd⟩ := d58_head f n h hn
  refine ⟨alpha d, tl.map alpha, by rw [b58Digits_eq, e]; rfl, ?_⟩
  exact alpha_ne_one d (d58_lt f n d (by rw [e]; exact List.mem_cons_self ..)) hd

/-! ### decoding -/

/-- the values of a run of alphabet characters; `none` when a character is not in the alphabet -/
def vals? : List Char → Option (List Nat)
  | [] => some []
  | c :: cs =>
    match b58Val? c, vals? cs with
    | some v, some vs => some (v :: vs)
    | _, _ => none

/-- the minimal big-endian bytes of a number (none for 0), by fuel -/
def natBytes : Nat → Nat → Bytes
  | 0, _ => []
  | fuel + 1, n => if n = 0 then [] else natBytes fuel (n / 256) ++ [(n % 256).toUInt8]

/-- btcutil `base58.Decode`: one zero byte per leading `'1'`, then the bytes of the base-58 number -/
def base58Decode (s : String) : Option Bytes :=
  let cs := s.toList
  let zeros := (cs.takeWhile (· == '1')).length
  match vals? (cs.dropWhile (· == '1')) with
  | none => none
  | some ds =>
    let n := val58 ds
    some (List.replicate zeros 0 ++ natBytes n n)

theorem vals?_map_alpha : ∀ (ds : List Nat), (∀ d ∈ ds, d < 58) → vals? (ds.map alpha) = some ds
  | [], _ => rfl
  | d :: ds, h => by
    have h1 : b58Val? (alpha d) = some d := b58Val?_alphabet d (h d (List.mem_cons_self ..))
    have h2 := vals?_map_alpha ds (fun x hx => h x (List.mem_cons_of_mem _ hx))
    simp only [List.map_cons, vals?, h1, h2]

/-! ### bytes -/

theorem fromBE_nil : fromBE [] = 0 := rfl

/-- induction from the least significant end -/
theorem rev_ind {motive : Bytes → Prop} (nil : motive [])
    (append_singleton : ∀ (bs : Bytes) (b : UInt8), motive bs → motive (bs ++ [b])) (bs : Bytes) : motive bs := by
  have : ∀ l : Bytes, motive l.reverse := by
    intro l
    induction l with
    | nil => exact nil
    | cons a l ih => rw [List.reverse_cons]; exact append_singleton _ _ ih
  have h := this bs.reverse
  rwa [List.reverse_reverse] at h

theorem fromBE_lt : ∀ (bs : Bytes), fromBE bs < 256 ^ bs.length := by
  intro bs
  induction bs using rev_ind with
  | nil => simp [fromBE]
  | append_singleton bs b ih =>
    rw [fromBE_append_byte, List.length_append, List.length_singleton, Nat.pow_succ]
    have := b.toNat_lt
    omega

theorem fromBE_zeros (z : Nat) (rest : Bytes) : fromBE (List.replicate z 0 ++ rest) = fromBE rest := by
  induction z with
  | zero => simp
  | succ z ih =>
    rw [List.replicate_succ, List.cons_append]
    unfold fromBE at ih ⊢
    rw [List.foldl_cons]
    simpa using ih

/-- no leading zero byte -/
def NoLeadZero (bs : Bytes) : Prop := bs.head? ≠ some 0

theorem fromBE_pos_of_noLead : ∀ (bs : Bytes), bs ≠ [] → NoLeadZero bs → 0 < fromBE bs := by
  intro bs
  induction bs using rev_ind with
  | nil => intro h; exact absurd rfl h
  | append_singleton bs b ih =>
    intro _ hl
    rw [fromBE_append_byte]
    cases bs with
    | nil =>
      simp only [NoLeadZero, List.nil_append, List.head?_cons, ne_eq, Option.some.injEq] at hl
      have : b.toNat ≠ 0 := fun h => hl (UInt8.toNat_inj.1 (by simpa using h))
      simp [fromBE]; omega
    | cons x xs =>
      have := ih (by simp) (by simpa [NoLeadZero] using hl)
      omega

/-- **the minimal bytes of `fromBE rest` are `rest`** when `rest` has no leading zero byte -/
theorem natBytes_fromBE : ∀ (rest : Bytes), NoLeadZero rest → ∀ f, fromBE rest < 256 ^ f →
    natBytes f (fromBE rest) = rest := by
  intro rest
  induction rest using rev_ind with
  | nil =>
    intro _ f _
    cases f <;> simp [natBytes, fromBE]
  | append_singleton bs b ih =>
    intro hl f hf
    have hpos := fromBE_pos_of_noLead (bs ++ [b]) (by simp) hl
    cases f with
    | zero => simp at hf; omega
    | succ f =>
      have hb := b.toNat_lt
      rw [fromBE_append_byte] at hf hpos ⊢
      simp only [natBytes]
      rw [if_neg (by omega)]
      have hdiv : (fromBE bs * 256 + b.toNat) / 256 = fromBE bs := by omega
      have hmod : (fromBE bs * 256 + b.toNat) % 256 = b.toNat := by omega
      rw [hdiv, hmod]
      have hlt : fromBE bs < 256 ^ f := by
        rw [Nat.pow_succ] at hf; omega
      have hbs : NoLeadZero bs := by
        cases bs with
        | nil => simp [NoLeadZero]
        | cons x xs => simpa [NoLeadZero] using hl
      rw [ih hbs f hlt]
      simp [Nat.toUInt8]

theorem takeWhile_zero_eq : ∀ (bs : Bytes), bs.takeWhile (· == 0) = List.replicate (bs.takeWhile (· == 0)).length 0
  | [] => rfl
  | b :: bs => by
    by_cases h : b = 0
    · subst h
      simp only [List.takeWhile_cons, beq_self_eq_true, if_true, List.length_cons, List.replicate_succ]
      rw [← takeWhile_zero_eq bs]
    · simp [h]

theorem dropWhile_noLead : ∀ (bs : Bytes), NoLeadZero (bs.dropWhile (· == 0))
  | [] => by simp [NoLeadZero]
  | b :: bs => by
    by_cases h : b = 0
    · subst h
      simpa [List.dropWhile_cons] using dropWhile_noLead bs
    · simp [h, NoLeadZero]

/-! ### characters -/

theorem takeWhile_ones (z : Nat) (D : List Char) (hD : D.head? ≠ some '1') :
    (List.replicate z '1' ++ D).takeWhile (· == '1') = List.replicate z '1' ∧
    (List.replicate z '1' ++ D).dropWhile (· == '1') = D := by
  induction z with
  | zero =>
    cases D with
    | nil => simp
    | cons c tl =>
      have : c ≠ '1' := by simpa using hD
      simp [this]
  | succ z ih =>
    simp only [List.replicate_succ, List.cons_append, List.takeWhile_cons, List.dropWhile_cons,
      beq_self_eq_true, if_true, ih.1, ih.2, and_self]

/-! ### the round trip -/

/-- **base58 is lossless** -/
theorem base58_roundtrip (bs : Bytes) : base58Decode (base58Encode bs) = some bs := by
  -- the bytes: zeros then a rest without a leading zero
  have hsplit : List.replicate (bs.takeWhile (· == 0)).length 0 ++ bs.dropWhile (· == 0) = bs := by
    rw [← takeWhile_zero_eq]; exact List.takeWhile_append_dropWhile
  have hN : fromBE bs = fromBE (bs.dropWhile (· == 0)) := by
    conv => lhs; rw [← hsplit]
    exact fromBE_zeros _ _
  -- fuel
  have hfuel : fromBE bs < 58 ^ (bs.length * 2 + 1) := by
    have h1 := fromBE_lt bs
    have h2 : 256 ^ bs.length ≤ (58 ^ 2) ^ bs.length := Nat.pow_le_pow_left (by decide) _
    have h3 : (58 ^ 2) ^ bs.length = 58 ^ (bs.length * 2) := by rw [← Nat.pow_mul, Nat.mul_comm]
    have h4 : 58 ^ (bs.length * 2) ≤ 58 ^ (bs.length * 2 + 1) := Nat.pow_le_pow_right (by decide) (by omega)
    omega
  -- the digit characters
  have hhead : (b58Digits (bs.length * 2 + 1) (fromBE bs)).head? ≠ some '1' := by
    rcases Nat.eq_zero_or_pos (fromBE bs) with h0 | hpos
    · rw [h0, b58Digits_eq, d58_zero]; simp
    · obtain ⟨c, tl, e, hc⟩ := b58Digits_head _ _ hfuel hpos
      rw [e]; simpa using hc
  obtain ⟨ht, hd⟩ := takeWhile_ones (bs.takeWhile (· == 0)).length _ hhead
  unfold base58Decode base58Encode
  simp only [String.toList_ofList, ht, hd, List.length_replicate]
  rw [b58Digits_eq, vals?_map_alpha _ (d58_lt _ _)]
  simp only [d58_value _ _ hfuel]
  rw [hN, natBytes_fromBE _ (dropWhile_noLead bs) _ (Nat.lt_pow_self (by decide))]
  rw [hsplit]

/-- **the text determines the bytes** -/
theorem base58Encode_injective (a b : Bytes) (h : base58Encode a = base58Encode b) : a = b := by
  have := congrArg base58Decode h
  rw [base58_roundtrip, base58_roundtrip, Option.some.injEq] at this
  exact this

/-- the multibase (base58btc, prefix `z`) form determines the bytes too -/
theorem multibase_injective (a b : Bytes) (h : "z" ++ base58Encode a = "z" ++ base58Encode b) : a = b := by
  apply base58Encode_injective
  have := congrArg String.toList h
  rw [String.toList_append, String.toList_append] at this
  exact String.toList_inj.1 (List.append_cancel_left this)

/-! ### non-vacuity -/

example : base58Decode (base58Encode [0, 0, 1, 2, 3]) = some [0, 0, 1, 2, 3] := base58_roundtrip _

example : (base58Encode [0, 0, 1, 2, 3]).toList = ['1', '1', 'L', 'd', 'p'] := by
  simp only [base58Encode, String.toList_ofList]; decide

example : (base58Encode (List.replicate 32 0)).toList = List.replicate 32 '1' := by
  simp only [base58Encode, String.toList_ofList]; decide

/-- the decoder on the concrete text `11Ldp`, evaluated -/
example : base58Decode (String.ofList ['1', '1', 'L', 'd', 'p']) = some [0, 0, 1, 2, 3] := by
  simp only [base58Decode, String.toList_ofList]
  decide

end Sidetree.B58
