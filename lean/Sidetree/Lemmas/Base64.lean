/-
  Unpadded base64url: decoding an encoding gives the bytes back; the encoding is injective.
-/
import Sidetree.Bytes

namespace Sidetree

/-- the 6-bit values `b64Encode` emits -/
def encVals : Bytes → List Nat
  | a :: b :: c :: rest =>
    let n := a.toNat * 65536 + b.toNat * 256 + c.toNat
    (n / 262144) :: (n / 4096 % 64) :: (n / 64 % 64) :: (n % 64) :: encVals rest
  | [a, b] =>
    let n := a.toNat * 65536 + b.toNat * 256
    [n / 262144, n / 4096 % 64, n / 64 % 64]
  | [a] =>
    let n := a.toNat * 65536
    [n / 262144, n / 4096 % 64]
  | [] => []

theorem b64Encode_eq_map : ∀ bs, b64Encode bs = (encVals bs).map b64Char
  | a :: b :: c :: rest => by simp [b64Encode, encVals, b64Encode_eq_map rest]
  | [a, b] => by simp [b64Encode, encVals]
  | [a] => by simp [b64Encode, encVals]
  | [] => by simp [b64Encode, encVals]

theorem encVals_lt : ∀ bs, ∀ v ∈ encVals bs, v < 64
  | a :: b :: c :: rest => by
    intro v hv
    have ha := a.toNat_lt; have hb := b.toNat_lt; have hc := c.toNat_lt
    simp only [encVals, List.mem_cons] at hv
    rcases hv with h | h | h | h | h
    · omega
    · omega
    · omega
    · omega
    · exact encVals_lt rest v h
  | [a, b] => by
    intro v hv
    have ha := a.toNat_lt; have hb := b.toNat_lt
    simp only [encVals, List.mem_cons, List.not_mem_nil, or_false] at hv
    rcases hv with h | h | h <;> omega
  | [a] => by
    intro v hv
    have ha := a.toNat_lt
    simp only [encVals, List.mem_cons, List.not_mem_nil, or_false] at hv
    rcases hv with h | h <;> omega
  | [] => by intro v hv; cases hv

theorem b64Char_spec : ∀ n : Fin 64,
    b64Val? (b64Char n.val) = some n.val ∧ b64Char n.val ≠ '\r' ∧ b64Char n.val ≠ '\n' := by decide

theorem b64Val_b64Char (n : Nat) (h : n < 64) : b64Val? (b64Char n) = some n :=
  (b64Char_spec ⟨n, h⟩).1

theorem toUInt8_toNat (a : UInt8) : a.toNat.toUInt8 = a := by
  apply UInt8.toNat_inj.mp
  simp

theorem b64DecodeVals_encVals : ∀ bs, b64DecodeVals (encVals bs) = some bs
  | a :: b :: c :: rest => by
    have ha := a.toNat_lt; have hb := b.toNat_lt; have hc := c.toNat_lt
    simp only [encVals, b64DecodeVals, b64DecodeVals_encVals rest, Option.map_some]
    have e1 : ((a.toNat * 65536 + b.toNat * 256 + c.toNat) / 262144 * 262144 +
        (a.toNat * 65536 + b.toNat * 256 + c.toNat) / 4096 % 64 * 4096 +
        (a.toNat * 65536 + b.toNat * 256 + c.toNat) / 64 % 64 * 64 +
        (a.toNat * 65536 + b.toNat * 256 + c.toNat) % 64) = a.toNat * 65536 + b.toNat * 256 + c.toNat := by omega
    rw [e1]
    have x1 : (a.toNat * 65536 + b.toNat * 256 + c.toNat) / 65536 = a.toNat := by omega
    have x2 : (a.toNat * 65536 + b.toNat * 256 + c.toNat) / 256 % 256 = b.toNat := by omega
    have x3 : (a.toNat * 65536 + b.toNat * 256 + c.toNat) % 256 = c.toNat := by omega
    rw [x1, x2, x3, toUInt8_toNat, toUInt8_toNat, toUInt8_toNat]
  | [a, b] => by
    have ha := a.toNat_lt; have hb := b.toNat_lt
    simp only [encVals, b64DecodeVals]
    have e1 : ((a.toNat * 65536 + b.toNat * 256) / 262144 * 262144 +
        (a.toNat * 65536 + b.toNat * 256) / 4096 % 64 * 4096 +
        (a.toNat * 65536 + b.toNat * 256) / 64 % 64 * 64) = a.toNat * 65536 + b.toNat * 256 := by omega
    rw [e1]
    have x1 : (a.toNat * 65536 + b.toNat * 256) / 65536 = a.toNat := by omega
    have x2 : (a.toNat * 65536 + b.toNat * 256) / 256 % 256 = b.toNat := by omega
    rw [x1, x2, toUInt8_toNat, toUInt8_toNat]
  | [a] => by
    have ha := a.toNat_lt
    simp only [encVals, b64DecodeVals]
    have e1 : ((a.toNat * 65536) / 262144 * 262144 + (a.toNat * 65536) / 4096 % 64 * 4096) = a.toNat * 65536 := by omega
    rw [e1]
    have x1 : (a.toNat * 65536) / 65536 = a.toNat := by omega
    rw [x1, toUInt8_toNat]
  | [] => by simp [encVals, b64DecodeVals]

theorem mapM?_map_b64 : ∀ (vs : List Nat), (∀ v ∈ vs, v < 64) → mapM? b64Val? (vs.map b64Char) = some vs
  | [], _ => rfl
  | v :: vs, h => by
    have hv := b64Val_b64Char v (h v (List.mem_cons_self ..))
    have ih := mapM?_map_b64 vs (fun x hx => h x (List.mem_cons_of_mem _ hx))
    simp [mapM?, hv, ih]

theorem filter_crlf_map_b64 : ∀ (vs : List Nat), (∀ v ∈ vs, v < 64) →
    (vs.map b64Char).filter (fun c => c ≠ '\r' ∧ c ≠ '\n') = vs.map b64Char
  | [], _ => rfl
  | v :: vs, h => by
    have hv := b64Char_spec ⟨v, h v (List.mem_cons_self ..)⟩
    have ih := filter_crlf_map_b64 vs (fun x hx => h x (List.mem_cons_of_mem _ hx))
    have h1 : b64Char v ≠ '\r' := hv.2.1
    have h2 : b64Char v ≠ '\n' := hv.2.2
    rw [List.map_cons, List.filter_cons, ih]
    simp [h1, h2]

/-- **decode ∘ encode = id** -/
theorem b64_decode_encode (bs : Bytes) : b64Decode (b64Encode bs) = some bs := by
  unfold b64Decode
  rw [b64Encode_eq_map, filter_crlf_map_b64 _ (encVals_lt bs)]
  show (mapM? b64Val? (List.map b64Char (encVals bs))).bind b64DecodeVals = some bs
  rw [mapM?_map_b64 _ (encVals_lt bs)]
  simp [b64DecodeVals_encVals]

theorem b64_encode_injective (a b : Bytes) (h : b64Encode a = b64Encode b) : a = b := by
  have ha := b64_decode_encode a
  rw [h, b64_decode_encode b] at ha
  exact (Option.some.inj ha).symm

theorem b64_decode_encode_str (bs : Bytes) : b64DecodeStr (b64EncodeStr bs) = some bs := by
  simp [b64DecodeStr, b64EncodeStr, b64_decode_encode]

theorem b64_decode_strict_encode_str (bs : Bytes) : b64DecodeStrictStr (b64EncodeStr bs) = some bs := by
  simp [b64DecodeStrictStr, b64EncodeStr, b64_decode_encode]

/-- the strict decoder accepts exactly the canonical text of a value -/
theorem b64_decode_strict_inv (s : String) (bs : Bytes) (h : b64DecodeStrictStr s = some bs) :
    b64DecodeStr s = some bs ∧ s = b64EncodeStr bs := by
  unfold b64DecodeStrictStr at h
  cases hd : b64Decode s.toList with
  | none => simp [hd] at h
  | some bs' =>
    simp only [hd] at h
    by_cases he : b64Encode bs' = s.toList
    · simp only [he, if_true, Option.some.injEq] at h
      subst h
      refine ⟨hd, ?_⟩
      apply String.toList_inj.mp
      simp [b64EncodeStr, he]
    · simp [he] at h

end Sidetree
