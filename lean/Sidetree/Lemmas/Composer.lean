/-
  Lemmas about the composer's id-keyed list operations.
-/
import Sidetree.Composer
import Sidetree.Lemmas.JsonPatch

namespace Sidetree.Composer
open Sidetree Sidetree.Patch

theorem idOf_swap (e x : Json) : idOf (if idOf x = idOf e then e else x) = idOf x := by
  split <;> simp_all

theorem upsertStep_ids (ids : List String) (cur : List Json) (e : Json) :
    (upsertStep ids cur e).map idOf =
      if ids.contains (idOf e) then cur.map idOf else cur.map idOf ++ [idOf e] := by
  unfold upsertStep
  split
  · simp only [List.map_map]
    congr 1
    funext x
    exact idOf_swap e x
  · simp

/-- ids after an upsert: the existing ids in their order, then the ids of the entries that were
    not there before, in patch order -/
theorem foldl_upsert_ids (ids : List String) : ∀ (adds cur : List Json),
    (adds.foldl (upsertStep ids) cur).map idOf =
      cur.map idOf ++ (adds.filter fun e => !ids.contains (idOf e)).map idOf
  | [], cur => by simp
  | e :: rest, cur => by
    simp only [List.foldl_cons]
    rw [foldl_upsert_ids ids rest, upsertStep_ids]
    by_cases h : idOf e ∈ ids
    · simp [h]
    · simp [h]

theorem upsertById_ids (existing adds : List Json) :
    (upsertById existing adds).map idOf =
      existing.map idOf ++ (adds.filter fun e => !(existing.map idOf).contains (idOf e)).map idOf :=
  foldl_upsert_ids _ adds existing

/-- unique ids are preserved by an upsert of entries with unique ids -/
theorem upsertById_nodup (existing adds : List Json)
    (h1 : (existing.map idOf).Nodup) (h2 : (adds.map idOf).Nodup) :
    ((upsertById existing adds).map idOf).Nodup := by
  rw [upsertById_ids]
  refine List.nodup_append.mpr ⟨h1, ?_, ?_⟩
  · exact (List.Sublist.map idOf List.filter_sublist).nodup h2
  · intro a ha b hb hab
    subst hab
    rcases List.mem_map.mp hb with ⟨e, he, hea⟩
    have := (List.mem_filter.mp he).2
    rw [hea] at this
    have hc : (existing.map idOf).contains a = true := List.contains_iff_mem.mpr ha
    rw [hc] at this
    cases this

/-- an entry whose id was present replaces the existing entry in place -/
theorem upsert_replaces_in_place (existing : List Json) (e : Json) (h : (existing.map idOf).contains (idOf e) = true) :
    upsertById existing [e] = existing.map (fun x => if idOf x = idOf e then e else x) := by
  simp only [upsertById, upsertStep, List.foldl_cons, List.foldl_nil, h, if_true]

/-- an entry whose id was not present is appended -/
theorem upsert_appends_new (existing : List Json) (e : Json) (h : (existing.map idOf).contains (idOf e) = false) :
    upsertById existing [e] = existing ++ [e] := by
  simp only [upsertById, upsertStep, List.foldl_cons, List.foldl_nil, h, Bool.false_eq_true, if_false]

/-- every result entry is an existing entry or one of the added entries -/
theorem upsertStep_mem (ids : List String) (cur : List Json) (e x : Json) (h : x ∈ upsertStep ids cur e) :
    x ∈ cur ∨ x = e := by
  unfold upsertStep at h
  split at h
  · rcases List.mem_map.mp h with ⟨y, hy, hxy⟩
    split at hxy
    · right; exact hxy.symm
    · left; rw [← hxy]; exact hy
  · rcases List.mem_append.mp h with h | h
    · left; exact h
    · right; simpa using h

theorem foldl_upsert_mem (ids : List String) : ∀ (adds cur : List Json) (x : Json),
    x ∈ adds.foldl (upsertStep ids) cur → x ∈ cur ∨ x ∈ adds
  | [], cur, x, h => Or.inl h
  | e :: rest, cur, x, h => by
    simp only [List.foldl_cons] at h
    rcases foldl_upsert_mem ids rest _ x h with h | h
    · rcases upsertStep_mem ids cur e x h with h | h
      · left; exact h
      · right; rw [h]; exact List.mem_cons_self ..
    · right; exact List.mem_cons_of_mem _ h

/-! removal -/

theorem removeByIds_ids (existing : List Json) (ids : List String) :
    (removeByIds existing ids).map idOf = (existing.map idOf).filter fun i => !ids.contains i := by
  unfold removeByIds
  induction existing with
  | nil => rfl
  | cons x xs ih =>
    simp only [List.filter_cons, List.map_cons]
    split <;> simp_all

theorem removeByIds_nodup (existing : List Json) (ids : List String) (h : (existing.map idOf).Nodup) :
    ((removeByIds existing ids).map idOf).Nodup := by
  rw [removeByIds_ids]
  exact (List.filter_sublist).nodup h

/-- unknown ids are ignored -/
theorem removeByIds_unknown (existing : List Json) (ids : List String)
    (h : ∀ i ∈ ids, i ∉ existing.map idOf) : removeByIds existing ids = existing := by
  unfold removeByIds
  apply List.filter_eq_self.mpr
  intro x hx
  have : ids.contains (idOf x) = false := by
    cases hc : ids.contains (idOf x)
    · rfl
    · exact absurd (List.mem_map.mpr ⟨x, hx, rfl⟩) (h _ (List.contains_iff_mem.mp hc))
  rw [this]; rfl

/-! also-known-as -/

theorem orderedUnion_nodup (existing adds : List String) (h1 : existing.Nodup) (h2 : adds.Nodup) :
    (orderedUnion existing adds).Nodup := by
  unfold orderedUnion
  refine List.nodup_append.mpr ⟨h1, (List.filter_sublist).nodup h2, ?_⟩
  intro a ha b hb hab
  subst hab
  have := (List.mem_filter.mp hb).2
  have hc : existing.contains a = true := List.contains_iff_mem.mpr ha
  rw [hc] at this
  cases this

theorem orderedUnion_mem (existing adds : List String) (u : String) :
    u ∈ orderedUnion existing adds ↔ u ∈ existing ∨ u ∈ adds := by
  unfold orderedUnion
  simp only [List.mem_append, List.mem_filter, Bool.not_eq_true', ]
  constructor
  · rintro (h | ⟨h, _⟩)
    · left; exact h
    · right; exact h
  · rintro (h | h)
    · left; exact h
    · by_cases he : u ∈ existing
      · left; exact he
      · right
        refine ⟨h, ?_⟩
        cases hc : existing.contains u
        · rfl
        · exact absurd (List.contains_iff_mem.mp hc) he

theorem orderedDiff_mem (existing removes : List String) (u : String) :
    u ∈ orderedDiff existing removes ↔ u ∈ existing ∧ u ∉ removes := by
  unfold orderedDiff
  simp only [List.mem_filter, Bool.not_eq_true']
  constructor
  · rintro ⟨h1, h2⟩
    refine ⟨h1, fun hm => ?_⟩
    rw [List.contains_iff_mem.mpr hm] at h2; cases h2
  · rintro ⟨h1, h2⟩
    refine ⟨h1, ?_⟩
    cases hc : removes.contains u
    · rfl
    · exact absurd (List.contains_iff_mem.mp hc) h2

theorem orderedDiff_sublist (existing removes : List String) : (orderedDiff existing removes).Sublist existing :=
  List.filter_sublist

end Sidetree.Composer
