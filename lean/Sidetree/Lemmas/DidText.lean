/-
  Text-level lemmas about long-form DIDs (`ParseDID`): what `ns:suffix:initial-state` splits into,
  and the constructive direction of C17 — a DID whose parts fit does resolve.
-/
import Sidetree.Did
namespace Sidetree.DidText
open Sidetree Sidetree.Did

theorem count_le_of_isPrefixOf (pat t : List Char) (h : pat.isPrefixOf t = true) : pat.count ':' ≤ t.count ':' := by
  have := List.isPrefixOf_iff_prefix.mp h
  exact this.sublist.count_le ':'

/-- nothing to remove: the pattern has more colons than the text -/
theorem removeAll_noocc (pat : List Char) : ∀ (fuel : Nat) (s : List Char), s.count ':' < pat.count ':' →
    removeAll pat fuel s = s
  | 0, s, _ => by simp [removeAll]
  | fuel + 1, [], _ => by simp [removeAll]
  | fuel + 1, c :: rest, h => by
    have hnp : pat.isPrefixOf (c :: rest) = false := by
      cases hp : pat.isPrefixOf (c :: rest) with
      | false => rfl
      | true => have := count_le_of_isPrefixOf pat _ hp; omega
    have hrest : rest.count ':' < pat.count ':' := by
      have : rest.count ':' ≤ (c :: rest).count ':' := (List.sublist_cons_self c rest).count_le ':'
      omega
    simp [removeAll, hnp, removeAll_noocc pat fuel rest hrest]

theorem removeAll_long (ns suffix initial : List Char) (hns : ':' ∈ ns) (hs : ':' ∉ suffix) (hi : ':' ∉ initial) (fuel : Nat) :
    removeAll (ns ++ [':']) (fuel + 1) ((ns ++ [':']) ++ (suffix ++ ':' :: initial)) = suffix ++ ':' :: initial := by
  have hcount : (suffix ++ ':' :: initial).count ':' < (ns ++ [':']).count ':' := by
    simp only [List.count_append, List.count_cons_self, List.count_nil]
    have h1 : suffix.count ':' = 0 := List.count_eq_zero.mpr hs
    have h2 : initial.count ':' = 0 := List.count_eq_zero.mpr hi
    have h3 : 0 < ns.count ':' := List.count_pos_iff.mpr hns
    omega
  cases hne : ns ++ [':'] with
  | nil => simp at hne
  | cons c rest =>
    rw [← hne]
    have hl : (ns ++ [':']) ++ (suffix ++ ':' :: initial) = c :: (rest ++ (suffix ++ ':' :: initial)) := by rw [hne]; rfl
    rw [hl, removeAll]
    have hp : (ns ++ [':']).isPrefixOf (c :: (rest ++ (suffix ++ ':' :: initial))) = true := by
      rw [← hl]; exact List.isPrefixOf_iff_prefix.mpr (List.prefix_append _ _)
    have hne' : (ns ++ [':']).isEmpty = false := by simp
    simp only [hp, hne', Bool.not_false, and_self, if_true]
    rw [← hl, List.drop_left]
    exact removeAll_noocc _ fuel _ hcount

theorem lastIndexOf_colon (a b : List Char) (hb : ':' ∉ b) : lastIndexOf ':' (a ++ ':' :: b) = some a.length := by
  unfold lastIndexOf
  have hrev : (a ++ ':' :: b).reverse = b.reverse ++ ':' :: a.reverse := by simp
  have hf : (b.reverse ++ ':' :: a.reverse).findIdx? (· == ':') = some b.length := by
    rw [List.findIdx?_append]
    have hnone : b.reverse.findIdx? (· == ':') = none := by
      rw [List.findIdx?_eq_none_iff]
      intro x hx
      have : x ∈ b := List.mem_reverse.mp hx
      simp
      intro e; subst e; exact hb this
    simp [hnone, List.findIdx?_cons]
  simp only [hrev, hf, Option.map_some, List.length_append, List.length_cons]
  congr 1
  omega


theorem go_length : ∀ (s cur : List Char), (splitColon.go s cur).length = s.count ':' + 1
  | [], cur => by simp [splitColon.go]
  | c :: rest, cur => by
    by_cases hc : c = ':'
    · subst hc; simp [splitColon.go, go_length rest []]
    · simp [splitColon.go, hc, go_length rest (c :: cur)]

theorem go_ne_nil (s cur : List Char) : splitColon.go s cur ≠ [] := by
  intro e
  have := go_length s cur
  rw [e] at this
  simp at this

theorem go_nocolon : ∀ (s cur : List Char), ':' ∉ s → splitColon.go s cur = [cur.reverse ++ s]
  | [], cur, _ => by simp [splitColon.go]
  | c :: rest, cur, h => by
    have hc : c ≠ ':' := by intro e; subst e; simp at h
    have hr : ':' ∉ rest := fun hm => h (List.mem_cons_of_mem _ hm)
    simp [splitColon.go, hc, go_nocolon rest (c :: cur) hr]

theorem go_last : ∀ (x cur suffix : List Char), ':' ∉ suffix →
    (splitColon.go (x ++ ':' :: suffix) cur).getLast? = some suffix
  | [], cur, suffix, h => by simp [splitColon.go, go_nocolon suffix [] h]
  | c :: x, cur, suffix, h => by
    by_cases hc : c = ':'
    · subst hc
      simp only [List.cons_append, splitColon.go, if_true]
      rw [List.getLast?_cons_of_ne_nil (go_ne_nil _ _)]
      exact go_last x [] suffix h
    · simp only [List.cons_append, splitColon.go, hc, if_false]
      exact go_last x (c :: cur) suffix h

theorem splitColon_long (ns suffix : List Char) (hns : ':' ∈ ns) (hs : ':' ∉ suffix) :
    (splitColon (ns ++ ':' :: suffix)).getLast? = some suffix ∧ 3 ≤ (splitColon (ns ++ ':' :: suffix)).length := by
  constructor
  · exact go_last ns [] suffix hs
  · unfold splitColon
    rw [go_length]
    have h3 : 0 < ns.count ':' := List.count_pos_iff.mpr hns
    simp only [List.count_append, List.count_cons_self]
    omega


theorem colon_toList : (":" : String).toList = [':'] := by decide

/-- **`ParseDID` reads a long-form DID back**: namespace (containing a colon, as every `did:method`
    does), a colon-free suffix, a colon-free initial state that `parseInitialState` accepts -/
theorem parseDID_long (ns suffix initial : String) (c : Parser.CreateReq) (canon : List Char) (req : Json)
    (hns : ':' ∈ ns.toList) (hs : ':' ∉ suffix.toList) (hi : ':' ∉ initial.toList)
    (hpi : parseInitialState initial = some c)
    (hc : transformValue (createRequestJson "create" c) = some canon) (hreq : Parse.parse canon = some req) :
    parseDID ns (ns ++ ":" ++ suffix ++ ":" ++ initial) =
      .long (ns ++ ":" ++ suffix) initial req (utf8Len (String.ofList canon)) := by
  have hdid : (ns ++ ":" ++ suffix ++ ":" ++ initial).toList =
      (ns.toList ++ [':']) ++ (suffix.toList ++ ':' :: initial.toList) := by
    simp [String.toList_append, colon_toList]
  have hdid2 : (ns ++ ":" ++ suffix ++ ":" ++ initial).toList =
      (ns.toList ++ ':' :: suffix.toList) ++ ':' :: initial.toList := by
    simp [String.toList_append, colon_toList]
  unfold parseDID
  simp only
  rw [hdid, removeAll_long ns.toList suffix.toList initial.toList hns hs hi]
  have hcont : (suffix.toList ++ ':' :: initial.toList).contains ':' = true := by simp
  simp only [hcont, Bool.not_true, Bool.false_eq_true, if_false]
  rw [← hdid, hdid2, lastIndexOf_colon _ _ hi]
  simp only
  have htake : String.ofList (((ns.toList ++ ':' :: suffix.toList) ++ ':' :: initial.toList).take (ns.toList ++ ':' :: suffix.toList).length)
      = ns ++ ":" ++ suffix := by
    rw [List.take_left]
    apply String.toList_inj.mp
    simp [String.toList_append, colon_toList]
  have hdrop : String.ofList (((ns.toList ++ ':' :: suffix.toList) ++ ':' :: initial.toList).drop ((ns.toList ++ ':' :: suffix.toList).length + 1))
      = initial := by
    have : ((ns.toList ++ ':' :: suffix.toList) ++ ':' :: initial.toList).drop ((ns.toList ++ ':' :: suffix.toList).length + 1) = initial.toList := by
      rw [← List.drop_drop, List.drop_left]; rfl
    rw [this]; simp
  rw [htake, hdrop, hpi]
  simp only [hc, hreq]


/-- **a long-form DID whose parts fit resolves**, to the create response for the embedded request -/
theorem resolve_long (H : HashFam) (orc : Oracles) (ns suffix initial : String) (c : Parser.CreateReq) (canon : List Char)
    (req : Json) (op : Parser.PublicOp)
    (hns : ':' ∈ ns.toList) (hs : ':' ∉ suffix.toList) (hi : ':' ∉ initial.toList)
    (hpi : parseInitialState initial = some c)
    (hc : transformValue (createRequestJson "create" c) = some canon) (hreq : Parse.parse canon = some req)
    (hparse : Parser.parse H defaultCfg orc ns (utf8Len (String.ofList canon)) (some req) = some op)
    (hsuf : op.uniqueSuffix = suffix) :
    resolve H orc ns (ns ++ ":" ++ suffix ++ ":" ++ initial) =
      createResponse H orc suffix req (utf8Len (String.ofList canon))
        (unpublishedInfo ns suffix initial) := by
  have hdid : (ns ++ ":" ++ suffix ++ ":" ++ initial).toList =
      (ns.toList ++ [':']) ++ (suffix.toList ++ ':' :: initial.toList) := by
    simp [String.toList_append, colon_toList]
  have hpre : (ns.toList ++ [':']).isPrefixOf (ns ++ ":" ++ suffix ++ ":" ++ initial).toList = true := by
    rw [hdid]; exact List.isPrefixOf_iff_prefix.mpr (List.prefix_append _ _)
  have hdid' : (ns ++ ":" ++ suffix).toList = ns.toList ++ ':' :: suffix.toList := by
    simp [String.toList_append, colon_toList]
  obtain ⟨hlast, hlen⟩ := splitColon_long ns.toList suffix.toList hns hs
  unfold resolve
  simp only [hpre, Bool.not_true, Bool.false_eq_true, if_false,
    parseDID_long ns suffix initial c canon req hns hs hi hpi hc hreq, hdid', hparse]
  have hlen' : ¬ (splitColon (ns.toList ++ ':' :: suffix.toList)).length < 3 := by omega
  simp only [hlen', if_false, hlast, Option.getD_some, String.ofList_toList, hsuf, ne_eq, not_true_eq_false]

end Sidetree.DidText
