/-
  Escape spelling invariance of strings: every way RFC 8259 §7 allows a character to be written
  inside a string — raw, a two-character escape, `\uXXXX` with hex digits in either letter case, a
  surrogate pair of `\u` escapes for a character above U+FFFF — is read as that character; so all
  spellings of a string, of a member name, of a whole value are read alike.
-/
import Sidetree.Lemmas.Whitespace

namespace Sidetree.ES
open Sidetree Sidetree.Parse Sidetree.Json Sidetree.RT Sidetree.WS

/-- four hex digits (either letter case: `hexVal?` accepts `0-9`, `a-f`, `A-F`) with value `n` -/
def Hex4 (n : Nat) (h : List Char) : Prop :=
  ∃ a b c d va vb vc vd, h = [a, b, c, d] ∧ hexVal? a = some va ∧ hexVal? b = some vb ∧ hexVal? c = some vc ∧
    hexVal? d = some vd ∧ n = va * 4096 + vb * 256 + vc * 16 + vd

/-- every way the reader accepts one character inside a string -/
inductive SpellsChar : Char → List Char → Prop
  | raw (c : Char) : c ≠ '"' → c ≠ '\\' → ¬ c.toNat < 0x20 → SpellsChar c [c]
  | quote : SpellsChar '"' ['\\', '"']
  | backslash : SpellsChar '\\' ['\\', '\\']
  | slash : SpellsChar '/' ['\\', '/']
  | b : SpellsChar (Char.ofNat 8) ['\\', 'b']
  | f : SpellsChar (Char.ofNat 12) ['\\', 'f']
  | n : SpellsChar '\n' ['\\', 'n']
  | r : SpellsChar '\r' ['\\', 'r']
  | t : SpellsChar '\t' ['\\', 't']
  /-- `\uXXXX` for a character of the basic plane (its code point; never a surrogate code unit) -/
  | u (c : Char) (h : List Char) : c.toNat < 0x10000 → Hex4 c.toNat h → SpellsChar c ('\\' :: 'u' :: h)
  /-- `\uHHHH\uLLLL`, high then low surrogate, for a character above U+FFFF -/
  | pair (c : Char) (h l : List Char) : 0x10000 ≤ c.toNat →
      Hex4 (0xD800 + (c.toNat - 0x10000) / 0x400) h → Hex4 (0xDC00 + (c.toNat - 0x10000) % 0x400) l →
      SpellsChar c ('\\' :: 'u' :: h ++ '\\' :: 'u' :: l)

/-- a string body: the spellings of its characters one after another -/
inductive SpellsBody : List Char → List Char → Prop
  | nil : SpellsBody [] []
  | cons (c : Char) (sp : List Char) (cs body : List Char) : SpellsChar c sp → SpellsBody cs body →
      SpellsBody (c :: cs) (sp ++ body)

/-- a spelling of a string: quotes around a spelling of its characters -/
def SpellsStr (s : String) (t : List Char) : Prop := ∃ body, SpellsBody s.toList body ∧ t = '"' :: body ++ ['"']

theorem hex4Val_of_Hex4 (n : Nat) (h rest : List Char) (hh : Hex4 n h) : hex4Val? (h ++ rest) = some (n, rest) := by
  obtain ⟨a, b, c, d, va, vb, vc, vd, rfl, ha, hb, hc, hd, rfl⟩ := hh
  simp [hex4Val?, ha, hb, hc, hd]

theorem char_valid (c : Char) : c.toNat < 0xD800 ∨ (0xDFFF < c.toNat ∧ c.toNat < 0x110000) := c.valid

/-- one spelled character: the reader takes it and goes on -/
theorem parseStringBody_spelledChar (c : Char) (sp : List Char) (h : SpellsChar c sp) (acc tail : List Char) (fuel : Nat) :
    parseStringBody (fuel + 1) acc (sp ++ tail) = parseStringBody fuel (c :: acc) tail := by
  have ofNat : Char.ofNat c.toNat = c := Char.ofNat_toNat c
  cases h with
  | raw _ hq hb hc =>
    simp only [List.cons_append, List.nil_append]
    conv => lhs; unfold parseStringBody
    split
    · rename_i heq; simp at heq
    · rename_i heq; simp only [List.cons.injEq] at heq; exact absurd heq.1 hq
    · rename_i heq; simp only [List.cons.injEq] at heq; exact absurd heq.1 hb
    · rename_i c' rest' _ _ heq
      simp only [List.cons.injEq] at heq
      obtain ⟨e1, e2⟩ := heq
      subst e1; subst e2
      simp [hc]
  | quote => simp [parseStringBody]
  | backslash => simp [parseStringBody]
  | slash => simp [parseStringBody]
  | b => simp [parseStringBody]
  | f => simp [parseStringBody]
  | n => simp [parseStringBody]
  | r => simp [parseStringBody]
  | t => simp [parseStringBody]
  | u _ h hlt hh =>
    have hx := hex4Val_of_Hex4 c.toNat h tail hh
    have hv := char_valid c
    simp only [List.cons_append, parseStringBody, if_true, hx]
    have n1 : ¬ (0xD800 ≤ c.toNat ∧ c.toNat < 0xDC00) := by omega
    have n2 : ¬ (0xDC00 ≤ c.toNat ∧ c.toNat < 0xE000) := by omega
    simp [n1, n2, ofNat]
  | pair _ h l hge hh hl =>
    have hv := char_valid c
    have hx := hex4Val_of_Hex4 _ h ('\\' :: 'u' :: l ++ tail) hh
    have hy := hex4Val_of_Hex4 _ l tail hl
    have e : '\\' :: 'u' :: h ++ '\\' :: 'u' :: l ++ tail = '\\' :: 'u' :: (h ++ ('\\' :: 'u' :: l ++ tail)) := by simp
    rw [e]
    simp only [parseStringBody, if_true, hx]
    have p1 : 0xD800 ≤ 0xD800 + (c.toNat - 0x10000) / 0x400 ∧ 0xD800 + (c.toNat - 0x10000) / 0x400 < 0xDC00 := by omega
    have p2 : 0xDC00 ≤ 0xDC00 + (c.toNat - 0x10000) % 0x400 ∧ 0xDC00 + (c.toNat - 0x10000) % 0x400 < 0xE000 := by omega
    simp only [p1, and_self, if_true, List.cons_append, hy, p2]
    have : 0x10000 + (0xD800 + (c.toNat - 0x10000) / 0x400 - 0xD800) * 0x400 + (0xDC00 + (c.toNat - 0x10000) % 0x400 - 0xDC00) = c.toNat := by
      omega
    rw [this, ofNat]


theorem spellsChar_length (c : Char) (sp : List Char) (h : SpellsChar c sp) : 1 ≤ sp.length := by
  cases h <;> simp

theorem spellsBody_length : ∀ (cs body : List Char), SpellsBody cs body → cs.length ≤ body.length
  | [], _, _ => by simp
  | c :: cs, body, h => by
    cases h with
    | cons _ sp _ body' hc hb =>
      have := spellsChar_length c sp hc
      have := spellsBody_length cs body' hb
      simp only [List.length_cons, List.length_append]
      omega

/-- a spelled string body is read back, with one unit of fuel per character -/
theorem parseStringBody_spelled : ∀ (cs body : List Char), SpellsBody cs body → ∀ (acc rest : List Char) (fuel : Nat),
    fuel ≥ cs.length + 1 → parseStringBody fuel acc (body ++ '"' :: rest) = some (acc.reverse ++ cs, rest)
  | [], body, h, acc, rest, fuel, hf => by
    obtain ⟨f, rfl⟩ : ∃ f, fuel = f + 1 := ⟨fuel - 1, by simp at hf; omega⟩
    cases h
    simp [parseStringBody]
  | c :: cs, body, h, acc, rest, fuel, hf => by
    obtain ⟨f, rfl⟩ : ∃ f, fuel = f + 1 := ⟨fuel - 1, by simp at hf; omega⟩
    cases h with
    | cons _ sp _ body' hc hb =>
      rw [List.append_assoc, parseStringBody_spelledChar c sp hc,
        parseStringBody_spelled cs body' hb (c :: acc) rest f (by simp at hf ⊢; omega)]
      simp

/-- a spelled string as the value reader meets it (after the opening quote) -/
theorem read_spelled_body (s : String) (body rest : List Char) (h : SpellsBody s.toList body) :
    parseStringBody ((body ++ '"' :: rest).length + 1) [] (body ++ '"' :: rest) = some (s.toList, rest) := by
  have := parseStringBody_spelled s.toList body h [] rest ((body ++ '"' :: rest).length + 1)
    (by have := spellsBody_length _ _ h; simp; omega)
  simpa using this

/-- **every spelling of a string is read as that string** -/
theorem read_spelled (s : String) (t rest : List Char) (f : Nat) (h : SpellsStr s t) :
    parseValue (f + 1) (t ++ rest) = some (.str s, rest) := by
  obtain ⟨body, hb, rfl⟩ := h
  have hq := read_spelled_body s body rest hb
  simp only [List.cons_append, List.append_assoc, List.nil_append, parseValue, skipWs_quote]
  rw [hq]
  simp

/-! ### the canonical spelling is one of them -/

theorem hexVal_hexDigit' (d : Nat) (h : d < 16) : hexVal? (hexDigit d) = some d := hexVal_hexDigit ⟨d, h⟩

theorem hex4_Hex4 (n : Nat) (h : n < 65536) : Hex4 n (hex4 n) :=
  ⟨_, _, _, _, _, _, _, _, rfl, hexVal_hexDigit' (n / 4096 % 16) (by omega), hexVal_hexDigit' (n / 256 % 16) (by omega),
    hexVal_hexDigit' (n / 16 % 16) (by omega), hexVal_hexDigit' (n % 16) (by omega), by omega⟩

/-- the minimal escaping of RFC 8785 is a spelling -/
theorem spellsChar_escapeChar (c : Char) : SpellsChar c (escapeChar c) := by
  have ofNat : Char.ofNat c.toNat = c := Char.ofNat_toNat c
  unfold escapeChar
  by_cases h1 : c = '\\'
  · subst h1; exact SpellsChar.backslash
  by_cases h2 : c = '"'
  · subst h2; exact SpellsChar.quote
  by_cases h3 : c.toNat = 8
  · have : c = Char.ofNat 8 := by rw [← h3, ofNat]
    subst this; exact SpellsChar.b
  by_cases h4 : c.toNat = 12
  · have : c = Char.ofNat 12 := by rw [← h4, ofNat]
    subst this; exact SpellsChar.f
  by_cases h5 : c = '\n'
  · subst h5; exact SpellsChar.n
  by_cases h6 : c = '\r'
  · subst h6; exact SpellsChar.r
  by_cases h7 : c = '\t'
  · subst h7; exact SpellsChar.t
  by_cases h8 : c.toNat < 0x20
  · simp only [h1, h2, h3, h4, h5, h6, h7, h8, if_false, if_true]
    exact SpellsChar.u c _ (by omega) (hex4_Hex4 c.toNat (by omega))
  · simp only [h1, h2, h3, h4, h5, h6, h7, h8, if_false]
    exact SpellsChar.raw c h2 h1 h8

theorem spellsBody_escape : ∀ (cs : List Char), SpellsBody cs (escape cs)
  | [] => SpellsBody.nil
  | c :: cs => by
    have : escape (c :: cs) = escapeChar c ++ escape cs := by simp [escape]
    rw [this]
    exact SpellsBody.cons c _ cs _ (spellsChar_escapeChar c) (spellsBody_escape cs)

/-- **`quote s` is one of the spellings of `s`** (so `RT.read_quoted` is an instance of `read_spelled_body`) -/
theorem spellsStr_quote (s : String) : SpellsStr s (quote s) :=
  ⟨escape s.toList, spellsBody_escape s.toList, rfl⟩


/-! ### whole values: any whitespace, any spelling of every string and member name -/

mutual
/-- a spelling of a value with no whitespace around it -/
inductive TightE : Json → List Char → Prop
  | null : TightE .null (print .null)
  | bool (b : Bool) : TightE (.bool b) (print (.bool b))
  | num (n : JNum) : TightE (.num n) (print (.num n))
  | str (s : String) (t : List Char) : SpellsStr s t → TightE (.str s) t
  | arrNil (w : List Char) : allWs w → TightE (.arr []) ('[' :: w ++ [']'])
  | arr (x : Json) (xs : List Json) (body : List Char) : ElemsE (x :: xs) body →
      TightE (.arr (x :: xs)) ('[' :: body ++ [']'])
  | objNil (w : List Char) : allWs w → TightE (.obj []) ('{' :: w ++ ['}'])
  | obj (kv : String × Json) (kvs : List (String × Json)) (body : List Char) : MembersE (kv :: kvs) body →
      TightE (.obj (kv :: kvs)) ('{' :: body ++ ['}'])
inductive ElemsE : List Json → List Char → Prop
  | one (x : Json) (w1 tx w2 : List Char) : allWs w1 → TightE x tx → allWs w2 → ElemsE [x] (w1 ++ tx ++ w2)
  | cons (x y : Json) (ys : List Json) (w1 tx w2 body : List Char) : allWs w1 → TightE x tx → allWs w2 →
      ElemsE (y :: ys) body → ElemsE (x :: y :: ys) (w1 ++ tx ++ w2 ++ ',' :: body)
inductive MembersE : List (String × Json) → List Char → Prop
  | one (k : String) (tk : List Char) (x : Json) (w1 w2 w3 tx w4 : List Char) : SpellsStr k tk →
      allWs w1 → allWs w2 → allWs w3 → TightE x tx → allWs w4 →
      MembersE [(k, x)] (w1 ++ tk ++ w2 ++ ':' :: w3 ++ tx ++ w4)
  | cons (k : String) (tk : List Char) (x : Json) (kv : String × Json) (kvs : List (String × Json))
      (w1 w2 w3 tx w4 body : List Char) : SpellsStr k tk →
      allWs w1 → allWs w2 → allWs w3 → TightE x tx → allWs w4 → MembersE (kv :: kvs) body →
      MembersE ((k, x) :: kv :: kvs) (w1 ++ tk ++ w2 ++ ':' :: w3 ++ tx ++ w4 ++ ',' :: body)
end

/-- **a spelling of a value**: any insignificant whitespace, any spelling of every string and name -/
def SpellsE (v : Json) (t : List Char) : Prop := ∃ w1 tx w2, allWs w1 ∧ TightE v tx ∧ allWs w2 ∧ t = w1 ++ tx ++ w2

theorem tightE_start (v : Json) (t : List Char) (h : v.numsStable) (ht : TightE v t) : ∃ c tl, t = c :: tl ∧ isStartN c := by
  cases ht with
  | null => exact print_startN _ h
  | bool b => exact print_startN _ h
  | num n => exact print_startN _ h
  | str s _ hs =>
    obtain ⟨body, _, rfl⟩ := hs
    exact ⟨'"', _, rfl, Or.inl (by simp [isStart])⟩
  | arrNil w _ => exact ⟨'[', _, rfl, Or.inl (by simp [isStart])⟩
  | arr x xs body _ => exact ⟨'[', _, rfl, Or.inl (by simp [isStart])⟩
  | objNil w _ => exact ⟨'{', _, rfl, Or.inl (by simp [isStart])⟩
  | obj kv kvs body _ => exact ⟨'{', _, rfl, Or.inl (by simp [isStart])⟩

theorem elemsE_skip (l : List Json) (body : List Char) (hl : Json.numsStableList l) (he : ElemsE l body) (R : List Char) :
    ∃ c tl, skipWs (body ++ R) = c :: tl ∧ isStartN c := by
  cases he with
  | one x w1 tx w2 hw1 ht hw2 =>
    simp only [Json.numsStableList] at hl
    obtain ⟨c, tl, e, hc⟩ := tightE_start x tx hl.1 ht
    subst e
    refine ⟨c, tl ++ w2 ++ R, ?_, hc⟩
    simp only [List.append_assoc]
    rw [skipWs_ws_append w1 _ hw1]
    exact skipWs_startN c _ hc
  | cons x y ys w1 tx w2 body' hw1 ht hw2 _ =>
    simp only [Json.numsStableList] at hl
    obtain ⟨c, tl, e, hc⟩ := tightE_start x tx hl.1 ht
    subst e
    refine ⟨c, tl ++ w2 ++ ',' :: body' ++ R, ?_, hc⟩
    simp only [List.append_assoc]
    rw [skipWs_ws_append w1 _ hw1]
    exact skipWs_startN c _ hc

theorem membersE_skip (l : List (String × Json)) (body : List Char) (he : MembersE l body) (R : List Char) :
    ∃ tl, skipWs (body ++ R) = '"' :: tl := by
  cases he with
  | one k tk x w1 w2 w3 tx w4 hk hw1 _ _ _ _ =>
    obtain ⟨kb, _, rfl⟩ := hk
    simp only [List.append_assoc, List.cons_append]
    rw [skipWs_ws_append w1 _ hw1, skipWs_quote]
    exact ⟨_, rfl⟩
  | cons k tk x kv kvs w1 w2 w3 tx w4 body' hk hw1 _ _ _ _ _ =>
    obtain ⟨kb, _, rfl⟩ := hk
    simp only [List.append_assoc, List.cons_append]
    rw [skipWs_ws_append w1 _ hw1, skipWs_quote]
    exact ⟨_, rfl⟩

mutual
theorem read_tightE : ∀ (v : Json), v.numsStable → ∀ (t : List Char), TightE v t →
    ∀ (fuel : Nat) (rest : List Char), numStop rest → fuel ≥ size v → parseValue fuel (t ++ rest) = some (v, rest)
  | .null, h, t, ht, fuel, rest, hr, hf => by cases ht; exact read_value_num _ h fuel rest hr hf
  | .bool b, h, t, ht, fuel, rest, hr, hf => by cases ht; exact read_value_num _ h fuel rest hr hf
  | .num n, h, t, ht, fuel, rest, hr, hf => by cases ht; exact read_value_num _ h fuel rest hr hf
  | .str s, _, t, ht, fuel, rest, _, hf => by
    obtain ⟨f, rfl⟩ : ∃ f, fuel = f + 1 := ⟨fuel - 1, by simp [size] at hf; omega⟩
    cases ht with
    | str _ _ hs => exact read_spelled s t rest f hs
  | .arr [], _, t, ht, fuel, rest, _, hf => by
    obtain ⟨f, rfl⟩ : ∃ f, fuel = f + 1 := ⟨fuel - 1, by simp [size] at hf; omega⟩
    cases ht with
    | arrNil w hw => exact parseValue_arrNil f w rest hw
  | .arr (x :: xs), h, t, ht, fuel, rest, _, hf => by
    obtain ⟨f, rfl⟩ : ∃ f, fuel = f + 1 := ⟨fuel - 1, by simp [size] at hf; omega⟩
    have hl : Json.numsStableList (x :: xs) := by simpa only [Json.numsStable] using h
    cases ht with
    | arr _ _ body he =>
      have hel := read_elemsE (x :: xs) (by simp) hl body he f [] rest (by simp only [size] at hf; omega)
      obtain ⟨c, tl, hsk, hc⟩ := elemsE_skip (x :: xs) body hl he (']' :: rest)
      have : '[' :: body ++ [']'] ++ rest = '[' :: (body ++ ']' :: rest) := by simp
      rw [this, parseValue_arrW f _ c tl hsk hc _ _ hel]
      simp
  | .obj [], _, t, ht, fuel, rest, _, hf => by
    obtain ⟨f, rfl⟩ : ∃ f, fuel = f + 1 := ⟨fuel - 1, by simp [size] at hf; omega⟩
    cases ht with
    | objNil w hw => exact parseValue_objNil f w rest hw
  | .obj (kv :: kvs), h, t, ht, fuel, rest, _, hf => by
    obtain ⟨f, rfl⟩ : ∃ f, fuel = f + 1 := ⟨fuel - 1, by simp [size] at hf; omega⟩
    have hl : Json.numsStableMembers (kv :: kvs) := by simpa only [Json.numsStable] using h
    cases ht with
    | obj _ _ body he =>
      have hel := read_membersE (kv :: kvs) (by simp) hl body he f [] rest (by simp only [size] at hf; omega)
      obtain ⟨tl, hsk⟩ := membersE_skip (kv :: kvs) body he ('}' :: rest)
      have : '{' :: body ++ ['}'] ++ rest = '{' :: (body ++ '}' :: rest) := by simp
      rw [this, parseValue_objW f _ tl hsk _ _ hel]
      simp

theorem read_elemsE : ∀ (l : List Json), l ≠ [] → Json.numsStableList l → ∀ (body : List Char), ElemsE l body →
    ∀ (fuel : Nat) (acc : List Json) (rest : List Char), fuel ≥ sizeList l →
    parseElems fuel acc (body ++ ']' :: rest) = some (acc.reverse ++ l, rest)
  | [], hne, _, _, _, _, _, _, _ => absurd rfl hne
  | [x], _, hl, body, he, fuel, acc, rest, hf => by
    have hx : x.numsStable := by simp only [Json.numsStableList] at hl; exact hl.1
    obtain ⟨f, rfl⟩ : ∃ f, fuel = f + 1 := ⟨fuel - 1, by simp [sizeList] at hf; omega⟩
    cases he with
    | one _ w1 tx w2 hw1 ht hw2 =>
      have hv := read_tightE x hx tx ht f (w2 ++ ']' :: rest) (numStop_ws_append _ _ hw2 (numStop_rbr rest))
        (by simp [sizeList] at hf; omega)
      have e : w1 ++ tx ++ w2 ++ ']' :: rest = w1 ++ (tx ++ (w2 ++ ']' :: rest)) := by simp
      rw [e]
      simp only [parseElems, parseValue_ws f w1 _ hw1, hv, skipWs_ws_append w2 _ hw2, skipWs_rbr]
      simp
  | x :: y :: ys, _, hl, body, he, fuel, acc, rest, hf => by
    obtain ⟨f, rfl⟩ : ∃ f, fuel = f + 1 := ⟨fuel - 1, by simp [sizeList] at hf; omega⟩
    simp only [Json.numsStableList] at hl
    have hx : x.numsStable := hl.1
    have hxs : Json.numsStableList (y :: ys) := by simp only [Json.numsStableList]; exact hl.2
    cases he with
    | cons _ _ _ w1 tx w2 body' hw1 ht hw2 he' =>
      have hv := read_tightE x hx tx ht f (w2 ++ ',' :: (body' ++ ']' :: rest)) (numStop_ws_append _ _ hw2 (numStop_comma _))
        (by simp [sizeList] at hf; omega)
      have ih := read_elemsE (y :: ys) (by simp) hxs body' he' f (x :: acc) rest (by simp [sizeList] at hf ⊢; omega)
      have e : w1 ++ tx ++ w2 ++ ',' :: body' ++ ']' :: rest = w1 ++ (tx ++ (w2 ++ ',' :: (body' ++ ']' :: rest))) := by simp
      rw [e]
      simp only [parseElems, parseValue_ws f w1 _ hw1, hv, skipWs_ws_append w2 _ hw2, skipWs_comma]
      rw [ih]
      simp

theorem read_membersE : ∀ (l : List (String × Json)), l ≠ [] → Json.numsStableMembers l → ∀ (body : List Char), MembersE l body →
    ∀ (fuel : Nat) (acc : List (String × Json)) (rest : List Char), fuel ≥ sizeMembers l →
    parseMembers fuel acc (body ++ '}' :: rest) = some (acc.reverse ++ l, rest)
  | [], hne, _, _, _, _, _, _, _ => absurd rfl hne
  | [(k, x)], _, hl, body, he, fuel, acc, rest, hf => by
    have hx : x.numsStable := by simp only [Json.numsStableMembers] at hl; exact hl.1
    obtain ⟨f, rfl⟩ : ∃ f, fuel = f + 1 := ⟨fuel - 1, by simp [sizeMembers] at hf; omega⟩
    cases he with
    | one _ tk _ w1 w2 w3 tx w4 hk hw1 hw2 hw3 ht hw4 =>
      obtain ⟨kb, hkb, rfl⟩ := hk
      have hv := read_tightE x hx tx ht f (w4 ++ '}' :: rest) (numStop_ws_append _ _ hw4 (numStop_rbrace rest))
        (by simp [sizeMembers] at hf; omega)
      have hq := read_spelled_body k kb (w2 ++ ':' :: (w3 ++ (tx ++ (w4 ++ '}' :: rest)))) hkb
      have e : w1 ++ ('"' :: kb ++ ['"']) ++ w2 ++ ':' :: w3 ++ tx ++ w4 ++ '}' :: rest =
          w1 ++ ('"' :: (kb ++ '"' :: (w2 ++ ':' :: (w3 ++ (tx ++ (w4 ++ '}' :: rest)))))) := by
        simp
      rw [e]
      simp only [parseMembers, skipWs_ws_append w1 _ hw1, skipWs_quote, hq, skipWs_ws_append w2 _ hw2, skipWs_colon,
        parseValue_ws f w3 _ hw3, hv, skipWs_ws_append w4 _ hw4, skipWs_rbrace, ofList_toList]
      simp
  | (k, x) :: (k', y) :: ys, _, hl, body, he, fuel, acc, rest, hf => by
    obtain ⟨f, rfl⟩ : ∃ f, fuel = f + 1 := ⟨fuel - 1, by simp [sizeMembers] at hf; omega⟩
    simp only [Json.numsStableMembers] at hl
    have hx : x.numsStable := hl.1
    have hxs : Json.numsStableMembers ((k', y) :: ys) := by simp only [Json.numsStableMembers]; exact hl.2
    cases he with
    | cons _ tk _ _ _ w1 w2 w3 tx w4 body' hk hw1 hw2 hw3 ht hw4 he' =>
      obtain ⟨kb, hkb, rfl⟩ := hk
      have hv := read_tightE x hx tx ht f (w4 ++ ',' :: (body' ++ '}' :: rest)) (numStop_ws_append _ _ hw4 (numStop_comma _))
        (by simp [sizeMembers] at hf; omega)
      have ih := read_membersE ((k', y) :: ys) (by simp) hxs body' he' f ((k, x) :: acc) rest (by simp [sizeMembers] at hf ⊢; omega)
      have hq := read_spelled_body k kb (w2 ++ ':' :: (w3 ++ (tx ++ (w4 ++ ',' :: (body' ++ '}' :: rest))))) hkb
      have e : w1 ++ ('"' :: kb ++ ['"']) ++ w2 ++ ':' :: w3 ++ tx ++ w4 ++ ',' :: body' ++ '}' :: rest =
          w1 ++ ('"' :: (kb ++ '"' :: (w2 ++ ':' :: (w3 ++ (tx ++ (w4 ++ ',' :: (body' ++ '}' :: rest))))))) := by
        simp
      rw [e]
      simp only [parseMembers, skipWs_ws_append w1 _ hw1, skipWs_quote, hq, skipWs_ws_append w2 _ hw2, skipWs_colon,
        parseValue_ws f w3 _ hw3, hv, skipWs_ws_append w4 _ hw4, skipWs_comma, ofList_toList]
      rw [ih]
      simp
end

mutual
theorem size_le_tightE : ∀ (v : Json), v.numsStable → ∀ (t : List Char), TightE v t → size v ≤ t.length
  | .null, h, t, ht => by cases ht; exact size_le_print_num _ h
  | .bool b, h, t, ht => by cases ht; exact size_le_print_num _ h
  | .num n, h, t, ht => by cases ht; exact size_le_print_num _ h
  | .str s, _, t, ht => by
    cases ht with
    | str _ _ hs =>
      obtain ⟨body, _, rfl⟩ := hs
      simp [size]
  | .arr [], _, t, ht => by
    cases ht with
    | arrNil w hw => simp [size, sizeList]
  | .arr (x :: xs), h, t, ht => by
    have hl : Json.numsStableList (x :: xs) := by simpa only [Json.numsStable] using h
    cases ht with
    | arr _ _ body he =>
      have := sizeList_le_elemsE (x :: xs) hl body he
      simp only [size, List.length_cons, List.length_append, List.length_nil]
      omega
  | .obj [], _, t, ht => by
    cases ht with
    | objNil w hw => simp [size, sizeMembers]
  | .obj (kv :: kvs), h, t, ht => by
    have hl : Json.numsStableMembers (kv :: kvs) := by simpa only [Json.numsStable] using h
    cases ht with
    | obj _ _ body he =>
      have := sizeMembers_le_membersE (kv :: kvs) hl body he
      simp only [size, List.length_cons, List.length_append, List.length_nil]
      omega
theorem sizeList_le_elemsE : ∀ (l : List Json), Json.numsStableList l → ∀ (body : List Char), ElemsE l body →
    sizeList l ≤ body.length + 1
  | [], _, _, _ => by simp [sizeList]
  | [x], hl, body, he => by
    simp only [Json.numsStableList] at hl
    cases he with
    | one _ w1 tx w2 hw1 ht hw2 =>
      have := size_le_tightE x hl.1 tx ht
      simp only [sizeList, List.length_append]
      omega
  | x :: y :: ys, hl, body, he => by
    simp only [Json.numsStableList] at hl
    cases he with
    | cons _ _ _ w1 tx w2 body' hw1 ht hw2 he' =>
      have h1 := size_le_tightE x hl.1 tx ht
      have h2 := sizeList_le_elemsE (y :: ys) (by simp only [Json.numsStableList]; exact hl.2) body' he'
      simp only [sizeList, List.length_append, List.length_cons] at h2 ⊢
      omega
theorem sizeMembers_le_membersE : ∀ (l : List (String × Json)), Json.numsStableMembers l → ∀ (body : List Char), MembersE l body →
    sizeMembers l ≤ body.length + 1
  | [], _, _, _ => by simp [sizeMembers]
  | [(k, x)], hl, body, he => by
    simp only [Json.numsStableMembers] at hl
    cases he with
    | one _ tk _ w1 w2 w3 tx w4 hk hw1 hw2 hw3 ht hw4 =>
      have := size_le_tightE x hl.1 tx ht
      simp only [sizeMembers, List.length_append, List.length_cons]
      omega
  | (k, x) :: (k', y) :: ys, hl, body, he => by
    simp only [Json.numsStableMembers] at hl
    cases he with
    | cons _ tk _ _ _ w1 w2 w3 tx w4 body' hk hw1 hw2 hw3 ht hw4 he' =>
      have h1 := size_le_tightE x hl.1 tx ht
      have h2 := sizeMembers_le_membersE ((k', y) :: ys) (by simp only [Json.numsStableMembers]; exact hl.2) body' he'
      simp only [sizeMembers, List.length_append, List.length_cons] at h2 ⊢
      omega
end

/-- **every spelling of a value — whitespace and escapes — is read as that value** (numbers stable) -/
theorem parse_spellingE (v : Json) (t : List Char) (h : v.numsStable) (hs : SpellsE v t) : Parse.parse t = some v := by
  obtain ⟨w1, tx, w2, hw1, ht, hw2, rfl⟩ := hs
  unfold Parse.parse
  have hsz := size_le_tightE v h tx ht
  have hr : numStop w2 := by simpa using numStop_ws_append w2 [] hw2 numStop_nil
  have hv := read_tightE v h tx ht (2 * (w1 ++ (tx ++ w2)).length + 2) w2 hr
    (by simp only [List.length_append]; omega)
  rw [List.append_assoc, parseValue_ws _ w1 _ hw1, hv]
  have : skipWs w2 = [] := by simpa [skipWs] using skipWs_ws_append w2 [] hw2
  simp [this]

/-- two spellings of the same value are read alike -/
theorem spellingsE_agree (v : Json) (t1 t2 : List Char) (h : v.numsStable) (h1 : SpellsE v t1) (h2 : SpellsE v t2) :
    Parse.parse t1 = Parse.parse t2 := by
  rw [parse_spellingE v t1 h h1, parse_spellingE v t2 h h2]

/-- … and so every spelling has the value's canonical form -/
theorem spellingE_jcs (v : Json) (t : List Char) (h : v.numsStable) (hs : SpellsE v t) :
    (Parse.parse t).bind Json.jcs = v.jcs := by
  rw [parse_spellingE v t h hs]; rfl

/-! ### the whitespace spellings of `Whitespace.lean` are among these -/

mutual
theorem tightE_of_tight : ∀ (v : Json) (t : List Char), Tight v t → TightE v t
  | .null, _, h => by cases h; exact TightE.null
  | .bool b, _, h => by cases h; exact TightE.bool b
  | .num n, _, h => by cases h; exact TightE.num n
  | .str s, _, h => by cases h; exact TightE.str s _ (spellsStr_quote s)
  | .arr [], _, h => by
    cases h with
    | arrNil w hw => exact TightE.arrNil w hw
  | .arr (x :: xs), _, h => by
    cases h with
    | arr _ _ body he => exact TightE.arr x xs body (elemsE_of_elems (x :: xs) body he)
  | .obj [], _, h => by
    cases h with
    | objNil w hw => exact TightE.objNil w hw
  | .obj (kv :: kvs), _, h => by
    cases h with
    | obj _ _ body he => exact TightE.obj kv kvs body (membersE_of_members (kv :: kvs) body he)
theorem elemsE_of_elems : ∀ (l : List Json) (body : List Char), Elems l body → ElemsE l body
  | [], _, h => by cases h
  | [x], _, h => by
    cases h with
    | one _ w1 tx w2 hw1 ht hw2 => exact ElemsE.one x w1 tx w2 hw1 (tightE_of_tight x tx ht) hw2
  | x :: y :: ys, _, h => by
    cases h with
    | cons _ _ _ w1 tx w2 body' hw1 ht hw2 he =>
      exact ElemsE.cons x y ys w1 tx w2 body' hw1 (tightE_of_tight x tx ht) hw2 (elemsE_of_elems (y :: ys) body' he)
theorem membersE_of_members : ∀ (l : List (String × Json)) (body : List Char), Members l body → MembersE l body
  | [], _, h => by cases h
  | [(k, x)], _, h => by
    cases h with
    | one _ _ w1 w2 w3 tx w4 hw1 hw2 hw3 ht hw4 =>
      exact MembersE.one k (quote k) x w1 w2 w3 tx w4 (spellsStr_quote k) hw1 hw2 hw3 (tightE_of_tight x tx ht) hw4
  | (k, x) :: (k', y) :: ys, _, h => by
    cases h with
    | cons _ _ _ _ w1 w2 w3 tx w4 body' hw1 hw2 hw3 ht hw4 he =>
      exact MembersE.cons k (quote k) x (k', y) ys w1 w2 w3 tx w4 body' (spellsStr_quote k) hw1 hw2 hw3
        (tightE_of_tight x tx ht) hw4 (membersE_of_members ((k', y) :: ys) body' he)
end

theorem spellsE_of_spells (v : Json) (t : List Char) (h : Spells v t) : SpellsE v t := by
  obtain ⟨w1, tx, w2, hw1, ht, hw2, e⟩ := h
  exact ⟨w1, tx, w2, hw1, tightE_of_tight v tx ht, hw2, e⟩

/-- the compact text is a spelling, so every spelling is read as the compact text is -/
theorem escapes_irrelevant (v : Json) (t : List Char) (h : v.numsStable) (hs : SpellsE v t) :
    Parse.parse t = Parse.parse (print v) :=
  spellingsE_agree v t (print v) h hs (spellsE_of_spells v _ (spells_print v))

/-! ### the relations are inhabited by ordinary texts -/

theorem rawOK (c : Char) (h : (c != '"' && c != '\\' && decide (¬ c.toNat < 0x20)) = true) : SpellsChar c [c] := by
  simp only [Bool.and_eq_true, bne_iff_ne, ne_eq, decide_eq_true_eq] at h
  exact SpellsChar.raw c h.1.1 h.1.2 h.2

theorem sample_toList : "A/\n".toList = ['A', '/', '\n'] := by decide

/-- `"A\/\n"` (escaped solidus, escaped line feed) spells the string `A/⏎` -/
theorem sample_str1 : SpellsStr "A/\n" ['"', 'A', '\\', '/', '\\', 'n', '"'] := by
  refine ⟨['A', '\\', '/', '\\', 'n'], ?_, rfl⟩
  rw [sample_toList]
  exact SpellsBody.cons 'A' ['A'] _ _ (rawOK 'A' (by decide))
    (SpellsBody.cons '/' ['\\', '/'] _ _ SpellsChar.slash
      (SpellsBody.cons '\n' ['\\', 'n'] _ _ SpellsChar.n SpellsBody.nil))

/-- `"A/\u000A"` (upper- and lower-case hex would do alike) spells the same string -/
theorem sample_str2 : SpellsStr "A/\n" ['"', '\\', 'u', '0', '0', '4', '1', '/', '\\', 'u', '0', '0', '0', 'A', '"'] := by
  refine ⟨['\\', 'u', '0', '0', '4', '1', '/', '\\', 'u', '0', '0', '0', 'A'], ?_, rfl⟩
  rw [sample_toList]
  exact SpellsBody.cons 'A' ['\\', 'u', '0', '0', '4', '1'] _ _
      (SpellsChar.u 'A' _ (by decide) ⟨'0', '0', '4', '1', 0, 0, 4, 1, rfl, by decide, by decide, by decide, by decide, by decide⟩)
    (SpellsBody.cons '/' ['/'] _ _ (rawOK '/' (by decide))
      (SpellsBody.cons '\n' ['\\', 'u', '0', '0', '0', 'A'] _ _
        (SpellsChar.u '\n' _ (by decide) ⟨'0', '0', '0', 'A', 0, 0, 0, 10, rfl, by decide, by decide, by decide, by decide, by decide⟩)
        SpellsBody.nil))

/-- lower-case hex is read alike -/
theorem sample_hex_lower : SpellsChar '\n' ['\\', 'u', '0', '0', '0', 'a'] :=
  SpellsChar.u '\n' _ (by decide) ⟨'0', '0', '0', 'a', 0, 0, 0, 10, rfl, by decide, by decide, by decide, by decide, by decide⟩

/-- a character above U+FFFF (U+1F600) as a surrogate pair `😀`, mixed case -/
theorem sample_pair : SpellsChar (Char.ofNat 0x1F600) ['\\', 'u', 'D', '8', '3', 'd', '\\', 'u', 'd', 'E', '0', '0'] :=
  SpellsChar.pair (Char.ofNat 0x1F600) ['D', '8', '3', 'd'] ['d', 'E', '0', '0'] (by decide)
    ⟨'D', '8', '3', 'd', 13, 8, 3, 13, rfl, by decide, by decide, by decide, by decide, by decide⟩
    ⟨'d', 'E', '0', '0', 13, 14, 0, 0, rfl, by decide, by decide, by decide, by decide, by decide⟩

/-- both spellings are read as the same string value -/
example (f : Nat) (rest : List Char) :
    parseValue (f + 1) (['"', 'A', '\\', '/', '\\', 'n', '"'] ++ rest) =
      parseValue (f + 1) (['"', '\\', 'u', '0', '0', '4', '1', '/', '\\', 'u', '0', '0', '0', 'A', '"'] ++ rest) := by
  rw [read_spelled _ _ rest f sample_str1, read_spelled _ _ rest f sample_str2]

theorem sample_name_toList : "a".toList = ['a'] := by decide

/-- an object text with an escaped member name and an escaped string value:
    `{ "a" : "A\/\n" }` spells `{"a":"A/⏎"}` -/
theorem sample_obj : SpellsE (.obj [("a", .str "A/\n")])
    (['{', ' ', '"', '\\', 'u', '0', '0', '6', '1', '"', ' ', ':', ' '] ++ ['"', 'A', '\\', '/', '\\', 'n', '"'] ++ [' ', '}']) := by
  refine ⟨[], _, [], allWs_nil,
    TightE.obj _ _ _ (MembersE.one "a" ['"', '\\', 'u', '0', '0', '6', '1', '"'] _ [' '] [' '] [' '] _ [' ']
      ⟨['\\', 'u', '0', '0', '6', '1'], ?_, rfl⟩
      (allWs_of _ (by decide)) (allWs_of _ (by decide)) (allWs_of _ (by decide))
      (TightE.str _ _ sample_str1) (allWs_of _ (by decide))),
    allWs_nil, by decide⟩
  rw [sample_name_toList]
  exact SpellsBody.cons 'a' ['\\', 'u', '0', '0', '6', '1'] _ _
    (SpellsChar.u 'a' _ (by decide) ⟨'0', '0', '6', '1', 0, 0, 6, 1, rfl, by decide, by decide, by decide, by decide, by decide⟩)
    SpellsBody.nil

example : Parse.parse (['{', ' ', '"', '\\', 'u', '0', '0', '6', '1', '"', ' ', ':', ' '] ++ ['"', 'A', '\\', '/', '\\', 'n', '"'] ++ [' ', '}']) =
    some (.obj [("a", .str "A/\n")]) :=
  parse_spellingE _ _ (RT.numFree_numsStable _ (by decide)) sample_obj

end Sidetree.ES
