/-
  The compact JWS a request builder emits is read back by the parser (C08's read-back).

  `signModel_reads_back`: JWS framing (three dot-free base64url segments), UTF-8, Go's marshalling
  of protected headers with plain strings, the JSON reader (`Lemmas/RoundTrip`) and RFC 8785
  together: `parseSignedData` accepts what `signModel` produced and the payload is read as the
  normal form of the signed model. `update/deactivate/recover_reads_back`: decoding that normal
  form yields the fields the builder signed (no anchoring window; anchor origin absent or a string).
-/
import Sidetree.Client
import Sidetree.Lemmas.Normalize
import Sidetree.Lemmas.RoundTrip
import Sidetree.Props.C15
import Sidetree.Props.C03

namespace Sidetree.Framing
open Sidetree Sidetree.Parser Sidetree.Client Sidetree.Json

theorem utf8_roundtrip (s : String) : stringOfBytes? (bytesOfString s) = some s := by
  unfold stringOfBytes? bytesOfString
  have : ByteArray.mk s.toUTF8.data.toList.toArray = s.toUTF8 := by simp
  rw [this]
  unfold String.fromUTF8?
  simp
  refine ⟨s.isValidUTF8, ?_⟩
  apply String.toByteArray_inj.mp
  simp [String.fromUTF8]

/-! ### three segments -/

theorem splitDot_go_nodot : ∀ (a rest cur : List Char), '.' ∉ a →
    Jws.splitDot.go (a ++ rest) cur = Jws.splitDot.go rest (a.reverse ++ cur)
  | [], rest, cur, _ => by simp
  | c :: cs, rest, cur, h => by
    have hc : c ≠ '.' := fun e => h (e ▸ List.mem_cons_self ..)
    have hcs : '.' ∉ cs := fun m => h (List.mem_cons_of_mem _ m)
    simp only [List.cons_append, Jws.splitDot.go, hc, if_false]
    rw [splitDot_go_nodot cs rest (c :: cur) hcs]
    simp

theorem splitDot_three (a b c : List Char) (ha : '.' ∉ a) (hb : '.' ∉ b) (hc : '.' ∉ c) :
    Jws.splitDot (a ++ '.' :: (b ++ '.' :: c)) = [a, b, c] := by
  unfold Jws.splitDot
  rw [splitDot_go_nodot a _ [] ha]
  simp only [Jws.splitDot.go, if_true, List.append_nil, List.reverse_reverse]
  rw [splitDot_go_nodot b _ [] hb]
  simp only [Jws.splitDot.go, if_true, List.append_nil, List.reverse_reverse]
  have := splitDot_go_nodot c [] [] hc
  simp only [List.append_nil] at this
  rw [this]
  simp [Jws.splitDot.go]

/-! ### protected headers: Go's marshalling of plain strings is the canonical printing -/

/-- characters neither `json.Marshal` nor RFC 8785 escapes -/
def plainChar (c : Char) : Bool :=
  decide (c.toNat ≥ 0x20) && c != '"' && c != '\\' && c != '<' && c != '>' && c != '&' &&
    c.toNat != 0x2028 && c.toNat != 0x2029

def plain (s : String) : Bool := s.toList.all plainChar

theorem escapeChar_plain (c : Char) (h : plainChar c = true) : escapeChar c = [c] := by
  simp only [plainChar, Bool.and_eq_true, decide_eq_true_eq, bne_iff_ne, ne_eq] at h
  obtain ⟨⟨⟨⟨⟨⟨⟨h0, h1⟩, h2⟩, _⟩, _⟩, _⟩, _⟩, _⟩ := h
  have n1 : c ≠ '\n' := by intro e; subst e; simp at h0
  have n2 : c ≠ '\r' := by intro e; subst e; simp at h0
  have n3 : c ≠ '\t' := by intro e; subst e; simp at h0
  have n4 : c.toNat ≠ 8 := by omega
  have n5 : c.toNat ≠ 12 := by omega
  have n6 : ¬ c.toNat < 0x20 := by omega
  simp [escapeChar, h1, h2, n1, n2, n3, n4, n5, n6]

theorem goQuote_plain (s : String) (h : plain s = true) : Jws.goQuote s = quote s := by
  unfold Jws.goQuote quote escape
  congr 2
  unfold plain at h
  generalize s.toList = l at h ⊢
  induction l with
  | nil => rfl
  | cons c cs ih =>
    simp only [List.all_cons, Bool.and_eq_true] at h
    rw [List.flatMap_cons, List.flatMap_cons, ih h.2, escapeChar_plain c h.1]
    congr 1
    have hp := h.1
    simp only [plainChar, Bool.and_eq_true, decide_eq_true_eq, bne_iff_ne, ne_eq] at hp
    obtain ⟨⟨⟨⟨⟨⟨⟨h0, h1⟩, h2⟩, h3⟩, h4⟩, h5⟩, h6⟩, h7⟩ := hp
    have n1 : c ≠ '\n' := by intro e; subst e; simp at h0
    have n2 : c ≠ '\r' := by intro e; subst e; simp at h0
    have n3 : c ≠ '\t' := by intro e; subst e; simp at h0
    have n6 : ¬ c.toNat < 0x20 := by omega
    simp [h1, h2, h3, h4, h5, h6, h7, n1, n2, n3, n6]

/-- a header entry Go marshals without escaping: plain name, plain string value -/
def plainEntry (kv : String × Json) : Bool :=
  plain kv.1 && (match kv.2 with | .str s => plain s | _ => false)

def headerItem (kv : String × Json) : List Char := quote kv.1 ++ ':' :: print kv.2

theorem mapM?_pointwise {α β} (f : α → Option β) (g : α → β) : ∀ (l : List α), (∀ x ∈ l, f x = some (g x)) →
    mapM? f l = some (l.map g)
  | [], _ => rfl
  | x :: xs, h => by
    have hx := h x (List.mem_cons_self ..)
    have ih := mapM?_pointwise f g xs (fun y hy => h y (List.mem_cons_of_mem _ hy))
    simp [mapM?, hx, ih]

theorem intercalate_items : ∀ (l : List (String × Json)), List.intercalate [','] (l.map headerItem) = printMembers l
  | [] => rfl
  | [(k, v)] => by simp [List.intercalate, headerItem, printMembers]
  | (k, v) :: (k', v') :: rest => by
    have ih := intercalate_items ((k', v') :: rest)
    simp only [List.map_cons, printMembers] at ih ⊢
    rw [← ih]
    simp [List.intercalate, headerItem]

/-- **protected headers are marshalled as the canonical printing of the sorted header object** when
    names and values are plain strings -/
theorem marshalHeaders_plain (hdrs : List (String × Json)) (h : hdrs.all plainEntry = true) :
    Jws.marshalHeaders hdrs = some (print (.obj (hdrs.mergeSort (fun a b => a.1 ≤ b.1)))) := by
  unfold Jws.marshalHeaders
  have hs : ∀ x ∈ hdrs.mergeSort (fun a b => decide (a.1 ≤ b.1)), plainEntry x = true := by
    intro x hx
    have := (List.mergeSort_perm hdrs (fun a b => decide (a.1 ≤ b.1))).mem_iff.mp hx
    exact List.all_eq_true.mp h x this
  simp only
  rw [mapM?_pointwise _ headerItem _ (by
    intro x hx
    have hp := hs x hx
    obtain ⟨k, v⟩ := x
    simp only [plainEntry, Bool.and_eq_true] at hp
    cases v with
    | str s => simp only at hp; simp [headerItem, goQuote_plain k hp.1, goQuote_plain s hp.2, print]
    | _ => simp at hp)]
  simp [intercalate_items, print]

/-! ### the compact JWS a builder emits is read back -/

theorem b64Encode_alphabet (bs : Bytes) (c : Char) (h : c ∈ b64Encode bs) : (b64Val? c).isSome = true := by
  rw [b64Encode_eq_map] at h
  rcases List.mem_map.mp h with ⟨v, hv, he⟩
  have := b64Val_b64Char v (encVals_lt bs v hv)
  rw [he] at this
  simp [this]

theorem not_json_start (bs : Bytes) (tl : List Char) : "{".toList.isPrefixOf (b64Encode bs ++ '.' :: tl) = false := by
  cases hb : b64Encode bs with
  | nil => simp [List.isPrefixOf]
  | cons c cs =>
    have := b64Encode_alphabet bs c (by rw [hb]; exact List.mem_cons_self ..)
    have hne : ¬ '{' = c := by intro e; subst e; simp [b64Val?] at this
    simp [List.isPrefixOf, hne]

theorem bytes_nonempty (s : String) (h : s ≠ "") : bytesOfString s ≠ [] := by
  intro e
  have := utf8_roundtrip s
  rw [e] at this
  have h0 : stringOfBytes? [] = some "" := by decide
  rw [h0] at this
  exact h (Option.some.inj this).symm

theorem numFreeMembers_plain : ∀ (l : List (String × Json)), l.all plainEntry = true → RT.numFreeMembers l = true
  | [], _ => rfl
  | (k, v) :: rest, h => by
    simp only [List.all_cons, Bool.and_eq_true] at h
    have := numFreeMembers_plain rest h.2
    have hk := h.1
    simp only [plainEntry, Bool.and_eq_true] at hk
    cases v with
    | str s => simp [RT.numFreeMembers, RT.numFree, this]
    | _ => simp at hk

/-- what the builders require of a signer in order that the parser can read its output: plain
    header strings, one entry per name, an allowed algorithm, a non-empty signature -/
structure SignerFits (cfg : Protocol) (s : Signer) (hdrs : List (String × Json)) : Prop where
  headers : s.headers = some hdrs
  plain : hdrs.all plainEntry = true
  nodup : (hdrs.map (·.1)).Nodup
  ok : signerOK (some s) = true
  allowed : ∀ alg, Json.lookup "alg" hdrs = some (.str alg) → alg ∈ cfg.signatureAlgorithms
  nonempty : ∀ inp sig, s.sign inp = some sig → sig ≠ []

/-- **the compact JWS `signModel` emits is read back by `parseSignedData`, and its payload as the
    normal form of the signed model** — for every number-free object model and fitting signer.
    (JWS framing, base64url, UTF-8, Go's header marshalling, the JSON reader, RFC 8785.) -/
theorem signModel_reads_back (cfg : Protocol) (model : Json) (s : Signer) (hdrs : List (String × Json)) (compact : String)
    (hs : signModel model s = some compact) (fit : SignerFits cfg s hdrs)
    (hnf : RT.numFree model = true) (hobj : ∃ kvs, model = .obj kvs) :
    ∃ p n, parseSignedData cfg compact = some p ∧ model.normalize = some n ∧
      payloadJson p = some (GoJson.view signedShape n) := by
  obtain ⟨hh, hplain, hnodup, hok, hallowed, hsigne⟩ := fit
  obtain ⟨kvs, rfl⟩ := hobj
  -- unfold what the builder did
  unfold signModel at hs
  cases hp : transformValue (.obj kvs) with
  | none => simp [hp] at hs
  | some payload =>
    simp only [hp, hh] at hs
    cases ha : Json.lookup "alg" hdrs with
    | none => simp [ha] at hs
    | some av =>
      cases av with
      | str alg =>
        simp only [ha] at hs
        by_cases hae : alg = ""
        · simp [hae] at hs
        · simp only [hae, if_false, marshalHeaders_plain hdrs hplain] at hs
          cases hsg : s.sign (bytesOfString (String.ofList (b64Encode (bytesOfString (String.ofList
              (print (.obj (hdrs.mergeSort fun a b => decide (a.1 ≤ b.1)))))) ++ '.' :: b64Encode (bytesOfString (String.ofList payload))))) with
          | none => simp only [hsg] at hs; cases hs
          | some sig =>
            simp only [hsg, Option.some.injEq] at hs
            subst hs
            -- names
            generalize hsorted : (hdrs.mergeSort fun a b => decide (a.1 ≤ b.1)) = sorted at *
            have hperm : sorted.Perm hdrs := by rw [← hsorted]; exact List.mergeSort_perm _ _
            have hsplain : sorted.all plainEntry = true := by
              rw [List.all_eq_true]
              intro x hx
              exact List.all_eq_true.mp hplain x (hperm.mem_iff.mp hx)
            have hsnodup : (sorted.map (·.1)).Nodup := (hperm.map _).nodup_iff.mpr hnodup
            have hlook : Json.lookup "alg" sorted = some (.str alg) := by
              rw [Props.C03.lookup_perm "alg" hperm hsnodup, ha]
            -- the payload is the canonical text of the model
            have hjcs : (Json.obj kvs).jcs = some payload := by simpa [transformValue, isContainer] using hp
            have hparse := RT.parse_jcs (.obj kvs) payload hnf hjcs
            cases hn : (Json.obj kvs).normalize with
            | none => simp [Json.jcs, hn] at hjcs
            | some n =>
              have hnobj : ∃ kvs', n = .obj kvs' := by
                simp only [normalize] at hn
                cases hm : normalizeMembers kvs with
                | none => simp [hm] at hn
                | some kvs' =>
                  simp only [hm] at hn
                  split at hn
                  · exact ⟨_, (Option.some.inj hn).symm⟩
                  · cases hn
              obtain ⟨kvs', rfl⟩ := hnobj
              have hpne : payload ≠ [] := by
                simp only [Json.jcs, hn, Option.map_some, Option.some.injEq] at hjcs
                rw [← hjcs]; simp [print]
              have hpbne : bytesOfString (String.ofList payload) ≠ [] :=
                bytes_nonempty _ (by intro e; apply hpne; have := congrArg String.toList e; simpa using this)
              have hsne := hsigne _ _ hsg
              -- the header text is read back as the sorted header object
              have hhparse : Parse.parse (print (.obj sorted)) = some (.obj sorted) :=
                RT.parse_print _ (by simp [RT.numFree, numFreeMembers_plain sorted hsplain])
              -- assemble
              have hjws : Jws.parse (String.ofList (b64Encode (bytesOfString (String.ofList (print (.obj sorted)))) ++
                  '.' :: b64Encode (bytesOfString (String.ofList payload)) ++ '.' :: b64Encode sig)) =
                  some { headers := sorted, payload := bytesOfString (String.ofList payload), signature := sig } := by
                unfold Jws.parse
                simp only [String.toList_ofList, List.append_assoc, List.cons_append]
                rw [not_json_start]
                simp only [Bool.false_eq_true, if_false]
                rw [splitDot_three _ _ _ (Props.C15.b64Encode_no_dot _) (Props.C15.b64Encode_no_dot _) (Props.C15.b64Encode_no_dot _)]
                simp only [b64_decode_encode, utf8_roundtrip, Option.bind_some, String.toList_ofList, hhparse, hlook,
                  Option.isNone_some, Bool.false_eq_true, if_false]
                have e1 : (bytesOfString (String.ofList payload)).isEmpty = false := by
                  cases hb : bytesOfString (String.ofList payload) with
                  | nil => exact absurd hb hpbne
                  | cons _ _ => rfl
                have e2 : sig.isEmpty = false := by
                  cases sig with
                  | nil => exact absurd rfl hsne
                  | cons _ _ => rfl
                simp [e1, e2]
              refine ⟨{ headers := sorted, payload := bytesOfString (String.ofList payload), signature := sig }, .obj kvs', ?_, rfl, ?_⟩
              · unfold parseSignedData
                have hne : (String.ofList (b64Encode (bytesOfString (String.ofList (print (.obj sorted)))) ++
                    '.' :: b64Encode (bytesOfString (String.ofList payload)) ++ '.' :: b64Encode sig)) ≠ "" := by
                  intro e
                  have := congrArg String.toList e
                  simp at this
                rw [if_neg hne, hjws]
                have hkeys : sorted.all (fun kv => kv.1 = "alg" || kv.1 = "kid") = true := by
                  rw [List.all_eq_true]
                  intro x hx
                  have hm := hperm.mem_iff.mp hx
                  simp only [signerOK, hh, ha, Bool.and_eq_true, List.all_eq_true] at hok
                  exact hok.2 x hm
                simp [headersOK, hlook, hae, hkeys, hallowed alg ha]
              · simp [payloadJson, utf8_roundtrip, hparse, hn, GoJson.topObject]
      | _ => simp [ha] at hs

/-! ### decoding the normal form of a signed model gives the model's fields -/

theorem lookup_normalizeMembers (key : String) : ∀ (kvs kvs' : List (String × Json)), normalizeMembers kvs = some kvs' →
    Json.lookup key kvs' = (Json.lookup key kvs).bind normalize
  | [], kvs', h => by simp [normalizeMembers] at h; subst h; rfl
  | (k, x) :: xs, kvs', h => by
    simp only [normalizeMembers] at h
    cases hx : normalize x with
    | none => simp [hx] at h
    | some x' =>
      cases hxs : normalizeMembers xs with
      | none => simp [hx, hxs] at h
      | some xs' =>
        simp only [hx, hxs, Option.some.injEq] at h
        subst h
        simp only [Json.lookup]
        split
        · simp [hx]
        · exact lookup_normalizeMembers key xs xs' hxs

/-- a member of the normal form of an object is the normal form of that member -/
theorem normalize_obj_get (kvs : List (String × Json)) (n : Json) (h : (Json.obj kvs).normalize = some n) (key : String) :
    n.get? key = (Json.lookup key kvs).bind normalize := by
  simp only [normalize] at h
  cases hm : normalizeMembers kvs with
  | none => simp [hm] at h
  | some kvs' =>
    simp only [hm] at h
    split at h
    · rename_i hnd
      simp only [Option.some.injEq] at h
      subst h
      simp only [Json.get?]
      have hperm : (sortMembers kvs').Perm kvs' := List.mergeSort_perm _ _
      have hnodup : ((sortMembers kvs').map (·.1)).Nodup := (hperm.map _).nodup_iff.mpr ((namesNodup_iff kvs').mp hnd)
      rw [Props.C03.lookup_perm key hperm hnodup]
      exact lookup_normalizeMembers key kvs kvs' hm
    · cases h

theorem normalize_obj_is_obj (kvs : List (String × Json)) (n : Json) (h : (Json.obj kvs).normalize = some n) : ∃ kvs', n = .obj kvs' := by
  simp only [normalize] at h
  cases hm : normalizeMembers kvs with
  | none => simp [hm] at h
  | some kvs' =>
    simp only [hm] at h
    split at h
    · exact ⟨_, (Option.some.inj h).symm⟩
    · cases h

/-- two objects with the same members decode to the same key -/
theorem jwk_of_same_members (a b : Json) (ha : ∃ kvs, a = .obj kvs) (hb : ∃ kvs, b = .obj kvs)
    (h : ∀ key, a.get? key = b.get? key) : Jwk.ofJson? a = Jwk.ofJson? b := by
  obtain ⟨ka, rfl⟩ := ha
  obtain ⟨kb, rfl⟩ := hb
  simp only [Jwk.ofJson?, Jwk.fieldOf, h]

theorem jwk_toJson_roundtrip (k : Jwk) : Jwk.ofJson? k.toJson = some k := by
  cases k with
  | mk kty crv x y n e nonce =>
    by_cases h1 : n = "" <;> by_cases h2 : e = "" <;> by_cases h3 : nonce = "" <;>
      simp [Jwk.toJson, Jwk.ofJson?, Jwk.fieldOf, Json.get?, Json.lookup, h1, h2, h3]

theorem jwk_toJson_strings (k : Jwk) (key : String) (v : Json) (h : k.toJson.get? key = some v) : ∃ s, v = .str s := by
  cases k with
  | mk kty crv x y n e nonce =>
    by_cases h1 : n = "" <;> by_cases h2 : e = "" <;> by_cases h3 : nonce = "" <;>
      simp only [Jwk.toJson, h1, h2, h3, if_true, if_false, List.append_nil, List.cons_append, List.nil_append, Json.get?, Json.lookup] at h <;>
      repeat (first | (split at h; · exact ⟨_, (Option.some.inj h).symm⟩) | cases h)

theorem jwk_normalizes (k : Jwk) : ∃ nk, k.toJson.normalize = some nk := by
  cases k with
  | mk kty crv x y n e nonce =>
    by_cases h1 : n = "" <;> by_cases h2 : e = "" <;> by_cases h3 : nonce = "" <;>
      simp [Jwk.toJson, normalize, normalizeMembers, namesNodup, h1, h2, h3]

theorem jwk_numFree (k : Jwk) : RT.numFree k.toJson = true := by
  cases k with
  | mk kty crv x y n e nonce =>
    by_cases h1 : n = "" <;> by_cases h2 : e = "" <;> by_cases h3 : nonce = "" <;>
      simp [Jwk.toJson, RT.numFree, RT.numFreeMembers, h1, h2, h3]

/-- the normal form of a marshalled key decodes to the key -/
theorem jwk_normal_form_decodes (k : Jwk) (nk : Json) (h : k.toJson.normalize = some nk) : Jwk.ofJson? nk = some k := by
  have hobj : ∃ kvs, k.toJson = .obj kvs := ⟨_, rfl⟩
  obtain ⟨kvs, hk⟩ := hobj
  rw [hk] at h
  obtain ⟨kvs', hn⟩ := normalize_obj_is_obj kvs nk h
  rw [← jwk_toJson_roundtrip k]
  apply jwk_of_same_members nk k.toJson ⟨kvs', hn⟩ ⟨kvs, hk⟩
  intro key
  rw [normalize_obj_get kvs nk h key, hk]
  simp only [Json.get?]
  cases hl : Json.lookup key kvs with
  | none => rfl
  | some v =>
    have : k.toJson.get? key = some v := by rw [hk]; simpa [Json.get?] using hl
    obtain ⟨s, rfl⟩ := jwk_toJson_strings k key v this
    simp [normalize]


/-! ### the struct view (member names up to case) leaves what the builders sign as it is -/

open GoJson in
theorem view_leaf (j : Json) : view .leaf j = j := by cases j <;> rfl

open GoJson in
theorem viewMembers_id (fs : List (String × Shape)) : ∀ (kvs : List (String × Json)),
    (∀ p ∈ kvs, ∀ f sh, fieldFor fs p.1 = some (f, sh) → f = p.1 ∧ view sh p.2 = p.2) → viewMembers fs kvs = kvs
  | [], _ => by simp [viewMembers]
  | (k, v) :: rest, h => by
    have ih := viewMembers_id fs rest (fun p hp => h p (List.mem_cons_of_mem _ hp))
    simp only [viewMembers, ih]
    cases hf : fieldFor fs k with
    | none => rfl
    | some fsh =>
      obtain ⟨f, sh⟩ := fsh
      obtain ⟨e1, e2⟩ := h (k, v) List.mem_cons_self f sh hf
      simp only at e1 e2
      simp [e1, e2]

theorem normalizeMembers_mem : ∀ (kvs m : List (String × Json)), normalizeMembers kvs = some m →
    ∀ p ∈ m, ∃ q ∈ kvs, p.1 = q.1 ∧ normalize q.2 = some p.2
  | [], m, h => by simp [normalizeMembers] at h; subst h; simp
  | (k, x) :: xs, m, h => by
    simp only [normalizeMembers] at h
    cases hx : normalize x with
    | none => simp [hx] at h
    | some x' =>
      cases hxs : normalizeMembers xs with
      | none => simp [hx, hxs] at h
      | some xs' =>
        simp only [hx, hxs, Option.some.injEq] at h
        subst h
        intro p hp
        rcases List.mem_cons.mp hp with e | hp'
        · subst e; exact ⟨(k, x), List.mem_cons_self, rfl, hx⟩
        · obtain ⟨q, hq, e1, e2⟩ := normalizeMembers_mem xs xs' hxs p hp'
          exact ⟨q, List.mem_cons_of_mem _ hq, e1, e2⟩

/-- the members of the normal form of an object are the normal forms of its members -/
theorem normalize_obj_mem (kvs : List (String × Json)) (n : Json) (h : (Json.obj kvs).normalize = some n) :
    ∃ kvs', n = .obj kvs' ∧ ∀ p ∈ kvs', ∃ q ∈ kvs, p.1 = q.1 ∧ normalize q.2 = some p.2 := by
  simp only [normalize] at h
  cases hm : normalizeMembers kvs with
  | none => simp [hm] at h
  | some m =>
    simp only [hm] at h
    split at h
    · refine ⟨_, (Option.some.inj h).symm, ?_⟩
      intro p hp
      exact normalizeMembers_mem kvs m hm p ((sortMembers_perm m).mem_iff.mp hp)
    · cases h

theorem jwk_member_names (k : Jwk) : ∀ q ∈ (match k.toJson with | .obj kvs => kvs | _ => []),
    q.1 ∈ ["kty", "crv", "x", "y", "n", "e", "nonce"] := by
  cases k with
  | mk kty crv x y n e nonce =>
    by_cases h1 : n = "" <;> by_cases h2 : e = "" <;> by_cases h3 : nonce = "" <;>
      simp [Jwk.toJson, h1, h2, h3]

open GoJson in
theorem fieldFor_jwk (name : String) (h : name ∈ ["kty", "crv", "x", "y", "n", "e", "nonce"]) :
    fieldFor jwkFields name = some (name, .leaf) := by
  simp only [List.mem_cons, List.not_mem_nil, or_false] at h
  rcases h with e | e | e | e | e | e | e <;> subst e <;> rfl

open GoJson in
theorem fieldFor_signed_leaf (name : String)
    (h : name ∈ ["deltaHash", "recoveryCommitment", "anchorOrigin", "didSuffix", "revealValue", "anchorFrom", "anchorUntil"]) :
    fieldFor signedFields name = some (name, .leaf) := by
  simp only [List.mem_cons, List.not_mem_nil, or_false] at h
  rcases h with e | e | e | e | e | e | e <;> subst e <;> rfl

open GoJson in
theorem fieldFor_signed_key (name : String) (h : name ∈ ["updateKey", "recoveryKey"]) :
    fieldFor signedFields name = some (name, jwkShape) := by
  simp only [List.mem_cons, List.not_mem_nil, or_false] at h
  rcases h with e | e <;> subst e <;> rfl

open GoJson in
/-- the normal form of a marshalled key is its own struct view -/
theorem jwk_view (k : Jwk) (nk : Json) (h : k.toJson.normalize = some nk) : view jwkShape nk = nk := by
  have hobj : ∃ kvs, k.toJson = .obj kvs := ⟨_, rfl⟩
  obtain ⟨kvs, hk⟩ := hobj
  have hnames := jwk_member_names k
  rw [hk] at h hnames
  obtain ⟨kvs', rfl, hmem⟩ := normalize_obj_mem kvs nk h
  show Json.obj (viewMembers jwkFields kvs') = _
  rw [viewMembers_id]
  intro p hp f sh hf
  obtain ⟨q, hq, e1, _⟩ := hmem p hp
  have hn := hnames q hq
  rw [← e1] at hn
  rw [fieldFor_jwk p.1 hn] at hf
  cases hf
  exact ⟨rfl, view_leaf _⟩

open GoJson in
/-- **what a builder signs reads back unchanged through the struct view**: an object whose members
    are spelled as the signed data models' fields and whose keys are marshalled `jws.JWK`s -/
theorem signed_view_id (kvs : List (String × Json)) (n : Json) (hn : (Json.obj kvs).normalize = some n)
    (hm : ∀ q ∈ kvs, (q.1 ∈ ["updateKey", "recoveryKey"] ∧ ∃ k : Jwk, q.2 = k.toJson) ∨
      q.1 ∈ ["deltaHash", "recoveryCommitment", "anchorOrigin", "didSuffix", "revealValue", "anchorFrom", "anchorUntil"]) :
    view signedShape n = n := by
  obtain ⟨kvs', rfl, hmem⟩ := normalize_obj_mem kvs n hn
  show Json.obj (viewMembers signedFields kvs') = _
  rw [viewMembers_id]
  intro p hp f sh hf
  obtain ⟨q, hq, e1, e2⟩ := hmem p hp
  rcases hm q hq with ⟨hname, k, hk⟩ | hname
  · rw [← e1] at hname
    rw [fieldFor_signed_key p.1 hname] at hf
    cases hf
    rw [hk] at e2
    exact ⟨rfl, jwk_view k p.2 e2⟩
  · rw [← e1] at hname
    rw [fieldFor_signed_leaf p.1 hname] at hf
    cases hf
    exact ⟨rfl, view_leaf _⟩

/-! ### update / deactivate / recover: the read-back the acceptance theorems assumed -/

/-- **update**: with no anchoring window set, the parser reads the signed data a builder emitted
    back as the model the builder signed -/
theorem update_reads_back (cfg : Protocol) (k : Jwk) (dh : String) (s : Signer) (hdrs : List (String × Json)) (compact : String)
    (hs : signModel (updateSignedJson (some k) dh 0 0) s = some compact) (fit : SignerFits cfg s hdrs)
    (hkey : signingKeyOK cfg (some k) = true) (hdh : multihashOK cfg dh = true) :
    parseSignedDataForUpdate cfg compact = some { key := some k, deltaHash := dh, anchorFrom := 0, anchorUntil := 0 } := by
  have hmodel : updateSignedJson (some k) dh 0 0 = .obj [("updateKey", k.toJson), ("deltaHash", .str dh)] := by
    simp [updateSignedJson, intMember, keyJson]
  rw [hmodel] at hs
  obtain ⟨p, n, hp, hn, hpj⟩ := signModel_reads_back cfg _ s hdrs compact hs fit
    (by simp [RT.numFree, RT.numFreeMembers, jwk_numFree]) ⟨_, rfl⟩
  rw [signed_view_id _ n hn (by
    intro q hq
    simp only [List.mem_cons, List.not_mem_nil, or_false] at hq
    rcases hq with e | e <;> subst e
    · exact .inl ⟨by simp, k, rfl⟩
    · exact .inr (by simp))] at hpj
  obtain ⟨nk, hnk⟩ := jwk_normalizes k
  have g1 := normalize_obj_get _ n hn "updateKey"
  have g2 := normalize_obj_get _ n hn "deltaHash"
  have g3 := normalize_obj_get _ n hn "anchorFrom"
  have g4 := normalize_obj_get _ n hn "anchorUntil"
  simp only [Json.lookup, if_true, Option.bind_some, hnk] at g1
  simp [Json.lookup, normalize] at g2 g3 g4
  obtain ⟨nkvs, hnko⟩ : ∃ kvs', nk = .obj kvs' := by
    have : ∃ kvs, k.toJson = .obj kvs := ⟨_, rfl⟩
    obtain ⟨kvs, e⟩ := this
    exact normalize_obj_is_obj kvs nk (e ▸ hnk)
  have hdk : decodeKey n "updateKey" = some (some k) := by
    simp only [decodeKey, GoJson.ptr, g1, hnko]
    rw [← hnko, jwk_normal_form_decodes k nk hnk]
    rfl
  simp [parseSignedDataForUpdate, hp, hpj, hdk, GoJson.str, GoJson.int64, g2, g3, g4, hkey, hdh]

/-- **deactivate** -/
theorem deactivate_reads_back (cfg : Protocol) (k : Jwk) (suffix : String) (s : Signer) (hdrs : List (String × Json)) (compact : String)
    (hs : signModel (deactivateSignedJson suffix (some k) 0 0) s = some compact) (fit : SignerFits cfg s hdrs)
    (hkey : signingKeyOK cfg (some k) = true) :
    parseSignedDataForDeactivate cfg compact = some { key := some k, didSuffix := suffix, anchorFrom := 0, anchorUntil := 0 } := by
  have hmodel : deactivateSignedJson suffix (some k) 0 0 =
      .obj [("didSuffix", .str suffix), ("revealValue", .str ""), ("recoveryKey", k.toJson)] := by
    simp [deactivateSignedJson, intMember, keyJson]
  rw [hmodel] at hs
  obtain ⟨p, n, hp, hn, hpj⟩ := signModel_reads_back cfg _ s hdrs compact hs fit
    (by simp [RT.numFree, RT.numFreeMembers, jwk_numFree]) ⟨_, rfl⟩
  rw [signed_view_id _ n hn (by
    intro q hq
    simp only [List.mem_cons, List.not_mem_nil, or_false] at hq
    rcases hq with e | e | e <;> subst e
    · exact .inr (by simp)
    · exact .inr (by simp)
    · exact .inl ⟨by simp, k, rfl⟩)] at hpj
  obtain ⟨nk, hnk⟩ := jwk_normalizes k
  have g0 := normalize_obj_get _ n hn "didSuffix"
  have g1 := normalize_obj_get _ n hn "recoveryKey"
  have g2 := normalize_obj_get _ n hn "revealValue"
  have g3 := normalize_obj_get _ n hn "anchorFrom"
  have g4 := normalize_obj_get _ n hn "anchorUntil"
  simp [Json.lookup, normalize, hnk] at g0 g1 g2 g3 g4
  obtain ⟨nkvs, hnko⟩ : ∃ kvs', nk = .obj kvs' := by
    have : ∃ kvs, k.toJson = .obj kvs := ⟨_, rfl⟩
    obtain ⟨kvs, e⟩ := this
    exact normalize_obj_is_obj kvs nk (e ▸ hnk)
  have hdk : decodeKey n "recoveryKey" = some (some k) := by
    simp only [decodeKey, GoJson.ptr, g1, hnko]
    rw [← hnko, jwk_normal_form_decodes k nk hnk]
    rfl
  simp [parseSignedDataForDeactivate, hp, hpj, hdk, GoJson.str, GoJson.int64, g0, g2, g3, g4, hkey]

/-- **recover** (anchor origin absent or a string, as the Sidetree client passes it) -/
theorem recover_reads_back (H : HashFam) (cfg : Protocol) (k : Jwk) (dh rc : String) (ao : Option String) (s : Signer)
    (hdrs : List (String × Json)) (compact : String)
    (hs : signModel (recoverSignedJson (some k) dh rc (ao.map Json.str) 0 0) s = some compact) (fit : SignerFits cfg s hdrs)
    (hkey : signingKeyOK cfg (some k) = true) (hdh : multihashOK cfg dh = true) (hrc : multihashOK cfg rc = true)
    (hfresh : commitmentFresh H k rc = true) :
    parseSignedDataForRecover H cfg compact =
      some { key := some k, deltaHash := dh, recoveryCommitment := rc, anchorOrigin := ao.map Json.str, anchorFrom := 0, anchorUntil := 0 } := by
  obtain ⟨nk, hnk⟩ := jwk_normalizes k
  obtain ⟨nkvs, hnko⟩ : ∃ kvs', nk = .obj kvs' := by
    have : ∃ kvs, k.toJson = .obj kvs := ⟨_, rfl⟩
    obtain ⟨kvs, e⟩ := this
    exact normalize_obj_is_obj kvs nk (e ▸ hnk)
  cases ao with
  | none =>
    have hmodel : recoverSignedJson (some k) dh rc (Option.map Json.str none) 0 0 =
        .obj [("deltaHash", .str dh), ("recoveryKey", k.toJson), ("recoveryCommitment", .str rc)] := by
      simp [recoverSignedJson, intMember, keyJson]
    rw [hmodel] at hs
    obtain ⟨p, n, hp, hn, hpj⟩ := signModel_reads_back cfg _ s hdrs compact hs fit
      (by simp [RT.numFree, RT.numFreeMembers, jwk_numFree]) ⟨_, rfl⟩
    rw [signed_view_id _ n hn (by
      intro q hq
      simp only [List.mem_cons, List.not_mem_nil, or_false] at hq
      rcases hq with e | e | e <;> subst e <;>
        first | exact .inl ⟨by simp, k, rfl⟩ | exact .inr (by simp))] at hpj
    have g0 := normalize_obj_get _ n hn "deltaHash"
    have g1 := normalize_obj_get _ n hn "recoveryKey"
    have g2 := normalize_obj_get _ n hn "recoveryCommitment"
    have g3 := normalize_obj_get _ n hn "anchorFrom"
    have g4 := normalize_obj_get _ n hn "anchorUntil"
    have g5 := normalize_obj_get _ n hn "anchorOrigin"
    simp [Json.lookup, normalize, hnk] at g0 g1 g2 g3 g4 g5
    have hdk : decodeKey n "recoveryKey" = some (some k) := by
      simp only [decodeKey, GoJson.ptr, g1, hnko]
      rw [← hnko, jwk_normal_form_decodes k nk hnk]
      rfl
    simp [parseSignedDataForRecover, hp, hpj, hdk, GoJson.str, GoJson.int64, GoJson.iface, g0, g2, g3, g4, g5, hkey, hdh, hrc, hfresh]
  | some a =>
    have hmodel : recoverSignedJson (some k) dh rc (Option.map Json.str (some a)) 0 0 =
        .obj [("deltaHash", .str dh), ("recoveryKey", k.toJson), ("recoveryCommitment", .str rc), ("anchorOrigin", .str a)] := by
      simp [recoverSignedJson, intMember, keyJson]
    rw [hmodel] at hs
    obtain ⟨p, n, hp, hn, hpj⟩ := signModel_reads_back cfg _ s hdrs compact hs fit
      (by simp [RT.numFree, RT.numFreeMembers, jwk_numFree]) ⟨_, rfl⟩
    rw [signed_view_id _ n hn (by
      intro q hq
      simp only [List.mem_cons, List.not_mem_nil, or_false] at hq
      rcases hq with e | e | e | e <;> subst e <;>
        first | exact .inl ⟨by simp, k, rfl⟩ | exact .inr (by simp))] at hpj
    have g0 := normalize_obj_get _ n hn "deltaHash"
    have g1 := normalize_obj_get _ n hn "recoveryKey"
    have g2 := normalize_obj_get _ n hn "recoveryCommitment"
    have g3 := normalize_obj_get _ n hn "anchorFrom"
    have g4 := normalize_obj_get _ n hn "anchorUntil"
    have g5 := normalize_obj_get _ n hn "anchorOrigin"
    simp [Json.lookup, normalize, hnk] at g0 g1 g2 g3 g4 g5
    have hdk : decodeKey n "recoveryKey" = some (some k) := by
      simp only [decodeKey, GoJson.ptr, g1, hnko]
      rw [← hnko, jwk_normal_form_decodes k nk hnk]
      rfl
    simp [parseSignedDataForRecover, hp, hpj, hdk, GoJson.str, GoJson.int64, GoJson.iface, g0, g2, g3, g4, g5, hkey, hdh, hrc, hfresh]

end Sidetree.Framing
