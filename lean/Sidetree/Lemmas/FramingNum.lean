/-
  Windowed read-back of signed data: the compact JWS a builder emits with an anchoring window
  (`anchorFrom` / `anchorUntil` not zero) is read back by the parser as the model that was signed.
  Integer stability (`IntStable`) is a hypothesis, so nothing here depends on floating point.
-/
import Sidetree.Lemmas.Framing
import Sidetree.Lemmas.RoundTripNum

namespace Sidetree.Framing
open Sidetree Sidetree.Parser Sidetree.Client Sidetree.Json

/-- **the compact JWS `signModel` emits is read back by `parseSignedData`, and its payload as the
    normal form of the signed model** — for every object model whose numbers are stable and fitting signer.
    (JWS framing, base64url, UTF-8, Go's header marshalling, the JSON reader, RFC 8785.) -/
theorem signModel_reads_back_num (cfg : Protocol) (model : Json) (s : Signer) (hdrs : List (String × Json)) (compact : String)
    (hs : signModel model s = some compact) (fit : SignerFits cfg s hdrs)
    (hst : model.numsStable) (hobj : ∃ kvs, model = .obj kvs) :
    ∃ p n, parseSignedData cfg compact = some p ∧ model.normalize = some n ∧
      payloadJson p = some (GoJson.view signedShape n) := by
  obtain ⟨hh, hplain, hnodup, hok, hallowed, hsigne⟩ := fit
  obtain ⟨kvs, rfl⟩ := hobj
  -- unfold what the builder did
  unfold signModel at hs
  cases hp : transformValue (.obj kvs) with
  | none => simp [hp] at hs
  | some payload =>
    simp only [hp, hh] at hs
    cases ha : Json.lookup "alg" hdrs with
    | none => simp [ha] at hs
    | some av =>
      cases av with
      | str alg =>
        simp only [ha] at hs
        by_cases hae : alg = ""
        · simp [hae] at hs
        · simp only [hae, if_false, marshalHeaders_plain hdrs hplain] at hs
          cases hsg : s.sign (bytesOfString (String.ofList (b64Encode (bytesOfString (String.ofList
              (print (.obj (hdrs.mergeSort fun a b => decide (a.1 ≤ b.1)))))) ++ '.' :: b64Encode (bytesOfString (String.ofList payload))))) with
          | none => simp only [hsg] at hs; cases hs
          | some sig =>
            simp only [hsg, Option.some.injEq] at hs
            subst hs
            -- names
            generalize hsorted : (hdrs.mergeSort fun a b => decide (a.1 ≤ b.1)) = sorted at *
            have hperm : sorted.Perm hdrs := by rw [← hsorted]; exact List.mergeSort_perm _ _
            have hsplain : sorted.all plainEntry = true := by
              rw [List.all_eq_true]
              intro x hx
              exact List.all_eq_true.mp hplain x (hperm.mem_iff.mp hx)
            have hsnodup : (sorted.map (·.1)).Nodup := (hperm.map _).nodup_iff.mpr hnodup
            have hlook : Json.lookup "alg" sorted = some (.str alg) := by
              rw [Props.C03.lookup_perm "alg" hperm hsnodup, ha]
            -- the payload is the canonical text of the model
            have hjcs : (Json.obj kvs).jcs = some payload := by simpa [transformValue, isContainer] using hp
            have hparse := RT.parse_jcs_num (.obj kvs) payload hst hjcs
            cases hn : (Json.obj kvs).normalize with
            | none => simp [Json.jcs, hn] at hjcs
            | some n =>
              have hnobj : ∃ kvs', n = .obj kvs' := by
                simp only [normalize] at hn
                cases hm : normalizeMembers kvs with
                | none => simp [hm] at hn
                | some kvs' =>
                  simp only [hm] at hn
                  split at hn
                  · exact ⟨_, (Option.some.inj hn).symm⟩
                  · cases hn
              obtain ⟨kvs', rfl⟩ := hnobj
              have hpne : payload ≠ [] := by
                simp only [Json.jcs, hn, Option.map_some, Option.some.injEq] at hjcs
                rw [← hjcs]; simp [print]
              have hpbne : bytesOfString (String.ofList payload) ≠ [] :=
                bytes_nonempty _ (by intro e; apply hpne; have := congrArg String.toList e; simpa using this)
              have hsne := hsigne _ _ hsg
              -- the header text is read back as the sorted header object
              have hhparse : Parse.parse (print (.obj sorted)) = some (.obj sorted) :=
                RT.parse_print _ (by simp [RT.numFree, numFreeMembers_plain sorted hsplain])
              -- assemble
              have hjws : Jws.parse (String.ofList (b64Encode (bytesOfString (String.ofList (print (.obj sorted)))) ++
                  '.' :: b64Encode (bytesOfString (String.ofList payload)) ++ '.' :: b64Encode sig)) =
                  some { headers := sorted, payload := bytesOfString (String.ofList payload), signature := sig } := by
                unfold Jws.parse
                simp only [String.toList_ofList, List.append_assoc, List.cons_append]
                rw [not_json_start]
                simp only [Bool.false_eq_true, if_false]
                rw [splitDot_three _ _ _ (Props.C15.b64Encode_no_dot _) (Props.C15.b64Encode_no_dot _) (Props.C15.b64Encode_no_dot _)]
                simp only [b64_decode_encode, utf8_roundtrip, Option.bind_some, String.toList_ofList, hhparse, hlook,
                  Option.isNone_some, Bool.false_eq_true, if_false]
                have e1 : (bytesOfString (String.ofList payload)).isEmpty = false := by
                  cases hb : bytesOfString (String.ofList payload) with
                  | nil => exact absurd hb hpbne
                  | cons _ _ => rfl
                have e2 : sig.isEmpty = false := by
                  cases sig with
                  | nil => exact absurd rfl hsne
                  | cons _ _ => rfl
                simp [e1, e2]
              refine ⟨{ headers := sorted, payload := bytesOfString (String.ofList payload), signature := sig }, .obj kvs', ?_, rfl, ?_⟩
              · unfold parseSignedData
                have hne : (String.ofList (b64Encode (bytesOfString (String.ofList (print (.obj sorted)))) ++
                    '.' :: b64Encode (bytesOfString (String.ofList payload)) ++ '.' :: b64Encode sig)) ≠ "" := by
                  intro e
                  have := congrArg String.toList e
                  simp at this
                rw [if_neg hne, hjws]
                have hkeys : sorted.all (fun kv => kv.1 = "alg" || kv.1 = "kid") = true := by
                  rw [List.all_eq_true]
                  intro x hx
                  have hm := hperm.mem_iff.mp hx
                  simp only [signerOK, hh, ha, Bool.and_eq_true, List.all_eq_true] at hok
                  exact hok.2 x hm
                simp [headersOK, hlook, hae, hkeys, hallowed alg ha]
              · simp [payloadJson, utf8_roundtrip, hparse, hn, GoJson.topObject]
      | _ => simp [ha] at hs

/-! ### integers in the signed models -/

/-- the number an integer is marshalled as is stable (see `RT.stable_of_int`) -/
def IntStable (i : Int) : Prop := (JNum.ofInt i).Stable

/-- what `GoJson.int64` demands -/
def Int64Range (i : Int) : Prop := -9223372036854775808 ≤ i ∧ i ≤ 9223372036854775807

theorem toInt_ofInt (i : Int) : (JNum.ofInt i).toInt? = some i := by
  simp only [JNum.ofInt, JNum.toInt?, if_true, decide_eq_true_eq, Option.some.injEq]
  split <;> omega

theorem mem_intMember {name : String} {v : Int} {q : String × Json} (h : q ∈ intMember name v) :
    q = (name, .num (JNum.ofInt v)) := by
  unfold intMember at h
  split at h
  · cases h
  · simpa [Json.mkInt] using h

theorem lookup_append (key : String) : ∀ (a b : List (String × Json)),
    Json.lookup key (a ++ b) = (Json.lookup key a).or (Json.lookup key b)
  | [], b => by simp [Json.lookup]
  | (k, v) :: a, b => by
    simp only [List.cons_append, Json.lookup]
    split
    · simp
    · exact lookup_append key a b

theorem lookup_intMember_ne (key name : String) (v : Int) (h : key ≠ name) : Json.lookup key (intMember name v) = none := by
  unfold intMember
  split
  · rfl
  · simp [Json.lookup, Ne.symm h]

theorem lookup_intMember_self (name : String) (v : Int) :
    Json.lookup name (intMember name v) = if v = 0 then none else some (.num (JNum.ofInt v)) := by
  unfold intMember
  split
  · rfl
  · simp [Json.lookup, Json.mkInt]

/-- an int64 field of the normal form of a signed model is read as the integer the builder wrote
    (a zero is left out by the builder and read as zero) -/
theorem int64_read (kvs : List (String × Json)) (n : Json) (name : String) (i : Int)
    (hn : (Json.obj kvs).normalize = some n) (hst : IntStable i) (h64 : Int64Range i)
    (hl : Json.lookup name kvs = if i = 0 then none else some (.num (JNum.ofInt i))) :
    GoJson.int64 n name = some i := by
  have g := normalize_obj_get kvs n hn name
  rw [hl] at g
  by_cases h0 : i = 0
  · simp only [h0, if_true, Option.bind_none] at g
    simp [GoJson.int64, g, h0]
  · simp only [h0, if_false, Option.bind_some, RT.normalize_num_stable _ hst] at g
    simp only [GoJson.int64, g, toInt_ofInt]
    simp [h64.1, h64.2]

/-- the members the builders sign: marshalled keys, strings, and the two window integers; such an
    object has stable numbers and is its own struct view after normalisation -/
theorem signed_members_ok (kvs : List (String × Json)) (k : Jwk) (af au : Int) (haf : IntStable af) (hau : IntStable au)
    (h : ∀ q ∈ kvs, (q.1 ∈ ["updateKey", "recoveryKey"] ∧ q.2 = k.toJson) ∨
      (q.1 ∈ ["deltaHash", "recoveryCommitment", "anchorOrigin", "didSuffix", "revealValue"] ∧ ∃ s, q.2 = .str s) ∨
      q ∈ intMember "anchorFrom" af ∨ q ∈ intMember "anchorUntil" au) :
    (Json.obj kvs).numsStable ∧
    ∀ q ∈ kvs, (q.1 ∈ ["updateKey", "recoveryKey"] ∧ ∃ k : Jwk, q.2 = k.toJson) ∨
      q.1 ∈ ["deltaHash", "recoveryCommitment", "anchorOrigin", "didSuffix", "revealValue", "anchorFrom", "anchorUntil"] := by
  constructor
  · simp only [Json.numsStable]
    rw [RT.numsStableMembers_iff]
    intro q hq
    rcases h q hq with ⟨_, e⟩ | ⟨_, s, e⟩ | hm | hm
    · rw [e]; exact RT.numFree_numsStable _ (jwk_numFree k)
    · rw [e]; simp only [Json.numsStable]
    · rw [mem_intMember hm]; simp only [Json.numsStable]; exact haf
    · rw [mem_intMember hm]; simp only [Json.numsStable]; exact hau
  · intro q hq
    rcases h q hq with ⟨hname, e⟩ | ⟨hname, _⟩ | hm | hm
    · exact .inl ⟨hname, k, e⟩
    · refine .inr ?_
      simp only [List.mem_cons, List.not_mem_nil, or_false] at hname ⊢
      rcases hname with e | e | e | e | e <;> simp [e]
    · rw [mem_intMember hm]; exact .inr (by simp)
    · rw [mem_intMember hm]; exact .inr (by simp)


/-! ### update / deactivate / recover with an anchoring window -/

/-- **update**: the parser reads the signed data a builder emitted, window included, back as the
    model the builder signed -/
theorem update_reads_back_window (cfg : Protocol) (k : Jwk) (dh : String) (s : Signer) (hdrs : List (String × Json)) (compact : String)
    (af au : Int) (haf : IntStable af) (hau : IntStable au) (hafr : Int64Range af) (haur : Int64Range au)
    (hs : signModel (updateSignedJson (some k) dh af au) s = some compact) (fit : SignerFits cfg s hdrs)
    (hkey : signingKeyOK cfg (some k) = true) (hdh : multihashOK cfg dh = true) :
    parseSignedDataForUpdate cfg compact = some { key := some k, deltaHash := dh, anchorFrom := af, anchorUntil := au } := by
  have hmodel : updateSignedJson (some k) dh af au =
      .obj (("updateKey", k.toJson) :: ("deltaHash", .str dh) :: (intMember "anchorFrom" af ++ intMember "anchorUntil" au)) := by
    simp [updateSignedJson, keyJson]
  rw [hmodel] at hs
  obtain ⟨hst, hm⟩ := signed_members_ok
      (("updateKey", k.toJson) :: ("deltaHash", .str dh) :: (intMember "anchorFrom" af ++ intMember "anchorUntil" au))
      k af au haf hau (by
    intro q hq
    simp only [List.mem_cons, List.mem_append] at hq
    rcases hq with e | e | e | e
    · subst e; exact .inl ⟨by simp, rfl⟩
    · subst e; exact .inr (.inl ⟨by simp, _, rfl⟩)
    · exact .inr (.inr (.inl e))
    · exact .inr (.inr (.inr e)))
  obtain ⟨p, n, hp, hn, hpj⟩ := signModel_reads_back_num cfg _ s hdrs compact hs fit hst ⟨_, rfl⟩
  rw [signed_view_id _ n hn hm] at hpj
  obtain ⟨nk, hnk⟩ := jwk_normalizes k
  have g1 := normalize_obj_get _ n hn "updateKey"
  have g2 := normalize_obj_get _ n hn "deltaHash"
  have i3 := int64_read _ n "anchorFrom" af hn haf hafr (by
    simp [Json.lookup, lookup_append, lookup_intMember_self, lookup_intMember_ne])
  have i4 := int64_read _ n "anchorUntil" au hn hau haur (by
    simp [Json.lookup, lookup_append, lookup_intMember_self, lookup_intMember_ne])
  simp only [Json.lookup, if_true, Option.bind_some, hnk] at g1
  simp [Json.lookup, normalize] at g2
  obtain ⟨nkvs, hnko⟩ : ∃ kvs', nk = .obj kvs' := by
    have : ∃ kvs, k.toJson = .obj kvs := ⟨_, rfl⟩
    obtain ⟨kvs, e⟩ := this
    exact normalize_obj_is_obj kvs nk (e ▸ hnk)
  have hdk : decodeKey n "updateKey" = some (some k) := by
    simp only [decodeKey, GoJson.ptr, g1, hnko]
    rw [← hnko, jwk_normal_form_decodes k nk hnk]
    rfl
  simp [parseSignedDataForUpdate, hp, hpj, hdk, GoJson.str, i3, i4, g2, hkey, hdh]


/-- **deactivate** with an anchoring window -/
theorem deactivate_reads_back_window (cfg : Protocol) (k : Jwk) (suffix : String) (s : Signer) (hdrs : List (String × Json)) (compact : String)
    (af au : Int) (haf : IntStable af) (hau : IntStable au) (hafr : Int64Range af) (haur : Int64Range au)
    (hs : signModel (deactivateSignedJson suffix (some k) af au) s = some compact) (fit : SignerFits cfg s hdrs)
    (hkey : signingKeyOK cfg (some k) = true) :
    parseSignedDataForDeactivate cfg compact = some { key := some k, didSuffix := suffix, anchorFrom := af, anchorUntil := au } := by
  have hmodel : deactivateSignedJson suffix (some k) af au =
      .obj (("didSuffix", .str suffix) :: ("revealValue", .str "") :: ("recoveryKey", k.toJson) ::
        (intMember "anchorFrom" af ++ intMember "anchorUntil" au)) := by
    simp [deactivateSignedJson, keyJson]
  rw [hmodel] at hs
  obtain ⟨hst, hm⟩ := signed_members_ok
      (("didSuffix", .str suffix) :: ("revealValue", .str "") :: ("recoveryKey", k.toJson) ::
        (intMember "anchorFrom" af ++ intMember "anchorUntil" au))
      k af au haf hau (by
    intro q hq
    simp only [List.mem_cons, List.mem_append] at hq
    rcases hq with e | e | e | e | e
    · subst e; exact .inr (.inl ⟨by simp, _, rfl⟩)
    · subst e; exact .inr (.inl ⟨by simp, _, rfl⟩)
    · subst e; exact .inl ⟨by simp, rfl⟩
    · exact .inr (.inr (.inl e))
    · exact .inr (.inr (.inr e)))
  obtain ⟨p, n, hp, hn, hpj⟩ := signModel_reads_back_num cfg _ s hdrs compact hs fit hst ⟨_, rfl⟩
  rw [signed_view_id _ n hn hm] at hpj
  obtain ⟨nk, hnk⟩ := jwk_normalizes k
  have g0 := normalize_obj_get _ n hn "didSuffix"
  have g1 := normalize_obj_get _ n hn "recoveryKey"
  have g2 := normalize_obj_get _ n hn "revealValue"
  have i3 := int64_read _ n "anchorFrom" af hn haf hafr (by
    simp [Json.lookup, lookup_append, lookup_intMember_self, lookup_intMember_ne])
  have i4 := int64_read _ n "anchorUntil" au hn hau haur (by
    simp [Json.lookup, lookup_append, lookup_intMember_self, lookup_intMember_ne])
  simp [Json.lookup, normalize, hnk] at g0 g1 g2
  obtain ⟨nkvs, hnko⟩ : ∃ kvs', nk = .obj kvs' := by
    have : ∃ kvs, k.toJson = .obj kvs := ⟨_, rfl⟩
    obtain ⟨kvs, e⟩ := this
    exact normalize_obj_is_obj kvs nk (e ▸ hnk)
  have hdk : decodeKey n "recoveryKey" = some (some k) := by
    simp only [decodeKey, GoJson.ptr, g1, hnko]
    rw [← hnko, jwk_normal_form_decodes k nk hnk]
    rfl
  simp [parseSignedDataForDeactivate, hp, hpj, hdk, GoJson.str, i3, i4, g0, g2, hkey]

/-- **recover** with an anchoring window (anchor origin absent or a string, as the Sidetree client
    passes it) -/
theorem recover_reads_back_window (H : HashFam) (cfg : Protocol) (k : Jwk) (dh rc : String) (ao : Option String) (s : Signer)
    (hdrs : List (String × Json)) (compact : String)
    (af au : Int) (haf : IntStable af) (hau : IntStable au) (hafr : Int64Range af) (haur : Int64Range au)
    (hs : signModel (recoverSignedJson (some k) dh rc (ao.map Json.str) af au) s = some compact) (fit : SignerFits cfg s hdrs)
    (hkey : signingKeyOK cfg (some k) = true) (hdh : multihashOK cfg dh = true) (hrc : multihashOK cfg rc = true)
    (hfresh : commitmentFresh H k rc = true) :
    parseSignedDataForRecover H cfg compact =
      some { key := some k, deltaHash := dh, recoveryCommitment := rc, anchorOrigin := ao.map Json.str, anchorFrom := af, anchorUntil := au } := by
  obtain ⟨nk, hnk⟩ := jwk_normalizes k
  obtain ⟨nkvs, hnko⟩ : ∃ kvs', nk = .obj kvs' := by
    have : ∃ kvs, k.toJson = .obj kvs := ⟨_, rfl⟩
    obtain ⟨kvs, e⟩ := this
    exact normalize_obj_is_obj kvs nk (e ▸ hnk)
  cases ao with
  | none =>
    have hmodel : recoverSignedJson (some k) dh rc (Option.map Json.str none) af au =
        .obj (("deltaHash", .str dh) :: ("recoveryKey", k.toJson) :: ("recoveryCommitment", .str rc) ::
          (intMember "anchorFrom" af ++ intMember "anchorUntil" au)) := by
      simp [recoverSignedJson, keyJson]
    rw [hmodel] at hs
    obtain ⟨hst, hm⟩ := signed_members_ok
        (("deltaHash", .str dh) :: ("recoveryKey", k.toJson) :: ("recoveryCommitment", .str rc) ::
          (intMember "anchorFrom" af ++ intMember "anchorUntil" au))
        k af au haf hau (by
      intro q hq
      simp only [List.mem_cons, List.mem_append] at hq
      rcases hq with e | e | e | e | e
      · subst e; exact .inr (.inl ⟨by simp, _, rfl⟩)
      · subst e; exact .inl ⟨by simp, rfl⟩
      · subst e; exact .inr (.inl ⟨by simp, _, rfl⟩)
      · exact .inr (.inr (.inl e))
      · exact .inr (.inr (.inr e)))
    obtain ⟨p, n, hp, hn, hpj⟩ := signModel_reads_back_num cfg _ s hdrs compact hs fit hst ⟨_, rfl⟩
    rw [signed_view_id _ n hn hm] at hpj
    have g0 := normalize_obj_get _ n hn "deltaHash"
    have g1 := normalize_obj_get _ n hn "recoveryKey"
    have g2 := normalize_obj_get _ n hn "recoveryCommitment"
    have g5 := normalize_obj_get _ n hn "anchorOrigin"
    have i3 := int64_read _ n "anchorFrom" af hn haf hafr (by
      simp [Json.lookup, lookup_append, lookup_intMember_self, lookup_intMember_ne])
    have i4 := int64_read _ n "anchorUntil" au hn hau haur (by
      simp [Json.lookup, lookup_append, lookup_intMember_self, lookup_intMember_ne])
    simp [Json.lookup, normalize, hnk, lookup_append, lookup_intMember_ne] at g0 g1 g2 g5
    have hdk : decodeKey n "recoveryKey" = some (some k) := by
      simp only [decodeKey, GoJson.ptr, g1, hnko]
      rw [← hnko, jwk_normal_form_decodes k nk hnk]
      rfl
    simp [parseSignedDataForRecover, hp, hpj, hdk, GoJson.str, GoJson.iface, i3, i4, g0, g2, g5, hkey, hdh, hrc, hfresh]
  | some a =>
    have hmodel : recoverSignedJson (some k) dh rc (Option.map Json.str (some a)) af au =
        .obj (("deltaHash", .str dh) :: ("recoveryKey", k.toJson) :: ("recoveryCommitment", .str rc) :: ("anchorOrigin", .str a) ::
          (intMember "anchorFrom" af ++ intMember "anchorUntil" au)) := by
      simp [recoverSignedJson, keyJson]
    rw [hmodel] at hs
    obtain ⟨hst, hm⟩ := signed_members_ok
        (("deltaHash", .str dh) :: ("recoveryKey", k.toJson) :: ("recoveryCommitment", .str rc) :: ("anchorOrigin", .str a) ::
          (intMember "anchorFrom" af ++ intMember "anchorUntil" au))
        k af au haf hau (by
      intro q hq
      simp only [List.mem_cons, List.mem_append] at hq
      rcases hq with e | e | e | e | e | e
      · subst e; exact .inr (.inl ⟨by simp, _, rfl⟩)
      · subst e; exact .inl ⟨by simp, rfl⟩
      · subst e; exact .inr (.inl ⟨by simp, _, rfl⟩)
      · subst e; exact .inr (.inl ⟨by simp, _, rfl⟩)
      · exact .inr (.inr (.inl e))
      · exact .inr (.inr (.inr e)))
    obtain ⟨p, n, hp, hn, hpj⟩ := signModel_reads_back_num cfg _ s hdrs compact hs fit hst ⟨_, rfl⟩
    rw [signed_view_id _ n hn hm] at hpj
    have g0 := normalize_obj_get _ n hn "deltaHash"
    have g1 := normalize_obj_get _ n hn "recoveryKey"
    have g2 := normalize_obj_get _ n hn "recoveryCommitment"
    have g5 := normalize_obj_get _ n hn "anchorOrigin"
    have i3 := int64_read _ n "anchorFrom" af hn haf hafr (by
      simp [Json.lookup, lookup_append, lookup_intMember_self, lookup_intMember_ne])
    have i4 := int64_read _ n "anchorUntil" au hn hau haur (by
      simp [Json.lookup, lookup_append, lookup_intMember_self, lookup_intMember_ne])
    simp [Json.lookup, normalize, hnk] at g0 g1 g2 g5
    have hdk : decodeKey n "recoveryKey" = some (some k) := by
      simp only [decodeKey, GoJson.ptr, g1, hnko]
      rw [← hnko, jwk_normal_form_decodes k nk hnk]
      rfl
    simp [parseSignedDataForRecover, hp, hpj, hdk, GoJson.str, GoJson.iface, i3, i4, g0, g2, g5, hkey, hdh, hrc, hfresh]

/-- the window-free theorems are the instance `af = au = 0` once zero is known to be stable; and
    integer stability is what `RT.stable_of_int` delivers -/
theorem intStable_of (i : Int)
    (hc : (JNum.ofInt i).canon = some ((if i < 0 then ['-'] else []) ++ natDigits i.natAbs))
    (hp : ∀ rest, numStop rest → Parse.parseNumber ((if i < 0 then ['-'] else []) ++ natDigits i.natAbs ++ rest) = some (JNum.ofInt i, rest)) :
    IntStable i := RT.stable_of_int i hc hp


/-- the hypotheses are satisfiable: a concrete window bound -/
theorem intStable_five : IntStable 5 := by
  have e : JNum.ofInt 5 = JNum.ofNat 5 := by decide
  unfold IntStable
  rw [e]
  exact RT.five_stable

theorem int64Range_five : Int64Range 5 := by unfold Int64Range; omega

end Sidetree.Framing
