/-
  Lemmas about model multihashes, parametric in the hash family.
-/
import Sidetree.Hashing
import Sidetree.Lemmas.Multihash

namespace Sidetree
open Hashing

/-- what the theorems need to know about a hash family: codes fit a varint and digests are
    shorter than 2^31 bytes (true of SHA-2: 32 and 64 bytes under codes 18 and 19) -/
structure HashOK (H : HashFam) : Prop where
  code_small : ∀ c h, H c = some h → c < 2 ^ 63
  digest_small : ∀ c h, H c = some h → ∀ d, (h d).length < 2 ^ 31

/-- an explicit collision of the family: two different inputs with the same digest -/
def Collision (H : HashFam) : Prop := ∃ c h a b, H c = some h ∧ a ≠ b ∧ h a = h b

theorem bytesOfString_injective (a b : String) (h : bytesOfString a = bytesOfString b) : a = b := by
  unfold bytesOfString at h
  have h1 : a.toUTF8.data = b.toUTF8.data := Array.toList_inj.mp h
  have h2 : a.toUTF8 = b.toUTF8 := by
    cases ha : a.toUTF8; cases hb : b.toUTF8; simp_all
  exact String.toByteArray_inj.mp h2

theorem ofList_injective (a b : List Char) (h : String.ofList a = String.ofList b) : a = b := by
  have := congrArg String.toList h
  simpa using this

theorem mhEncode_injective (c : Nat) (d1 d2 : Bytes) (hc : c < 2 ^ 63) (h1 : d1.length < 2 ^ 31)
    (h2 : d2.length < 2 ^ 31) (h : mhEncode c d1 = mhEncode c d2) : d1 = d2 := by
  have e1 := mh_decode_encode c d1 hc h1
  have e2 := mh_decode_encode c d2 hc h2
  rw [h, e2] at e1
  simpa using e1.symm

theorem b64EncodeStr_injective (a b : Bytes) (h : b64EncodeStr a = b64EncodeStr b) : a = b :=
  b64_encode_injective a b (ofList_injective _ _ h)

/-- the encoded multihash of `data` under a supported code decodes to that code and digest -/
theorem getMultihash_computed {H : HashFam} (ok : HashOK H) {c : Nat} {h : Bytes → Bytes} (hc : H c = some h)
    (data : Bytes) : getMultihash (b64EncodeStr (mhEncode c (h data))) = some (c, h data) := by
  unfold getMultihash
  rw [b64_decode_strict_encode_str]
  simp [mh_decode_encode c (h data) (ok.code_small c h hc) (ok.digest_small c h hc data)]

theorem calculate_eq {H : HashFam} {v : Json} {c : Nat} {s : String}
    (hs : calculateModelMultihash H v c = some s) :
    ∃ h canon, H c = some h ∧ transformValue v = some canon ∧
      s = b64EncodeStr (mhEncode c (h (bytesOfString (String.ofList canon)))) := by
  unfold calculateModelMultihash multihashOfCanonical computeMultihash at hs
  cases ht : transformValue v with
  | none => simp [ht] at hs
  | some canon =>
    cases hh : H c with
    | none => simp [ht, hh] at hs
    | some h =>
      simp [ht, hh] at hs
      exact ⟨h, canon, rfl, rfl, hs.symm⟩

end Sidetree
