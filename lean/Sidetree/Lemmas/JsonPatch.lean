/-
  Lemmas about the library model: an operation changes at most one top-level member of the
  document, the one named by the first reference token of its pointer.
-/
import Sidetree.JsonPatch

namespace Sidetree.JsonPatch
open Sidetree

theorem lookup_setMember_ne (k n : String) (v : Json) (h : n ≠ k) :
    ∀ kvs, Json.lookup n (Json.setMember k v kvs) = Json.lookup n kvs
  | [] => by simp [Json.setMember, Json.lookup, Ne.symm h]
  | (k', v') :: rest => by
    simp only [Json.setMember]
    by_cases hk : k' = k
    · subst hk; simp [Json.lookup, Ne.symm h]
    · simp only [hk, if_false, Json.lookup]
      by_cases hn : k' = n
      · simp [hn]
      · simp [hn, lookup_setMember_ne k n v h rest]

theorem lookup_eraseMember_ne (k n : String) (h : n ≠ k) :
    ∀ kvs, Json.lookup n (Json.eraseMember k kvs) = Json.lookup n kvs
  | [] => by simp [Json.eraseMember]
  | (k', v') :: rest => by
    simp only [Json.eraseMember]
    by_cases hk : k' = k
    · subst hk
      simp only [if_true, Json.lookup, Ne.symm h, if_false]
      exact lookup_eraseMember_ne k' n h rest
    · simp only [hk, if_false, Json.lookup]
      by_cases hn : k' = n
      · simp [hn]
      · simp [hn, lookup_eraseMember_ne k n h rest]

/-- `f` touches only member `key` of an object -/
def OnlyMember (f : Json → R Json) (key : String) : Prop :=
  ∀ kvs d', f (.obj kvs) = .ok d' → ∃ kvs', d' = .obj kvs' ∧ ∀ n, n ≠ key → Json.lookup n kvs' = Json.lookup n kvs

theorem onlyMember_conAdd (key : String) (v : Json) : OnlyMember (fun con => Lib.conAdd con key v) key := by
  intro kvs d' h
  simp only [Lib.conAdd] at h
  cases h
  exact ⟨_, rfl, fun n hn => lookup_setMember_ne key n v hn kvs⟩

theorem onlyMember_conSet (key : String) (v : Json) : OnlyMember (fun con => Lib.conSet con key v) key := by
  intro kvs d' h
  simp only [Lib.conSet] at h
  cases h
  exact ⟨_, rfl, fun n hn => lookup_setMember_ne key n v hn kvs⟩

theorem onlyMember_conRemove (key : String) : OnlyMember (fun con => Lib.conRemove con key) key := by
  intro kvs d' h
  simp only [Lib.conRemove] at h
  split at h
  · cases h
    exact ⟨_, rfl, fun n hn => lookup_eraseMember_ne key n hn kvs⟩
  · cases h

theorem onlyMember_getSet (key : String) (v : Json) :
    OnlyMember (fun con => do let _ ← Lib.conGet con key; Lib.conSet con key v) key := by
  intro kvs d' h
  simp only [Lib.conGet, bind, R.bind, Lib.conSet] at h
  cases h
  exact ⟨_, rfl, fun n hn => lookup_setMember_ne key n v hn kvs⟩

/-- the top-level member an update through `parts` (then `key`) can change -/
def topOf (parts : List (List Char)) (key : String) : String :=
  match parts with
  | [] => key
  | p :: _ => decodeKey p

/-- an update below an object changes at most the member named by the first token -/
theorem updateAt_only_top (f : Json → R Json) (key : String) (hf : OnlyMember f key)
    (parts : List (List Char)) (kvs : List (String × Json)) (d' : Json)
    (h : Lib.updateAt f parts (.obj kvs) = .ok d') :
    ∃ kvs', d' = .obj kvs' ∧ ∀ n, n ≠ topOf parts key → Json.lookup n kvs' = Json.lookup n kvs := by
  cases parts with
  | nil =>
    simp only [Lib.updateAt] at h
    exact hf kvs d' h
  | cons p ps =>
    simp only [Lib.updateAt, Lib.conGet] at h
    cases hl : (Json.lookup (decodeKey p) kvs).bind Lib.nodeOf with
    | none => simp [hl] at h
    | some next =>
      simp only [hl] at h
      by_cases hc : isContainer next = true
      · simp only [hc, if_true] at h
        cases hu : Lib.updateAt f ps next with
        | ok next' =>
          simp only [hu] at h
          cases h
          exact ⟨_, rfl, fun n hn => lookup_setMember_ne _ n next' hn kvs⟩
        | err => simp [hu] at h
        | panic => simp [hu] at h
        | blowup => simp [hu] at h
      · simp [hc] at h

/-! ### pointers and their first token -/

theorem decodeToken_eq_plain : ∀ (t s : List Char), (∀ c ∈ s, c ≠ '~' ∧ c ≠ '/') → decodeToken t = s → t = s
  | [], s, _, h => by simpa [decodeToken] using h
  | [c], s, hs, h => by
    by_cases hc : c = '~'
    · subst hc
      simp [decodeToken] at h
      subst h
      exact absurd rfl (hs '~' (by simp)).1
    · have : decodeToken [c] = [c] := by
        unfold decodeToken
        split <;> simp_all [decodeToken]
      rw [this] at h; exact h
  | c :: d :: rest, s, hs, h => by
    by_cases hc : c = '~'
    · subst hc
      by_cases h1 : d = '1'
      · subst h1
        simp only [decodeToken] at h
        subst h
        exact absurd rfl (hs '/' (by simp)).2
      · by_cases h0 : d = '0'
        · subst h0
          simp only [decodeToken] at h
          subst h
          exact absurd rfl (hs '~' (by simp)).1
        · have : decodeToken ('~' :: d :: rest) = '~' :: decodeToken (d :: rest) := by
            rw [decodeToken]
            · intro r _ e2; injection e2 with e3 _; exact h1 e3
            · intro r _ e2; injection e2 with e3 _; exact h0 e3
          rw [this] at h
          subst h
          exact absurd rfl (hs '~' (by simp)).1
    · have hd : decodeToken (c :: d :: rest) = c :: decodeToken (d :: rest) := by
        rw [decodeToken]
        · intro r e _; exact hc e
        · intro r e _; exact hc e
      rw [hd] at h
      cases s with
      | nil => cases h
      | cons sc ss =>
        injection h with h1 h2
        subst h1
        have := decodeToken_eq_plain (d :: rest) ss (fun x hx => hs x (List.mem_cons_of_mem _ hx)) h2
        rw [this]


def firstTok (cs : List Char) : List Char := cs.takeWhile (· ≠ '/')

theorem splitSlash_go_head : ∀ (cs cur : List Char),
    ∃ more, splitSlash.go cs cur = (cur.reverse ++ firstTok cs) :: more
  | [], cur => ⟨[], by simp [splitSlash.go, firstTok]⟩
  | c :: rest, cur => by
    by_cases hc : c = '/'
    · subst hc
      exact ⟨splitSlash.go rest [], by simp [splitSlash.go, firstTok]⟩
    · obtain ⟨more, hm⟩ := splitSlash_go_head rest (c :: cur)
      refine ⟨more, ?_⟩
      simp only [splitSlash.go, hc, if_false, hm, firstTok, List.takeWhile_cons, ne_eq, not_false_eq_true,
        decide_true, if_true, List.reverse_cons, List.append_assoc, List.singleton_append]

theorem splitSlash_slash (cs : List Char) :
    ∃ more, splitSlash ('/' :: cs) = [] :: firstTok cs :: more := by
  obtain ⟨more, hm⟩ := splitSlash_go_head cs []
  exact ⟨more, by simp [splitSlash, splitSlash.go, hm]⟩

theorem splitSlash_noslash (c : Char) (cs : List Char) (hc : c ≠ '/') :
    ∃ more, splitSlash (c :: cs) = (c :: firstTok cs) :: more := by
  obtain ⟨more, hm⟩ := splitSlash_go_head cs [c]
  exact ⟨more, by simp [splitSlash, splitSlash.go, hc, hm]⟩

/-- for a pointer that starts with `/`, the top-level member an operation can change is the
    decoded first token -/
theorem topOf_splitPointer (cs : List Char) (parts : List (List Char)) (key : String)
    (h : Lib.splitPointer (String.ofList ('/' :: cs)) = some (parts, key)) :
    topOf parts key = decodeKey (firstTok cs) := by
  obtain ⟨more, hm⟩ := splitSlash_slash cs
  simp only [Lib.splitPointer, String.toList_ofList, hm] at h
  cases more with
  | nil =>
    simp at h
    obtain ⟨h1, h2⟩ := h
    subst h1; subst h2
    simp [topOf]
  | cons m ms =>
    simp at h
    obtain ⟨h1, h2⟩ := h
    subst h1
    simp [topOf, List.dropLast]

theorem isPrefixOf_firstTok (s cs : List Char) (hs : ∀ c ∈ s, c ≠ '/') (h : firstTok cs = s) :
    s.isPrefixOf cs = true := by
  have hp : (firstTok cs) <+: cs := List.takeWhile_prefix _
  rw [h] at hp
  exact List.isPrefixOf_iff_prefix.mpr hp

/-- a pointer accepted by `pointerOK` cannot have a first token that decodes to a protected name -/
theorem pointerOK_top_ne (cs : List Char) (name : List Char)
    (hplain : ∀ c ∈ name, c ≠ '~' ∧ c ≠ '/')
    (hnot : ('/' :: name).isPrefixOf ('/' :: cs) = false) :
    decodeKey (firstTok cs) ≠ String.ofList name := by
  intro he
  have h1 : decodeToken (firstTok cs) = name := by
    have := congrArg String.toList he
    simpa [decodeKey] using this
  have h2 := decodeToken_eq_plain _ _ hplain h1
  have h3 := isPrefixOf_firstTok name cs (fun c hc => (hplain c hc).2) h2
  simp [List.isPrefixOf, h3] at hnot

end Sidetree.JsonPatch
