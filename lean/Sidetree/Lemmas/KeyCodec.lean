import Sidetree.KeyCodec
import Sidetree.Lemmas.Base64

namespace Sidetree

theorem padBE_length : ∀ (size n : Nat), (padBE n size).length = size
  | 0, _ => rfl
  | size + 1, n => by simp [padBE, padBE_length size]

theorem fromBE_append_byte (bs : Bytes) (b : UInt8) : fromBE (bs ++ [b]) = fromBE bs * 256 + b.toNat := by
  simp [fromBE, List.foldl_append]

theorem fromBE_padBE : ∀ (size n : Nat), n < 256 ^ size → fromBE (padBE n size) = n
  | 0, n, h => by
    have : n = 0 := by simpa using h
    simp [padBE, fromBE, this]
  | size + 1, n, h => by
    have hdiv : n / 256 < 256 ^ size := by
      rw [Nat.pow_succ] at h
      exact Nat.div_lt_of_lt_mul (by rw [Nat.mul_comm]; exact h)
    have hb : ((n % 256).toUInt8).toNat = n % 256 := by
      simp [Nat.toUInt8, UInt8.toNat_ofNat']
    rw [padBE, fromBE_append_byte, fromBE_padBE size (n / 256) hdiv, hb]
    omega

end Sidetree
