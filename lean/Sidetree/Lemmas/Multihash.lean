/-
  go-varint / go-multihash round trips.
-/
import Sidetree.Lemmas.Base64

namespace Sidetree

theorem toUInt8_toNat_of_lt (k : Nat) (h : k < 256) : (k.toUInt8).toNat = k := by
  simp [Nat.toUInt8, UInt8.toNat_ofNat']; omega

theorem varintDecodeAux_encode :
    ∀ (n i x : Nat) (rest : Bytes), i ≤ 8 → n < 2 ^ (63 - 7 * i) → (0 < i → 0 < n) →
      varintDecodeAux i x (7 * i) (varintEncode n ++ rest) = some (x + n * 2 ^ (7 * i), rest) := by
  intro n
  induction n using Nat.strongRecOn with
  | _ n ih =>
    intro i x rest hi hn hpos
    rw [varintEncode.eq_1]
    by_cases h : n < 128
    · simp only [h, dite_true, List.cons_append, List.nil_append, varintDecodeAux]
      have e : (n.toUInt8).toNat = n := toUInt8_toNat_of_lt n (by omega)
      rw [e]
      have c1 : ¬ ((i = 8 ∧ n ≥ 128) ∨ i ≥ 9) := by omega
      have c2 : ¬ (n = 0 ∧ 7 * i > 0) := by
        intro ⟨h0, hs⟩
        have : 0 < i := by omega
        have := hpos this
        omega
      simp [c1, h]
      intro h0
      by_cases hz : i = 0
      · exact hz
      · exfalso; have := hpos (by omega); omega
    · simp only [h, dite_false, List.cons_append, varintDecodeAux]
      have e : ((n % 128 + 128).toUInt8).toNat = n % 128 + 128 := toUInt8_toNat_of_lt _ (by omega)
      rw [e]
      -- index i < 8, otherwise n < 128
      have hi8 : i < 8 := by
        rcases Nat.lt_or_ge i 8 with h8 | h8
        · exact h8
        · have : i = 8 := by omega
          subst this
          simp at hn
          omega
      have c1 : ¬ ((i = 8 ∧ n % 128 + 128 ≥ 128) ∨ i ≥ 9) := by omega
      have c3 : ¬ (n % 128 + 128 < 128) := by omega
      simp only [c1, c3, if_false]
      have hdiv : n / 128 < n := by omega
      have hn' : n / 128 < 2 ^ (63 - 7 * (i + 1)) := by
        have : 2 ^ (63 - 7 * i) = 2 ^ (63 - 7 * (i + 1)) * 128 := by
          have : 63 - 7 * i = (63 - 7 * (i + 1)) + 7 := by omega
          rw [this, Nat.pow_add]
        rw [this] at hn
        exact Nat.div_lt_of_lt_mul (by rw [Nat.mul_comm]; exact hn)
      have := ih (n / 128) hdiv (i + 1) (x + (n % 128 + 128 - 128) * 2 ^ (7 * i)) rest (by omega) hn'
        (fun _ => by omega)
      have hs : 7 * i + 7 = 7 * (i + 1) := by omega
      rw [hs, this]
      simp only [Option.some.injEq, Prod.mk.injEq, and_true]
      have hp : 2 ^ (7 * (i + 1)) = 128 * 2 ^ (7 * i) := by
        have : 7 * (i + 1) = 7 + 7 * i := by omega
        rw [this, Nat.pow_add]
      rw [hp]
      have hm : n % 128 + 128 - 128 = n % 128 := by omega
      rw [hm]
      have hd := Nat.div_add_mod n 128
      generalize 2 ^ (7 * i) = P
      have e1 : n * P = 128 * (n / 128) * P + n % 128 * P := by rw [← Nat.add_mul, hd]
      have e2 : n / 128 * (128 * P) = 128 * (n / 128) * P := by
        rw [← Nat.mul_assoc, Nat.mul_comm (n / 128) 128]
      rw [e1, e2]; omega

/-- varint round trip for every value the library can encode (below 2^63) -/
theorem varint_decode_encode (n : Nat) (h : n < 2 ^ 63) (rest : Bytes) :
    varintDecode (varintEncode n ++ rest) = some (n, rest) := by
  have := varintDecodeAux_encode n 0 0 rest (by omega) (by simpa using h) (by omega)
  simpa [varintDecode] using this

theorem varintEncode_ne_nil (n : Nat) : varintEncode n ≠ [] := by
  rw [varintEncode.eq_1]; split <;> simp

/-- multihash round trip -/
theorem mh_decode_encode (code : Nat) (digest : Bytes) (hc : code < 2 ^ 63) (hl : digest.length < 2 ^ 31) :
    mhDecode (mhEncode code digest) = some (code, digest) := by
  unfold mhDecode mhEncode
  have l1 : (varintEncode code).length ≥ 1 := by
    have := varintEncode_ne_nil code
    cases h : varintEncode code <;> simp_all
  have l2 : (varintEncode digest.length).length ≥ 1 := by
    have := varintEncode_ne_nil digest.length
    cases h : varintEncode digest.length <;> simp_all
  have hlen : ¬ (varintEncode code ++ varintEncode digest.length ++ digest).length < 2 := by
    simp only [List.length_append]; omega
  simp only [hlen, if_false]
  rw [List.append_assoc, varint_decode_encode code hc]
  simp only
  rw [varint_decode_encode digest.length (by omega)]
  simp only
  have : ¬ digest.length > 2147483647 := by omega
  simp [this]

end Sidetree
