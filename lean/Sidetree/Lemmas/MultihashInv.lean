/-
  The readers of varints and multihashes accept one encoding per value (minimal varints, exact
  length), and — since the D21 repair — the base64url text in front of them is canonical too:
  an encoded multihash that is accepted is *the* text of its code and digest.
-/
import Sidetree.Lemmas.Hashing
namespace Sidetree
open Sidetree.Hashing

theorem uint8_roundtrip (b : UInt8) : b.toNat.toUInt8 = b := by
  simp

/-- **the varint reader accepts minimal encodings only**: whatever it reads is the encoding of the
    number it returns, followed by the rest -/
theorem varintDecodeAux_inv : ∀ (bs : Bytes) (i x s v : Nat) (rest : Bytes),
    varintDecodeAux i x s bs = some (v, rest) →
    ∃ n, v = x + n * 2 ^ s ∧ bs = varintEncode n ++ rest ∧ (s > 0 → n > 0)
  | [], i, x, s, v, rest, h => by simp [varintDecodeAux] at h
  | b :: tl, i, x, s, v, rest, h => by
    simp only [varintDecodeAux] at h
    split at h
    · cases h
    · split at h
      · rename_i hb
        split at h
        · cases h
        · rename_i hz
          simp only [Option.some.injEq, Prod.mk.injEq] at h
          obtain ⟨hv, hr⟩ := h
          refine ⟨b.toNat, hv.symm, ?_, ?_⟩
          · rw [varintEncode.eq_1]
            simp [hb, hr]
          · intro hs
            rcases Nat.eq_zero_or_pos b.toNat with h0 | h0
            · exact absurd ⟨h0, hs⟩ hz
            · exact h0
      · rename_i hb
        obtain ⟨n', hv, htl, hpos⟩ := varintDecodeAux_inv tl (i + 1) (x + (b.toNat - 128) * 2 ^ s) (s + 7) v rest h
        have hn' : n' > 0 := hpos (by omega)
        have hb128 : b.toNat ≥ 128 := by omega
        have hb256 : b.toNat < 256 := b.toNat_lt
        refine ⟨(b.toNat - 128) + 128 * n', ?_, ?_, fun _ => by omega⟩
        · rw [hv, Nat.pow_add]
          have : (b.toNat - 128 + 128 * n') * 2 ^ s = (b.toNat - 128) * 2 ^ s + n' * (2 ^ s * 2 ^ 7) := by
            rw [Nat.add_mul]
            have : 128 * n' * 2 ^ s = n' * (2 ^ s * 2 ^ 7) := by
              have e : (2:Nat) ^ 7 = 128 := by decide
              rw [e, Nat.mul_comm 128 n', Nat.mul_assoc, Nat.mul_comm 128 (2 ^ s)]
            rw [this]
          rw [this]; omega
        · rw [varintEncode.eq_1]
          have hge : ¬ (b.toNat - 128 + 128 * n' < 128) := by omega
          simp only [hge, dite_false]
          have hm : (b.toNat - 128 + 128 * n') % 128 = b.toNat - 128 := by omega
          have hd : (b.toNat - 128 + 128 * n') / 128 = n' := by omega
          rw [hm, hd, htl]
          have : (b.toNat - 128 + 128).toUInt8 = b := by
            have : b.toNat - 128 + 128 = b.toNat := by omega
            rw [this]; simp
          rw [this]
          rfl

theorem varintDecode_inv (bs : Bytes) (n : Nat) (rest : Bytes) (h : varintDecode bs = some (n, rest)) :
    bs = varintEncode n ++ rest := by
  obtain ⟨m, hv, hbs, _⟩ := varintDecodeAux_inv bs 0 0 0 n rest h
  simp at hv
  rw [hbs, hv]

/-- a multihash that decodes is the encoding of what it decodes to -/
theorem mhDecode_inv (bs : Bytes) (c : Nat) (d : Bytes) (h : mhDecode bs = some (c, d)) : bs = mhEncode c d := by
  unfold mhDecode at h
  split at h
  · cases h
  · cases h1 : varintDecode bs with
    | none => simp [h1] at h
    | some p1 =>
      obtain ⟨code, r1⟩ := p1
      simp only [h1] at h
      cases h2 : varintDecode r1 with
      | none => simp [h2] at h
      | some p2 =>
        obtain ⟨len, r2⟩ := p2
        simp only [h2] at h
        split at h
        · cases h
        · split at h
          · cases h
          · rename_i hlen
            simp only [Option.some.injEq, Prod.mk.injEq] at h
            obtain ⟨rfl, rfl⟩ := h
            have e1 := varintDecode_inv bs code r1 h1
            have e2 := varintDecode_inv r1 len r2 h2
            have : len = r2.length := by simpa using hlen
            rw [e1, e2, this, mhEncode, List.append_assoc]

/-- **one hash, one text**: an encoded multihash that any entry point accepts is the canonical
    base64url text of the multihash encoding of its code and digest — two accepted texts with the
    same code and digest are the same string, so comparing texts compares hashes (D21) -/
theorem getMultihash_inv (enc : String) (c : Nat) (d : Bytes) (h : getMultihash enc = some (c, d)) :
    enc = b64EncodeStr (mhEncode c d) := by
  unfold getMultihash at h
  cases hb : b64DecodeStrictStr enc with
  | none => simp [hb] at h
  | some bs =>
    simp only [hb, Option.bind_some] at h
    rw [(b64_decode_strict_inv enc bs hb).2, mhDecode_inv bs c d h]

theorem one_hash_one_text (a b : String) (cd : Nat × Bytes) (ha : getMultihash a = some cd) (hb : getMultihash b = some cd) :
    a = b := by
  obtain ⟨c, d⟩ := cd
  rw [getMultihash_inv a c d ha, getMultihash_inv b c d hb]

end Sidetree
