/-
  `normalize` does not depend on the order of an object's members.
-/
import Sidetree.Lemmas.Utf16

namespace Sidetree
open Json

theorem namesNodup_iff : ∀ (kvs : List (String × Json)), namesNodup kvs = true ↔ (kvs.map (·.1)).Nodup
  | [] => by simp [namesNodup]
  | (k, v) :: xs => by
    simp only [namesNodup, Bool.and_eq_true, Bool.not_eq_true', List.map_cons, List.nodup_cons,
      namesNodup_iff xs]
    constructor
    · rintro ⟨h1, h2⟩
      refine ⟨?_, h2⟩
      intro hm
      rcases List.mem_map.mp hm with ⟨p, hp, hpk⟩
      have : xs.any (fun p => p.1 == k) = true := List.any_eq_true.mpr ⟨p, hp, by simp [hpk]⟩
      rw [this] at h1; cases h1
    · rintro ⟨h1, h2⟩
      refine ⟨?_, h2⟩
      cases h : xs.any (fun p => p.1 == k)
      · rfl
      · exfalso
        rcases List.any_eq_true.mp h with ⟨p, hp, hpk⟩
        exact h1 (List.mem_map.mpr ⟨p, hp, by simpa using hpk⟩)

theorem normalizeMembers_cons (k : String) (x : Json) (xs : List (String × Json)) :
    normalizeMembers ((k, x) :: xs) =
      match normalize x, normalizeMembers xs with
      | some x', some xs' => some ((k, x') :: xs')
      | _, _ => none := by
  rw [normalizeMembers]
  cases normalize x <;> cases normalizeMembers xs <;> rfl

/-- `normalizeMembers` maps a permutation of the input to a permutation of the output -/
theorem normalizeMembers_perm {k1 k2 : List (String × Json)} (hp : k1.Perm k2) :
    ∀ r1, normalizeMembers k1 = some r1 → ∃ r2, normalizeMembers k2 = some r2 ∧ r1.Perm r2 := by
  induction hp with
  | nil => intro r1 h; exact ⟨r1, h, List.Perm.refl _⟩
  | @cons a l1 l2 _ ih =>
    intro r1 h
    obtain ⟨k, x⟩ := a
    rw [normalizeMembers_cons] at h ⊢
    cases hx : normalize x with
    | none => simp [hx] at h
    | some x' =>
      cases hl : normalizeMembers l1 with
      | none => simp [hx, hl] at h
      | some r =>
        simp only [hx, hl, Option.some.injEq] at h
        obtain ⟨r2, h2, p2⟩ := ih r hl
        subst h
        exact ⟨(k, x') :: r2, by simp [h2], List.Perm.cons _ p2⟩
  | swap a b l =>
    intro r1 h
    obtain ⟨ka, xa⟩ := a
    obtain ⟨kb, xb⟩ := b
    simp only [normalizeMembers_cons] at h ⊢
    cases hxa : normalize xa <;> cases hxb : normalize xb <;> cases hl : normalizeMembers l <;>
      simp [hxa, hxb, hl] at h
    subst h
    exact ⟨_, by simp, List.Perm.swap _ _ _⟩
  | trans _ _ ih1 ih2 =>
    intro r1 h
    obtain ⟨r2, h2, p2⟩ := ih1 r1 h
    obtain ⟨r3, h3, p3⟩ := ih2 r2 h2
    exact ⟨r3, h3, p2.trans p3⟩

theorem normalizeMembers_none_perm {k1 k2 : List (String × Json)} (hp : k1.Perm k2)
    (h : normalizeMembers k1 = none) : normalizeMembers k2 = none := by
  cases h2 : normalizeMembers k2 with
  | none => rfl
  | some r2 =>
    obtain ⟨r1, h1, _⟩ := normalizeMembers_perm hp.symm r2 h2
    rw [h] at h1; cases h1

/-- **member order is irrelevant**: permuting the members of an object does not change its
    normal form (including whether it has one) -/
theorem normalize_obj_perm {k1 k2 : List (String × Json)} (hp : k1.Perm k2) :
    normalize (.obj k1) = normalize (.obj k2) := by
  simp only [normalize]
  cases h1 : normalizeMembers k1 with
  | none => simp [normalizeMembers_none_perm hp h1]
  | some r1 =>
    obtain ⟨r2, h2, p⟩ := normalizeMembers_perm hp r1 h1
    simp only [h2]
    by_cases hnd : namesNodup r1 = true
    · have hnd2 : namesNodup r2 = true := by
        rw [namesNodup_iff] at hnd ⊢
        exact (p.map _).nodup_iff.mp hnd
      simp only [hnd, hnd2, if_true]
      rw [sortMembers_eq_of_perm r1 r2 p ((namesNodup_iff r1).mp hnd)]
    · have hnd2 : ¬ namesNodup r2 = true := by
        intro h
        apply hnd
        rw [namesNodup_iff] at h ⊢
        exact (p.map _).nodup_iff.mpr h
      simp [hnd, hnd2]


theorem normalize_obj_cons_congr {x y : Json} (h : normalize x = normalize y) (name : String)
    (others : List (String × Json)) :
    normalize (.obj ((name, x) :: others)) = normalize (.obj ((name, y) :: others)) := by
  rw [normalize, normalize, normalizeMembers_cons, normalizeMembers_cons, h]

end Sidetree
