/-
  Integer literals below 2^53: canonical printing (`JNum.canon`) gives back the decimal
  digits, and the reader (`Parse.parseNumber`) reads decimal digits back.

  Helper files: `NumIntA` (toF64 / shortest on integers), `NumIntDigits` (stripZeros,
  es6Notation, natDigits of multiples of powers of ten), `NumIntParse` (the reader on a
  digit string followed by a stop; `NumIntParse.stop` there is `numStop` here).
-/
import Sidetree.Num
import Sidetree.Lemmas.NumIntA
import Sidetree.Lemmas.NumIntDigits
import Sidetree.Lemmas.NumIntParse

namespace Sidetree

/-- `shortest` on the double of a positive integer below 2^53 denotes that integer with a
    non-negative decimal exponent -/
theorem shortest_ofNat (neg : Bool) (n : Nat) (hn : 0 < n) (h : n < 2 ^ 53) :
    0 ≤ (shortest { neg := neg, m := n * 2 ^ (53 - bitLen n), e := -((53 - bitLen n : Nat) : Int) }).2 ∧
    (shortest { neg := neg, m := n * 2 ^ (53 - bitLen n), e := -((53 - bitLen n : Nat) : Int) }).1 *
      10 ^ (shortest { neg := neg, m := n * 2 ^ (53 - bitLen n), e := -((53 - bitLen n : Nat) : Int) }).2.toNat = n := by
  obtain ⟨a, b, c, d⟩ := shift_spec n hn h
  exact shortest_nat neg n _ a b c d

/-- a signed positive integer mantissa below 2^53 with exponent 0 prints as sign and digits -/
theorem canon_mk_pos (neg ii : Bool) (n : Nat) (hn : 0 < n) (h : n < 2 ^ 53) :
    JNum.canon { neg := neg, mant := n, exp10 := 0, isInt := ii } =
      some ((if neg then ['-'] else []) ++ natDigits n) := by
  unfold JNum.canon JNum.toF64
  simp only [toF64_ofNat neg n hn h, Option.map_some]
  have hP : 0 < 2 ^ (53 - bitLen n) := Nat.pow_pos (by decide)
  have hm : n * 2 ^ (53 - bitLen n) ≠ 0 := Nat.ne_of_gt (Nat.mul_pos hn hP)
  rw [es6_of_shortest _ n hn (by omega) hm (shortest_ofNat neg n hn h)]

theorem canon_mk_zero (neg ii : Bool) :
    JNum.canon { neg := neg, mant := 0, exp10 := 0, isInt := ii } = some ['0'] := by
  simp [JNum.canon, JNum.toF64, toF64, es6, F64.isZero]

/-- an integer literal below 2^53 prints as its decimal digits -/
theorem canon_ofNat (n : Nat) (h : n < 2 ^ 53) : (JNum.ofNat n).canon = some (natDigits n) := by
  unfold JNum.ofNat
  rcases Nat.eq_zero_or_pos n with h0 | hn
  · subst h0; rw [canon_mk_zero]; rfl
  · rw [canon_mk_pos false true n hn h]; rfl

theorem canon_ofInt (i : Int) (h : i.natAbs < 2 ^ 53) :
    (JNum.ofInt i).canon = some ((if i < 0 then ['-'] else []) ++ natDigits i.natAbs) := by
  unfold JNum.ofInt
  rcases Nat.eq_zero_or_pos i.natAbs with h0 | hn
  · have hi : i = 0 := Int.natAbs_eq_zero.1 h0
    subst hi
    simp only [Int.natAbs_zero, canon_mk_zero]
    rfl
  · rw [canon_mk_pos _ true _ hn h]
    by_cases hneg : i < 0 <;> simp [hneg]

/-- what follows the literal cannot continue a number -/
def numStop (rest : List Char) : Prop :=
  ∀ c tl, rest = c :: tl → ¬ (Parse.isDigit c = true ∨ c = '.' ∨ c = 'e' ∨ c = 'E')

/-- the reader reads a decimal integer literal back, whatever follows that cannot continue a number -/
theorem parseNumber_natDigits (n : Nat) (rest : List Char) (hr : numStop rest) :
    Parse.parseNumber (natDigits n ++ rest) = some (JNum.ofNat n, rest) := by
  have h := NumIntParse.parse_natDigits false n rest hr
  simpa [JNum.ofNat] using h

theorem parseNumber_intDigits (i : Int) (rest : List Char) (hr : numStop rest) :
    Parse.parseNumber ((if i < 0 then ['-'] else []) ++ natDigits i.natAbs ++ rest)
      = some (JNum.ofInt i, rest) := by
  have h := NumIntParse.parse_natDigits (decide (i < 0)) i.natAbs rest hr
  simpa [JNum.ofInt] using h

end Sidetree

