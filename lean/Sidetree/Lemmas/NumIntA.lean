/-
  Helper lemmas for `Sidetree.Lemmas.NumInt`: the IEEE-754 reading of a positive integer
  below 2^53 (`toF64_ofNat`) and the shortest-digits search on it (`shortest_nat`).
-/
import Sidetree.Num
namespace Sidetree

theorem bitLen_spec (n : Nat) (hn : 0 < n) : 2 ^ (bitLen n - 1) ≤ n ∧ n < 2 ^ bitLen n ∧ 0 < bitLen n := by
  have h0 : n ≠ 0 := by omega
  simp only [bitLen, h0, if_false, Nat.add_sub_cancel]
  exact ⟨Nat.log2_self_le h0, Nat.lt_log2_self, by omega⟩

theorem bitLen_eq (n b : Nat) (hlo : 2 ^ b ≤ n) (hhi : n < 2 ^ (b + 1)) : bitLen n = b + 1 := by
  have hpos : 0 < 2 ^ b := Nat.pow_pos (by decide)
  have h0 : n ≠ 0 := by omega
  simp only [bitLen, h0, if_false]
  have h1 : n.log2 < b + 1 := (Nat.log2_lt h0).2 hhi
  have h2 : ¬ n.log2 < b := fun h => by
    have := (Nat.log2_lt h0).1 h
    omega
  omega

theorem divRoundEven_one (x : Nat) : divRoundEven x 1 = x := by
  simp [divRoundEven, Nat.mod_one]

theorem toF64_nat (neg : Bool) (n k : Nat) (hk : k ≤ 52) (hlo : 2 ^ 52 ≤ n * 2 ^ k)
    (hhi : n * 2 ^ k < 2 ^ 53) (hb : bitLen n = 53 - k) (hd : decLen n ≤ 16) :
    toF64 neg n 0 = some { neg := neg, m := n * 2 ^ k, e := -(k : Int) } := by
  have h0 : n ≠ 0 := by
    intro h; subst h; simp at hlo
  unfold toF64
  rw [if_neg h0]
  extract_lets mag num den e0 scaled fl e1 e2 e3 m
  have hnum : num = n := by simp [num, pow10]
  have hden : den = 1 := by simp [den]
  have hb1 : bitLen 1 = 1 := by decide
  have he0 : e0 = -((k + 1 : Nat) : Int) := by
    simp only [e0, hnum, hden, hb, hb1]; omega
  have hsc : ∀ j : Nat, scaled (-(j : Int)) = (n * 2 ^ j, 1) := by
    intro j
    simp only [scaled, hnum, hden]
    split
    · have : j = 0 := by omega
      subst this; simp
    · simp
  have hfl : ∀ j : Nat, fl (-(j : Int)) = n * 2 ^ j := by
    intro j; simp only [fl, hsc, Nat.div_one]
  have he1 : e1 = -(k : Int) := by
    have : fl e0 ≥ 2 ^ 53 := by
      rw [he0, hfl, Nat.pow_succ, ← Nat.mul_assoc]; omega
    simp only [e1, if_pos this, he0]; omega
  have he2 : e2 = -(k : Int) := by
    have h1 : ¬ fl e1 ≥ 2 ^ 53 := by rw [he1, hfl]; omega
    have h2 : ¬ fl e1 < 2 ^ 52 := by rw [he1, hfl]; omega
    rw [he1] at h1 h2
    simp only [e2, he1, if_neg h1, if_neg h2]
  have he3 : e3 = -(k : Int) := by
    simp only [e3, he2]; rw [if_neg (by omega)]
  have hm : m = n * 2 ^ k := by
    simp only [m, he3, hsc, divRoundEven_one]
  have hmag : mag ≤ 16 := by simp only [mag]; omega
  rw [if_neg (by omega), if_neg (by omega), hm, if_neg (by omega), he3]
  simp only []
  rw [if_neg (by omega)]

theorem decLen_le16 (n : Nat) (h : n < 2 ^ 53) : decLen n ≤ 16 := by
  unfold decLen
  rw [Nat.length_repr_le_iff (by decide)]
  omega

/-- normalisation shift of a positive integer below 2^53 -/
theorem shift_spec (n : Nat) (hn : 0 < n) (h : n < 2 ^ 53) :
    53 - bitLen n ≤ 52 ∧ 2 ^ 52 ≤ n * 2 ^ (53 - bitLen n) ∧ n * 2 ^ (53 - bitLen n) < 2 ^ 53 ∧
      bitLen n = 53 - (53 - bitLen n) := by
  obtain ⟨h1, h2, h3⟩ := bitLen_spec n hn
  have hb : bitLen n ≤ 53 := by
    apply Classical.byContradiction; intro hc
    have : 2 ^ 53 ≤ 2 ^ (bitLen n - 1) := Nat.pow_le_pow_right (by decide) (by omega)
    omega
  have e1 : 2 ^ (bitLen n - 1) * 2 ^ (53 - bitLen n) = 2 ^ 52 := by
    rw [← Nat.pow_add]; congr 1; omega
  have e2 : 2 ^ (bitLen n) * 2 ^ (53 - bitLen n) = 2 ^ 53 := by
    rw [← Nat.pow_add]; congr 1; omega
  have hp : 0 < 2 ^ (53 - bitLen n) := Nat.pow_pos (by decide)
  refine ⟨by omega, ?_, ?_, by omega⟩
  · rw [← e1]; exact Nat.mul_le_mul_right _ h1
  · rw [← e2]; exact Nat.mul_lt_mul_of_pos_right h2 hp

theorem toF64_ofNat (neg : Bool) (n : Nat) (hn : 0 < n) (h : n < 2 ^ 53) :
    toF64 neg n 0 = some { neg := neg, m := n * 2 ^ (53 - bitLen n), e := -((53 - bitLen n : Nat) : Int) } := by
  obtain ⟨a, b, c, d⟩ := shift_spec n hn h
  exact toF64_nat neg n _ a b c d (decLen_le16 n h)

def goodRes (n : Nat) (r : Nat × Int) : Prop := 0 ≤ r.2 ∧ r.1 * 10 ^ r.2.toNat = n

theorem floorDiv10_zero (v : Q) (n : Nat) (hD : 0 < v.den) (hv : v.num = n * v.den) :
    Q.floorDiv10 v 0 = n := by
  simp [Q.floorDiv10, pow10, hv, Nat.mul_div_cancel _ hD]

theorem go_spec (d : F64) (v : Q) (inside : Q → Bool) (n L : Nat) (hD : 0 < v.den)
    (hv : v.num = n * v.den)
    (Hin : ∀ x (p : Int), 0 ≤ p → inside (Q.dec x p) = true → x * 10 ^ p.toNat = n)
    (Hin' : inside (Q.dec n 0) = true) :
    ∀ f k, 1 ≤ k → k ≤ L → L - k < f → goodRes n (shortest.go d v inside (L : Int) f k) := by
  intro f
  induction f with
  | zero => intro k _ _ h; omega
  | succ f ih =>
    intro k hk1 hkL hf
    rw [shortest.go]
    have hp : 0 ≤ (L : Int) - (k : Int) := by omega
    generalize hn0 : Q.floorDiv10 v ((L : Int) - (k : Int)) = n0
    have g : ∀ x, inside (Q.dec x ((L : Int) - (k : Int))) = true → goodRes n (x, (L : Int) - (k : Int)) :=
      fun x hx => ⟨hp, Hin x _ hp hx⟩
    by_cases h0 : inside (Q.dec n0 ((L : Int) - (k : Int))) = true
    · by_cases h1 : inside (Q.dec (n0 + 1) ((L : Int) - (k : Int))) = true
      · simp only [h0, h1, Bool.and_self, if_true]
        repeat' split
        all_goals first | exact g _ h0 | exact g _ h1
      · simp only [h0, h1, Bool.and_false, if_true]
        exact g _ h0
    · by_cases h1 : inside (Q.dec (n0 + 1) ((L : Int) - (k : Int))) = true
      · simp only [h0, h1, Bool.false_and, if_true]
        exact g _ h1
      · simp only [h0, h1, Bool.false_and]
        have hlt : k < L := by
          apply Classical.byContradiction; intro hc
          have hkeq : k = L := by omega
          subst hkeq
          have hz : (k : Int) - (k : Int) = 0 := by omega
          rw [hz] at hn0 h0
          rw [floorDiv10_zero v n hD hv] at hn0
          subst hn0
          exact h0 Hin'
        exact ih (k + 1) (by omega) (by omega) (by omega)

theorem decLen_spec (n : Nat) (hn : 0 < n) :
    0 < decLen n ∧ 10 ^ (decLen n - 1) ≤ n ∧ n < 10 ^ decLen n := by
  have hpos : 0 < decLen n := Nat.length_repr_pos
  refine ⟨hpos, ?_, ?_⟩
  · by_cases h1 : decLen n - 1 = 0
    · rw [h1]; simp; omega
    · have := @Nat.length_repr_le_iff n (decLen n - 1) (by omega)
      apply Classical.byContradiction; intro hc
      have h2 : n.repr.length ≤ decLen n - 1 := this.2 (by omega)
      unfold decLen at *
      omega
  · exact (Nat.length_repr_le_iff hpos).1 (Nat.le_refl _)

theorem lt_dec_false (v : Q) (n : Nat) (hn : 0 < n) (_hD : 0 < v.den) (hv : v.num = n * v.den)
    (M : Int) (hM : M < (decLen n : Int)) : Q.lt v (Q.dec 1 M) = false := by
  obtain ⟨h1, h2, h3⟩ := decLen_spec n hn
  unfold Q.dec
  split
  · rename_i hge
    have hle : 10 ^ M.toNat ≤ 10 ^ (decLen n - 1) := Nat.pow_le_pow_right (by decide) (by omega)
    simp only [Q.lt, pow10, hv, Nat.mul_one, Nat.one_mul, decide_eq_false_iff_not, Nat.not_lt]
    exact Nat.mul_le_mul_right _ (by omega)
  · have hP : 0 < 10 ^ (-M).toNat := Nat.pow_pos (by decide)
    simp only [Q.lt, pow10, hv, Nat.one_mul, decide_eq_false_iff_not, Nat.not_lt]
    exact Nat.le_trans (Nat.le_mul_of_pos_left _ hn) (Nat.le_mul_of_pos_right _ hP)

theorem lt_dec_true (v : Q) (n : Nat) (hn : 0 < n) (hD : 0 < v.den) (hv : v.num = n * v.den) :
    Q.lt v (Q.dec 1 (decLen n : Int)) = true := by
  obtain ⟨h1, h2, h3⟩ := decLen_spec n hn
  unfold Q.dec
  rw [if_pos (by omega)]
  simp only [Q.lt, pow10, hv, Nat.mul_one, Nat.one_mul, decide_eq_true_eq, Int.toNat_natCast]
  exact Nat.mul_lt_mul_of_pos_right h3 hD

theorem le_dec_true (v : Q) (n : Nat) (hn : 0 < n) (_hD : 0 < v.den) (hv : v.num = n * v.den) :
    Q.le (Q.dec 1 ((decLen n : Int) - 1)) v = true := by
  obtain ⟨h1, h2, h3⟩ := decLen_spec n hn
  unfold Q.dec
  rw [if_pos (by omega)]
  have : ((decLen n : Int) - 1).toNat = decLen n - 1 := by omega
  simp only [Q.le, pow10, hv, Nat.mul_one, Nat.one_mul, decide_eq_true_eq, this]
  exact Nat.mul_le_mul_right _ h2

theorem up_spec (v : Q) (n : Nat) (hn : 0 < n) (hD : 0 < v.den) (hv : v.num = n * v.den) :
    ∀ (f : Nat) (M0 : Int), M0 ≤ (decLen n : Int) → (decLen n : Int) - M0 < f →
      decMagnitude.up v f M0 = (decLen n : Int) := by
  intro f
  induction f with
  | zero => intro M0 h1 h2; omega
  | succ f ih =>
    intro M0 h1 h2
    rw [decMagnitude.up]
    by_cases he : M0 = (decLen n : Int)
    · subst he
      rw [if_pos (lt_dec_true v n hn hD hv)]
    · have hlt : M0 < (decLen n : Int) := by omega
      rw [lt_dec_false v n hn hD hv M0 hlt]
      simp only [Bool.false_eq_true, if_false]
      exact ih (M0 + 1) (by omega) (by omega)

theorem decMagnitude_int (v : Q) (n : Nat) (hn : 0 < n) (hD : 0 < v.den) (hv : v.num = n * v.den)
    (E : Int) (hE : ((bitLen v.num : Int) - (bitLen v.den : Int)) * 30103 / 100000 = E)
    (h1 : E - 2 ≤ (decLen n : Int)) (h2 : (decLen n : Int) < E + 6) :
    decMagnitude v = (decLen n : Int) := by
  unfold decMagnitude
  simp only [hE]
  rw [up_spec v n hn hD hv 8 (E - 2) h1 (by omega)]
  rw [decMagnitude.down, if_pos (le_dec_true v n hn hD hv)]

theorem bin4_neg (x k : Nat) : Q.bin4 x (-(k : Int)) = { num := x, den := 4 * 2 ^ k } := by
  unfold Q.bin4
  split
  · have : k = 0 := by omega
    subst this; simp
  · simp

theorem int_in_interval (X n D lo hi : Nat) (hD : 4 ≤ D) (hlo : n * D ≤ lo + 2)
    (hhi : hi ≤ n * D + 2) (h1 : lo ≤ X * D) (h2 : X * D ≤ hi) : X = n := by
  apply Classical.byContradiction; intro hne
  rcases Nat.lt_or_gt_of_ne hne with h | h
  · have : (X + 1) * D ≤ n * D := Nat.mul_le_mul_right _ h
    rw [Nat.add_mul] at this; omega
  · have : (n + 1) * D ≤ X * D := Nat.mul_le_mul_right _ h
    rw [Nat.add_mul] at this; omega

theorem est_bounds : ∀ b, b < 54 → 1 ≤ b →
    10 ^ ((b - 1) * 30103 / 100000 - 3) ≤ 2 ^ (b - 1) ∧ 2 ^ b ≤ 10 ^ ((b - 1) * 30103 / 100000 + 5) := by
  decide

theorem shortest_nat (neg : Bool) (n k : Nat) (hk : k ≤ 52) (hlo : 2 ^ 52 ≤ n * 2 ^ k)
    (hhi : n * 2 ^ k < 2 ^ 53) (hb : bitLen n = 53 - k) :
    goodRes n (shortest { neg := neg, m := n * 2 ^ k, e := -(k : Int) }) := by
  have hn : 0 < n := by
    apply Nat.pos_of_ne_zero; intro h; subst h; simp at hlo
  have hP : 0 < 2 ^ k := Nat.pow_pos (by decide)
  have hn53 : n < 2 ^ 53 := Nat.lt_of_le_of_lt (Nat.le_mul_of_pos_right _ hP) hhi
  obtain ⟨hL1, hL2, hL3⟩ := decLen_spec n hn
  have hL16 := decLen_le16 n hn53
  have hvnum : 4 * (n * 2 ^ k) = n * (4 * 2 ^ k) := Nat.mul_left_comm _ _ _
  have hD4 : 4 ≤ 4 * 2 ^ k := Nat.le_mul_of_pos_right _ hP
  -- the magnitude
  have hM : decMagnitude { num := 4 * (n * 2 ^ k), den := 4 * 2 ^ k } = (decLen n : Int) := by
    have hbn : bitLen (4 * (n * 2 ^ k)) = 54 + 1 := bitLen_eq _ 54 (by omega) (by omega)
    have hbd : bitLen (4 * 2 ^ k) = (k + 2) + 1 := by
      apply bitLen_eq
      · rw [Nat.pow_add, Nat.mul_comm]; exact Nat.le_refl _
      · rw [Nat.pow_succ, Nat.pow_add]; omega
    obtain ⟨hs1, hs2, hs3⟩ := bitLen_spec n hn
    obtain ⟨he1, he2⟩ := est_bounds (53 - k) (by omega) (by omega)
    rw [hb] at hs1 hs2
    have hub : decLen n ≤ (53 - k - 1) * 30103 / 100000 + 5 := by
      unfold decLen
      rw [Nat.length_repr_le_iff (by omega)]
      omega
    have hlb : (53 - k - 1) * 30103 / 100000 ≤ decLen n + 2 := by
      apply Classical.byContradiction; intro hc
      have h3 : n.repr.length ≤ (53 - k - 1) * 30103 / 100000 - 3 := by
        unfold decLen at hc; omega
      rw [Nat.length_repr_le_iff (by omega)] at h3
      omega
    apply decMagnitude_int _ n hn (by show 0 < 4 * 2 ^ k; omega) hvnum
      (((53 - k - 1) * 30103 / 100000 : Nat) : Int)
    · show ((bitLen (4 * (n * 2 ^ k)) : Int) - (bitLen (4 * 2 ^ k) : Int)) * 30103 / 100000 = _
      rw [hbn, hbd]; omega
    · omega
    · omega
  unfold shortest
  simp only [bin4_neg]
  rw [hM]
  apply go_spec _ _ _ n (decLen n) (by show 0 < 4 * 2 ^ k; omega) hvnum
  · intro x p hp hins
    have hdec : Q.dec x p = { num := x * 10 ^ p.toNat, den := 1 } := by
      unfold Q.dec; rw [if_pos hp]; rfl
    rw [hdec] at hins
    simp only [Bool.and_eq_true] at hins
    obtain ⟨hA, hB⟩ := hins
    have hA' : (if n * 2 ^ k = 2 ^ 52 ∧ -(k : Int) > -1074 then 4 * (n * 2 ^ k) - 1 else 4 * (n * 2 ^ k) - 2)
        ≤ x * 10 ^ p.toNat * (4 * 2 ^ k) := by
      split at hA <;> simp only [Q.le, Q.lt, decide_eq_true_eq, Nat.mul_one] at hA <;> omega
    have hB' : x * 10 ^ p.toNat * (4 * 2 ^ k) ≤ 4 * (n * 2 ^ k) + 2 := by
      split at hB <;> simp only [Q.le, Q.lt, decide_eq_true_eq, Nat.mul_one] at hB <;> omega
    refine int_in_interval _ n _ _ _ hD4 ?_ ?_ hA' hB'
    · rw [← hvnum]; split <;> omega
    · rw [← hvnum]; omega
  · have hdec : Q.dec n 0 = { num := n, den := 1 } := by
      simp [Q.dec, pow10]
    rw [hdec]
    simp only [Bool.and_eq_true]
    constructor
    · split <;> simp only [Q.le, Q.lt, decide_eq_true_eq, Nat.mul_one] <;> rw [← hvnum] <;> split <;> omega
    · split <;> simp only [Q.le, Q.lt, decide_eq_true_eq, Nat.mul_one] <;> rw [← hvnum] <;> omega
  · omega
  · omega
  · omega

end Sidetree
