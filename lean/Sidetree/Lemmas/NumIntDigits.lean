import Sidetree.Num

namespace Sidetree

theorem natDigits_eq_toDigits (n : Nat) : natDigits n = Nat.toDigits 10 n := by
  simp [natDigits, Nat.toList_repr]

theorem zeros_succ (p : Nat) : zeros (p + 1) = zeros p ++ ['0'] := by
  simp [zeros, List.replicate_succ']

theorem natDigits_ten_mul (x : Nat) (hx : 0 < x) : natDigits (10 * x) = natDigits x ++ ['0'] := by
  rw [natDigits_eq_toDigits, natDigits_eq_toDigits]
  have h := Nat.toDigits_append_toDigits (b := 10) (n := x) (d := 0) (by decide) hx (by decide)
  rw [Nat.toDigits_zero] at h
  simpa using h.symm

theorem natDigits_mul_pow10 (x p : Nat) (hx : 0 < x) :
    natDigits (x * 10 ^ p) = natDigits x ++ zeros p := by
  induction p with
  | zero => simp [zeros]
  | succ p ih =>
    have hpos : 0 < x * 10 ^ p := Nat.mul_pos hx (Nat.pow_pos (by decide))
    have e : x * 10 ^ (p + 1) = 10 * (x * 10 ^ p) := by
      rw [Nat.pow_succ, ← Nat.mul_assoc, Nat.mul_comm]
    rw [e, natDigits_ten_mul _ hpos, ih, zeros_succ, List.append_assoc]

/-- stripZeros keeps the value and a non-negative exponent (any fuel) -/
theorem stripZeros_spec (f n : Nat) (p : Int) (hn : 0 < n) (hp : 0 ≤ p) :
    0 ≤ (stripZeros f n p).2 ∧ 0 < (stripZeros f n p).1 ∧
    (stripZeros f n p).1 * 10 ^ (stripZeros f n p).2.toNat = n * 10 ^ p.toNat := by
  induction f generalizing n p with
  | zero => simp [stripZeros, hn, hp]
  | succ f ih =>
    unfold stripZeros
    split
    · rename_i hc
      have hmod : n % 10 = 0 := hc.2
      have hdiv : 0 < n / 10 := by omega
      have hp1 : 0 ≤ p + 1 := by omega
      obtain ⟨h1, h2, h3⟩ := ih (n / 10) (p + 1) hdiv hp1
      refine ⟨h1, h2, ?_⟩
      rw [h3]
      have e1 : (p + 1).toNat = p.toNat + 1 := by omega
      have e2 : n = (n / 10) * 10 := by omega
      rw [e1, Nat.pow_succ]
      conv => rhs; rw [e2]
      rw [Nat.mul_assoc, Nat.mul_comm 10 (10 ^ p.toNat)]
    · exact ⟨hp, hn, rfl⟩

theorem es6Notation_int (n' : Nat) (p' : Int) (n : Nat) (hp : 0 ≤ p') (hn' : 0 < n')
    (h : n' * 10 ^ p'.toNat = n) (hlt : n < 10 ^ 21) :
    es6Notation (natDigits n') (p' + ((natDigits n').length : Int)) = natDigits n := by
  have hd : natDigits n = natDigits n' ++ zeros p'.toNat := by
    rw [← h]; exact natDigits_mul_pow10 n' p'.toNat hn'
  have hlen : (natDigits n).length ≤ 21 := by
    rw [natDigits_eq_toDigits]
    exact (Nat.length_toDigits_le_iff (b := 10) (by decide) (by decide)).2 hlt
  have hlen2 : (natDigits n').length + p'.toNat ≤ 21 := by
    rw [hd] at hlen
    simpa [zeros] using hlen
  unfold es6Notation
  have hc : ((natDigits n').length : Int) ≤ p' + ((natDigits n').length : Int) ∧
      p' + ((natDigits n').length : Int) ≤ 21 := by
    constructor <;> omega
  simp only [hc, and_self, if_true]
  have e : (p' + ((natDigits n').length : Int) - ((natDigits n').length : Int)).toNat
      = p'.toNat := by omega
  rw [e, hd]

/-- the printing tail: once `shortest d` is known to denote the integer n with a non-negative
    exponent, es6 prints n's digits -/
theorem es6_of_shortest (d : F64) (n : Nat) (hn : 0 < n) (hlt : n < 10 ^ 21) (hm : d.m ≠ 0)
    (hs : 0 ≤ (shortest d).2 ∧ (shortest d).1 * 10 ^ (shortest d).2.toNat = n) :
    es6 d = (if d.neg then ['-'] else []) ++ natDigits n := by
  have hz : d.isZero = false := by simp [F64.isZero, hm]
  rcases hsh : shortest d with ⟨a, b⟩
  rw [hsh] at hs
  obtain ⟨hb, hab⟩ := hs
  simp only at hb hab
  have ha : 0 < a := by
    rcases Nat.eq_zero_or_pos a with h0 | h0
    · subst h0; simp at hab; omega
    · exact h0
  obtain ⟨h1, h2, h3⟩ := stripZeros_spec 400 a b ha hb
  rcases hst : stripZeros 400 a b with ⟨a', b'⟩
  rw [hst] at h1 h2 h3
  simp only at h1 h2 h3
  have key := es6Notation_int a' b' n h1 h2 (h3.trans hab) hlt
  simp only [es6, hz, hsh, hst, key]
  simp

end Sidetree
