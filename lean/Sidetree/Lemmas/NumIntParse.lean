import Sidetree.Num
namespace Sidetree

/-- the reader reads a decimal integer literal back, whatever follows that cannot continue a number -/
def NumIntParse.stop (rest : List Char) : Prop :=
  ∀ c tl, rest = c :: tl → ¬ (Parse.isDigit c = true ∨ c = '.' ∨ c = 'e' ∨ c = 'E')

namespace NumIntParse

theorem natDigits_eq (n : Nat) : natDigits n = Nat.toDigits 10 n := by
  simp [natDigits]

theorem parseIsDigit_of_isDigit {c : Char} (h : c.isDigit = true) : Parse.isDigit c = true := by
  simp only [Char.isDigit, Bool.and_eq_true, decide_eq_true_eq] at h
  simp only [Parse.isDigit, Bool.and_eq_true, decide_eq_true_eq, Char.le_def]
  exact h

theorem takeDigits_append (ds rest : List Char)
    (hd : ∀ c ∈ ds, Parse.isDigit c = true) (hr : NumIntParse.stop rest) :
    Parse.takeDigits (ds ++ rest) = (ds, rest) := by
  induction ds with
  | nil =>
    cases rest with
    | nil => simp [Parse.takeDigits]
    | cons c tl =>
      have h := hr c tl rfl
      have : Parse.isDigit c = false := by
        cases hc : Parse.isDigit c with
        | false => rfl
        | true => exact absurd (Or.inl hc) h
      simp [Parse.takeDigits, this]
  | cons d ds ih =>
    have h1 : Parse.isDigit d = true := hd d (by simp)
    have h2 := ih (fun c hc => hd c (by simp [hc]))
    simp [Parse.takeDigits, h1, h2]

theorem digitsToNat_eq (ds : List Char) : Parse.digitsToNat ds = Nat.ofDigitChars 10 ds 0 := by
  have hf : (fun (a : Nat) (c : Char) => a * 10 + (c.toNat - 48))
      = (fun sofar c => 10 * sofar + (c.toNat - '0'.toNat)) := by
    funext a c
    have : '0'.toNat = 48 := by decide
    rw [this, Nat.mul_comm]
  unfold Parse.digitsToNat
  rw [hf]
  rfl

theorem digitsToNat_natDigits (n : Nat) : Parse.digitsToNat (natDigits n) = n := by
  rw [digitsToNat_eq, natDigits_eq, Nat.ofDigitChars_ten_toDigits]

theorem head_toDigits_zero (n : Nat) : (Nat.toDigits 10 n).head? = some '0' → n = 0 := by
  induction n using Nat.strongRecOn with
  | _ n ih =>
    intro h
    rw [Nat.toDigits_eq_if (by decide)] at h
    split at h
    · simp only [List.head?_cons, Option.some.injEq] at h
      exact Nat.digitChar_eq_zero.mp h
    · rename_i hn
      have h' : (Nat.toDigits 10 (n / 10)).head? = some '0' := by
        cases hl : Nat.toDigits 10 (n / 10) with
        | nil => exact absurd hl Nat.toDigits_ne_nil
        | cons a l => rw [hl] at h; simpa using h
      have := ih (n / 10) (by omega) h'
      omega

theorem no_leading_zero (n : Nat) :
    ¬ ((Nat.toDigits 10 n).length > 1 ∧ (Nat.toDigits 10 n).head? = some '0') := by
  intro ⟨h1, h2⟩
  have := head_toDigits_zero n h2
  subst this
  simp [Nat.toDigits_eq_if] at h1

theorem parse_general (neg : Bool) (ds rest : List Char) (hne : ds ≠ [])
    (hd : ∀ c ∈ ds, Parse.isDigit c = true)
    (hz : ¬ (ds.length > 1 ∧ ds.head? = some '0')) (hr : NumIntParse.stop rest) :
    Parse.parseNumber ((if neg then ['-'] else []) ++ ds ++ rest)
      = some ({ neg := neg, mant := Parse.digitsToNat ds, exp10 := 0, isInt := true }, rest) := by
  cases ds with
  | nil => exact absurd rfl hne
  | cons d tl =>
    have hd0 : Parse.isDigit d = true := hd d (by simp)
    have hdm : d ≠ '-' := by
      intro h; subst h; revert hd0; decide
    have htd := takeDigits_append (d :: tl) rest hd hr
    simp only [List.cons_append] at htd
    cases neg with
    | true =>
      simp only [if_true, List.cons_append, List.nil_append]
      unfold Parse.parseNumber
      simp only [htd]
      rw [if_neg (by simp), if_neg hz]
      cases rest with
      | nil => simp
      | cons c r =>
        have h := hr c r rfl
        have h1 : c ≠ '.' := fun e => h (Or.inr (Or.inl e))
        have h2 : ¬ (c = 'e' ∨ c = 'E') := fun e => h (Or.inr (Or.inr e))
        split
        · rename_i heq
          split at heq
          · rename_i heq2
            simp at heq2
            exact absurd heq2.1 h1
          · simp at heq
        · rename_i heq
          split at heq
          · rename_i heq2
            simp at heq2
            exact absurd heq2.1 h1
          · simp only [Option.some.injEq, Prod.mk.injEq] at heq
            obtain ⟨rfl, rfl, rfl⟩ := heq
            simp [h2]
    | false =>
      simp only [Bool.false_eq_true, ↓reduceIte, List.cons_append, List.nil_append]
      unfold Parse.parseNumber
      split
      rename_i heq0
      split at heq0
      · rename_i heq1
        simp at heq1
        exact absurd heq1.1 hdm
      simp only [Prod.mk.injEq] at heq0
      obtain ⟨rfl, rfl⟩ := heq0
      simp only [htd]
      rw [if_neg (by simp), if_neg hz]
      cases rest with
      | nil => simp
      | cons c r =>
        have h := hr c r rfl
        have h1 : c ≠ '.' := fun e => h (Or.inr (Or.inl e))
        have h2 : ¬ (c = 'e' ∨ c = 'E') := fun e => h (Or.inr (Or.inr e))
        split
        · rename_i heq
          split at heq
          · rename_i heq2
            simp at heq2
            exact absurd heq2.1 h1
          · simp at heq
        · rename_i heq
          split at heq
          · rename_i heq2
            simp at heq2
            exact absurd heq2.1 h1
          · simp only [Option.some.injEq, Prod.mk.injEq] at heq
            obtain ⟨rfl, rfl, rfl⟩ := heq
            simp [h2]

theorem natDigits_isDigit (n : Nat) : ∀ c ∈ natDigits n, Parse.isDigit c = true := by
  intro c hc
  rw [natDigits_eq] at hc
  exact parseIsDigit_of_isDigit (Nat.isDigit_of_mem_toDigits (by decide) (by decide) hc)

theorem parse_natDigits (neg : Bool) (n : Nat) (rest : List Char) (hr : NumIntParse.stop rest) :
    Parse.parseNumber ((if neg then ['-'] else []) ++ natDigits n ++ rest)
      = some ({ neg := neg, mant := n, exp10 := 0, isInt := true }, rest) := by
  have h := parse_general neg (natDigits n) rest
    (by rw [natDigits_eq]; exact Nat.toDigits_ne_nil) (natDigits_isDigit n)
    (by rw [natDigits_eq]; exact no_leading_zero n) hr
  rw [digitsToNat_natDigits] at h
  exact h

end NumIntParse

end Sidetree
