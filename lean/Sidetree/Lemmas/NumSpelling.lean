/-
  Number spelling invariance for integer-valued literals: `1000`, `1E3`, `1.0e3`, `10000e-1`
  are the same double and have the same canonical text, so they normalize to the plain integer
  literal.
-/
import Sidetree.Jcs
import Sidetree.Lemmas.NumInt

namespace Sidetree

theorem pow10_pos (k : Nat) : 0 < pow10 k := Nat.pow_pos (by decide)

/-- the bit length of a product is the sum of the bit lengths, or one less -/
theorem bitLen_mul (a b : Nat) (ha : 0 < a) (hb : 0 < b) :
    bitLen (a * b) + 1 = bitLen a + bitLen b ∨ bitLen (a * b) = bitLen a + bitLen b := by
  obtain ⟨a1, a2, a3⟩ := bitLen_spec a ha
  obtain ⟨b1, b2, b3⟩ := bitLen_spec b hb
  obtain ⟨p1, p2, p3⟩ := bitLen_spec (a * b) (Nat.mul_pos ha hb)
  have hlo : 2 ^ (bitLen a - 1 + (bitLen b - 1)) ≤ a * b := by
    rw [Nat.pow_add]; exact Nat.mul_le_mul a1 b1
  have hhi : a * b < 2 ^ (bitLen a + bitLen b) := by
    rw [Nat.pow_add]; exact Nat.mul_lt_mul'' a2 b2
  have h1 : bitLen a - 1 + (bitLen b - 1) < bitLen (a * b) := by
    apply Classical.byContradiction; intro hc
    have : 2 ^ bitLen (a * b) ≤ 2 ^ (bitLen a - 1 + (bitLen b - 1)) :=
      Nat.pow_le_pow_right (by decide) (by omega)
    omega
  have h2 : bitLen (a * b) - 1 < bitLen a + bitLen b := by
    apply Classical.byContradiction; intro hc
    have : 2 ^ (bitLen a + bitLen b) ≤ 2 ^ (bitLen (a * b) - 1) :=
      Nat.pow_le_pow_right (by decide) (by omega)
    omega
  omega

theorem divRoundEven_mul (x d : Nat) (hd : 0 < d) : divRoundEven (x * d) d = x := by
  simp [divRoundEven, Nat.mul_div_cancel _ hd, Nat.mul_mod_left, hd]

theorem decLen_mul_pow10 (x p : Nat) (hx : 0 < x) : decLen (x * 10 ^ p) = decLen x + p := by
  have h := congrArg List.length (natDigits_mul_pow10 x p hx)
  simp only [natDigits, zeros, List.length_append, List.length_replicate, String.length_toList] at h
  exact h

/-- the double of a fraction `num/den` whose value is the integer `N` (shift `K` given) -/
theorem toF64_frac (neg : Bool) (mant : Nat) (exp10 : Int) (N K : Nat) (hK : K ≤ 52)
    (hlo : 2 ^ 52 ≤ N * 2 ^ K) (hhi : N * 2 ^ K < 2 ^ 53) (hb : bitLen N = 53 - K)
    (hm : mant ≠ 0) (hmag : (decLen mant : Int) + exp10 = (decLen N : Int)) (hd : decLen N ≤ 16)
    (hnd : (if exp10 ≥ 0 then mant * pow10 exp10.toNat else mant) =
      N * (if exp10 ≥ 0 then 1 else pow10 (-exp10).toNat)) :
    toF64 neg mant exp10 = some { neg := neg, m := N * 2 ^ K, e := -(K : Int) } := by
  have hN : 0 < N := by
    apply Nat.pos_of_ne_zero; intro h; subst h; simp at hlo
  unfold toF64
  rw [if_neg hm]
  extract_lets mag num den e0 scaled fl e1 e2 e3 m
  have hnum : num = N * den := hnd
  have hden : 0 < den := by
    show 0 < (if exp10 ≥ 0 then 1 else pow10 (-exp10).toNat)
    split
    · decide
    · exact pow10_pos _
  have he0 : e0 = -((K + 1 : Nat) : Int) ∨ e0 = -(K : Int) := by
    rcases bitLen_mul N den hN hden with h | h
    · left; simp only [e0, hnum]; omega
    · right; simp only [e0, hnum]; omega
  have hsc : ∀ j : Nat, (scaled (-(j : Int))).1 = N * 2 ^ j * (scaled (-(j : Int))).2 ∧
      0 < (scaled (-(j : Int))).2 := by
    intro j
    simp only [scaled, hnum]
    split
    · have : j = 0 := by omega
      subst this; simp [hden]
    · have : (- -(j : Int)).toNat = j := by omega
      simp only [this]
      exact ⟨Nat.mul_right_comm _ _ _, hden⟩
  have hfl : ∀ j : Nat, fl (-(j : Int)) = N * 2 ^ j := by
    intro j
    obtain ⟨h1, h2⟩ := hsc j
    simp only [fl]
    rw [h1, Nat.mul_div_cancel _ h2]
  have he1 : e1 = -(K : Int) := by
    rcases he0 with h | h
    · have : fl e0 ≥ 2 ^ 53 := by
        rw [h, hfl, Nat.pow_succ, ← Nat.mul_assoc]; omega
      simp only [e1, if_pos this, h]; omega
    · have h1 : ¬ fl e0 ≥ 2 ^ 53 := by rw [h, hfl]; omega
      have h2 : ¬ fl e0 < 2 ^ 52 := by rw [h, hfl]; omega
      rw [h] at h1 h2
      simp only [e1, h, if_neg h1, if_neg h2]
  have he2 : e2 = -(K : Int) := by
    have h1 : ¬ fl e1 ≥ 2 ^ 53 := by rw [he1, hfl]; omega
    have h2 : ¬ fl e1 < 2 ^ 52 := by rw [he1, hfl]; omega
    rw [he1] at h1 h2
    simp only [e2, he1, if_neg h1, if_neg h2]
  have he3 : e3 = -(K : Int) := by
    simp only [e3, he2]; rw [if_neg (by omega)]
  have hmm : m = N * 2 ^ K := by
    obtain ⟨h1, h2⟩ := hsc K
    simp only [m, he3]
    rw [h1, divRoundEven_mul _ _ h2]
  have hmag' : mag = (decLen N : Int) := hmag
  rw [if_neg (by omega), if_neg (by omega), hmm, if_neg (by omega), he3]
  simp only []
  rw [if_neg (by omega)]

/-- **every integer-valued spelling of `N` is the double of `N`** -/
theorem toF64_int_valued (neg : Bool) (mant : Nat) (exp10 : Int) (N : Nat) (hN : 0 < N)
    (h53 : N < 2 ^ 53)
    (hval : (0 ≤ exp10 ∧ mant * 10 ^ exp10.toNat = N) ∨ (exp10 < 0 ∧ mant = N * 10 ^ (-exp10).toNat)) :
    toF64 neg mant exp10 = toF64 neg N 0 := by
  rw [toF64_ofNat neg N hN h53]
  obtain ⟨a, b, c, d⟩ := shift_spec N hN h53
  have hd := decLen_le16 N h53
  rcases hval with ⟨he, hv⟩ | ⟨he, hv⟩
  · have hm : mant ≠ 0 := by intro h; subst h; simp at hv; omega
    apply toF64_frac neg mant exp10 N _ a b c d hm _ hd
    · rw [if_pos he, if_pos he, Nat.mul_one]; exact hv
    · rw [← hv, decLen_mul_pow10 _ _ (Nat.pos_of_ne_zero hm)]; omega
  · have hP : 0 < 10 ^ (-exp10).toNat := Nat.pow_pos (by decide)
    have hm : mant ≠ 0 := by rw [hv]; exact Nat.ne_of_gt (Nat.mul_pos hN hP)
    apply toF64_frac neg mant exp10 N _ a b c d hm _ hd
    · rw [if_neg (by omega), if_neg (by omega)]; exact hv
    · rw [hv, decLen_mul_pow10 _ _ hN]; omega

/-- `mant·10^e` with a non-negative exponent reads as the integer `mant * 10^e` -/
theorem toF64_scale_up (neg : Bool) (mant e : Nat) (hm : 0 < mant) (h : mant * 10 ^ e < 2 ^ 53) :
    toF64 neg mant (e : Int) = toF64 neg (mant * 10 ^ e) 0 :=
  toF64_int_valued neg mant e _ (Nat.mul_pos hm (Nat.pow_pos (by decide))) h
    (Or.inl ⟨by omega, by simp⟩)

/-- `(N·10^k)·10^-k` reads as the integer `N` (any k) -/
theorem toF64_scale_down (neg : Bool) (N k : Nat) (hN : 0 < N) (h : N < 2 ^ 53) :
    toF64 neg (N * 10 ^ k) (-(k : Int)) = toF64 neg N 0 := by
  rcases Nat.eq_zero_or_pos k with hk | hk
  · subst hk; simp
  · exact toF64_int_valued neg _ _ N hN h (Or.inr ⟨by omega, by simp⟩)

/-- a zero mantissa is zero whatever the exponent -/
theorem toF64_zero_mant (neg : Bool) (exp10 : Int) :
    toF64 neg 0 exp10 = some { neg := neg, m := 0, e := -1074 } := by
  simp [toF64]

/-- **canonical text of an integer-valued literal**: sign and the digits of the integer -/
theorem canon_int_valued (n : JNum) (N : Nat) (hN : 0 < N) (h53 : N < 2 ^ 53)
    (hval : (0 ≤ n.exp10 ∧ n.mant * 10 ^ n.exp10.toNat = N) ∨
      (n.exp10 < 0 ∧ n.mant = N * 10 ^ (-n.exp10).toNat)) :
    n.canon = some ((if n.neg then ['-'] else []) ++ natDigits N) := by
  have h := canon_mk_pos n.neg true N hN h53
  unfold JNum.canon JNum.toF64 at *
  simp only [] at h
  rw [toF64_int_valued n.neg n.mant n.exp10 N hN h53 hval]
  exact h

theorem canon_zero_mant (n : JNum) (h : n.mant = 0) : n.canon = some ['0'] := by
  unfold JNum.canon JNum.toF64
  rw [h, toF64_zero_mant]
  simp [es6, F64.isZero]

/-- the integer a literal denotes, when it denotes one -/
def JNum.intValue? (n : JNum) : Option Int :=
  if n.exp10 ≥ 0 then some ((if n.neg then -1 else 1) * ((n.mant * 10 ^ n.exp10.toNat : Nat) : Int))
  else if n.mant % 10 ^ (-n.exp10).toNat = 0 then
    some ((if n.neg then -1 else 1) * ((n.mant / 10 ^ (-n.exp10).toNat : Nat) : Int))
  else none

theorem numStop_nil' : numStop [] := by intro c tl h; cases h

/-- **the canonical number of an integer-valued literal is the plain integer literal** -/
theorem canonNum_int_valued (n : JNum) (i : Int) (hv : n.intValue? = some i) (h53 : i.natAbs < 2 ^ 53) :
    canonNum n = some (JNum.ofInt i) := by
  -- the magnitude N and how the literal spells it
  have key : ∃ N : Nat, i = (if n.neg then -1 else 1) * (N : Int) ∧
      ((0 ≤ n.exp10 ∧ n.mant * 10 ^ n.exp10.toNat = N) ∨
        (n.exp10 < 0 ∧ n.mant = N * 10 ^ (-n.exp10).toNat)) := by
    unfold JNum.intValue? at hv
    split at hv
    · rename_i he
      simp only [Option.some.injEq] at hv
      exact ⟨_, hv.symm, Or.inl ⟨he, rfl⟩⟩
    · rename_i he
      split at hv
      · rename_i hmod
        simp only [Option.some.injEq] at hv
        refine ⟨_, hv.symm, Or.inr ⟨by omega, ?_⟩⟩
        have := Nat.div_add_mod n.mant (10 ^ (-n.exp10).toNat)
        rw [hmod, Nat.add_zero, Nat.mul_comm] at this
        exact this.symm
      · cases hv
  obtain ⟨N, hi, hval⟩ := key
  rcases Nat.eq_zero_or_pos N with h0 | hN
  · -- zero, either sign
    subst h0
    have hi0 : i = 0 := by rw [hi]; simp
    have hm : n.mant = 0 := by
      rcases hval with ⟨_, h⟩ | ⟨_, h⟩
      · have hP : 0 < 10 ^ n.exp10.toNat := Nat.pow_pos (by decide)
        rcases Nat.eq_zero_or_pos n.mant with h' | h'
        · exact h'
        · have := Nat.mul_pos h' hP; omega
      · simpa using h
    subst hi0
    unfold canonNum
    rw [canon_zero_mant n hm]
    have := parseNumber_natDigits 0 [] numStop_nil'
    have hd : natDigits 0 = ['0'] := by decide
    rw [hd, List.append_nil] at this
    simp only [this, Option.map_some]
    rfl
  · have hnat : i.natAbs = N := by
      rw [hi]; split <;> omega
    have hneg : (i < 0) ↔ n.neg = true := by
      rw [hi]; split <;> simp_all <;> omega
    unfold canonNum
    rw [canon_int_valued n N hN (by omega) hval]
    have hp := parseNumber_intDigits i [] numStop_nil'
    rw [List.append_nil, hnat] at hp
    have hs : (if i < 0 then ['-'] else []) = (if n.neg = true then ['-'] else []) := by
      by_cases hb : n.neg = true
      · rw [if_pos hb, if_pos (hneg.2 hb)]
      · rw [if_neg hb, if_neg (fun h => hb (hneg.1 h))]
    rw [hs] at hp
    simp only [hp, Option.map_some]

/-- **spelling invariance**: every integer-valued spelling of an integer below 2^53 in magnitude
    (`1E3`, `1.0e3`, `10000e-1`, `1000.0`, …) normalizes to the plain integer literal -/
theorem normalize_int_valued (n : JNum) (i : Int) (hv : n.intValue? = some i) (h53 : i.natAbs < 2 ^ 53) :
    Json.normalize (.num n) = some (.num (JNum.ofInt i)) := by
  simp only [Json.normalize, canonNum_int_valued n i hv h53, Option.map_some]

/-- two integer-valued spellings of the same integer have the same normal form -/
theorem normalize_same_int (n1 n2 : JNum) (i : Int) (h1 : n1.intValue? = some i)
    (h2 : n2.intValue? = some i) (h53 : i.natAbs < 2 ^ 53) :
    Json.normalize (.num n1) = Json.normalize (.num n2) := by
  rw [normalize_int_valued n1 i h1 h53, normalize_int_valued n2 i h2 h53]

/-! non-vacuity: the reader's reading of some spellings of 1000 -/
example : (Parse.parseNumber ['1', 'E', '3']).bind (fun r => r.1.intValue?) = some 1000 := by decide
example : (Parse.parseNumber ['1', '.', '0', 'e', '3']).bind (fun r => r.1.intValue?) = some 1000 := by decide
example : (Parse.parseNumber ['1', '0', '0', '0', '0', 'e', '-', '1']).bind (fun r => r.1.intValue?) = some 1000 := by decide
example : (Parse.parseNumber ['1', '0', '0', '0', '.', '0']).bind (fun r => r.1.intValue?) = some 1000 := by decide
example : (Parse.parseNumber ['-', '1', 'e', '+', '3']).bind (fun r => r.1.intValue?) = some (-1000) := by decide
example : (Parse.parseNumber ['1', '5', 'e', '-', '1']).bind (fun r => r.1.intValue?) = none := by decide

/-- the three spellings, as read by the reader, normalize to the literal `1000` -/
example : ∀ t ∈ [['1', 'E', '3'], ['1', '.', '0', 'e', '3'], ['1', '0', '0', '0', '0', 'e', '-', '1']],
    ∃ n r, Parse.parseNumber t = some (n, r) ∧ Json.normalize (.num n) = some (.num (JNum.ofInt 1000)) := by
  intro t ht
  have h : (Parse.parseNumber t).bind (fun r => r.1.intValue?) = some 1000 := by
    simp only [List.mem_cons, List.mem_nil_iff, or_false] at ht
    rcases ht with rfl | rfl | rfl <;> decide
  cases hp : Parse.parseNumber t with
  | none => simp [hp] at h
  | some r =>
    simp only [hp, Option.bind_some] at h
    exact ⟨r.1, r.2, rfl, normalize_int_valued r.1 1000 h (by decide)⟩

end Sidetree
