/-
  Integer-valued number spelling, lifted from single numbers to whole values and to texts:
  texts that differ in insignificant whitespace, in the escape spelling of strings and member
  names, and in the spelling of integer-valued numbers (`1000`, `1E3`, `1.0e3`, `10000e-1`)
  canonicalize to identical bytes.
-/
import Sidetree.Lemmas.NumSpelling
import Sidetree.Lemmas.EscapeSpelling
import Sidetree.Props.C05Num

namespace Sidetree.NS
open Sidetree Sidetree.Parse Sidetree.Json Sidetree.RT Sidetree.WS Sidetree.ES

/-! ### A. value level -/

/-- two number literals that are the same literal, or two spellings of one integer below 2^53 -/
def SameNum (n1 n2 : JNum) : Prop :=
  n1 = n2 ∨ ∃ i : Int, n1.intValue? = some i ∧ n2.intValue? = some i ∧ i.natAbs < 2 ^ 53

mutual
/-- the same value up to the spelling of integer-valued numbers: same shape, same strings and
    member names in the same order, numbers related by `SameNum` -/
def SameUpToNumSpelling : Json → Json → Prop
  | .null, .null => True
  | .bool a, .bool b => a = b
  | .num n1, .num n2 => SameNum n1 n2
  | .str a, .str b => a = b
  | .arr xs, .arr ys => SameList xs ys
  | .obj k1, .obj k2 => SameMembers k1 k2
  | _, _ => False
def SameList : List Json → List Json → Prop
  | [], [] => True
  | x :: xs, y :: ys => SameUpToNumSpelling x y ∧ SameList xs ys
  | _, _ => False
def SameMembers : List (String × Json) → List (String × Json) → Prop
  | [], [] => True
  | (k, x) :: xs, (l, y) :: ys => k = l ∧ SameUpToNumSpelling x y ∧ SameMembers xs ys
  | _, _ => False
end

theorem normalize_sameNum (n1 n2 : JNum) (h : SameNum n1 n2) :
    Json.normalize (.num n1) = Json.normalize (.num n2) := by
  rcases h with rfl | ⟨i, h1, h2, h3⟩
  · rfl
  · exact normalize_same_int n1 n2 i h1 h2 h3

mutual
/-- **values that differ only in the spelling of integer-valued numbers have the same normal form** -/
theorem normalize_sameUpToNumSpelling : ∀ (a b : Json), SameUpToNumSpelling a b → a.normalize = b.normalize
  | .null, b, h => by cases b <;> simp [SameUpToNumSpelling] at h ⊢
  | .bool x, b, h => by cases b <;> simp [SameUpToNumSpelling] at h ⊢; simp [h]
  | .str x, b, h => by cases b <;> simp [SameUpToNumSpelling] at h ⊢; simp [h]
  | .num n1, b, h => by
    cases b <;> simp only [SameUpToNumSpelling] at h
    exact normalize_sameNum _ _ h
  | .arr xs, b, h => by
    cases b <;> simp only [SameUpToNumSpelling] at h
    simp only [normalize, normalizeList_same xs _ h]
  | .obj k1, b, h => by
    cases b <;> simp only [SameUpToNumSpelling] at h
    simp only [normalize, normalizeMembers_same k1 _ h]
theorem normalizeList_same : ∀ (xs ys : List Json), SameList xs ys → normalizeList xs = normalizeList ys
  | [], ys, h => by cases ys <;> simp [SameList] at h ⊢
  | x :: xs, ys, h => by
    cases ys with
    | nil => simp [SameList] at h
    | cons y ys =>
      simp only [SameList] at h
      simp only [normalizeList, normalize_sameUpToNumSpelling x y h.1, normalizeList_same xs ys h.2]
theorem normalizeMembers_same : ∀ (xs ys : List (String × Json)), SameMembers xs ys →
    normalizeMembers xs = normalizeMembers ys
  | [], ys, h => by cases ys <;> simp [SameMembers] at h ⊢
  | (k, x) :: xs, ys, h => by
    cases ys with
    | nil => simp [SameMembers] at h
    | cons y ys =>
      obtain ⟨l, y⟩ := y
      simp only [SameMembers] at h
      obtain ⟨rfl, h1, h2⟩ := h
      simp only [normalizeMembers, normalize_sameUpToNumSpelling x y h1, normalizeMembers_same xs ys h2]
end

theorem jcs_sameUpToNumSpelling (a b : Json) (h : SameUpToNumSpelling a b) : a.jcs = b.jcs := by
  simp only [Json.jcs, normalize_sameUpToNumSpelling a b h]

theorem isContainer_same (a b : Json) (h : SameUpToNumSpelling a b) : a.isContainer = b.isContainer := by
  cases a <;> cases b <;> simp [SameUpToNumSpelling] at h <;> rfl

theorem transformValue_sameUpToNumSpelling (a b : Json) (h : SameUpToNumSpelling a b) :
    transformValue a = transformValue b := by
  simp only [transformValue, isContainer_same a b h, jcs_sameUpToNumSpelling a b h]

mutual
theorem depth_same : ∀ (a b : Json), SameUpToNumSpelling a b → a.depth = b.depth
  | .null, b, h => by cases b <;> first | (simp [SameUpToNumSpelling] at h; done) | simp [depth]
  | .bool x, b, h => by cases b <;> first | (simp [SameUpToNumSpelling] at h; done) | simp [depth]
  | .str x, b, h => by cases b <;> first | (simp [SameUpToNumSpelling] at h; done) | simp [depth]
  | .num n1, b, h => by cases b <;> first | (simp [SameUpToNumSpelling] at h; done) | simp [depth]
  | .arr xs, b, h => by
    cases b <;> simp only [SameUpToNumSpelling] at h
    simp only [depth, depthList_same xs _ h]
  | .obj k1, b, h => by
    cases b <;> simp only [SameUpToNumSpelling] at h
    simp only [depth, depthMembers_same k1 _ h]
theorem depthList_same : ∀ (xs ys : List Json), SameList xs ys → depthList xs = depthList ys
  | [], ys, h => by cases ys <;> simp [SameList] at h ⊢
  | x :: xs, ys, h => by
    cases ys with
    | nil => simp [SameList] at h
    | cons y ys =>
      simp only [SameList] at h
      simp only [depthList, depth_same x y h.1, depthList_same xs ys h.2]
theorem depthMembers_same : ∀ (xs ys : List (String × Json)), SameMembers xs ys → depthMembers xs = depthMembers ys
  | [], ys, h => by cases ys <;> simp [SameMembers] at h ⊢
  | (k, x) :: xs, ys, h => by
    cases ys with
    | nil => simp [SameMembers] at h
    | cons y ys =>
      obtain ⟨l, y⟩ := y
      simp only [SameMembers] at h
      simp only [depthMembers, depth_same x y h.2.1, depthMembers_same xs ys h.2.2]
end

/-! ### the normal form of an integer-valued value has only plain integers -/

mutual
/-- every number in the value is a spelling of an integer below 2^53 in magnitude -/
def IntValued : Json → Prop
  | .num n => ∃ i : Int, n.intValue? = some i ∧ i.natAbs < 2 ^ 53
  | .arr xs => IntValuedList xs
  | .obj kvs => IntValuedMembers kvs
  | _ => True
def IntValuedList : List Json → Prop
  | [] => True
  | x :: xs => IntValued x ∧ IntValuedList xs
def IntValuedMembers : List (String × Json) → Prop
  | [] => True
  | (_, x) :: xs => IntValued x ∧ IntValuedMembers xs
end

theorem plainInt_ofInt_lt (i : Int) (h : i.natAbs < 2 ^ 53) : Props.C05.plainInt (JNum.ofInt i) = true := by
  have h2 : ¬ (i < 0 ∧ i.natAbs = 0) := by omega
  simp [Props.C05.plainInt, JNum.ofInt, h]
  omega

theorem intsOnlyMembers_iff : ∀ (l : List (String × Json)),
    Props.C05.intsOnlyMembers l = true ↔ ∀ kv ∈ l, Props.C05.intsOnly kv.2 = true
  | [] => by simp [Props.C05.intsOnlyMembers]
  | (k, x) :: xs => by
    simp only [Props.C05.intsOnlyMembers, Bool.and_eq_true, List.mem_cons, forall_eq_or_imp,
      intsOnlyMembers_iff xs]

mutual
/-- **the normal form of a value whose numbers are integer-valued has only plain integers** -/
theorem normalizes_to_plain : ∀ (a a' : Json), IntValued a → a.normalize = some a' →
    Props.C05.intsOnly a' = true
  | .null, a', _, h => by simp [normalize] at h; subst h; rfl
  | .bool b, a', _, h => by simp [normalize] at h; subst h; rfl
  | .str s, a', _, h => by simp [normalize] at h; subst h; rfl
  | .num n, a', hv, h => by
    simp only [IntValued] at hv
    obtain ⟨i, h1, h2⟩ := hv
    rw [normalize_int_valued n i h1 h2, Option.some.injEq] at h
    subst h
    simp only [Props.C05.intsOnly]
    exact plainInt_ofInt_lt i h2
  | .arr xs, a', hv, h => by
    simp only [IntValued] at hv
    simp only [normalize] at h
    cases hl : normalizeList xs with
    | none => simp [hl] at h
    | some l' =>
      simp only [hl, Option.map_some, Option.some.injEq] at h
      subst h
      simp only [Props.C05.intsOnly]
      exact normalizeList_to_plain xs l' hv hl
  | .obj kvs, a', hv, h => by
    simp only [IntValued] at hv
    simp only [normalize] at h
    cases hl : normalizeMembers kvs with
    | none => simp [hl] at h
    | some l' =>
      simp only [hl] at h
      split at h
      · simp only [Option.some.injEq] at h
        subst h
        simp only [Props.C05.intsOnly]
        have := normalizeMembers_to_plain kvs l' hv hl
        rw [intsOnlyMembers_iff] at this ⊢
        intro kv hkv
        exact this kv ((sortMembers_perm l').mem_iff.1 hkv)
      · cases h
theorem normalizeList_to_plain : ∀ (l l' : List Json), IntValuedList l → normalizeList l = some l' →
    Props.C05.intsOnlyList l' = true
  | [], l', _, h => by simp [normalizeList] at h; subst h; rfl
  | x :: xs, l', hv, h => by
    simp only [IntValuedList] at hv
    simp only [normalizeList] at h
    cases hx : normalize x with
    | none => simp [hx] at h
    | some x' =>
      cases hxs : normalizeList xs with
      | none => simp [hx, hxs] at h
      | some xs' =>
        simp only [hx, hxs, Option.some.injEq] at h
        subst h
        simp only [Props.C05.intsOnlyList, Bool.and_eq_true]
        exact ⟨normalizes_to_plain x x' hv.1 hx, normalizeList_to_plain xs xs' hv.2 hxs⟩
theorem normalizeMembers_to_plain : ∀ (l l' : List (String × Json)), IntValuedMembers l →
    normalizeMembers l = some l' → Props.C05.intsOnlyMembers l' = true
  | [], l', _, h => by simp [normalizeMembers] at h; subst h; rfl
  | (k, x) :: xs, l', hv, h => by
    simp only [IntValuedMembers] at hv
    simp only [normalizeMembers] at h
    cases hx : normalize x with
    | none => simp [hx] at h
    | some x' =>
      cases hxs : normalizeMembers xs with
      | none => simp [hx, hxs] at h
      | some xs' =>
        simp only [hx, hxs, Option.some.injEq] at h
        subst h
        simp only [Props.C05.intsOnlyMembers, Bool.and_eq_true]
        exact ⟨normalizes_to_plain x x' hv.1 hx, normalizeMembers_to_plain xs xs' hv.2 hxs⟩
end

/-! ### B. text level: any literal the reader reads as the number -/

/-- `t` is a literal the reader reads as `n`: it starts like a number and, whatever follows that
    cannot continue a number, `parseNumber` returns `n` and what follows -/
def SpellsNum (n : JNum) (t : List Char) : Prop :=
  (∃ c tl, t = c :: tl ∧ (c = '-' ∨ isDigit c = true)) ∧
    ∀ rest, numStop rest → parseNumber (t ++ rest) = some (n, rest)

mutual
/-- a spelling of a value with no whitespace around it; a number may be any literal read as it -/
inductive TightN : Json → List Char → Prop
  | null : TightN .null (print .null)
  | bool (b : Bool) : TightN (.bool b) (print (.bool b))
  | num (n : JNum) (t : List Char) : SpellsNum n t → TightN (.num n) t
  | str (s : String) (t : List Char) : SpellsStr s t → TightN (.str s) t
  | arrNil (w : List Char) : allWs w → TightN (.arr []) ('[' :: w ++ [']'])
  | arr (x : Json) (xs : List Json) (body : List Char) : ElemsN (x :: xs) body →
      TightN (.arr (x :: xs)) ('[' :: body ++ [']'])
  | objNil (w : List Char) : allWs w → TightN (.obj []) ('{' :: w ++ ['}'])
  | obj (kv : String × Json) (kvs : List (String × Json)) (body : List Char) : MembersN (kv :: kvs) body →
      TightN (.obj (kv :: kvs)) ('{' :: body ++ ['}'])
inductive ElemsN : List Json → List Char → Prop
  | one (x : Json) (w1 tx w2 : List Char) : allWs w1 → TightN x tx → allWs w2 → ElemsN [x] (w1 ++ tx ++ w2)
  | cons (x y : Json) (ys : List Json) (w1 tx w2 body : List Char) : allWs w1 → TightN x tx → allWs w2 →
      ElemsN (y :: ys) body → ElemsN (x :: y :: ys) (w1 ++ tx ++ w2 ++ ',' :: body)
inductive MembersN : List (String × Json) → List Char → Prop
  | one (k : String) (tk : List Char) (x : Json) (w1 w2 w3 tx w4 : List Char) : SpellsStr k tk →
      allWs w1 → allWs w2 → allWs w3 → TightN x tx → allWs w4 →
      MembersN [(k, x)] (w1 ++ tk ++ w2 ++ ':' :: w3 ++ tx ++ w4)
  | cons (k : String) (tk : List Char) (x : Json) (kv : String × Json) (kvs : List (String × Json))
      (w1 w2 w3 tx w4 body : List Char) : SpellsStr k tk →
      allWs w1 → allWs w2 → allWs w3 → TightN x tx → allWs w4 → MembersN (kv :: kvs) body →
      MembersN ((k, x) :: kv :: kvs) (w1 ++ tk ++ w2 ++ ':' :: w3 ++ tx ++ w4 ++ ',' :: body)
end

/-- **a spelling of a value**: any insignificant whitespace, any spelling of every string and
    name, any literal for every number -/
def SpellsN (v : Json) (t : List Char) : Prop := ∃ w1 tx w2, allWs w1 ∧ TightN v tx ∧ allWs w2 ∧ t = w1 ++ tx ++ w2

theorem stable_null : (Json.null).numsStable := by simp [Json.numsStable]
theorem stable_bool (b : Bool) : (Json.bool b).numsStable := by simp [Json.numsStable]

theorem tightN_start (v : Json) (t : List Char) (ht : TightN v t) : ∃ c tl, t = c :: tl ∧ isStartN c := by
  cases ht with
  | null => exact print_startN _ stable_null
  | bool b => exact print_startN _ (stable_bool b)
  | num n _ hs =>
    obtain ⟨⟨c, tl, e, hc⟩, _⟩ := hs
    exact ⟨c, tl, e, Or.inr hc⟩
  | str s _ hs =>
    obtain ⟨body, _, rfl⟩ := hs
    exact ⟨'"', _, rfl, Or.inl (by simp [isStart])⟩
  | arrNil w _ => exact ⟨'[', _, rfl, Or.inl (by simp [isStart])⟩
  | arr x xs body _ => exact ⟨'[', _, rfl, Or.inl (by simp [isStart])⟩
  | objNil w _ => exact ⟨'{', _, rfl, Or.inl (by simp [isStart])⟩
  | obj kv kvs body _ => exact ⟨'{', _, rfl, Or.inl (by simp [isStart])⟩

theorem elemsN_skip (l : List Json) (body : List Char) (he : ElemsN l body) (R : List Char) :
    ∃ c tl, skipWs (body ++ R) = c :: tl ∧ isStartN c := by
  cases he with
  | one x w1 tx w2 hw1 ht hw2 =>
    obtain ⟨c, tl, e, hc⟩ := tightN_start x tx ht
    subst e
    refine ⟨c, tl ++ w2 ++ R, ?_, hc⟩
    simp only [List.append_assoc]
    rw [skipWs_ws_append w1 _ hw1]
    exact skipWs_startN c _ hc
  | cons x y ys w1 tx w2 body' hw1 ht hw2 _ =>
    obtain ⟨c, tl, e, hc⟩ := tightN_start x tx ht
    subst e
    refine ⟨c, tl ++ w2 ++ ',' :: body' ++ R, ?_, hc⟩
    simp only [List.append_assoc]
    rw [skipWs_ws_append w1 _ hw1]
    exact skipWs_startN c _ hc

theorem membersN_skip (l : List (String × Json)) (body : List Char) (he : MembersN l body) (R : List Char) :
    ∃ tl, skipWs (body ++ R) = '"' :: tl := by
  cases he with
  | one k tk x w1 w2 w3 tx w4 hk hw1 _ _ _ _ =>
    obtain ⟨kb, _, rfl⟩ := hk
    simp only [List.append_assoc, List.cons_append]
    rw [skipWs_ws_append w1 _ hw1, skipWs_quote]
    exact ⟨_, rfl⟩
  | cons k tk x kv kvs w1 w2 w3 tx w4 body' hk hw1 _ _ _ _ _ =>
    obtain ⟨kb, _, rfl⟩ := hk
    simp only [List.append_assoc, List.cons_append]
    rw [skipWs_ws_append w1 _ hw1, skipWs_quote]
    exact ⟨_, rfl⟩

mutual
theorem read_tightN : ∀ (v : Json) (t : List Char), TightN v t →
    ∀ (fuel : Nat) (rest : List Char), numStop rest → fuel ≥ size v → parseValue fuel (t ++ rest) = some (v, rest)
  | .null, t, ht, fuel, rest, hr, hf => by cases ht; exact read_value_num _ stable_null fuel rest hr hf
  | .bool b, t, ht, fuel, rest, hr, hf => by cases ht; exact read_value_num _ (stable_bool b) fuel rest hr hf
  | .num n, t, ht, fuel, rest, hr, hf => by
    obtain ⟨f, rfl⟩ : ∃ f, fuel = f + 1 := ⟨fuel - 1, by simp [size] at hf; omega⟩
    cases ht with
    | num _ _ hs =>
      obtain ⟨⟨c, tl, e, hc⟩, hp⟩ := hs
      subst e
      have := hp rest hr
      rw [List.cons_append] at this ⊢
      exact parseValue_num f c _ n rest hc this
  | .str s, t, ht, fuel, rest, _, hf => by
    obtain ⟨f, rfl⟩ : ∃ f, fuel = f + 1 := ⟨fuel - 1, by simp [size] at hf; omega⟩
    cases ht with
    | str _ _ hs => exact read_spelled s t rest f hs
  | .arr [], t, ht, fuel, rest, _, hf => by
    obtain ⟨f, rfl⟩ : ∃ f, fuel = f + 1 := ⟨fuel - 1, by simp [size] at hf; omega⟩
    cases ht with
    | arrNil w hw => exact parseValue_arrNil f w rest hw
  | .arr (x :: xs), t, ht, fuel, rest, _, hf => by
    obtain ⟨f, rfl⟩ : ∃ f, fuel = f + 1 := ⟨fuel - 1, by simp [size] at hf; omega⟩
    cases ht with
    | arr _ _ body he =>
      have hel := read_elemsN (x :: xs) (by simp) body he f [] rest (by simp only [size] at hf; omega)
      obtain ⟨c, tl, hsk, hc⟩ := elemsN_skip (x :: xs) body he (']' :: rest)
      have : '[' :: body ++ [']'] ++ rest = '[' :: (body ++ ']' :: rest) := by simp
      rw [this, parseValue_arrW f _ c tl hsk hc _ _ hel]
      simp
  | .obj [], t, ht, fuel, rest, _, hf => by
    obtain ⟨f, rfl⟩ : ∃ f, fuel = f + 1 := ⟨fuel - 1, by simp [size] at hf; omega⟩
    cases ht with
    | objNil w hw => exact parseValue_objNil f w rest hw
  | .obj (kv :: kvs), t, ht, fuel, rest, _, hf => by
    obtain ⟨f, rfl⟩ : ∃ f, fuel = f + 1 := ⟨fuel - 1, by simp [size] at hf; omega⟩
    cases ht with
    | obj _ _ body he =>
      have hel := read_membersN (kv :: kvs) (by simp) body he f [] rest (by simp only [size] at hf; omega)
      obtain ⟨tl, hsk⟩ := membersN_skip (kv :: kvs) body he ('}' :: rest)
      have : '{' :: body ++ ['}'] ++ rest = '{' :: (body ++ '}' :: rest) := by simp
      rw [this, parseValue_objW f _ tl hsk _ _ hel]
      simp

theorem read_elemsN : ∀ (l : List Json), l ≠ [] → ∀ (body : List Char), ElemsN l body →
    ∀ (fuel : Nat) (acc : List Json) (rest : List Char), fuel ≥ sizeList l →
    parseElems fuel acc (body ++ ']' :: rest) = some (acc.reverse ++ l, rest)
  | [], hne, _, _, _, _, _, _ => absurd rfl hne
  | [x], _, body, he, fuel, acc, rest, hf => by
    obtain ⟨f, rfl⟩ : ∃ f, fuel = f + 1 := ⟨fuel - 1, by simp [sizeList] at hf; omega⟩
    cases he with
    | one _ w1 tx w2 hw1 ht hw2 =>
      have hv := read_tightN x tx ht f (w2 ++ ']' :: rest) (numStop_ws_append _ _ hw2 (numStop_rbr rest))
        (by simp [sizeList] at hf; omega)
      have e : w1 ++ tx ++ w2 ++ ']' :: rest = w1 ++ (tx ++ (w2 ++ ']' :: rest)) := by simp
      rw [e]
      simp only [parseElems, parseValue_ws f w1 _ hw1, hv, skipWs_ws_append w2 _ hw2, skipWs_rbr]
      simp
  | x :: y :: ys, _, body, he, fuel, acc, rest, hf => by
    obtain ⟨f, rfl⟩ : ∃ f, fuel = f + 1 := ⟨fuel - 1, by simp [sizeList] at hf; omega⟩
    cases he with
    | cons _ _ _ w1 tx w2 body' hw1 ht hw2 he' =>
      have hv := read_tightN x tx ht f (w2 ++ ',' :: (body' ++ ']' :: rest)) (numStop_ws_append _ _ hw2 (numStop_comma _))
        (by simp [sizeList] at hf; omega)
      have ih := read_elemsN (y :: ys) (by simp) body' he' f (x :: acc) rest (by simp [sizeList] at hf ⊢; omega)
      have e : w1 ++ tx ++ w2 ++ ',' :: body' ++ ']' :: rest = w1 ++ (tx ++ (w2 ++ ',' :: (body' ++ ']' :: rest))) := by simp
      rw [e]
      simp only [parseElems, parseValue_ws f w1 _ hw1, hv, skipWs_ws_append w2 _ hw2, skipWs_comma]
      rw [ih]
      simp

theorem read_membersN : ∀ (l : List (String × Json)), l ≠ [] → ∀ (body : List Char), MembersN l body →
    ∀ (fuel : Nat) (acc : List (String × Json)) (rest : List Char), fuel ≥ sizeMembers l →
    parseMembers fuel acc (body ++ '}' :: rest) = some (acc.reverse ++ l, rest)
  | [], hne, _, _, _, _, _, _ => absurd rfl hne
  | [(k, x)], _, body, he, fuel, acc, rest, hf => by
    obtain ⟨f, rfl⟩ : ∃ f, fuel = f + 1 := ⟨fuel - 1, by simp [sizeMembers] at hf; omega⟩
    cases he with
    | one _ tk _ w1 w2 w3 tx w4 hk hw1 hw2 hw3 ht hw4 =>
      obtain ⟨kb, hkb, rfl⟩ := hk
      have hv := read_tightN x tx ht f (w4 ++ '}' :: rest) (numStop_ws_append _ _ hw4 (numStop_rbrace rest))
        (by simp [sizeMembers] at hf; omega)
      have hq := read_spelled_body k kb (w2 ++ ':' :: (w3 ++ (tx ++ (w4 ++ '}' :: rest)))) hkb
      have e : w1 ++ ('"' :: kb ++ ['"']) ++ w2 ++ ':' :: w3 ++ tx ++ w4 ++ '}' :: rest =
          w1 ++ ('"' :: (kb ++ '"' :: (w2 ++ ':' :: (w3 ++ (tx ++ (w4 ++ '}' :: rest)))))) := by
        simp
      rw [e]
      simp only [parseMembers, skipWs_ws_append w1 _ hw1, skipWs_quote, hq, skipWs_ws_append w2 _ hw2, skipWs_colon,
        parseValue_ws f w3 _ hw3, hv, skipWs_ws_append w4 _ hw4, skipWs_rbrace, ofList_toList]
      simp
  | (k, x) :: (k', y) :: ys, _, body, he, fuel, acc, rest, hf => by
    obtain ⟨f, rfl⟩ : ∃ f, fuel = f + 1 := ⟨fuel - 1, by simp [sizeMembers] at hf; omega⟩
    cases he with
    | cons _ tk _ _ _ w1 w2 w3 tx w4 body' hk hw1 hw2 hw3 ht hw4 he' =>
      obtain ⟨kb, hkb, rfl⟩ := hk
      have hv := read_tightN x tx ht f (w4 ++ ',' :: (body' ++ '}' :: rest)) (numStop_ws_append _ _ hw4 (numStop_comma _))
        (by simp [sizeMembers] at hf; omega)
      have ih := read_membersN ((k', y) :: ys) (by simp) body' he' f ((k, x) :: acc) rest (by simp [sizeMembers] at hf ⊢; omega)
      have hq := read_spelled_body k kb (w2 ++ ':' :: (w3 ++ (tx ++ (w4 ++ ',' :: (body' ++ '}' :: rest))))) hkb
      have e : w1 ++ ('"' :: kb ++ ['"']) ++ w2 ++ ':' :: w3 ++ tx ++ w4 ++ ',' :: body' ++ '}' :: rest =
          w1 ++ ('"' :: (kb ++ '"' :: (w2 ++ ':' :: (w3 ++ (tx ++ (w4 ++ ',' :: (body' ++ '}' :: rest))))))) := by
        simp
      rw [e]
      simp only [parseMembers, skipWs_ws_append w1 _ hw1, skipWs_quote, hq, skipWs_ws_append w2 _ hw2, skipWs_colon,
        parseValue_ws f w3 _ hw3, hv, skipWs_ws_append w4 _ hw4, skipWs_comma, ofList_toList]
      rw [ih]
      simp
end

mutual
theorem size_le_tightN : ∀ (v : Json) (t : List Char), TightN v t → size v ≤ t.length
  | .null, t, ht => by cases ht; exact size_le_print_num _ stable_null
  | .bool b, t, ht => by cases ht; exact size_le_print_num _ (stable_bool b)
  | .num n, t, ht => by
    cases ht with
    | num _ _ hs =>
      obtain ⟨⟨c, tl, e, _⟩, _⟩ := hs
      subst e
      simp [size]
  | .str s, t, ht => by
    cases ht with
    | str _ _ hs =>
      obtain ⟨body, _, rfl⟩ := hs
      simp [size]
  | .arr [], t, ht => by
    cases ht with
    | arrNil w hw => simp [size, sizeList]
  | .arr (x :: xs), t, ht => by
    cases ht with
    | arr _ _ body he =>
      have := sizeList_le_elemsN (x :: xs) body he
      simp only [size, List.length_cons, List.length_append, List.length_nil]
      omega
  | .obj [], t, ht => by
    cases ht with
    | objNil w hw => simp [size, sizeMembers]
  | .obj (kv :: kvs), t, ht => by
    cases ht with
    | obj _ _ body he =>
      have := sizeMembers_le_membersN (kv :: kvs) body he
      simp only [size, List.length_cons, List.length_append, List.length_nil]
      omega
theorem sizeList_le_elemsN : ∀ (l : List Json) (body : List Char), ElemsN l body →
    sizeList l ≤ body.length + 1
  | [], _, _ => by simp [sizeList]
  | [x], body, he => by
    cases he with
    | one _ w1 tx w2 hw1 ht hw2 =>
      have := size_le_tightN x tx ht
      simp only [sizeList, List.length_append]
      omega
  | x :: y :: ys, body, he => by
    cases he with
    | cons _ _ _ w1 tx w2 body' hw1 ht hw2 he' =>
      have h1 := size_le_tightN x tx ht
      have h2 := sizeList_le_elemsN (y :: ys) body' he'
      simp only [sizeList, List.length_append, List.length_cons] at h2 ⊢
      omega
theorem sizeMembers_le_membersN : ∀ (l : List (String × Json)) (body : List Char), MembersN l body →
    sizeMembers l ≤ body.length + 1
  | [], _, _ => by simp [sizeMembers]
  | [(k, x)], body, he => by
    cases he with
    | one _ tk _ w1 w2 w3 tx w4 hk hw1 hw2 hw3 ht hw4 =>
      have := size_le_tightN x tx ht
      simp only [sizeMembers, List.length_append, List.length_cons]
      omega
  | (k, x) :: (k', y) :: ys, body, he => by
    cases he with
    | cons _ tk _ _ _ w1 w2 w3 tx w4 body' hk hw1 hw2 hw3 ht hw4 he' =>
      have h1 := size_le_tightN x tx ht
      have h2 := sizeMembers_le_membersN ((k', y) :: ys) body' he'
      simp only [sizeMembers, List.length_append, List.length_cons] at h2 ⊢
      omega
end

/-- **every spelling of a value — whitespace, escapes, number literals — is read as that value**
    (no stability hypothesis: each number leaf carries its own reading fact) -/
theorem parse_spellingN (v : Json) (t : List Char) (hs : SpellsN v t) : Parse.parse t = some v := by
  obtain ⟨w1, tx, w2, hw1, ht, hw2, rfl⟩ := hs
  unfold Parse.parse
  have hsz := size_le_tightN v tx ht
  have hr : numStop w2 := by simpa using numStop_ws_append w2 [] hw2 numStop_nil
  have hv := read_tightN v tx ht (2 * (w1 ++ (tx ++ w2)).length + 2) w2 hr
    (by simp only [List.length_append]; omega)
  rw [List.append_assoc, parseValue_ws _ w1 _ hw1, hv]
  have : skipWs w2 = [] := by simpa [skipWs] using skipWs_ws_append w2 [] hw2
  simp [this]

/-! ### C. whitespace, escapes and integer spelling are all irrelevant to the canonical bytes -/

/-- **texts that differ in insignificant whitespace, string escape spelling and integer-valued
    number spelling have the same canonical form** -/
theorem spelling_irrelevant (v1 v2 : Json) (t1 t2 : List Char) (h1 : SpellsN v1 t1) (h2 : SpellsN v2 t2)
    (hs : SameUpToNumSpelling v1 v2) :
    (Parse.parse t1).bind Json.jcs = (Parse.parse t2).bind Json.jcs := by
  rw [parse_spellingN v1 t1 h1, parse_spellingN v2 t2 h2]
  exact jcs_sameUpToNumSpelling v1 v2 hs

/-- … and `jsoncanonicalizer.Transform` gives identical bytes on them (or refuses both) -/
theorem transform_spelling_irrelevant (v1 v2 : Json) (t1 t2 : List Char) (h1 : SpellsN v1 t1)
    (h2 : SpellsN v2 t2) (hs : SameUpToNumSpelling v1 v2) : transform t1 = transform t2 := by
  unfold transform
  rw [parse_spellingN v1 t1 h1, parse_spellingN v2 t2 h2]
  simp only [Option.bind_some, depth_same v1 v2 hs, transformValue_sameUpToNumSpelling v1 v2 hs]

/-! ### D. the relations are inhabited -/

theorem takeDigits_stop (rest : List Char) (hr : numStop rest) : takeDigits rest = ([], rest) := by
  cases rest with
  | nil => rfl
  | cons c tl =>
    have h := hr c tl rfl
    have hd : isDigit c = false := by
      cases hc : isDigit c with
      | false => rfl
      | true => exact absurd (Or.inl hc) h
    simp [takeDigits, hd]

/-- the plain decimal literal of an integer is a spelling of it -/
theorem spellsNum_int (i : Int) :
    SpellsNum (JNum.ofInt i) ((if i < 0 then ['-'] else []) ++ natDigits i.natAbs) := by
  refine ⟨?_, fun rest hr => parseNumber_intDigits i rest hr⟩
  obtain ⟨c, tl, e, hc⟩ := natDigits_start i.natAbs
  by_cases h : i < 0
  · exact ⟨'-', natDigits i.natAbs, by simp [h], Or.inl rfl⟩
  · exact ⟨c, tl, by simp [h, e], Or.inr hc⟩

def lit1E3 : JNum := { neg := false, mant := 1, exp10 := 3, isInt := false }
def lit1p0e3 : JNum := { neg := false, mant := 10, exp10 := 2, isInt := false }
def lit10000em1 : JNum := { neg := false, mant := 10000, exp10 := -1, isInt := false }

/-- `1E3` -/
theorem spellsNum_1E3 : SpellsNum lit1E3 ['1', 'E', '3'] := by
  refine ⟨⟨'1', _, rfl, Or.inr (by decide)⟩, fun rest hr => ?_⟩
  have h := takeDigits_stop rest hr
  have d1 : isDigit '1' = true := by decide
  have d3 : isDigit '3' = true := by decide
  have dE : isDigit 'E' = false := by decide
  simp [parseNumber, takeDigits, h, d1, d3, dE, digitsToNat, lit1E3]

/-- `1.0e3` -/
theorem spellsNum_1p0e3 : SpellsNum lit1p0e3 ['1', '.', '0', 'e', '3'] := by
  refine ⟨⟨'1', _, rfl, Or.inr (by decide)⟩, fun rest hr => ?_⟩
  have h := takeDigits_stop rest hr
  have d0 : isDigit '0' = true := by decide
  have d1 : isDigit '1' = true := by decide
  have d3 : isDigit '3' = true := by decide
  have dp : isDigit '.' = false := by decide
  have de : isDigit 'e' = false := by decide
  simp [parseNumber, takeDigits, h, d0, d1, d3, dp, de, digitsToNat, lit1p0e3]

/-- `10000e-1` -/
theorem spellsNum_10000em1 : SpellsNum lit10000em1 ['1', '0', '0', '0', '0', 'e', '-', '1'] := by
  refine ⟨⟨'1', _, rfl, Or.inr (by decide)⟩, fun rest hr => ?_⟩
  have h := takeDigits_stop rest hr
  have d0 : isDigit '0' = true := by decide
  have d1 : isDigit '1' = true := by decide
  have de : isDigit 'e' = false := by decide
  simp [parseNumber, takeDigits, h, d0, d1, de, digitsToNat, lit10000em1]

theorem lits_intValue : lit1E3.intValue? = some 1000 ∧ lit1p0e3.intValue? = some 1000 ∧
    lit10000em1.intValue? = some 1000 ∧ (JNum.ofInt 1000).intValue? = some 1000 := by decide

theorem spellsNum_1000 : SpellsNum (JNum.ofInt 1000) ['1', '0', '0', '0'] := by
  have h := spellsNum_int 1000
  have e : (if (1000 : Int) < 0 then ['-'] else []) ++ natDigits (1000 : Int).natAbs = ['1', '0', '0', '0'] := by decide
  rw [e] at h
  exact h

/-- `[1E3,1.0e3]` -/
theorem sample1 : SpellsN (.arr [.num lit1E3, .num lit1p0e3]) ['[', '1', 'E', '3', ',', '1', '.', '0', 'e', '3', ']'] :=
  ⟨[], _, [], allWs_nil,
    TightN.arr _ _ _ (ElemsN.cons _ _ _ [] ['1', 'E', '3'] [] _ allWs_nil (TightN.num _ _ spellsNum_1E3) allWs_nil
      (ElemsN.one _ [] ['1', '.', '0', 'e', '3'] [] allWs_nil (TightN.num _ _ spellsNum_1p0e3) allWs_nil)),
    allWs_nil, rfl⟩

/-- `[ 1000 , 10000e-1 ]` followed by a line feed -/
theorem sample2 : SpellsN (.arr [.num (JNum.ofInt 1000), .num lit10000em1])
    ['[', ' ', '1', '0', '0', '0', ' ', ',', ' ', '1', '0', '0', '0', '0', 'e', '-', '1', ' ', ']', '\n'] :=
  ⟨[], _, ['\n'], allWs_nil,
    TightN.arr _ _ _ (ElemsN.cons _ _ _ [' '] ['1', '0', '0', '0'] [' '] _ (allWs_of _ (by decide))
      (TightN.num _ _ spellsNum_1000) (allWs_of _ (by decide))
      (ElemsN.one _ [' '] ['1', '0', '0', '0', '0', 'e', '-', '1'] [' '] (allWs_of _ (by decide))
        (TightN.num _ _ spellsNum_10000em1) (allWs_of _ (by decide)))),
    allWs_of _ (by decide), rfl⟩

theorem sample_same : SameUpToNumSpelling (.arr [.num lit1E3, .num lit1p0e3])
    (.arr [.num (JNum.ofInt 1000), .num lit10000em1]) := by
  simp only [SameUpToNumSpelling, SameList, and_true]
  exact ⟨Or.inr ⟨1000, lits_intValue.1, lits_intValue.2.2.2, by decide⟩,
    Or.inr ⟨1000, lits_intValue.2.1, lits_intValue.2.2.1, by decide⟩⟩

/-- `[1E3,1.0e3]` and `[ 1000 , 10000e-1 ]⏎` canonicalize to identical bytes -/
example : transform ['[', '1', 'E', '3', ',', '1', '.', '0', 'e', '3', ']'] =
    transform ['[', ' ', '1', '0', '0', '0', ' ', ',', ' ', '1', '0', '0', '0', '0', 'e', '-', '1', ' ', ']', '\n'] :=
  transform_spelling_irrelevant _ _ _ _ sample1 sample2 sample_same

end Sidetree.NS
