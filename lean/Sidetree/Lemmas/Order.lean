/-
  `natListLt` is a strict total order on `List Nat`; `utf16Le` is a total preorder on `String`
  whose equivalence is equality of UTF-16 code-unit sequences; sorting lemmas for members.
-/
import Sidetree.Jcs

namespace Sidetree

theorem natListLt_irrefl : ∀ a, natListLt a a = false
  | [] => rfl
  | x :: xs => by simp [natListLt, natListLt_irrefl xs]

theorem natListLt_asymm : ∀ a b, natListLt a b = true → natListLt b a = false
  | [], [], h => by simp [natListLt] at h
  | [], _ :: _, _ => by simp [natListLt]
  | _ :: _, [], h => by simp [natListLt] at h
  | x :: xs, y :: ys, h => by
    simp only [natListLt] at h ⊢
    by_cases h1 : x < y
    · have : ¬ y < x := by omega
      simp [this, h1]
    · by_cases h2 : y < x
      · simp [h1, h2] at h
      · simp only [h1, h2, if_false] at h ⊢
        exact natListLt_asymm xs ys h

theorem natListLt_trans : ∀ a b c, natListLt a b = true → natListLt b c = true → natListLt a c = true
  | [], [], _, h, _ => by simp [natListLt] at h
  | [], _ :: _, [], _, h => by simp [natListLt] at h
  | [], _ :: _, _ :: _, _, _ => by simp [natListLt]
  | _ :: _, [], _, h, _ => by simp [natListLt] at h
  | _ :: _, _ :: _, [], _, h => by simp [natListLt] at h
  | x :: xs, y :: ys, z :: zs, h1, h2 => by
    simp only [natListLt] at h1 h2 ⊢
    by_cases hxy : x < y
    · by_cases hyz : y < z
      · have : x < z := by omega
        simp [this]
      · by_cases hzy : z < y
        · simp [hyz, hzy] at h2
        · have : x < z := by omega
          simp [this]
    · by_cases hyx : y < x
      · simp [hxy, hyx] at h1
      · simp only [hxy, hyx, if_false] at h1
        have hxy' : x = y := by omega
        subst hxy'
        by_cases hxz : x < z
        · simp [hxz]
        · by_cases hzx : z < x
          · simp [hxz, hzx] at h2
          · simp only [hxz, hzx, if_false] at h2 ⊢
            exact natListLt_trans xs ys zs h1 h2

/-- trichotomy: neither less ⇒ equal -/
theorem natListLt_total : ∀ a b, natListLt a b = false → natListLt b a = false → a = b
  | [], [], _, _ => rfl
  | [], _ :: _, h, _ => by simp [natListLt] at h
  | _ :: _, [], _, h => by simp [natListLt] at h
  | x :: xs, y :: ys, h1, h2 => by
    simp only [natListLt] at h1 h2
    by_cases hxy : x < y
    · simp [hxy] at h1
    · by_cases hyx : y < x
      · simp [hyx] at h2
      · simp only [hxy, hyx, if_false] at h1 h2
        have : x = y := by omega
        rw [this, natListLt_total xs ys h1 h2]

/-! ### `utf16Le` as the sort relation -/

theorem utf16Le_total (a b : String) : utf16Le a b = true ∨ utf16Le b a = true := by
  unfold utf16Le utf16Lt
  cases h : natListLt (utf16 b.toList) (utf16 a.toList)
  · simp
  · right; simp [natListLt_asymm _ _ h]

theorem utf16Le_trans (a b c : String) (h1 : utf16Le a b = true) (h2 : utf16Le b c = true) :
    utf16Le a c = true := by
  unfold utf16Le utf16Lt at *
  simp only [Bool.not_eq_true'] at *
  cases h : natListLt (utf16 c.toList) (utf16 a.toList)
  · rfl
  · -- c < a, and ¬ b < a, ¬ c < b
    exfalso
    cases hab : natListLt (utf16 a.toList) (utf16 b.toList)
    · have e := natListLt_total _ _ hab h1
      rw [e] at h; rw [h] at h2; cases h2
    · have := natListLt_trans _ _ _ h hab
      rw [this] at h2; cases h2

theorem utf16Le_antisymm_units (a b : String) (h1 : utf16Le a b = true) (h2 : utf16Le b a = true) :
    utf16 a.toList = utf16 b.toList := by
  unfold utf16Le utf16Lt at *
  simp only [Bool.not_eq_true'] at *
  exact natListLt_total _ _ h2 h1

/-! ### sorted output -/

theorem memberLe_total (a b : String × Json) : (memberLe a b || memberLe b a) = true := by
  unfold memberLe
  rcases utf16Le_total a.1 b.1 with h | h <;> simp [h]

theorem memberLe_trans (a b c : String × Json) (h1 : memberLe a b = true) (h2 : memberLe b c = true) :
    memberLe a c = true := utf16Le_trans _ _ _ h1 h2

/-- the members of a canonical object are in non-decreasing UTF-16 order -/
theorem sortMembers_sorted (kvs : List (String × Json)) :
    (sortMembers kvs).Pairwise (fun a b => memberLe a b = true) := by
  unfold sortMembers
  exact List.pairwise_mergeSort (le := memberLe) (fun a b c => memberLe_trans a b c) memberLe_total kvs

/-- sorting only permutes the members -/
theorem sortMembers_perm (kvs : List (String × Json)) : (sortMembers kvs).Perm kvs := by
  unfold sortMembers
  exact List.mergeSort_perm kvs memberLe

end Sidetree
