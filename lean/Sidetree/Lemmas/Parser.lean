/-
  Inversion lemmas for the parser model: what an accepted request guarantees.
-/
import Sidetree.Parser
import Sidetree.Lemmas.Base64

namespace Sidetree.Parser
open Sidetree

theorem guard'_some (b : Bool) : guard' b = some () ↔ b = true := by
  unfold guard'; cases b <;> simp

theorem parseSignedData_inv (cfg : Protocol) (s : String) (p : Jws.Parsed) (h : parseSignedData cfg s = some p) :
    s ≠ "" ∧ Jws.parse s = some p ∧ headersOK cfg p.headers = true := by
  unfold parseSignedData at h
  by_cases hs : s = ""
  · simp [hs] at h
  · simp only [hs, if_false] at h
    cases hp : Jws.parse s with
    | none => simp [hp] at h
    | some q =>
      simp only [hp] at h
      by_cases hh : headersOK cfg q.headers = true
      · simp only [hh, if_true, Option.some.injEq] at h
        subst h
        exact ⟨hs, rfl, hh⟩
      · simp [hh] at h

/-- accepted protected headers: `alg` is a non-empty string from the allowed list and no header
    other than `alg` / `kid` is present -/
theorem headersOK_inv (cfg : Protocol) (hdrs : List (String × Json)) (h : headersOK cfg hdrs = true) :
    ∃ alg, Json.lookup "alg" hdrs = some (.str alg) ∧ alg ≠ "" ∧ alg ∈ cfg.signatureAlgorithms ∧
      ∀ kv ∈ hdrs, kv.1 = "alg" ∨ kv.1 = "kid" := by
  unfold headersOK at h
  cases hl : Json.lookup "alg" hdrs with
  | none => simp [hl] at h
  | some j =>
    cases j with
    | str alg =>
      simp only [hl, Bool.and_eq_true, List.all_eq_true, Bool.or_eq_true, decide_eq_true_eq, bne_iff_ne, ne_eq,
        List.contains_iff_mem] at h
      exact ⟨alg, rfl, h.1.1, h.2, h.1.2⟩
    | null => simp [hl] at h
    | bool b => simp [hl] at h
    | num n => simp [hl] at h
    | arr xs => simp [hl] at h
    | obj o => simp [hl] at h

theorem parseSignedDataForUpdate_inv (cfg : Protocol) (s : String) (sd : SignedData)
    (h : parseSignedDataForUpdate cfg s = some sd) :
    ∃ p, parseSignedData cfg s = some p ∧ signingKeyOK cfg sd.key = true ∧ multihashOK cfg sd.deltaHash = true := by
  unfold parseSignedDataForUpdate at h
  cases hp : parseSignedData cfg s with
  | none => simp [hp] at h
  | some p =>
    refine ⟨p, rfl, ?_⟩
    simp only [hp, Option.bind_eq_bind, Option.bind_some] at h
    cases hj : payloadJson p with
    | none => simp [hj] at h
    | some j =>
      simp only [hj, Option.bind_some] at h
      cases hk : decodeKey j "updateKey" with
      | none => simp [hk] at h
      | some key =>
        simp only [hk, Option.bind_some] at h
        cases hd : GoJson.str j "deltaHash" with
        | none => simp [hd] at h
        | some dh =>
          simp only [hd, Option.bind_some] at h
          cases hf : GoJson.int64 j "anchorFrom" with
          | none => simp [hf] at h
          | some af =>
            simp only [hf, Option.bind_some] at h
            cases hu : GoJson.int64 j "anchorUntil" with
            | none => simp [hu] at h
            | some au =>
              simp only [hu, Option.bind_some] at h
              by_cases hc : (signingKeyOK cfg key && multihashOK cfg dh) = true
              · simp only [hc, if_true, pure, Option.some.injEq] at h
                subst h
                simpa using hc
              · simp [hc] at h

theorem signingKeyOK_inv (cfg : Protocol) (key : Option Jwk) (h : signingKeyOK cfg key = true) :
    ∃ k, key = some k ∧ k.valid = true ∧ k.crv ∈ cfg.keyAlgorithms ∧ nonceOK cfg k.nonce = true := by
  cases key with
  | none => simp [signingKeyOK] at h
  | some k =>
    simp only [signingKeyOK, Bool.and_eq_true, List.contains_iff_mem] at h
    exact ⟨k, rfl, h.1.1, h.1.2, h.2⟩

/-- a nonce, when present, is the canonical text of exactly the configured number of bytes -/
theorem nonceOK_inv (cfg : Protocol) (n : String) (h : nonceOK cfg n = true) :
    n = "" ∨ ∃ bs, b64DecodeStr n = some bs ∧ bs.length = cfg.nonceSize := by
  unfold nonceOK at h
  by_cases hn : n = ""
  · left; exact hn
  · right
    simp only [hn, decide_false, Bool.false_or] at h
    cases hd : b64DecodeStrictStr n with
    | none => simp [hd] at h
    | some bs => exact ⟨bs, (b64_decode_strict_inv n bs hd).1, by simpa [hd] using h⟩

theorem parseUpdate_inv (H : HashFam) (cfg : Protocol) (orc : Oracles) (req : Json) (batch : Bool) (p : ParsedOp)
    (h : parseUpdate H cfg orc req batch = some p) :
    ∃ c sd, decodeCommon cfg req true = some c ∧ parseSignedDataForUpdate cfg c.signedData = some sd ∧
      (batch = true ∨ (orc.anchorTimeOK sd.anchorFrom (anchorUntil cfg sd.anchorFrom sd.anchorUntil) = true ∧
        validateDelta cfg orc c.delta = true ∧ keyFresh H sd.key (c.delta.getD default).updateCommitment = true)) ∧
      revealMatches H sd.key c.revealValue = true ∧
      p = { type := .update, uniqueSuffix := c.didSuffix, delta := c.delta, signedData := c.signedData,
            revealValue := c.revealValue } := by
  unfold parseUpdate at h
  cases hc : decodeCommon cfg req true with
  | none => simp [hc] at h
  | some c =>
    simp only [hc, Option.bind_eq_bind, Option.bind_some] at h
    cases hs : parseSignedDataForUpdate cfg c.signedData with
    | none => simp [hs] at h
    | some sd =>
      simp only [hs, Option.bind_some] at h
      cases hg1 : guard' (batch || (orc.anchorTimeOK sd.anchorFrom (anchorUntil cfg sd.anchorFrom sd.anchorUntil) &&
          validateDelta cfg orc c.delta && keyFresh H sd.key (c.delta.getD default).updateCommitment)) with
      | none => simp [hg1] at h
      | some u1 =>
        simp only [hg1, Option.bind_some] at h
        cases hg2 : guard' (revealMatches H sd.key c.revealValue) with
        | none => simp [hg2] at h
        | some u2 =>
          simp only [hg2, Option.bind_some, pure, Option.some.injEq] at h
          have e1 := (guard'_some _).mp hg1
          have e2 := (guard'_some _).mp hg2
          refine ⟨c, sd, rfl, hs, ?_, e2, h.symm⟩
          simp only [Bool.or_eq_true, Bool.and_eq_true] at e1
          rcases e1 with e | e
          · left; exact e
          · right; exact ⟨e.1.1, e.1.2, e.2⟩


theorem parseSignedDataForRecover_inv (H : HashFam) (cfg : Protocol) (s : String) (sd : SignedData)
    (h : parseSignedDataForRecover H cfg s = some sd) :
    ∃ p, parseSignedData cfg s = some p ∧ signingKeyOK cfg sd.key = true ∧
      multihashOK cfg sd.recoveryCommitment = true ∧ multihashOK cfg sd.deltaHash = true ∧
      keyFresh H sd.key sd.recoveryCommitment = true := by
  unfold parseSignedDataForRecover at h
  cases hp : parseSignedData cfg s with
  | none => simp [hp] at h
  | some p =>
    refine ⟨p, rfl, ?_⟩
    simp only [hp, Option.bind_eq_bind, Option.bind_some] at h
    cases hj : payloadJson p with
    | none => simp [hj] at h
    | some j =>
      simp only [hj, Option.bind_some] at h
      cases hd : GoJson.str j "deltaHash" with
      | none => simp [hd] at h
      | some dh =>
        simp only [hd, Option.bind_some] at h
        cases hk : decodeKey j "recoveryKey" with
        | none => simp [hk] at h
        | some key =>
          simp only [hk, Option.bind_some] at h
          cases hr : GoJson.str j "recoveryCommitment" with
          | none => simp [hr] at h
          | some rc =>
            simp only [hr, Option.bind_some] at h
            cases hf : GoJson.int64 j "anchorFrom" with
            | none => simp [hf] at h
            | some af =>
              simp only [hf, Option.bind_some] at h
              cases hu : GoJson.int64 j "anchorUntil" with
              | none => simp [hu] at h
              | some au =>
                simp only [hu, Option.bind_some] at h
                cases key with
                | none => simp [signingKeyOK] at h
                | some k =>
                  simp only at h
                  by_cases hc : (signingKeyOK cfg (some k) && multihashOK cfg rc && multihashOK cfg dh && commitmentFresh H k rc) = true
                  · simp only [hc, if_true, pure, Option.some.injEq] at h
                    subst h
                    simp only [Bool.and_eq_true] at hc
                    exact ⟨hc.1.1.1, hc.1.1.2, hc.1.2, by simpa [keyFresh] using hc.2⟩
                  · simp [hc] at h

theorem parseSignedDataForDeactivate_inv (cfg : Protocol) (s : String) (sd : SignedData)
    (h : parseSignedDataForDeactivate cfg s = some sd) :
    ∃ p, parseSignedData cfg s = some p ∧ signingKeyOK cfg sd.key = true := by
  unfold parseSignedDataForDeactivate at h
  cases hp : parseSignedData cfg s with
  | none => simp [hp] at h
  | some p =>
    refine ⟨p, rfl, ?_⟩
    simp only [hp, Option.bind_eq_bind, Option.bind_some] at h
    cases hj : payloadJson p with
    | none => simp [hj] at h
    | some j =>
      simp only [hj, Option.bind_some] at h
      cases hd : GoJson.str j "didSuffix" with
      | none => simp [hd] at h
      | some ds =>
        simp only [hd, Option.bind_some] at h
        cases hr : GoJson.str j "revealValue" with
        | none => simp [hr] at h
        | some rv =>
          simp only [hr, Option.bind_some] at h
          cases hk : decodeKey j "recoveryKey" with
          | none => simp [hk] at h
          | some key =>
            simp only [hk, Option.bind_some] at h
            cases hf : GoJson.int64 j "anchorFrom" with
            | none => simp [hf] at h
            | some af =>
              simp only [hf, Option.bind_some] at h
              cases hu : GoJson.int64 j "anchorUntil" with
              | none => simp [hu] at h
              | some au =>
                simp only [hu, Option.bind_some] at h
                split at h
                · rename_i hc
                  simp only [pure, Option.some.injEq] at h
                  subst h
                  exact hc
                · cases h

theorem parseRecover_inv (H : HashFam) (cfg : Protocol) (orc : Oracles) (req : Json) (batch : Bool) (p : ParsedOp)
    (h : parseRecover H cfg orc req batch = some p) :
    ∃ c sd, decodeCommon cfg req true = some c ∧ parseSignedDataForRecover H cfg c.signedData = some sd ∧
      (batch = true ∨ (orc.anchorOriginOK sd.anchorOrigin = true ∧
        orc.anchorTimeOK sd.anchorFrom (anchorUntil cfg sd.anchorFrom sd.anchorUntil) = true ∧
        validateDelta cfg orc c.delta = true ∧ (c.delta.getD default).updateCommitment ≠ sd.recoveryCommitment ∧
        keyFresh H sd.key (c.delta.getD default).updateCommitment = true)) ∧
      revealMatches H sd.key c.revealValue = true ∧
      p = { type := .recover, uniqueSuffix := c.didSuffix, delta := c.delta, signedData := c.signedData,
            revealValue := c.revealValue, anchorOrigin := sd.anchorOrigin } := by
  unfold parseRecover at h
  cases hc : decodeCommon cfg req true with
  | none => simp [hc] at h
  | some c =>
    simp only [hc, Option.bind_eq_bind, Option.bind_some] at h
    cases hs : parseSignedDataForRecover H cfg c.signedData with
    | none => simp [hs] at h
    | some sd =>
      simp only [hs, Option.bind_some] at h
      cases hg1 : guard' (batch || (orc.anchorOriginOK sd.anchorOrigin &&
          orc.anchorTimeOK sd.anchorFrom (anchorUntil cfg sd.anchorFrom sd.anchorUntil) && validateDelta cfg orc c.delta &&
          (c.delta.getD default).updateCommitment != sd.recoveryCommitment &&
          keyFresh H sd.key (c.delta.getD default).updateCommitment)) with
      | none => simp [hg1] at h
      | some u1 =>
        simp only [hg1, Option.bind_some] at h
        cases hg2 : guard' (revealMatches H sd.key c.revealValue) with
        | none => simp [hg2] at h
        | some u2 =>
          simp only [hg2, Option.bind_some, pure, Option.some.injEq] at h
          have e1 := (guard'_some _).mp hg1
          have e2 := (guard'_some _).mp hg2
          refine ⟨c, sd, rfl, hs, ?_, e2, h.symm⟩
          simp only [Bool.or_eq_true, Bool.and_eq_true, bne_iff_ne, ne_eq] at e1
          rcases e1 with e | e
          · left; exact e
          · right; exact ⟨e.1.1.1.1, e.1.1.1.2, e.1.1.2, e.1.2, e.2⟩

theorem parseDeactivate_inv (H : HashFam) (cfg : Protocol) (orc : Oracles) (req : Json) (batch : Bool) (p : ParsedOp)
    (h : parseDeactivate H cfg orc req batch = some p) :
    ∃ c sd, decodeCommon cfg req false = some c ∧ parseSignedDataForDeactivate cfg c.signedData = some sd ∧
      sd.didSuffix = c.didSuffix ∧ revealMatches H sd.key c.revealValue = true ∧
      (batch = true ∨ orc.anchorTimeOK sd.anchorFrom (anchorUntil cfg sd.anchorFrom sd.anchorUntil) = true) ∧
      p = { type := .deactivate, uniqueSuffix := c.didSuffix, signedData := c.signedData, revealValue := c.revealValue } := by
  unfold parseDeactivate at h
  cases hc : decodeCommon cfg req false with
  | none => simp [hc] at h
  | some c =>
    simp only [hc, Option.bind_eq_bind, Option.bind_some] at h
    cases hs : parseSignedDataForDeactivate cfg c.signedData with
    | none => simp [hs] at h
    | some sd =>
      simp only [hs, Option.bind_some] at h
      cases hg0 : guard' (sd.didSuffix == c.didSuffix) with
      | none => simp [hg0] at h
      | some u0 =>
        simp only [hg0, Option.bind_some] at h
        cases hg2 : guard' (revealMatches H sd.key c.revealValue) with
        | none => simp [hg2] at h
        | some u2 =>
          simp only [hg2, Option.bind_some] at h
          cases hg1 : guard' (batch || orc.anchorTimeOK sd.anchorFrom (anchorUntil cfg sd.anchorFrom sd.anchorUntil)) with
          | none => simp [hg1] at h
          | some u1 =>
            simp only [hg1, Option.bind_some, pure, Option.some.injEq] at h
            have e0 := (guard'_some _).mp hg0
            have e1 := (guard'_some _).mp hg1
            have e2 := (guard'_some _).mp hg2
            refine ⟨c, sd, rfl, hs, by simpa using e0, e2, ?_, h.symm⟩
            simpa using e1

theorem parseCreate_inv (H : HashFam) (cfg : Protocol) (orc : Oracles) (req : Json) (batch : Bool) (p : ParsedOp)
    (h : parseCreate H cfg orc req batch = some p) :
    ∃ c alg suffix, decodeCreate req = some c ∧ validateSuffixData cfg c.suffixData = true ∧
      (batch = true ∨ createChecks H cfg orc (c.suffixData.getD default) c.delta = true) ∧
      cfg.multihashAlgorithms.head? = some alg ∧
      Hashing.calculateModelMultihash H (c.suffixData.getD default).toJson alg = some suffix ∧
      p = { type := .create, uniqueSuffix := suffix, delta := c.delta, suffixData := c.suffixData,
            anchorOrigin := (c.suffixData.getD default).anchorOrigin } := by
  unfold parseCreate at h
  cases hc : decodeCreate req with
  | none => simp [hc] at h
  | some c =>
    simp only [hc, Option.bind_eq_bind, Option.bind_some] at h
    cases hg0 : guard' (validateSuffixData cfg c.suffixData) with
    | none => simp [hg0] at h
    | some u0 =>
      simp only [hg0, Option.bind_some] at h
      cases hg1 : guard' (batch || createChecks H cfg orc (c.suffixData.getD default) c.delta) with
      | none => simp [hg1] at h
      | some u1 =>
        simp only [hg1, Option.bind_some] at h
        cases ha : cfg.multihashAlgorithms.head? with
        | none => simp [ha] at h
        | some alg =>
          simp only [ha, Option.bind_some] at h
          cases hm : Hashing.calculateModelMultihash H (c.suffixData.getD default).toJson alg with
          | none => simp [hm] at h
          | some suffix =>
            simp only [hm, Option.bind_some, pure, Option.some.injEq] at h
            have e0 := (guard'_some _).mp hg0
            have e1 := (guard'_some _).mp hg1
            refine ⟨c, alg, suffix, rfl, e0, ?_, rfl, hm, h.symm⟩
            simpa using e1

end Sidetree.Parser
