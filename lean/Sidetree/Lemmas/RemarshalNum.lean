/-
  Re-marshalling is stable on canonical requests whose numbers are stable (`Json.numsStable`):
  `Lemmas/Remarshal.lean` with "no numbers" replaced by "every number is stable".
-/
import Sidetree.Lemmas.Remarshal
import Sidetree.Lemmas.RoundTripNum
namespace Sidetree.Remarshal
open Sidetree Sidetree.Json Sidetree.Did Sidetree.Parser Sidetree.Framing

/-- the normal form of marshalled suffix data decodes to suffix data that marshals to the same normal form -/
theorem suffixData_remarshal_num (sd : SuffixData) (nsd : Json)
    (hao : sd.anchorOrigin ≠ some .null) (hst : sd.toJson.numsStable)
    (hn : normalize sd.toJson = some nsd) :
    ∃ sd', SuffixData.ofJson? nsd = some sd' ∧ normalize sd'.toJson = some nsd := by
  obtain ⟨dh, rc, ao, ty⟩ := sd
  have hobj : ∃ kvs, (SuffixData.toJson ⟨dh, rc, ao, ty⟩) = .obj kvs := ⟨_, rfl⟩
  obtain ⟨kvs, hk⟩ := hobj
  have g1 := normalize_obj_get kvs nsd (hk ▸ hn) "deltaHash"
  have g2 := normalize_obj_get kvs nsd (hk ▸ hn) "recoveryCommitment"
  have g3 := normalize_obj_get kvs nsd (hk ▸ hn) "anchorOrigin"
  have g4 := normalize_obj_get kvs nsd (hk ▸ hn) "type"
  simp only [SuffixData.toJson, Json.obj.injEq] at hk
  subst hk
  cases ao with
  | none =>
    refine ⟨⟨dh, rc, none, ty⟩, ?_, hn⟩
    by_cases h1 : dh = "" <;> by_cases h2 : rc = "" <;> by_cases h4 : ty = "" <;>
      simp [h1, h2, h4, Json.lookup, normalize] at g1 g2 g3 g4 <;>
      simp [SuffixData.ofJson?, GoJson.str, GoJson.iface, g1, g2, g3, g4, h1, h2, h4]
  | some a =>
    have hnull : a ≠ .null := fun e => hao (by rw [e])
    cases hna : normalize a with
    | none =>
      exfalso
      by_cases h1 : dh = "" <;> by_cases h2 : rc = "" <;> by_cases h4 : ty = "" <;>
        simp [SuffixData.toJson, h1, h2, h4, normalize, normalizeMembers, hna] at hn
    | some a' =>
      have hnull' : a' ≠ .null := fun e => hnull (normalize_eq_null a (e ▸ hna))
      have hfa : a.numsStable := by
        by_cases h1 : dh = "" <;> by_cases h2 : rc = "" <;> by_cases h4 : ty = "" <;>
          simp [SuffixData.toJson, h1, h2, h4, Json.numsStable, Json.numsStableMembers] at hst <;> exact hst
      have hfix : normalize a' = some a' := RT.normalize_fixed_num a a' hfa hna
      refine ⟨⟨dh, rc, some a', ty⟩, ?_, ?_⟩
      · by_cases h1 : dh = "" <;> by_cases h2 : rc = "" <;> by_cases h4 : ty = "" <;>
          simp [h1, h2, h4, Json.lookup, normalize, hna] at g1 g2 g3 g4 <;>
          simp [SuffixData.ofJson?, GoJson.str, GoJson.iface, g1, g2, g3, g4, h1, h2, h4] <;>
          (cases a' <;> simp_all)
      · rw [← hn]
        apply normalize_obj_congr
        by_cases h1 : dh = "" <;> by_cases h2 : rc = "" <;> by_cases h4 : ty = "" <;>
          simp [SuffixData.toJson, h1, h2, h4, normalizeMembers, hna, hfix, normalize]

/-- the normal form of a marshalled delta decodes to a delta that marshals to the same normal form -/
theorem delta_remarshal_num (d : Delta) (nd : Json)
    (hp : ∀ ps, d.patches = some ps → ps.all Patch.isObjOrNullB = true)
    (hst : d.toJson.numsStable) (hn : normalize d.toJson = some nd) :
    ∃ d', Delta.ofJson? nd = some d' ∧ normalize d'.toJson = some nd := by
  obtain ⟨uc, patches⟩ := d
  have hobj : ∃ kvs, (Delta.toJson ⟨uc, patches⟩) = .obj kvs := ⟨_, rfl⟩
  obtain ⟨kvs, hk⟩ := hobj
  have g1 := normalize_obj_get kvs nd (hk ▸ hn) "updateCommitment"
  have g2 := normalize_obj_get kvs nd (hk ▸ hn) "patches"
  have hnoPatches : ∀ (pp : Option (List Json)), (pp = none ∨ pp = some []) →
      normalize (Delta.toJson ⟨uc, pp⟩) = some nd → kvs = (if uc = "" then [] else [("updateCommitment", Json.str uc)]) →
      ∃ d', Delta.ofJson? nd = some d' ∧ normalize d'.toJson = some nd := by
    intro pp hpp hn' hk'
    subst hk'
    refine ⟨⟨uc, none⟩, ?_, ?_⟩
    · by_cases h1 : uc = "" <;> simp [h1, Json.lookup, normalize] at g1 g2 <;>
        simp [Delta.ofJson?, GoJson.str, g1, g2, h1]
    · rw [← hn']
      rcases hpp with e | e <;> subst e <;> rfl
  cases patches with
  | none =>
    apply hnoPatches none (.inl rfl) hn
    simp only [Delta.toJson, Json.obj.injEq] at hk
    simp [← hk]
  | some ps =>
    cases ps with
    | nil =>
      apply hnoPatches (some []) (.inr rfl) hn
      simp only [Delta.toJson, Json.obj.injEq] at hk
      simp [← hk]
    | cons p ps =>
      simp only [Delta.toJson, Json.obj.injEq] at hk
      subst hk
      have hall := hp (p :: ps) rfl
      cases hl : normalizeList (p :: ps) with
      | none =>
        exfalso
        by_cases h1 : uc = "" <;> simp [Delta.toJson, h1, normalize, normalizeMembers, hl] at hn
      | some l' =>
        have hall' := normalizeList_objOrNull _ _ hl hall
        have hfl : (Json.arr (p :: ps)).numsStable := by
          by_cases h1 : uc = "" <;> simp [Delta.toJson, h1, Json.numsStable, Json.numsStableMembers] at hst <;>
            simp only [Json.numsStable] <;> exact hst
        have harr : normalize (.arr (p :: ps)) = some (.arr l') := by simp [normalize, hl]
        have hfix : normalize (.arr l') = some (.arr l') := RT.normalize_fixed_num _ _ hfl harr
        cases l' with
        | nil => simp [normalizeList] at hl; cases hx : normalize p <;> cases hxs : normalizeList ps <;> simp [hx, hxs] at hl
        | cons p' ps' =>
          refine ⟨⟨uc, some (p' :: ps')⟩, ?_, ?_⟩
          · by_cases h1 : uc = "" <;> simp [h1, Json.lookup, harr] at g1 g2 <;>
              simp [Delta.ofJson?, GoJson.str, g1, g2, h1, hall', normalize]
          · rw [← hn]
            apply normalize_obj_congr
            by_cases h1 : uc = "" <;>
              simp only [Delta.toJson, h1, if_true, if_false, List.nil_append, List.cons_append, normalizeMembers_cons, harr, hfix]

/-- **re-marshalling is stable on canonical requests**: the normal form `n` of a marshalled create
    request decodes to a request that marshals to the same normal form, with the same type -/
theorem request_remarshal_num (ty : String) (c : CreateReq) (n : Json) (hwf : WF c)
    (hst : (createRequestJson ty c).numsStable) (hn : normalize (createRequestJson ty c) = some n) :
    ∃ c', decodeCreate n = some c' ∧ ((GoJson.topObject n).bind fun top => GoJson.str top "type") = some ty ∧
      normalize (createRequestJson ty c') = some n := by
  obtain ⟨sdo, dlo⟩ := c
  have hobj : ∃ kvs, createRequestJson ty ⟨sdo, dlo⟩ = .obj kvs := ⟨_, rfl⟩
  obtain ⟨kvs, hk⟩ := hobj
  obtain ⟨nkvs, hnobj⟩ := normalize_obj_is_obj kvs n (hk ▸ hn)
  have g0 := normalize_obj_get kvs n (hk ▸ hn) "type"
  have g1 := normalize_obj_get kvs n (hk ▸ hn) "suffixData"
  have g2 := normalize_obj_get kvs n (hk ▸ hn) "delta"
  simp only [createRequestJson, Json.obj.injEq] at hk
  subst hk
  -- the two optional struct members
  have hsd : ∀ sd, sdo = some sd → ∃ nsd sd', normalize sd.toJson = some nsd ∧ SuffixData.ofJson? nsd = some sd' ∧
      normalize sd'.toJson = some nsd ∧ (∃ kvs, nsd = .obj kvs) := by
    intro sd e
    subst e
    cases hs : normalize sd.toJson with
    | none =>
      exfalso
      by_cases h0 : ty = "" <;> cases dlo <;>
        simp [createRequestJson, h0, normalize, normalizeMembers, hs] at hn
    | some nsd =>
      have hf : sd.toJson.numsStable := by
        by_cases h0 : ty = "" <;> cases dlo <;>
          simp [createRequestJson, h0, Json.numsStable, Json.numsStableMembers] at hst <;>
          first | exact hst | exact hst.1
      obtain ⟨sd', h1, h2⟩ := suffixData_remarshal_num sd nsd (hwf.origin sd rfl) hf hs
      obtain ⟨k0, hk0⟩ := sd_toJson_obj sd
      exact ⟨nsd, sd', rfl, h1, h2, normalize_obj_is_obj k0 nsd (hk0 ▸ hs)⟩
  have hdl : ∀ d, dlo = some d → ∃ nd d', normalize d.toJson = some nd ∧ Delta.ofJson? nd = some d' ∧
      normalize d'.toJson = some nd ∧ (∃ kvs, nd = .obj kvs) := by
    intro d e
    subst e
    cases hs : normalize d.toJson with
    | none =>
      exfalso
      by_cases h0 : ty = "" <;> cases sdo <;>
        simp [createRequestJson, h0, normalize, normalizeMembers, hs] at hn
    | some nd =>
      have hf : d.toJson.numsStable := by
        by_cases h0 : ty = "" <;> cases sdo <;>
          simp [createRequestJson, h0, Json.numsStable, Json.numsStableMembers] at hst <;>
          first | exact hst | exact hst.2
      obtain ⟨d', h1, h2⟩ := delta_remarshal_num d nd (fun ps hps => hwf.patches d ps rfl hps) hf hs
      obtain ⟨k0, hk0⟩ := d_toJson_obj d
      exact ⟨nd, d', rfl, h1, h2, normalize_obj_is_obj k0 nd (hk0 ▸ hs)⟩
  have hg0 : n.get? "type" = if ty = "" then none else some (.str ty) := by
    by_cases h0 : ty = "" <;> cases sdo <;> cases dlo <;> simp [h0, Json.lookup, normalize] at g0 <;> simp [g0, h0]
  have hg1 : n.get? "suffixData" = sdo.bind (fun sd => normalize sd.toJson) := by
    by_cases h0 : ty = "" <;> cases sdo <;> cases dlo <;> simp [h0, Json.lookup] at g1 <;> simp [g1]
  have hg2 : n.get? "delta" = dlo.bind (fun d => normalize d.toJson) := by
    by_cases h0 : ty = "" <;> cases sdo <;> cases dlo <;> simp [h0, Json.lookup] at g2 <;> simp [g2]
  have hty : ((GoJson.topObject n).bind fun top => GoJson.str top "type") = some ty := by
    subst hnobj
    by_cases h0 : ty = "" <;> simp [GoJson.topObject, GoJson.str, hg0, h0]
  have htop : GoJson.topObject n = some n := by subst hnobj; rfl
  have hstr : GoJson.str n "type" = some ty := by
    by_cases h0 : ty = "" <;> simp [GoJson.str, hg0, h0]
  cases sdo with
  | none =>
    have p1 : GoJson.ptr n "suffixData" SuffixData.ofJson? = some none := ptr_absent _ _ _ (by simpa using hg1)
    cases dlo with
    | none =>
      have p2 : GoJson.ptr n "delta" Delta.ofJson? = some none := ptr_absent _ _ _ (by simpa using hg2)
      exact ⟨⟨none, none⟩, by simp [decodeCreate, htop, hstr, p1, p2], hty, hn⟩
    | some d =>
      obtain ⟨nd, d', e1, e2, e3, e4⟩ := hdl d rfl
      have p2 : GoJson.ptr n "delta" Delta.ofJson? = some (some d') := ptr_of_obj _ _ nd _ d' (by simpa [e1] using hg2) e4 e2
      refine ⟨⟨none, some d'⟩, by simp [decodeCreate, htop, hstr, p1, p2], hty, ?_⟩
      rw [← hn]
      apply normalize_obj_congr
      by_cases h0 : ty = "" <;>
        simp only [h0, if_true, if_false, List.nil_append, List.cons_append, List.append_nil, normalizeMembers_cons, e1, e3]
  | some sd =>
    obtain ⟨nsd, sd', f1, f2, f3, f4⟩ := hsd sd rfl
    have p1 : GoJson.ptr n "suffixData" SuffixData.ofJson? = some (some sd') := ptr_of_obj _ _ nsd _ sd' (by simpa [f1] using hg1) f4 f2
    cases dlo with
    | none =>
      have p2 : GoJson.ptr n "delta" Delta.ofJson? = some none := ptr_absent _ _ _ (by simpa using hg2)
      refine ⟨⟨some sd', none⟩, by simp [decodeCreate, htop, hstr, p1, p2], hty, ?_⟩
      rw [← hn]
      apply normalize_obj_congr
      by_cases h0 : ty = "" <;>
        simp only [h0, if_true, if_false, List.nil_append, List.cons_append, List.append_nil, normalizeMembers_cons, f1, f3]
    | some d =>
      obtain ⟨nd, d', e1, e2, e3, e4⟩ := hdl d rfl
      have p2 : GoJson.ptr n "delta" Delta.ofJson? = some (some d') := ptr_of_obj _ _ nd _ d' (by simpa [e1] using hg2) e4 e2
      refine ⟨⟨some sd', some d'⟩, by simp [decodeCreate, htop, hstr, p1, p2], hty, ?_⟩
      rw [← hn]
      apply normalize_obj_congr
      by_cases h0 : ty = "" <;>
        simp only [h0, if_true, if_false, List.nil_append, List.cons_append, List.append_nil, normalizeMembers_cons, e1, e3, f1, f3]

end Sidetree.Remarshal
